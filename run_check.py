#!/venv/bin/python
"""Entry point of every check:  /venv/bin/python run_check.py <Cxx> [--tier quick|thorough]

Steps (DESIGN §2.4): regenerate constants from /repo, build the Lean library + driver, audit the
property's theorems (`#print axioms`, forbidden tokens), run the correspondence of that property
against the real code, report, rewrite evidence/<id>.json.

Exit codes: 0 held (or only known findings), 1 violation, 2 harness / environment error.
"""

from __future__ import annotations

import argparse
import importlib
import json
import os
import re
import sys
import time
import traceback
from pathlib import Path

HERE = Path(__file__).resolve().parent
sys.path.insert(0, str(HERE))
os.environ.setdefault("JAX_PLATFORMS", "cpu")
os.environ.setdefault("JAX_ENABLE_X64", "1")
os.environ.setdefault("PNKRAEMER_PROBDIFFEQ_VERIF", "1")

import faulthandler
import signal

faulthandler.register(signal.SIGUSR1, all_threads=True)
from harness import core  # noqa: E402


def module_closure(mods):
    """Pdq.* modules transitively imported by `mods`."""
    seen, todo = set(), list(mods)
    while todo:
        m = todo.pop()
        if m in seen or not m.startswith("Pdq"):
            continue
        seen.add(m)
        f = core.LEAN / (m.replace(".", "/") + ".lean")
        if f.exists():
            for imp in re.findall(r"^import\s+(\S+)", f.read_text(), re.M):
                todo.append(imp)
    return seen


def main():
    ap = argparse.ArgumentParser()
    ap.add_argument("pid")
    ap.add_argument("--tier", default=os.environ.get("VERIF_TIER", "quick"), choices=["quick", "thorough"])
    ap.add_argument("--replay", default=None, help="re-run the case stored in a replay file")
    args = ap.parse_args()
    pid = args.pid.upper()
    seed = int(os.environ.get("VERIF_SEED", "0"))
    replay_sig = None
    if args.replay:
        # checks are deterministic in (seed, tier): a replay re-runs the stored (seed, tier) and reports whether the
        # stored violation signature shows up again; the stored concrete case is printed for the reader
        rp = json.loads(Path(args.replay).read_text())
        seed, args.tier, replay_sig = int(rp.get("seed", seed)), rp.get("tier", args.tier), rp.get("signature")
        print(f"REPLAY {args.replay}: property={rp.get('property')} signature={replay_sig} seed={seed} tier={args.tier}")
        print("  stored: " + str(rp.get("what"))[:500])
    ctx = core.Ctx(pid, args.tier, seed)
    try:
        mod = importlib.import_module(f"harness.checks.{pid.lower()}")
    except ModuleNotFoundError:
        print(f"no check for {pid}")
        return 2
    level = getattr(mod, "LEVEL", "proof")
    props_modules = list(getattr(mod, "PROPS_MODULES", [f"Pdq.Props.{pid}"]))

    broken = []  # proof obligations / modules that no longer check
    try:
        ok, log = core.lean_build()
        if not ok:
            failed = core.failed_modules(log)
            closure = module_closure(props_modules)
            rel = [m for m in failed if m in closure or m.replace("/", ".").removesuffix(".lean") in closure]
            if not core.DRV.exists():
                print(log[-3000:])
                raise core.HarnessError("driver did not build")
            if rel:
                broken += [f"lean module {m} does not build" for m in rel]
                ctx.notes.append("lake build failed for: " + ", ".join(rel))
                ctx.extra["build_log_tail"] = log[-2500:]
            elif not failed:
                print(log[-3000:])
                raise core.HarnessError("lake build failed")
        audit = None
        if level in ("proof", "other") and props_modules:
            broken_mods = {b.split()[2] for b in broken if b.startswith("lean module ")}
            bad = {m for m in props_modules if m in broken_mods or (m.replace(".", "/") + ".lean") in broken_mods}
            # a module that imports a broken module does not build either
            for m in props_modules:
                if module_closure([m]) & {x.replace("/", ".").removesuffix(".lean") for x in broken_mods}:
                    bad.add(m)
            buildable = [m for m in props_modules if m not in bad]
            if thorough_clean := (args.tier == "thorough" and os.environ.get("VERIF_LEANCHECKER", "1") == "1"):
                pass
            audit = core.lean_audit(buildable)
            if broken:
                audit["problems"] += broken
            for pr in audit["problems"]:
                broken.append(pr) if pr not in broken else None
        # correspondence
        try:
            mod.run(ctx)
        except ValueError as e:
            # safety net: the implementation produced NaN/inf somewhere the check did not anticipate and the exact
            # conversion refused it. On the unchanged tree this never happens; on a changed tree it is a finding, not a crash.
            if "non-finite" in str(e) or "NaN" in str(e) or "cannot convert" in str(e):
                ctx.violation("nonfinite:unanticipated", "the implementation returned non-finite numbers for an input on which the exact model is finite: " + str(e)[:200],
                              {"traceback": traceback.format_exc()[-1500:], "last_samples": ctx.samples[-2:]})
            else:
                raise
        except core.HarnessError:
            raise
        except core.ModelError as e:
            # the driver refused a request built from the implementation's outputs (wrong number of entries, a shape the model
            # does not have): on the unchanged tree every check handles the refusals it can meet; an unhandled one means that
            # the implementation returned something of a different shape / domain than the model - a finding, not a crash
            ctx.violation("model-refused:" + str(getattr(e, "ans", e))[:60].replace(" ", "_"),
                          "the executable model refused a request assembled from the implementation's outputs (shape / domain mismatch): " + str(getattr(e, "ans", e))[:200],
                          {"traceback": traceback.format_exc()[-2500:], "last_samples": ctx.samples[-2:]})
        except Exception as e:  # noqa: BLE001
            # safety net: an exception raised *inside the implementation* (innermost non-JAX frame in the probdiffeq package)
            # for an input on which the unchanged tree returns a value is a behavioural difference, hence a finding with
            # the traceback as replay - never a harness crash.  Exceptions raised by the harness itself stay harness errors.
            frames = [f for f in traceback.extract_tb(e.__traceback__) if "/site-packages/" not in f.filename and "/lib/python" not in f.filename]
            if frames and "/probdiffeq/" in frames[-1].filename and "/verif/" not in frames[-1].filename:
                where = f"{Path(frames[-1].filename).name}:{frames[-1].name}"
                ctx.violation(f"impl-exception:{type(e).__name__}:{where}",
                              f"the implementation raised {type(e).__name__} in {where} for an input the check generates on every run: {str(e)[:200]}",
                              {"traceback": traceback.format_exc()[-2500:], "last_samples": ctx.samples[-2:]})
            else:
                raise
    except core.HarnessError as e:
        print(f"HARNESS-ERROR {pid}: {e}")
        traceback.print_exc()
        ctx.close()
        return 2
    except Exception as e:  # noqa: BLE001
        print(f"HARNESS-ERROR {pid}: unexpected {type(e).__name__}: {e}")
        traceback.print_exc()
        ctx.close()
        return 2
    finally:
        pass
    ctx.close()

    # thorough: independent re-check of the compiled proofs
    if args.tier == "thorough" and audit is not None and not broken and os.environ.get("VERIF_LEANCHECKER", "1") == "1":
        import subprocess

        try:
            p = subprocess.run(
                ["lake", "env", "leanchecker", *props_modules], cwd=core.LEAN, capture_output=True, text=True, timeout=3000
            )
            ctx.extra["leanchecker"] = {"rc": p.returncode, "tail": (p.stdout + p.stderr)[-500:]}
            if p.returncode != 0:
                broken.append("leanchecker rejected " + ",".join(props_modules))
        except Exception as e:  # noqa: BLE001
            ctx.notes.append(f"leanchecker not run: {e}")

    # a broken obligation without a concrete failing input is still a violation
    if broken and not ctx.violations:
        ctx.violation(
            "proof-broken:" + ";".join(sorted(broken))[:200],
            "proof obligation or model build no longer checks and the failing-input search found no concrete input: "
            + "; ".join(broken),
            case={"broken": broken},
            theorem=broken,
        )
        ctx.violations[-1]["nofail"] = True

    if replay_sig is not None:
        hit = [v for v in ctx.violations if v["sig"] == replay_sig]
        print(f"REPLAY result: signature {'REPRODUCED' if hit else 'not reproduced'}")
        return 1 if hit else 0
    known = core.load_known_findings()
    known_sigs = {(k["property"], k["signature"]): k for k in known.get("known", [])}
    rc = 0
    ev_extra = {"known_findings_matched": []}
    for v in ctx.violations:
        k = known_sigs.get((pid, v["sig"]))
        if k is not None:
            print(f"KNOWN-FINDING: property={pid} {k['what']}")
            ev_extra["known_findings_matched"].append(v["sig"])
            continue
        tail = " no-failing-input-found" if v.get("nofail") else ""
        print(f"VIOLATION property={pid} replay={v['replay']}{tail}")
        print(f"  {v['msg'][:600]} (x{v['count']})")
        rc = 1
    explanation = getattr(mod, "EXPLANATION", "")
    core.write_evidence(ctx, level, audit, explanation=explanation, extra=ev_extra)
    dt = time.time() - ctx.t0
    print(
        f"{pid} {args.tier} seed={seed}: {ctx.evaluations} cases ({len(ctx.distinct)} distinct non-trivial), "
        f"{(audit or {}).get('discharged', 0)}/{(audit or {}).get('obligations', 0)} theorems, "
        f"{len(ctx.violations)} violation signature(s), {dt:.1f}s -> exit {rc}"
    )
    return rc


if __name__ == "__main__":
    sys.exit(main())
