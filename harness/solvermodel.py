"""Solver-level correspondence: real probdiffeq solvers vs the Lean model (`Pdq.Model.Solver`, `Pdq.Model.Iwp`).

* `Config` / `build`: one solver configuration -> real objects (ssm, prior, strategy, constraint, solver);
* abstraction functions: `ProbabilisticSolution` -> exact dense slices (means, covariances L L^T, backward
  conditionals); dense = 1 slice of size (q+1)d, isotropic = d slices sharing the covariance,
  block-diagonal = d slices with their own covariance;
* `ModelStepper`: executes one model step (uncalibrated / MLE / dynamic; filter / fixed-interval /
  fixed-point) per slice through the driver, with the linearisation evaluated exactly on the Python
  side (`problems.PolyField`) at the model's exact predicted mean;
* `compare_state`: scale-aware comparison of an implementation state with a model state.
"""

from __future__ import annotations

import dataclasses
import math
from fractions import Fraction

import numpy as np

from harness import core
from harness.core import Cut, F

STRATS = {"filter": 0, "fixedinterval": 1, "fixedpoint": 2}


@dataclasses.dataclass
class Config:
    fact: str = "dense"  # dense | iso | bd
    solver: str = "solver"  # solver | mle | mle_nocorr | dynamic | dynamic_relin
    strategy: str = "filter"  # filter | fixedinterval | fixedpoint
    lin: str = "ts0"  # ts0 | ts1
    q: int = 2  # number of derivatives
    damp: float = 0.0
    init: str = "exact"  # exact | inexact
    base_scale: object = None  # None or float (iso) / list (dense, bd)
    inexact_eps: float = 2.0**-10
    prior: str = "iwp"  # iwp | ou | matern   (exponential priors: dense only; transition taken from the implementation, C09 covers it)
    diffuse: int = 0  # number of diffuse derivatives appended by the prior constructor (std 1, mean 0)
    constraint_init: bool = False  # condition the initial state on the constraint (lstsq gain)

    def key(self):
        d = dataclasses.asdict(self)
        d["base_scale"] = None if self.base_scale is None else "given"
        return d


# ------------------------------------------------------------------------------------------------
# real objects


def build(cfg: Config, field, u0s, t0):
    """u0s: list of `order` float arrays (d,) - initial values. Returns dict with real objects."""
    import jax.numpy as jnp
    from probdiffeq import probdiffeq as pdq

    ssm = {"dense": pdq.state_space_model_dense, "iso": pdq.state_space_model_isotropic, "bd": pdq.state_space_model_blockdiag}[cfg.fact]()
    f = field.as_jax()
    if field.order == 1:
        vf = pdq.ode(lambda u, /, *, t: f(u, t=t), jacobian=pdq.jacobian_materialize())
    else:
        vf = pdq.ode_order_two(lambda u, du, /, *, t: f(u, du, t=t), jacobian=pdq.jacobian_materialize())
    num = cfg.q + 1 - field.order - cfg.diffuse
    if num < 0:
        raise ValueError("too many diffuse derivatives for this order")
    if num > 0:
        jetexpand = pdq.jetexpand_ode_padded_scan(num=num)
        tcoeffs, _ = jetexpand(vf, tuple(jnp.asarray(u) for u in u0s), t=jnp.asarray(t0))
    else:
        tcoeffs = [jnp.asarray(u) for u in u0s]
    kw = {}
    if cfg.base_scale is not None:
        kw["output_scale"] = jnp.asarray(cfg.base_scale)
    if cfg.diffuse:
        kw["diffuse_derivatives"] = cfg.diffuse
        kw["diffuse_eps"] = 1.0
    if cfg.init != "exact":
        kw["is_exact"] = False
        kw["inexact_eps"] = cfg.inexact_eps
    if cfg.prior == "iwp":
        prior = ssm.prior_wiener_integrated(tcoeffs, **kw)
    elif cfg.prior == "ou":
        prior = ssm.prior_ornstein_uhlenbeck_integrated(lambda u: -0.5 * u, tcoeffs, **kw)
    elif cfg.prior == "matern":
        prior = ssm.prior_matern(0.75, tcoeffs, **kw)
    else:
        raise ValueError(cfg.prior)
    strategy = {"filter": pdq.strategy_filter, "fixedinterval": pdq.strategy_smoother_fixedinterval, "fixedpoint": pdq.strategy_smoother_fixedpoint}[cfg.strategy]()
    constraint = ssm.constraint_ode_ts0(vf) if cfg.lin == "ts0" else ssm.constraint_ode_ts1(vf)
    ci = {"constraint_init": constraint} if cfg.constraint_init else {}
    if cfg.solver == "solver":
        solver = pdq.solver(strategy=strategy, constraint=constraint, **ci)
    elif cfg.solver == "mle":
        solver = pdq.solver_mle(strategy=strategy, constraint=constraint, **ci)
    elif cfg.solver == "mle_nocorr":
        solver = pdq.solver_mle(strategy=strategy, constraint=constraint, correct_asymptotic_underconfidence=False, **ci)
    elif cfg.solver == "dynamic":
        solver = pdq.solver_dynamic(strategy=strategy, constraint=constraint, **ci)
    elif cfg.solver == "dynamic_relin":
        solver = pdq.solver_dynamic(strategy=strategy, constraint=constraint, re_linearize_after_calibration=True, **ci)
    else:
        raise ValueError(cfg.solver)
    return {"ssm": ssm, "vf": vf, "prior": prior, "strategy": strategy, "constraint": constraint, "solver": solver, "tcoeffs": tcoeffs}


# ------------------------------------------------------------------------------------------------
# exact helpers


def gramf(L):
    L = np.asarray(L, dtype=np.float64)
    n, k = L.shape
    Lf = [[Fraction(float(L[i, j])) for j in range(k)] for i in range(n)]
    out = np.empty((n, n), dtype=object)
    for i in range(n):
        for j in range(i, n):
            s = sum(Lf[i][l] * Lf[j][l] for l in range(k) if Lf[i][l] and Lf[j][l])
            out[i, j] = s
            out[j, i] = s
    return out


def fvec(a):
    return np.array([Fraction(float(x)) for x in np.asarray(a, dtype=np.float64).reshape(-1)], dtype=object)


def fmat(a):
    a = np.asarray(a, dtype=np.float64)
    return np.array([[Fraction(float(x)) for x in row] for row in a], dtype=object).reshape(a.shape)


def tofloat(a):
    a = np.asarray(a, dtype=object)
    return np.array([float(x) for x in a.reshape(-1)], dtype=np.float64).reshape(a.shape)


def ident_pcond(n):
    one, zero = Fraction(1), Fraction(0)
    return {
        "A": np.array([[one if i == j else zero for j in range(n)] for i in range(n)], dtype=object),
        "b": np.array([zero] * n, dtype=object),
        "Q": np.array([[zero] * n for _ in range(n)], dtype=object),
        "tl": np.array([one] * n, dtype=object),
        "to": np.array([one] * n, dtype=object),
    }


def pc_args(c):
    return [c["A"], c["b"], c["Q"], c["tl"], c["to"]]


def read_pcond(cut, m, n):
    return {"A": cut.take(m, n), "b": cut.take(m), "Q": cut.take(m, m), "tl": cut.take(n), "to": cut.take(m)}


# ------------------------------------------------------------------------------------------------
# abstraction: implementation objects -> exact slices


def normal_slices(fact, rv):
    """list of (mean (n,), cov (n,n)) exact, one per slice"""
    m, L = np.asarray(rv.mean_flat, dtype=np.float64), np.asarray(rv.cholesky_flat, dtype=np.float64)
    if fact == "dense":
        return [(fvec(m), gramf(L))]
    if fact == "iso":
        C = gramf(L)
        return [(fvec(m[:, j]), C) for j in range(m.shape[1])]
    return [(fvec(m[i]), gramf(L[i])) for i in range(m.shape[0])]


def cond_slices(fact, c):
    A, b, L = np.asarray(c.A, dtype=np.float64), np.asarray(c.noise.mean_flat, dtype=np.float64), np.asarray(c.noise.cholesky_flat, dtype=np.float64)
    tl, to = np.asarray(c.to_latent, dtype=np.float64), np.asarray(c.to_observed, dtype=np.float64)
    if fact == "dense":
        return [{"A": fmat(A), "b": fvec(b), "Q": gramf(L), "tl": fvec(tl), "to": fvec(to)}]
    if fact == "iso":
        Q = gramf(L)
        return [{"A": fmat(A), "b": fvec(b[:, j]), "Q": Q, "tl": fvec(tl), "to": fvec(to)} for j in range(b.shape[1])]
    return [{"A": fmat(A[i]), "b": fvec(b[i]), "Q": gramf(L[i]), "tl": fvec(tl[i]), "to": fvec(to[i])} for i in range(A.shape[0])]


def state_slices(cfg: Config, sol):
    """ProbabilisticSolution (un-batched) -> list of slice states {mean, cov, bw}"""
    full = sol.solution_full
    if cfg.strategy == "filter":
        ns = normal_slices(cfg.fact, full)
        n = len(ns[0][0])
        return [{"mean": m, "cov": C, "bw": ident_pcond(n)} for m, C in ns]
    ns = normal_slices(cfg.fact, full.marginal)
    cs = cond_slices(cfg.fact, full.conditional)
    return [{"mean": m, "cov": C, "bw": c} for (m, C), c in zip(ns, cs)]


def st_args(st):
    return [st["mean"], st["cov"], *pc_args(st["bw"])]


# ------------------------------------------------------------------------------------------------
# the model stepper


class ModelStepper:
    """Executes model steps per slice. `d`: state dimension, `q`: number of derivatives."""

    def __init__(self, ctx, cfg: Config, field, d, lam, prior=None):
        """lam: base output scale per dimension (list of exact Fractions, length d; iso: all equal).
        prior: the implementation's prior object; needed for non-IWP priors, whose transition is taken from the
        implementation (abstraction function: `prior.transition(dt, 1)` read as an exact PCond; C09 covers it)."""
        self.ctx, self.cfg, self.field, self.d, self.q = ctx, cfg, field, d, cfg.q
        self.prior = prior
        self.lam = lam
        self.K = field.order
        self.n = cfg.q + 1
        self.N = self.n * d if cfg.fact == "dense" else self.n
        self.nsl = 1 if cfg.fact == "dense" else d
        self.kdim = d if cfg.fact == "dense" else 1
        self.damp2 = F(cfg.damp) ** 2

    # -- transition per slice for total squared calibrated scale `s2` (scalar or per-dim list)
    def transitions(self, h, s2):
        drv, out = self.ctx.drv, []
        if self.cfg.prior != "iwp":
            import jax.numpy as jnp

            if s2 != 1:
                raise core.HarnessError("exponential priors are driven with unit calibrated scale only")
            tr = self.prior.transition(dt=jnp.asarray(float(h)), output_scale=jnp.ones(()))
            return cond_slices(self.cfg.fact, tr)
        if self.cfg.fact == "dense":
            s2v = s2 if not isinstance(s2, (list, tuple)) else s2[0]
            lam2 = [l * l for l in self.lam]
            ans = Cut(drv.call("iwp_transition_dense", self.q, self.d, h, s2v, lam2))
            out.append(read_pcond(ans, self.N, self.N))
        else:
            for a in range(self.d):
                s2a = s2[a] if isinstance(s2, (list, tuple)) else s2
                ans = Cut(drv.call("iwp_transition1", self.q, h, s2a * self.lam[a] * self.lam[a]))
                out.append(read_pcond(ans, self.n, self.n))
        return out

    # -- coefficient view of slice means: coeffs[k][a]
    def coeffs_of(self, means):
        if self.cfg.fact == "dense":
            m = means[0]
            return [[m[k * self.d + a] for a in range(self.d)] for k in range(self.n)]
        return [[means[a][k] for a in range(self.d)] for k in range(self.n)]

    # -- linearisation at given slice means, time t: list of (H, b, R) per slice
    def linearise(self, means, t):
        d, K, n = self.d, self.K, self.n
        co = self.coeffs_of(means)
        fx = self.field.eval_exact(co, t)
        one, zero = Fraction(1), Fraction(0)
        out = []
        if self.cfg.lin == "ts1":
            J = self.field.jac_exact(co, t)
        if self.cfg.fact == "dense":
            N = self.N
            H = [[zero] * N for _ in range(d)]
            b = [zero] * d
            for a in range(d):
                H[a][K * d + a] = one
                b[a] = -fx[a]
                if self.cfg.lin == "ts1":
                    for k in range(K):
                        for bb in range(d):
                            H[a][k * d + bb] -= J[a][k][bb]
                            b[a] += J[a][k][bb] * co[k][bb]
            R = [[self.damp2 if i == j else zero for j in range(d)] for i in range(d)]
            out.append((np.array(H, dtype=object), np.array(b, dtype=object), np.array(R, dtype=object)))
            return out
        for a in range(d):
            H = [zero] * n
            H[K] = one
            b = -fx[a]
            if self.cfg.lin == "ts1":
                for k in range(K):
                    if self.cfg.fact == "iso":
                        coef = sum(J[bb][k][bb] for bb in range(d)) / d
                    else:
                        coef = J[a][k][a]
                    H[k] -= coef
                    b += coef * co[k][a]
            out.append((np.array([H], dtype=object), np.array([b], dtype=object), np.array([[self.damp2]], dtype=object)))
        return out

    # -- sizes for the whitened RMS
    def rms2(self, mahas):
        """squared whitened RMS per factorisation from per-slice Mahalanobis forms: scalar (dense/iso) or list (bd)"""
        if self.cfg.fact == "dense":
            return mahas[0] / self.d
        if self.cfg.fact == "iso":
            return sum(mahas) / self.d
        return list(mahas)

    def gain_noise_scale(self, lins, pred_means, pred_covs):
        """per slice: |K| (|H||m| + |b|) in float, K = P H^T S^-1 -- how rounding of the residual enters the mean"""
        out = []
        for (H, b, R), m, P in zip(lins, pred_means, pred_covs):
            Hf, bf, Rf, mf, Pf = tofloat(H), tofloat(b), tofloat(R), tofloat(m), tofloat(P)
            S = Hf @ Pf @ Hf.T + Rf
            rn = np.abs(Hf) @ np.abs(mf) + np.abs(bf)
            try:
                K = np.linalg.solve(S.T, (Pf @ Hf.T).T).T
                out.append(np.abs(K) @ rn)
            except Exception:  # noqa: BLE001
                out.append(np.zeros(len(mf)))
        return out

    def init_update(self, states, t0):
        """the initial-constraint update of `solver.init` (lstsq gain = minimum-norm certificate)"""
        drv, n, k = self.ctx.drv, self.N, self.kdim
        lins = self.linearise([st["mean"] for st in states], t0)
        news, mahas = [], []
        for st, (H, b, R) in zip(states, lins):
            ans = Cut(drv.call("sv_init_update", n, k, 1, H, b, R, *st_args(st)))
            news.append({"mean": ans.take(n), "cov": ans.take(n, n), "bw": read_pcond(ans, n, n)})
            mahas.append(ans.take())
        return news, mahas, lins

    def amplification(self, lins, means):
        """cancellation factor of the residual r = H m + b: max |H||m|+|b| over max |r| (float; >= 1)"""
        amp = 1.0
        for (H, b, _R), m in zip(lins, means):
            Hf, bf, mf = tofloat(H), tofloat(b), tofloat(m)
            r = Hf @ mf + bf
            rn = np.abs(Hf) @ np.abs(mf) + np.abs(bf)
            den = float(np.max(np.abs(r))) if r.size else 0.0
            num = float(np.max(rn)) if rn.size else 0.0
            if num == 0.0:
                # residual and all its summands vanish identically: the local scale is exactly 0 (the implementation
                # floors it / divides 0 by 0); treat like a complete cancellation
                amp = float("inf")
                continue
            amp = max(amp, num / den if den > 0 else float("inf"))
        return amp

    def step(self, states, t, h, aux, s2_override=None):
        """One model step from slice `states` at time t with step h. aux: calibration state
        (mle: (running2, num)); returns (new_states, aux_new, info)."""
        drv, cfg = self.ctx.drv, self.cfg
        strat = STRATS[cfg.strategy]
        n, k = self.N, self.kdim
        info = {}
        big = max((x.denominator.bit_length() + x.numerator.bit_length()) for st in states for x in list(st["mean"]) + [st["cov"][i, i] for i in range(len(st["mean"]))])
        if big > 20000:
            raise core.ModelError("err exact rationals too large for an open-loop run (%d bits)" % big, "")
        t1 = t + h
        if cfg.solver in ("solver", "mle", "mle_nocorr"):
            trs = self.transitions(h, Fraction(1))
            preds = []
            for tr, st in zip(trs, states):
                ans = Cut(drv.call("sv_predict", strat, n, 0, *pc_args(tr), *st_args(st)))
                preds.append(ans.take(n))
            lins = self.linearise(preds, t1)
            news, mahas = [], []
            for tr, st, (H, b, R) in zip(trs, states, lins):
                ans = Cut(drv.call("sv_step", strat, n, k, 0, 0, *pc_args(tr), H, b, R, *st_args(st)))
                new = {"mean": ans.take(n), "cov": ans.take(n, n), "bw": read_pcond(ans, n, n)}
                mahas.append(ans.take())
                news.append(new)
            info["pred_means"] = preds
            info["lins"] = lins
            info["amp"] = self.amplification(lins, preds)
            if cfg.solver.startswith("mle"):
                running2, num = aux
                new_term2 = self.rms2(mahas)
                if cfg.fact == "bd":
                    running2 = [drv.call("sv_mle_running", r, num, bt)[0] for r, bt in zip(running2, new_term2)]
                else:
                    running2 = drv.call("sv_mle_running", running2, num, new_term2)[0]
                aux = (running2, num + 1)
                info["new_term2"] = new_term2
            return news, aux, info
        # dynamic
        relin = 1 if cfg.solver == "dynamic_relin" else 0
        tr1s = self.transitions(h, Fraction(1))
        ups = [np.array(drv.call("sv_apply_mean", n, *pc_args(tr), *st_args(st)), dtype=object) for tr, st in zip(tr1s, states)]
        lin0 = self.linearise(ups, t1)
        mahas = [drv.call("sv_dyn_sq", n, k, *pc_args(tr), H, b, R, *st_args(st))[0] for tr, st, (H, b, R) in zip(tr1s, states, lin0)]
        s2 = self.rms2(mahas)
        info["scale2"] = s2
        info["amp"] = self.amplification(lin0, ups)
        info["lins"] = lin0
        info["pred_means"] = ups
        if s2_override is not None:
            s2 = s2_override
        trS = self.transitions(h, s2)
        news = []
        # full prediction has the same mean as the mean-only prediction: relinearisation point identical
        for tr1, trs_, st, (H, b, R) in zip(tr1s, trS, states, lin0):
            ans = Cut(drv.call("sv_step_dyn", strat, n, k, 0, relin, *pc_args(tr1), *pc_args(trs_), H, b, R, H, b, R, *st_args(st)))
            news.append({"mean": ans.take(n), "cov": ans.take(n, n), "bw": read_pcond(ans, n, n)})
        return news, aux, info


# ------------------------------------------------------------------------------------------------
# comparison


def _dev_cov(Ci, Cm, scale_diag):
    Ci, Cm = tofloat(Ci), tofloat(Cm)
    d = np.sqrt(np.maximum(tofloat(scale_diag), 0.0))
    sc = np.outer(d, d)
    sc = np.where(sc > 0, sc, np.finfo(float).tiny)
    if not np.all(np.isfinite(Ci)):
        return float("inf")
    return float(np.max(np.abs(Ci - Cm) / sc))


def _dev_vec(vi, vm, scale):
    vi, vm, scale = tofloat(vi), tofloat(vm), np.maximum(tofloat(scale), np.finfo(float).tiny)
    if not np.all(np.isfinite(vi)):
        return float("inf")
    return float(np.max(np.abs(vi - vm) / scale))


def compare_state(ctx, name, impl_slices, model_slices, tol, case, sigprefix, scale_vars=None, kappa=1.0, with_bw=False, mean_extra=None):
    """Compare slice states. Means relative to |m| + sqrt(var_scale); covariances relative to the scale variances
    (default: the model's own variances; for posteriors pass the predicted variances)."""
    ok = True
    for j, (si, sm) in enumerate(zip(impl_slices, model_slices)):
        sv = scale_vars[j] if scale_vars is not None else np.array([sm["cov"][i, i] for i in range(len(sm["mean"]))], dtype=object)
        msc = np.abs(tofloat(sm["mean"])) + np.sqrt(np.maximum(tofloat(sv), 0.0))
        if mean_extra is not None:
            msc = msc + mean_extra[j]
        dm = _dev_vec(si["mean"], sm["mean"], msc) / kappa
        dc = _dev_cov(si["cov"], sm["cov"], sv) / kappa
        ok &= ctx.dev(f"{name}.mean", dm, tol, case=case, sig=f"{sigprefix}:mean", what=f"{name} mean deviates by {dm:.3e} (slice {j}) from the exact model")
        ok &= ctx.dev(f"{name}.cov", dc, tol, case=case, sig=f"{sigprefix}:cov", what=f"{name} covariance deviates by {dc:.3e} (slice {j}) from the exact model")
        if with_bw:
            ok &= compare_bw(ctx, name, si["bw"], sm["bw"], tol, case, sigprefix, kappa)
    return ok


def den_float(c):
    """de-preconditioned (A, b, Q) in float from an exact PCond dict"""
    A, b, Q, tl, to = (tofloat(c[k]) for k in ("A", "b", "Q", "tl", "to"))
    return to[:, None] * A * tl[None, :], to * b, to[:, None] * Q * to[None, :]


def corr_cond(C):
    """condition number of the correlation-normalised matrix (float); inf if not finite"""
    C = tofloat(C)
    d = np.sqrt(np.maximum(np.diag(C), 0.0))
    if np.any(d == 0):
        idx = d > 0
        if not idx.any():
            return 1.0
        C, d = C[np.ix_(idx, idx)], d[idx]
    Cn = C / np.outer(d, d)
    if not np.all(np.isfinite(Cn)):
        return float("inf")
    return float(np.linalg.cond(Cn))


def compare_bw(ctx, name, ci, cm, tol, case, sigprefix, kappa=1.0, prior_var=None):
    """Compare two backward conditionals after removal of the scalings (parametrisation-independent).
    prior_var: variances of the state the conditional maps *to* (scale for offset and noise)."""
    Ai, bi, Qi = den_float(ci)
    Am, bm, Qm = den_float(cm)
    pv = np.maximum(tofloat(prior_var), 0.0) if prior_var is not None else np.maximum(np.diag(Qm), 0.0)
    sd = np.sqrt(pv)
    rowmax = np.maximum(np.max(np.abs(Am), axis=1), np.finfo(float).tiny)
    ok = True
    if not (np.all(np.isfinite(Ai)) and np.all(np.isfinite(bi)) and np.all(np.isfinite(Qi))):
        ctx.violation(f"{sigprefix}:bw.nonfinite", f"{name}: backward conditional contains non-finite values", case)
        return False
    dA = float(np.max(np.abs(Ai - Am) / rowmax[:, None])) / kappa
    ok &= ctx.dev(f"{name}.bw.A", dA, tol, case=case, sig=f"{sigprefix}:bw.A", what=f"{name} backward gain deviates by {dA:.3e} (row-relative, / kappa)")
    scq = np.outer(sd, sd)
    scq = np.where(scq > 0, scq, np.finfo(float).tiny)
    dQ = float(np.max(np.abs(Qi - Qm) / scq)) / kappa
    ok &= ctx.dev(f"{name}.bw.Q", dQ, tol, case=case, sig=f"{sigprefix}:bw.Q", what=f"{name} backward noise deviates by {dQ:.3e} (relative to filter variances, / kappa)")
    return ok


# ------------------------------------------------------------------------------------------------
# non-finite implementation states


def state_is_finite(sol) -> bool:
    import jax

    leaves = jax.tree_util.tree_leaves((sol.u, sol.output_scale))
    return all(bool(np.all(np.isfinite(np.asarray(x, dtype=np.float64)))) for x in leaves)


def nonfinite_signature(ctx, cfg: Config, stepper: "ModelStepper", s0, t, h) -> tuple[str, str]:
    """The implementation returned a non-finite state from finite input `s0`. Ask the model why.
    Returns (signature, explanation).  Known class (finding D8): dynamic calibration with an *exactly* zero whitened
    residual (local scale 0 -> zero process noise -> 0/0 in the update)."""
    if cfg.solver.startswith("dynamic"):
        try:
            tr1s = stepper.transitions(h, Fraction(1))
            ups = [np.array(ctx.drv.call("sv_apply_mean", stepper.N, *pc_args(tr), *st_args(st)), dtype=object) for tr, st in zip(tr1s, s0)]
            lin0 = stepper.linearise(ups, t + h)
            zero = []
            for (H, b, R), m in zip(lin0, ups):
                r = [sum(H[i][j] * m[j] for j in range(len(m))) + b[i] for i in range(len(b))]
                zero.append(all(x == 0 for x in r))
            if (cfg.fact == "bd" and any(zero)) or all(zero):
                return ("dynamic:zero-residual:nan", "solver_dynamic: the whitened residual of the mean-only prediction is exactly zero "
                        "(a solution component is a polynomial of degree <= q); local scale 0 -> 0/0 -> NaN")
        except Exception:  # noqa: BLE001
            pass
    return (f"nonfinite-state:{cfg.fact}:{cfg.solver}:{cfg.strategy}:{cfg.lin}", "implementation returned a non-finite state from a finite state")
