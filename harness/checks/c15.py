"""C15 — Results are invariant under pytree structure, permutation, jit and vmap  (partial by design).

Proved (lean/Pdq/Props/C15.lean): ravel_bijections, perm_equivariance, batched_while_eq, leading_axis about the
executable model (`Pdq.Model.Ravel`, `Pdq.Model.BatchedWhile`, `Pdq.Model.Solver`, `Pdq.Model.Iwp`, `Pdq.Model.Slices`).
Not provable: that JAX's tracer / XLA / pytree registry implement those semantics.  This check exercises exactly
that half on the real code:

(1) ravel orders: integer arrays through `flatten_tree` / `unflatten_array` / `to_multivariate_normal` of the three
    TreeFlatten / Normal classes vs the model's index maps — exact;
(2) `vmap(while_loop)` of the real backend (`probdiffeq.backend.flow/func`) vs the model's masked batched loop — exact;
(3) nested dict / tuple / list / namedtuple states with leaves of rank 0..3 vs the flattened problem: same numbers,
    caller's structure, leading time axis of the requested length;
(4) all permutations of <= 4 components: the solution of the permuted problem is the permuted solution;
(5) jit vs `jax.disable_jit()`;
(6) `jax.vmap(solve)(batch)` vs `[solve(b) for b in batch]` for members whose step counts differ widely; NaN in the
    batched result where the per-member result is finite is reported as `vmap:nan-leak:<config>`.
"""

from __future__ import annotations

import itertools
import dataclasses
import time

import numpy as np

from harness import core
from harness.checks import c15_lib as lib
from harness.checks.c15_lib import Cfg

PROPS_MODULES = ["Pdq.Props.C15", "Pdq.Lemmas.Ravel", "Pdq.Lemmas.PyTree", "Pdq.Lemmas.KronCM", "Pdq.Lemmas.Batched"]
LEVEL = "proof"
EXPLANATION = (
    "PARTIAL by design: the algebraic half (ravel index maps are mutually inverse bijections and compose to "
    "coefficient-major order; permutation / similarity equivariance of filter and smoother steps and whole runs, of the "
    "shipped IWP transition and of slice-wise factorisations; the masked batched while-loop equals the per-lane loops for "
    "lanes with different iteration counts; leading time axis) is proved in Lean about the executable model. That JAX's "
    "tracer, XLA and pytree registry implement these semantics is not provable here and is exercised on the real code: "
    "structure, permutation, jit-vs-eager and vmap-vs-loop comparisons of real solves, plus exact comparison of the real "
    "ravel orders and of vmap(while_loop) of the real backend with the model."
)

# Tolerances on *normalised* relative deviations: relative per Taylor coefficient (largest magnitude of that
# coefficient over the run), divided by the amplification factor of the problem (`amplification`: empirical input
# condition and the cancellation factor 1/r0 of the residual).  Largest normalised deviation seen on the clean tree
# (thorough, seeds 0-2; quick, seeds 0-5): 3.3e-14 (vmap, fixed grid), 1.6e-14 (vmap, adaptive), 1.2e-15 (jit), 8e-16 (perm),
# 0 (pytree).  Un-normalised, the vmap deviations never exceeded 3.4e-13 (the 1e-12 of the C15 specification) except on
# high-accuracy runs with r0 ~ 1e-6, where rounding differences of batched kernels reach 1e-10.
TOL_TREE = 1e-12  # pytree vs flattened problem
TOL_PERM = 1e-12  # permuted problem (different summation / pivot order)
TOL_JIT = 1e-12  # compiled vs op-by-op
TOL_VMAP = 1e-11  # vmap vs per-member

FACTS = ["dense", "iso", "bd"]


# ------------------------------------------------------------------------------------------------
# (1) ravel orders vs the model


def _classes(fact):
    from probdiffeq._probdiffeq import ssm_impl_blockdiag, ssm_impl_dense, ssm_impl_isotropic

    return {
        "dense": (ssm_impl_dense.DenseTreeFlatten, ssm_impl_dense.DenseNormal),
        "iso": (ssm_impl_isotropic.IsotropicTreeFlatten, ssm_impl_isotropic.IsotropicNormal),
        "bd": (ssm_impl_blockdiag.BlockDiagTreeFlatten, ssm_impl_blockdiag.BlockDiagNormal),
    }[fact]


def _ints(x):
    a = np.asarray(x, dtype=np.float64).reshape(-1)
    if not np.all(a == np.round(a)):
        raise core.HarnessError("non-integer value in an exact ravel comparison")
    return [int(v) for v in a]


def ravel_case(ctx, fact, n, spec, container, case_extra=None):
    """one coefficient container of `n` coefficients with structure `spec`, leaves filled with distinct integers"""
    import jax.numpy as jnp

    d = lib.spec_size(spec)
    which = FACTS.index(fact)
    TF, Normal = _classes(fact)
    coeffs = [lib.build(spec, lambda shape, off, i=i: jnp.asarray(np.arange(off, off + (int(np.prod(shape)) if len(shape) else 1), dtype=np.float64).reshape(shape) + 100.0 * i)) for i in range(n)]
    cfgc = Cfg(fact, "filter", "fixed", container=container)
    if container == "namedtuple" and n not in (3, 4):
        container = "tuple"
        cfgc = Cfg(fact, "filter", "fixed", container=container)
    tree = lib.wrap_container(cfgc, coeffs)
    case = {"what": "ravel", "fact": fact, "n": n, "d": d, "spec": repr(spec), "container": container}
    if case_extra:
        case.update(case_extra)
    toks = lib.encode(tree)
    sigp = f"ravel:{fact}"
    try:
        tf = TF.from_example(tree)
        flat = np.asarray(tf.flatten_tree(tree))
    except Exception as e:  # noqa: BLE001
        ctx.violation(f"{sigp}:flatten:exception", f"flatten_tree raised {type(e).__name__}: {e}", case)
        return
    ans = ctx.drv.call("rv_flatten", which, *toks)
    mn, md, buf = int(ans[0]), int(ans[1]), [int(x) for x in ans[2:]]
    exp_shape = {"dense": (n * d,), "iso": (n, d), "bd": (d, n)}[fact]
    if (mn, md) != (n, d):
        raise core.HarnessError("model disagrees about (n, d)")
    if flat.shape != exp_shape:
        ctx.violation(f"{sigp}:flatten:shape", f"flatten_tree returned shape {flat.shape}, expected {exp_shape}", case)
    elif [int(v) for v in lib.rowmajor(flat)] != buf:
        ctx.violation(f"{sigp}:flatten:order", f"flatten_tree order {_ints(flat)} differs from the model {buf}", case)
    ctx.devs[f"ravel.{fact}.flatten"] = 0.0
    # unflatten_array of an arange buffer
    x = np.arange(n * d, dtype=np.float64).reshape(exp_shape) * 3.0 + 1.0
    try:
        back = tf.unflatten_array(jnp.asarray(x))
    except Exception as e:  # noqa: BLE001
        ctx.violation(f"{sigp}:unflatten:exception", f"unflatten_array raised {type(e).__name__}: {e}", case)
        return
    ans = ctx.drv.call_raw("rv_unflatten", which, *toks, n * d, *[str(int(v)) for v in lib.rowmajor(x)])
    m = int(ans[0])
    model_toks = ans[1:]
    try:
        back_list = list(back)
        impl_toks = [tk for c in back_list for tk in lib.encode(c, sort_dicts=True)]
    except Exception as e:  # noqa: BLE001
        ctx.violation(f"{sigp}:unflatten:structure", f"unflatten_array returned a non-iterable {type(back).__name__}: {e}", case)
        return
    if m != len(back_list) or impl_toks != model_toks:
        ctx.violation(f"{sigp}:unflatten:order", f"unflatten_array gives {impl_toks[:40]}.. , model {model_toks[:40]}..", case)
    if not lib.same_container_types(back, tree):
        ctx.violation(f"{sigp}:unflatten:container", f"unflatten_array returns container {type(back).__name__} for {type(tree).__name__}", case)
    # round trip on the real code
    try:
        rt = np.asarray(tf.flatten_tree(back))
        if rt.shape != x.shape or not np.array_equal(rt, x):
            ctx.violation(f"{sigp}:roundtrip", "flatten_tree(unflatten_array(x)) != x", case)
    except Exception as e:  # noqa: BLE001
        ctx.violation(f"{sigp}:roundtrip:exception", f"{type(e).__name__}: {e}", case)
    # to_multivariate_normal with integer factors
    rng = ctx.rng
    if fact == "dense":
        Lc = np.tril(rng.integers(-3, 4, size=(n * d, n * d))).astype(np.float64)
        covs = Lc @ Lc.T
    elif fact == "iso":
        Lc = np.tril(rng.integers(-3, 4, size=(n, n))).astype(np.float64)
        covs = Lc @ Lc.T
    else:
        Lc = np.tril(rng.integers(-3, 4, size=(d, n, n))).astype(np.float64)
        covs = np.einsum("dij,dkj->dik", Lc, Lc)
    try:
        rv = Normal(jnp.asarray(flat), jnp.asarray(Lc), tf)
        mean_mvn, cov_mvn = rv.to_multivariate_normal()
        mean_mvn, cov_mvn = np.asarray(mean_mvn), np.asarray(cov_mvn)
    except Exception as e:  # noqa: BLE001
        ctx.violation(f"{sigp}:mvn:exception", f"to_multivariate_normal raised {type(e).__name__}: {e}", case)
        return
    if fact == "dense":
        ans = ctx.drv.call("rv_mvn_dense", n * d, *[str(v) for v in _ints(flat)], *[str(v) for v in _ints(covs)])
    else:
        ans = ctx.drv.call("rv_mvn_" + fact, n, d, *[str(v) for v in _ints(flat)], *[str(v) for v in _ints(covs)])
    N = n * d
    m_mod, c_mod = [int(v) for v in ans[:N]], [int(v) for v in ans[N:]]
    if mean_mvn.shape != (N,) or cov_mvn.shape != (N, N):
        ctx.violation(f"{sigp}:mvn:shape", f"to_multivariate_normal shapes {mean_mvn.shape}, {cov_mvn.shape}", case)
    else:
        if _ints(mean_mvn) != m_mod:
            ctx.violation(f"{sigp}:mvn:mean", f"mean {_ints(mean_mvn)} vs model {m_mod}", case)
        if _ints(cov_mvn) != c_mod:
            ctx.violation(f"{sigp}:mvn:cov", "covariance of to_multivariate_normal differs from the model (coefficient-major C[i,j]*[a=b])", dict(case, cov=_ints(cov_mvn), model=c_mod))
        # the mean in coefficient-major order must be the dense flattening of the same tree
        dense_buf = [int(v) for v in ctx.drv.call("rv_flatten", 0, *toks)[2:]]
        if _ints(mean_mvn) != dense_buf:
            ctx.violation(f"{sigp}:mvn:not-coefficient-major", f"mean {_ints(mean_mvn)} vs dense flattening {dense_buf}", case)
    ctx.devs[f"ravel.{fact}.mvn"] = 0.0
    ctx.count(f"ravel:{fact}")
    ctx.count("ravel:n==d" if n == d else "ravel:n!=d")
    for kd in lib.spec_kinds(spec):
        ctx.count("ravel:" + kd)
    ctx.case(case)


def check_index_maps(ctx):
    """the model's index permutations vs the permutations realised by the real code on `arange` inputs"""
    import jax.numpy as jnp

    _TF, BdNormal = _classes("bd")
    _TF, IsoNormal = _classes("iso")
    for n, d in [(1, 1), (2, 3), (3, 2), (3, 3), (4, 5), (5, 4)]:
        ans = [int(v) for v in ctx.drv.call("rv_index", n, d)]
        bd2dense, dense2bd, dense2iso = ans[: n * d], ans[n * d : 2 * n * d], ans[2 * n * d :]
        case = {"what": "index-maps", "n": n, "d": d}
        rv = BdNormal(jnp.asarray(np.arange(d * n, dtype=np.float64).reshape(d, n)), jnp.zeros((d, n, n)), None)
        m, _ = rv.to_multivariate_normal()
        if _ints(m) != dense2bd:
            ctx.violation("ravel:bd:index-map", f"storage index at dense position: {_ints(m)} vs model denseToBd {dense2bd}", case)
        inv = [0] * (n * d)
        for y, x in enumerate(_ints(m)):
            inv[x] = y
        if inv != bd2dense:
            ctx.violation("ravel:bd:index-map-inverse", f"{inv} vs model bdToDense {bd2dense}", case)
        rv = IsoNormal(jnp.asarray(np.arange(d * n, dtype=np.float64).reshape(n, d)), jnp.zeros((n, n)), None)
        m, _ = rv.to_multivariate_normal()
        if _ints(m) != dense2iso:
            ctx.violation("ravel:iso:index-map", f"{_ints(m)} vs model denseToIso {dense2iso}", case)
        ctx.case(case)


def corpus(ctx):
    """fixed cases, run first: the crazy Lotka-Volterra pytree of backend/ode.py and square cases n == d (a missing
    transpose does not change any shape there).  No genuine C15 defect of probdiffeq is known; the solve-level corpus
    case (the Lotka-Volterra pytree solved with a structured vs flattened state) runs in the first solve round."""
    for fact in FACTS:
        ravel_case(ctx, fact, 3, lib.CRAZY, "namedtuple", {"corpus": "lotka-volterra pytree"})
        ravel_case(ctx, fact, 3, ("D", [("z", ("L", (1, 1, 1))), ("k", ("T", [("L", (2,))]))]), "list", {"corpus": "n == d"})
        ravel_case(ctx, fact, 2, ("S", [("L", ()), ("L", (1,))]), "tuple", {"corpus": "n == d == 2"})
    check_index_maps(ctx)


def check_ravel(ctx):
    rng = ctx.rng
    for it in range(ctx.n(24, 240)):
        fact = FACTS[it % 3]
        n = int(rng.integers(1, 6))
        d = int(rng.integers(1, 7)) if rng.random() < 0.7 else n
        spec = lib.random_spec(rng, d)
        container = ["list", "tuple", "namedtuple"][int(rng.integers(3))]
        ravel_case(ctx, fact, n, spec, container)


# ------------------------------------------------------------------------------------------------
# (2) vmap(while_loop) of the real backend vs the model


def check_backend_while(ctx):
    import jax
    import jax.numpy as jnp
    from probdiffeq.backend import flow, func

    def cond(s):
        x, i, lim = s
        return jnp.logical_and(x != 1, i < lim)

    def body(s):
        x, i, lim = s
        return (jnp.where(x % 2 == 0, x // 2, 3 * x + 1), i + 1, lim)

    def run(x, lim):
        xf, it, _ = flow.while_loop(cond, body, (x, jnp.zeros_like(x), lim))
        return xf, it

    # nested: an outer loop over "checkpoints" around the inner loop, with a cond in between (shape of `advance`)
    def run_nested(x, lim):
        def ocond(c):
            return c[2] < 3

        def obody(c):
            x_, tot, k = c
            xf, it = run(x_, lim)
            xf = flow.cond(xf == 1, lambda z: z + 6, lambda z: z, xf)
            return (xf, tot + it, k + 1)

        xf, tot, _ = flow.while_loop(ocond, obody, (x, jnp.zeros_like(x), jnp.zeros_like(x)))
        return xf, tot

    rng = ctx.rng
    for it in range(ctx.n(3, 12)):
        B = int(rng.integers(2, 7))
        xs = [int(v) for v in rng.integers(1, 60, size=B)]
        if it == 0:
            xs = [27, 1, 6, 97][:B] + xs[4:]  # 111, 0, 8, 118 iterations
        lims = [int(v) for v in rng.choice([3, 50, 1000], size=B)]
        case = {"what": "vmap(while_loop)", "x": xs, "limit": lims}
        ans = [int(v) for v in ctx.drv.call("bw_collatz", 2000, B, *[str(v) for xl in zip(xs, lims) for v in xl])]
        model_batched, model_lanes, model_iters = ans[: 2 * B], ans[2 * B : 4 * B], ans[4 * B]
        if model_batched != model_lanes:
            raise core.HarnessError("model: batchedWhile != map whileLoop (contradicts batched_while_eq)")
        xa, la = jnp.asarray(xs, dtype=jnp.int64), jnp.asarray(lims, dtype=jnp.int64)
        for mode in ("jit", "eager"):
            if mode == "jit":
                xf, itn = jax.jit(func.vmap(run))(xa, la)
            else:
                if it > 0 and ctx.quick:
                    continue
                with jax.disable_jit():
                    xf, itn = func.vmap(run)(xa, la)
            got = [int(v) for pair in zip(np.asarray(xf), np.asarray(itn)) for v in pair]
            if got != model_batched:
                ctx.violation(f"backend:vmap-while:{mode}", f"vmap(while_loop) returned {got}, model (= per-lane loops) {model_batched}", case)
            per = [int(v) for x_, l_ in zip(xs, lims) for v in jax.jit(run)(jnp.asarray(x_, dtype=jnp.int64), jnp.asarray(l_, dtype=jnp.int64))]
            if per != model_lanes:
                ctx.violation(f"backend:while:{mode}", f"while_loop per lane {per}, model {model_lanes}", case)
        # nested loops with a cond: batched vs per lane on the real backend
        a = jax.jit(func.vmap(run_nested))(xa, la)
        b = [jax.jit(run_nested)(jnp.asarray(x_, dtype=jnp.int64), jnp.asarray(l_, dtype=jnp.int64)) for x_, l_ in zip(xs, lims)]
        ga = [int(v) for pair in zip(np.asarray(a[0]), np.asarray(a[1])) for v in pair]
        gb = [int(v) for pair in b for v in pair]
        if ga != gb:
            ctx.violation("backend:vmap-nested-while", f"nested vmap(while(cond(while))) {ga} vs per lane {gb}", case)
        iters = [model_lanes[2 * j + 1] for j in range(B)]
        ctx.count("while:lanes", B)
        ctx.count("while:iteration spread >= 10x" if max(iters) >= 10 * max(1, min(iters)) else "while:iteration spread < 10x")
        if model_iters != max(iters):
            raise core.HarnessError("model: batchedIters != max lane iterations (contradicts batchedIters_eq_max)")
        ctx.devs["backend.vmap_while"] = 0.0
        ctx.case(case)


# ------------------------------------------------------------------------------------------------
# comparison of observed solutions


def _scale(ref):
    """per Taylor coefficient: largest magnitude over time and components"""
    s = np.max(np.abs(ref), axis=tuple(i for i in range(ref.ndim) if i != 1), keepdims=True) if ref.ndim >= 2 else np.max(np.abs(ref))
    return np.maximum(s, np.finfo(float).tiny)


def _scale_std(ref_mean, ref_std):
    """scale for standard deviations: the largest std of that coefficient, but not less than the typical relative
    uncertainty of the run times the magnitude of the coefficient (a coefficient that is pinned exactly by a
    noise-free constraint has std = 0 up to rounding of its mean; that rounding noise is not compared)"""
    sm, ss = _scale(ref_mean), _scale(ref_std)
    r = float(np.max(ss / sm))
    return np.maximum(ss, r * sm)


def rel_devs(cand, ref):
    """relative deviations per quantity (means / stds: per Taylor coefficient, see `_scale`, `_scale_std`)"""
    out = {}
    out["mean"] = float(np.max(np.abs(cand["mean"] - ref["mean"]) / _scale(ref["mean"])))
    out["std"] = float(np.max(np.abs(cand["std"] - ref["std"]) / _scale_std(ref["mean"], ref["std"])))
    for k in ("t", "output_scale"):
        sc = max(float(np.max(np.abs(ref[k]))), np.finfo(float).tiny)
        out[k] = float(np.max(np.abs(cand[k] - ref[k])) / sc) if ref[k].size else 0.0
    return out


KAPPA_MAX = 1e9


def amplification(ctx, sv, problem, ref):
    """Empirical condition of the solve map at this problem: relative change of each output under a relative
    perturbation 2^-30 (2^-40) of the initial value, divided by the perturbation; >= 1 (a).  Rounding-level differences
    between two executions of the same algorithm (other summation order, fused operations, batched kernels) are amplified
    by this factor - e.g. the dynamic calibration divides by a residual that cancels to the level of the tolerance - so
    deviations are divided by it.  None: an accept/reject decision flips within 1e-9 of the problem."""
    if "error" in ref or not all(np.all(np.isfinite(ref[k])) for k in ("mean", "std", "output_scale")):
        return {k: 1.0 for k in ("t", "mean", "std", "output_scale")}
    # (b) cancellation inside the algorithm: the calibration and the update work with the residual u' - f(u), which
    # cancels to the relative size of the solver's own uncertainty r0 = std(u) / |u|; rounding errors (not input
    # perturbations) are amplified by about 1 / r0
    r0 = float(_scale(ref["std"])[0, 0, 0] / _scale(ref["mean"])[0, 0, 0])
    kc = 1.0 / r0 if r0 > 0 else float("inf")
    for e in (2.0**-30, 2.0**-40):
        pert = sv.obs(problem.with_u0(problem.u0 * (1.0 + e)))
        if "error" in pert or pert["mean"].shape != ref["mean"].shape:
            continue
        if np.array_equal(pert["num_steps"], ref["num_steps"]) and all(np.all(np.isfinite(pert[k])) for k in ("mean", "std", "output_scale")):
            d = rel_devs(pert, ref)
            kap = {k: max(1.0, d[k] / e, kc) for k in d}
            kap["t"] = 1.0
            ctx.extra["max_amplification"] = max(ctx.extra.get("max_amplification", 1.0), min(max(kap.values()), 1e300))
            return kap
    return None


def compare(ctx, name, cand, ref, tol, case, sig, kappa=None):
    """returns 'ok' | 'steps' | 'bad'.  cand / ref: dicts of `lib.observe`; kappa: `amplification` of the problem."""
    for o in (cand, ref):
        if "error" in o:
            ctx.violation(f"{sig}:leading-axis", f"{name}: inconsistent leading time axes in the returned solution: {o['error']}", case)
            return "bad"
    if cand["t"].shape != ref["t"].shape or cand["mean"].shape != ref["mean"].shape or cand["std"].shape != ref["std"].shape:
        ctx.violation(f"{sig}:shape", f"{name}: shapes differ: {cand['mean'].shape} vs {ref['mean'].shape}", case)
        return "bad"
    finite_ref = all(np.all(np.isfinite(ref[k])) for k in ("t", "mean", "std", "output_scale"))
    if not finite_ref:
        ctx.skip("reference solution is not finite (outside the property)")
        return "ok"
    for k in ("t", "mean", "std", "output_scale"):
        if not np.all(np.isfinite(cand[k])):
            ctx.violation(f"{sig}:nan", f"{name}: non-finite {k} where the reference is finite", case)
            return "bad"
    if not np.array_equal(cand["num_steps"], ref["num_steps"]):
        return "steps"
    ok = True
    d = rel_devs(cand, ref)
    for k in ("mean", "std", "t", "output_scale"):
        kap = 1.0 if kappa is None else kappa[k]
        if kap > KAPPA_MAX:
            ctx.skip(f"{k}: the problem amplifies relative perturbations of the input by more than {KAPPA_MAX:.0e} (cancellation); not compared")
            continue
        dev = d[k] / kap
        ok &= ctx.dev(f"{name}.{k}", dev, tol, case=case, sig=f"{sig}:{k}", what=f"{name}: {k} deviates by {d[k]:.2e} relative (per Taylor coefficient); amplification of the problem {kap:.1e}")
    return "ok" if ok else "bad"


def permute_obs(cfg, obs, perm):
    """what the solution of the permuted problem must be"""
    p = np.asarray(perm)
    out = dict(obs)
    if "error" in obs:
        return out
    out["mean"] = obs["mean"][:, :, p]
    if cfg.fact != "iso":
        out["std"] = obs["std"][:, :, p]
    if cfg.fact == "bd" and obs["output_scale"].ndim >= 2:
        out["output_scale"] = obs["output_scale"][..., p]
    return out


def with_retries(ctx, what, problem, fn, sig, case):
    """`fn(problem)` returns 'ok' | 'steps' | 'bad'.  A different number of steps means that an accept/reject
    decision flipped (a discontinuity of the adaptive map): skip, count, and retry on a slightly perturbed
    problem; persistent disagreement is a violation."""
    for attempt in range(3):
        r = fn(problem)
        if r != "steps":
            return r
        ctx.skip(f"{what}: step counts differ (accept/reject decision within rounding of the threshold) - retried on a perturbed problem")
        problem = problem.with_u0(problem.u0 * (1.0 + 2.0 ** -(12 + attempt)))
    ctx.violation(f"{sig}:steps", f"{what}: the number of steps differs for three neighbouring problems", case)
    return "bad"


# ------------------------------------------------------------------------------------------------
# (3)-(6) real solves


# ------------------------------------------------------------------------------------------------
# (4a) the shipped prior under permutations of the components (`transitionDense_perm`), exact on the real code


def check_transition_perm(ctx):
    import jax
    import jax.numpy as jnp
    from probdiffeq import probdiffeq as pdq

    rng = ctx.rng
    for it in range(ctx.n(3, 12)):
        d = int(rng.integers(2, 5))
        q = int(rng.integers(1, 4))
        dt = float(2.0 ** rng.integers(-6, 1))
        lam = 2.0 ** rng.integers(-2, 3, size=d).astype(float)
        tc = [rng.integers(-8, 9, size=d) / 4.0 for _ in range(q + 1)]
        perms = lib.all_perms(d)
        if ctx.quick and len(perms) > 6:
            perms = [perms[int(i)] for i in rng.choice(len(perms), size=6, replace=False)]
        for fact in FACTS:
            ssm = {"dense": pdq.state_space_model_dense, "iso": pdq.state_space_model_isotropic, "bd": pdq.state_space_model_blockdiag}[fact]()

            def trans_(tcs, lm, fact=fact, ssm=ssm):
                sc = lm[0] if fact == "iso" else lm
                prior = ssm.prior_wiener_integrated([tcs[i] for i in range(q + 1)], output_scale=sc)
                os_ = jnp.ones(()) if fact != "bd" else jnp.ones((d,))
                tr = prior.transition(dt=jnp.asarray(dt), output_scale=os_)
                return (prior.init.mean_flat, tr.A, tr.noise.mean_flat, tr.noise.cholesky_flat, tr.to_latent, tr.to_observed)

            trans_j = jax.jit(trans_)

            def trans(tcs, lm, trans_j=trans_j):
                return [np.asarray(x) for x in trans_j(jnp.asarray(np.stack(tcs)), jnp.asarray(lm))]

            lam_f = np.full(d, lam[0]) if fact == "iso" else lam
            base = trans(tc, lam_f)
            for perm in perms:
                pm = np.asarray(perm)
                case = {"what": "transition-perm", "fact": fact, "d": d, "q": q, "dt": dt, "lam": lam_f.tolist(), "perm": list(perm)}
                got = trans([x[pm] for x in tc], lam_f[pm])
                if fact == "dense":
                    idx = np.array([i * d + pm[a] for i in range(q + 1) for a in range(d)])  # (T v)[x] = v[idx[x]],  T = I (x) P
                    want = [base[0][idx], base[1][np.ix_(idx, idx)], base[2][idx], base[3][np.ix_(idx, idx)], base[4][idx], base[5][idx]]
                elif fact == "iso":
                    want = [base[0][:, pm]] + base[1:]
                else:
                    want = [b[pm] for b in base]
                names = ["init.mean", "A", "noise.mean", "noise.cholesky", "to_latent", "to_observed"]
                for nm, g, w in zip(names, got, want):
                    if g.shape != w.shape or not np.array_equal(g, w):
                        ctx.violation(f"perm:transition:{fact}:{nm}", f"{nm} of the permuted problem is not the permuted {nm} (exact comparison)", case)
                ctx.case(case)
            ctx.devs[f"perm.transition.{fact}"] = 0.0
            ctx.count(f"perm:transition:{fact}")



class Solves:
    """compiled solves of one configuration, shared by the permutation / jit / vmap comparisons"""

    def __init__(self, cfg):
        import jax

        self.cfg = cfg
        self.solve, self.grid = lib.make_solve(cfg)
        self.jitted = jax.jit(self.solve)

    def run(self, problem):
        import jax.numpy as jnp

        return self.jitted(*[jnp.asarray(x) for x in problem.theta()])

    def obs(self, problem):
        return lib.observe(self.cfg, self.run(problem))


def check_leading_axis(ctx, cfg, obs, grid, case, sig):
    if "error" in obs:
        ctx.violation(f"{sig}:leading-axis", f"inconsistent leading time axes in the returned solution: {obs['error']}", case)
        return
    cnt = [int(v) for v in ctx.drv.call("bw_saveat", len(grid), *[core.F(float(g)) for g in grid])]
    want = cnt[0] if cfg.mode == "adaptive" else cnt[1]
    for k in ("t", "mean", "std"):
        if obs[k].shape[0] != want:
            ctx.violation(f"{sig}:leading-axis", f"{k} has leading axis {obs[k].shape[0]}, requested {want} (model: saveAt / fixedGrid length)", case)
    if not np.array_equal(obs["t"], np.asarray(grid)):
        dev = float(np.max(np.abs(obs["t"] - np.asarray(grid)))) if obs["t"].shape == np.asarray(grid).shape else float("inf")
        ctx.dev("leading_axis.t", dev, 1e-12, case=case, sig=f"{sig}:t", what=f"solution times {obs['t']} vs requested {grid}")
    ctx.devs.setdefault("leading_axis.count", 0.0)


def check_perms(ctx, sv, problem, perms):
    cfg = sv.cfg
    ref = sv.obs(problem)
    kappa = amplification(ctx, sv, problem, ref)
    case0 = {"what": "permutation", "config": cfg.key(), "problem": problem.describe()}
    check_leading_axis(ctx, cfg, ref, sv.grid * problem.ctl[1], case0, f"axis:{cfg.key()}")
    if kappa is None:
        ctx.skip("an accept/reject decision flips within 1e-12 (relative) of the problem: no comparison on this problem")
        return ref, None
    for perm in perms:
        case = dict(case0, perm=list(perm))

        def go(pb, perm=perm, case=case):
            r = sv.obs(pb) if pb is not problem else ref
            cand = sv.obs(pb.permuted(perm))
            return compare(ctx, f"perm.{cfg.fact}.{cfg.mode}", cand, permute_obs(cfg, r, perm), TOL_PERM, case, f"perm:{cfg.key()}", kappa)

        with_retries(ctx, "permutation", problem, go, f"perm:{cfg.key()}", case)
        ctx.count(f"perm:{cfg.fact}:{cfg.mode}:{cfg.strategy}:{cfg.lin}")
        ctx.case(dict(what="perm", config=cfg.key(), perm=list(perm), u0=problem.u0.tolist()))
    return ref, kappa


def check_tree(ctx, cfg, problem, spec, ref_flat, kappa):
    """solve with a structured state vs the flattened problem (`ref_flat` = observation of the flat solve)"""
    import jax
    import jax.numpy as jnp

    solve_t, grid = lib.make_solve(cfg, spec)
    case = {"what": "pytree", "config": cfg.key(), "container": cfg.container, "spec": repr(spec), "problem": problem.describe()}
    sig = f"tree:{cfg.key()}"
    try:
        sol = jax.jit(solve_t)(*[jnp.asarray(x) for x in problem.theta()])
    except Exception as e:  # noqa: BLE001
        ctx.violation(f"{sig}:exception", f"solve with a structured state raised {type(e).__name__}: {str(e)[:300]}", case)
        return
    nt = len(grid)
    # structure: caller's containers, leaf shapes with a leading time axis
    example = lib.wrap_container(cfg, [lib.to_tree(spec, np.zeros(problem.d), np) for _ in range(cfg.q + 1)])
    mean, std = sol.u.mean, sol.u.std
    if not lib.same_container_types(mean, example):
        ctx.violation(f"{sig}:mean-structure", f"u.mean has structure {jax.tree_util.tree_structure(mean)}, caller's is {jax.tree_util.tree_structure(example)}", case)
        return
    for got, want in zip(lib.leaves_canonical(mean), lib.leaves_canonical(example)):
        if tuple(np.shape(got)) != (nt,) + tuple(np.shape(want)):
            ctx.violation(f"{sig}:mean-leaf-shape", f"leaf shape {np.shape(got)} vs (T,)+{np.shape(want)}", case)
            return
    if cfg.fact == "iso":
        # by design one standard deviation per Taylor coefficient (the isotropic covariance is C (x) I):
        # the caller's coefficient container with scalar leaves
        okc = type(std) is type(example) and len(std) == cfg.q + 1 and all(tuple(np.shape(s)) == (nt,) for s in std)
        if not okc:
            ctx.violation(f"{sig}:std-structure", f"isotropic u.std should be the coefficient container with one (T,) leaf per coefficient, got {jax.tree_util.tree_structure(std)}", case)
            return
        ctx.count("tree:iso std is one scalar per coefficient (caller's container, scalar leaves)")
    else:
        if not lib.same_container_types(std, example):
            ctx.violation(f"{sig}:std-structure", f"u.std has structure {jax.tree_util.tree_structure(std)}", case)
            return
        for got, want in zip(lib.leaves_canonical(std), lib.leaves_canonical(example)):
            if tuple(np.shape(got)) != (nt,) + tuple(np.shape(want)):
                ctx.violation(f"{sig}:std-leaf-shape", f"leaf shape {np.shape(got)} vs (T,)+{np.shape(want)}", case)
                return
    obs = lib.observe(cfg, sol)
    check_leading_axis(ctx, cfg, obs, grid * problem.ctl[1], case, f"axis:{cfg.key()}")
    if kappa is None:
        ctx.skip("an accept/reject decision flips within 1e-12 (relative) of the problem: no comparison on this problem")
        return
    r = compare(ctx, f"tree.{cfg.fact}.{cfg.mode}", obs, ref_flat, TOL_TREE, case, sig, kappa)
    if r == "steps":
        ctx.violation(f"{sig}:steps", "structured and flattened problem take different numbers of steps", case)
    for kd in lib.spec_kinds(spec):
        ctx.count("tree:" + kd)
    ctx.count(f"tree:{cfg.fact}:{cfg.mode}:{cfg.container}")
    ctx.case(dict(what="tree", config=cfg.key(), spec=repr(spec), container=cfg.container))


def check_nojit(ctx, sv, problem, ref, kappa):
    import jax
    import jax.numpy as jnp

    cfg = sv.cfg
    case = {"what": "jit-vs-eager", "config": cfg.key(), "problem": problem.describe()}
    if kappa is None:
        return

    def go(pb):
        r = ref if pb is problem else sv.obs(pb)
        with jax.disable_jit():
            sol = sv.solve(*[jnp.asarray(x) for x in pb.theta()])
        return compare(ctx, f"jit.{cfg.fact}.{cfg.mode}", lib.observe(cfg, sol), r, TOL_JIT, case, f"jit:{cfg.key()}", kappa)

    with_retries(ctx, "jit vs disable_jit", problem, go, f"jit:{cfg.key()}", case)
    ctx.count(f"jit:{cfg.fact}:{cfg.mode}:{cfg.strategy}")
    ctx.case(dict(what="jit", config=cfg.key(), u0=problem.u0.tolist()))


def member(sol, i):
    import jax

    return jax.tree_util.tree_map(lambda x: x[i], sol)


def check_vmap(ctx, sv, problems):
    """vmap(solve)(batch) vs per-member solves; `problems` differ in stiffness / initial values"""
    import jax
    import jax.numpy as jnp

    cfg = sv.cfg
    case = {"what": "vmap", "config": cfg.key(), "batch": [p.describe() for p in problems]}
    sig = f"vmap:{cfg.key()}"
    stacked = [jnp.stack([jnp.asarray(p.theta()[k]) for p in problems]) for k in range(7)]
    try:
        batched = jax.jit(jax.vmap(sv.solve))(*stacked)
    except Exception as e:  # noqa: BLE001
        ctx.violation(f"{sig}:exception", f"vmap(solve) raised {type(e).__name__}: {str(e)[:300]}", case)
        return
    steps = []
    for i, p in enumerate(problems):
        ref = sv.obs(p)
        cand = lib.observe(cfg, member(batched, i))
        ci = dict(case, member=i)
        if "error" in ref or "error" in cand:
            compare(ctx, f"vmap.{cfg.fact}.{cfg.strategy}", cand, ref, TOL_VMAP, ci, sig)
            continue
        steps.append(int(ref["num_steps"][-1]))
        finite_ref = all(np.all(np.isfinite(ref[k])) for k in ("mean", "std", "output_scale"))
        if finite_ref and not all(np.all(np.isfinite(cand[k])) for k in ("mean", "std", "output_scale", "t")):
            ctx.violation(f"vmap:nan-leak:{cfg.key()}", f"member {i}: NaN/inf in the batched result where the per-member result is finite", ci)
            continue
        kappa = amplification(ctx, sv, p, ref)
        if kappa is None:
            ctx.skip("an accept/reject decision flips within 1e-12 (relative) of the problem: no comparison on this problem")
            continue
        r = compare(ctx, f"vmap.{cfg.fact}.{cfg.strategy}", cand, ref, TOL_VMAP, ci, sig, kappa)
        if r == "steps":
            # same compiled arithmetic per lane: a different step count is not a rounding effect of the comparison
            # itself; still treated as a discontinuity unless it persists (see with_retries)
            def go(pb, i=i, ci=ci):
                ps = list(problems)
                ps[i] = pb
                st2 = [jnp.stack([jnp.asarray(q.theta()[k]) for q in ps]) for k in range(7)]
                b2 = jax.jit(jax.vmap(sv.solve))(*st2)
                return compare(ctx, f"vmap.{cfg.fact}.{cfg.strategy}", lib.observe(cfg, member(b2, i)), sv.obs(pb), TOL_VMAP, ci, sig)

            pert = p.with_u0(p.u0 * (1.0 + 2.0**-12))
            ctx.skip("vmap: step counts differ - retried on a perturbed problem")
            with_retries(ctx, "vmap", pert, go, sig, ci)
    if not steps:
        return
    lo, hi = max(1, min(steps)), max(steps)
    ctx.count(f"vmap:{cfg.fact}:{cfg.strategy}:{cfg.calib}")
    ctx.count("vmap:step-count ratio >= 10x" if hi >= 10 * lo else ("vmap:step-count ratio >= 3x" if hi >= 3 * lo else "vmap:step-count ratio < 3x"))
    ctx.extra.setdefault("vmap_step_counts", []).append({"config": cfg.key(), "steps": steps})
    ctx.case(dict(what="vmap", config=cfg.key(), steps=steps))


def batch_problems(rng, d, nb, fixed=False):
    """members differ in stiffness, initial value, tolerance, time horizon and initial step (dt0 = 5 oversteps every
    checkpoint: the interpolation branches of the rejection loop run in that lane while other lanes are still stepping).
    Fixed grids: moderate stiffness and horizons <= 1 only (larger ones make the fixed-step recursion unstable; such runs
    have no meaningful digits to compare and would be skipped by the amplification guard anyway)."""
    base = lib.random_problem(rng, d)
    out = []
    stiffs = ([1.0, 2.0, 6.0, 3.0, 1.5, 4.0] if fixed else [1.0, 6.0, 40.0, 250.0, 2.0, 100.0])[:nb]
    for j, s in enumerate(stiffs):
        L = base.L.copy()
        L[-1, -1] = base.L[-1, -1] * s
        u0 = base.u0 * float(2.0 ** rng.integers(-1, 2)) if j else base.u0
        if j == 0:
            ctl = np.array([1.0, 1.0, 0.05])
        else:
            hor = [1.0, 0.5, 0.125] if fixed else [1.0, 0.5, 0.125, 2.0]
            ctl = np.array([float(10.0 ** rng.integers(-1, 2)), float(hor[int(rng.integers(len(hor)))]), float([0.05, 5.0, 1e-3][int(rng.integers(3))])])
        out.append(lib.Problem(d, u0, base.c, L, base.Q, base.g, base.lam, ctl))
    return out


def _num_leaves(spec):
    if spec[0] == "L":
        return 1
    children = spec[1] if spec[0] in ("T", "S") else [c for _, c in (spec[1] if spec[0] == "D" else spec[2])]
    return sum(_num_leaves(c) for c in children)


def _spec_multi_leaf(rng, d):
    """a random state structure with at least two array leaves"""
    for _ in range(50):
        spec = lib.random_spec(rng, d, force=["T", "D", "N"][int(rng.integers(3))])
        if _num_leaves(spec) >= 2:
            return spec
    return ("T", [("L", ()) for _ in range(d)])


def configs_for(ctx, fact, it):
    """(fixed-grid config, adaptive config) for this factorisation, rotating strategy / calibration / linearisation"""
    rng = ctx.rng
    calibs = ["mle", "solver", "dynamic"]
    lin_f = "ts1" if (fact == "dense" and rng.random() < 0.5) or (fact != "dense" and not ctx.quick and rng.random() < 0.3) else "ts0"
    lin_a = "ts1" if (fact == "dense" and rng.random() < 0.5) or (fact != "dense" and not ctx.quick and rng.random() < 0.3) else "ts0"
    q = int(rng.integers(2, 4))
    cf = Cfg(fact, ["fixedinterval", "filter"][int(rng.integers(2))], "fixed", lin=lin_f, calib=calibs[int(rng.integers(3))], q=q, ngrid=int(rng.integers(4, 8)), container=["list", "tuple", "namedtuple"][int(rng.integers(3))])
    ca = Cfg(fact, ["fixedpoint", "filter"][(it + int(rng.integers(2))) % 2], "adaptive", lin=lin_a, calib=calibs[int(rng.integers(3))], q=q, ngrid=int(rng.integers(3, 6)), tol=float(10.0 ** -int(rng.integers(2, 5))), container=["list", "tuple", "namedtuple"][int(rng.integers(3))],
             est=["residual", "state", "state1"][it % 3])
    return cf, ca


def solve_round(ctx, fact, rnd):
    """one round of real-solve comparisons for one factorisation"""
    rng = ctx.rng
    it = rnd + ctx.seed
    cf, ca = configs_for(ctx, fact, it)
    d = int(rng.integers(2, 5)) if not ctx.quick else int([3, 4, 2][(it + FACTS.index(fact)) % 3])
    problem = lib.random_problem(rng, d, equal_scales=(fact == "iso"))
    perms = lib.all_perms(d)
    if ctx.quick and len(perms) > 6:
        # all 24 permutations for one configuration per run, a sample for the other
        keep = [perms[int(i)] for i in rng.choice(len(perms), size=6, replace=False)]
    else:
        keep = perms
    t0 = time.time()
    svf, sva = Solves(cf), Solves(ca)
    ref_f, kap_f = check_perms(ctx, svf, problem, perms if len(perms) <= 24 else keep)
    ref_a, kap_a = check_perms(ctx, sva, problem, keep)
    # pytree vs flat: one structure per round, alternating fixed / adaptive
    cfg_t, ref_t, kap_t = (cf, ref_f, kap_f) if (it + FACTS.index(fact)) % 2 == 0 else (ca, ref_a, kap_a)
    if rnd == 0 and fact == FACTS[ctx.seed % 3]:
        # corpus: the crazy pytree of probdiffeq.backend.ode.ivp_lotka_volterra (d = 2)
        p2 = lib.random_problem(rng, 2, equal_scales=(fact == "iso"))
        sv2 = Solves(cfg_t)
        ref2 = sv2.obs(p2)
        check_tree(ctx, cfg_t, p2, lib.CRAZY, ref2, amplification(ctx, sv2, p2, ref2))
    else:
        spec = lib.random_spec(rng, d)
        check_tree(ctx, cfg_t, problem, spec, ref_t, kap_t)
    if fact == FACTS[(ctx.seed + rnd + 2) % 3]:
        # both error estimators read the state through pytree helpers (number of Taylor coefficients = contraction rate,
        # reference coefficient): one adaptive pytree-vs-flat comparison per estimator family in every run, whatever the rotation
        # ("state1" alone is not enough: with derivative_idx = 1 per unit step the runs are so easy that every step is clipped to
        # a checkpoint and the controller's exponent - the contraction rate read through the pytree helper - never matters; C15-s10)
        for est in ("residual", "state", "state1"):
            cfg_e = dataclasses.replace(ca, est=est)
            if cfg_e == cfg_t:
                continue
            sv_e = Solves(cfg_e)
            ref_e = sv_e.obs(problem)
            check_tree(ctx, cfg_e, problem, _spec_multi_leaf(rng, d), ref_e, amplification(ctx, sv_e, problem, ref_e))
    if not ctx.quick:
        # thorough: a second structure with the other configuration
        cfg_o, ref_o, kap_o = (ca, ref_a, kap_a) if cfg_t is cf else (cf, ref_f, kap_f)
        check_tree(ctx, cfg_o, problem, lib.random_spec(rng, d), ref_o, kap_o)
    # jit vs eager: the cheaper configuration in the quick tier
    if ctx.quick:
        # eager execution is slow (every primitive is dispatched separately): one factorisation per quick run
        if fact == FACTS[(ctx.seed + 1) % 3]:
            check_nojit(ctx, svf, problem, ref_f, kap_f) if it % 2 == 0 else check_nojit(ctx, sva, problem, ref_a, kap_a)
    else:
        check_nojit(ctx, svf, problem, ref_f, kap_f)
        check_nojit(ctx, sva, problem, ref_a, kap_a)
    # vmap over members with widely different step counts (adaptive), and over a fixed grid
    nb = 3 if ctx.quick else int(rng.integers(3, 7))
    check_vmap(ctx, sva, batch_problems(rng, d, nb))
    if not ctx.quick:
        check_vmap(ctx, svf, batch_problems(rng, d, 3, fixed=True))
    ctx.extra.setdefault("round_seconds", []).append(round(time.time() - t0, 1))


def run(ctx):
    import jax

    jax.config.update("jax_enable_x64", True)
    ctx.rule = (
        "(1) coefficient containers (list/tuple/namedtuple) of n <= 5 coefficients with random nested dict/tuple/list/namedtuple "
        "structure, leaves of rank 0..3, d <= 6 scalars, filled with distinct integers: flatten_tree / unflatten_array / "
        "to_multivariate_normal of the three factorisations vs the Lean index maps (exact); (2) vmap(while_loop) of the real backend on "
        "integer loops with lane iteration counts 0..118 vs the model; (3)-(6) random dissipative quadratic IVPs with dyadic coefficients, "
        "d in 2..4, per-component base scales, q in {2,3}; {dense,iso,bd} x {filter, fixed-interval, fixed-point} x {fixed grid, adaptive save_at} "
        "x {TS0,TS1} x {solver, mle, dynamic}: all permutations of the components, structured vs flattened state, jit vs disable_jit, "
        "vmap over batches with stiffness 1..250 vs per-member solves.  distinct = different (config, problem, permutation / structure / batch)"
    )
    ctx.assumptions += [
        "partial by design: jit/vmap/pytree-registry semantics are JAX behaviour; the model takes the documented semantics as definitions and the check compares the real backend with them on samples",
        "isotropic u.std is one scalar per Taylor coefficient (caller's coefficient container with scalar leaves) by construction of the isotropic factorisation; this is treated as the caller's structure",
        "adaptive comparisons require equal step counts; a flip of an accept/reject decision under a rounding-level perturbation is a discontinuity of the solver map: skipped, counted, retried on a neighbouring problem",
        "Taylor-coefficient containers are sequences (list / tuple / namedtuple), as verify_taylor_coefficient_pytree requires",
    ]
    corpus(ctx)
    check_ravel(ctx)
    check_backend_while(ctx)
    check_transition_perm(ctx)
    rounds = ctx.n(1, 6)
    for it in range(rounds):
        for fact in FACTS:
            solve_round(ctx, fact, it)
