"""C13 — Posterior samples are exact affine images of the normal draws.

`probdiffeq.backend.random.normal` is replaced *inside the harness process* by a host callback that records the key
it is called with and returns a prescribed draw for that key (zero when none is prescribed).  With that,
`MarkovSequence.sample` of the real code becomes a deterministic function of the draws and is compared with the
Lean model `Pdq.Model.Sample` (`smp_chain`: `x_0 = m + L_0 xi_0`, `x_{j+1} = cond_j.apply_flat(x_j).mean + L_{j+1} xi_{j+1}`)
on the same exact inputs (means, conditionals, factors `L` as dyadic rationals):

* zero draws -> the smoothing means (`evaluate_marginals`, `solution.u.mean`, model `smp_marginals`);
* dyadic random draws and unit draws -> exact affine image; the columns `M e_i` of the linear part give the Gram
  matrix `M M^T`, compared with the joint smoothing covariance built independently on the Python side from the
  backward factorisation in exact `Fraction`s (`Cov(x_j, x_l) = G_j ... G_{l-1} P_l`), embedded densely as the
  factorisation prescribes (isotropic / block-diagonal: independent dimensions);
* shapes `()`, `(n,)`, `(n, m)`: leaves get the shape prepended; the keys seen by `normal` are exactly the keys of the
  model's splitting tree (`smp_keys`), pairwise distinct, one per node and entry; entry-wise prescribed draws land in
  the entry and node the model says;
* posteriors of real smoother runs (three factorisations, non-unit preconditioners, non-zero backward offsets),
  pytree-valued states, and `MarkovSequence.from_grid(prior, grid, reverse)` (conditionals vs the model's `from_grid`).
"""

from __future__ import annotations

import math
from fractions import Fraction

import numpy as np

from harness import core, gen, problems
from harness import solvermodel as sm
from harness.core import Cut, F

PROPS_MODULES = ["Pdq.Props.C13"]
LEVEL = "proof"
TOL = 1e-11  # relative to the magnitude of the summands of the affine recursion (float replica)
TOL_GRAM = 1e-7  # Gram matrix from differences of float samples, relative to sqrt(S_ii S_jj)
EXPLANATION = (
    "theorems sample_affine / sample_zero_draws / sample_gram / prior_grid_law / sample_shape (+ key distinctness) about the "
    "executable model of MarkovSequence.sample; correspondence with recorded draws on the real code"
)


ISO_SNIPPET = """import jax, jax.numpy as jnp, numpy as np
jax.config.update("jax_enable_x64", True)
from probdiffeq._probdiffeq import ssm_impl_isotropic as iso
rv = iso.IsotropicNormal.from_mean_and_std([jnp.array([1.0, 2.0])], [jnp.asarray(0.5)])   # q = 0, d = 2
print(rv.to_multivariate_normal()[1])          # [[0.25, 0], [0, 0.25]]  (C (x) I_d)
X = np.asarray(jax.vmap(rv.sample_flat)(jax.random.split(jax.random.PRNGKey(0), 20000))).reshape(20000, -1)
print(np.cov(X.T))                             # [[0.25, 0.25], [0.25, 0.25]]: both dimensions share the draw
"""

# ------------------------------------------------------------------------------------------------
# recorded draws


class Draws:
    """replacement of probdiffeq.backend.random.normal: looks the draw up by key, logs (key, shape)"""

    def __init__(self):
        self.table, self.log, self._orig = {}, [], None

    def install(self):
        import jax
        import probdiffeq.backend.random as prandom

        self._orig = prandom.normal
        rec = self

        def normal(key, /, shape, dtype=None):
            dt = np.float64 if dtype is None else dtype
            shape = tuple(int(s) for s in shape)

            def host(k):
                kb = tuple(int(x) for x in np.asarray(k).reshape(-1))
                rec.log.append((kb, shape))
                v = rec.table.get(kb)
                return np.zeros(shape, dt) if v is None else np.asarray(v, dt).reshape(shape)

            return jax.pure_callback(host, jax.ShapeDtypeStruct(shape, dt), key, vmap_method="sequential")

        prandom.normal = normal

    def uninstall(self):
        import probdiffeq.backend.random as prandom

        if self._orig is not None:
            prandom.normal = self._orig


def keybytes(k):
    return tuple(int(x) for x in np.asarray(k).reshape(-1))


def key_of_path(key, path, shape):
    """the jax key reached from `key` along a model key path (first len(shape) splits have num = shape[j], then num = 2)"""
    import jax

    for j, i in enumerate(path):
        num = shape[j] if j < len(shape) else 2
        key = jax.random.split(key, num=num)[i]
    return key


# ------------------------------------------------------------------------------------------------
# abstraction of a MarkovSequence into exact slices in visiting order


def fabs(x):
    return x if x >= 0 else -x


def chain_of(fact, seq):
    """-> dict(reverse, N, slices=[{mean, L0, nodes=[(bw, L)]}]) ; nodes in visiting order"""
    import jax

    seq = seq.remove_filtering_distributions()
    cnt = int(np.asarray(seq.conditional.A).shape[0])
    order = list(range(cnt - 1, -1, -1)) if seq.reverse else list(range(cnt))
    m = np.asarray(seq.marginal.mean_flat, dtype=np.float64)
    L = np.asarray(seq.marginal.cholesky_flat, dtype=np.float64)
    if fact == "dense":
        heads = [(sm.fvec(m), sm.fmat(L))]
    elif fact == "iso":
        heads = [(sm.fvec(m[:, a]), sm.fmat(L)) for a in range(m.shape[1])]
    else:
        heads = [(sm.fvec(m[a]), sm.fmat(L[a])) for a in range(m.shape[0])]
    slices = [{"mean": h[0], "L0": h[1], "nodes": []} for h in heads]
    for t in order:
        c = jax.tree_util.tree_map(lambda s: s[t], seq.conditional)
        cs = sm.cond_slices(fact, c)
        Ln = np.asarray(c.noise.cholesky_flat, dtype=np.float64)
        for a, sl in enumerate(slices):
            La = sm.fmat(Ln if fact != "bd" else Ln[a])
            to = cs[a]["to"]
            Lsc = np.array([[fabs(to[i]) * La[i, j] for j in range(La.shape[1])] for i in range(La.shape[0])], dtype=object)
            sl["nodes"].append((cs[a], Lsc))
    return {"reverse": bool(seq.reverse), "N": cnt + 1, "slices": slices, "seq": seq}


def draws_to_slices(fact, nsl, base):
    """base: array returned by `normal` for one node -> xi per slice"""
    base = np.asarray(base, dtype=np.float64)
    if fact == "dense":
        return [sm.fvec(base)]
    if fact == "iso":
        # the shipped code draws one (q+1,)-vector shared by all dimensions; an implementation with one draw per
        # dimension hands out a (q+1, d) array (column a belongs to dimension a)
        if base.ndim == 1:
            return [sm.fvec(base) for _ in range(nsl)]
        return [sm.fvec(base[:, a]) for a in range(nsl)]
    return [sm.fvec(base[a]) for a in range(nsl)]


def sample_to_slices(fact, leaves, N):
    """leaves: list over coefficients of arrays (N, d) (one un-batched sample) -> per slice (N, n) floats, time order"""
    X = np.stack([np.asarray(l, dtype=np.float64).reshape(N, -1) for l in leaves], axis=1)  # (N, q+1, d)
    d = X.shape[2]
    if fact == "dense":
        return [X.reshape(N, -1)]
    return [X[:, :, a] for a in range(d)]


def coeff_leaves(tree_sample):
    """list over Taylor coefficients of arrays (..., N, d_flat): leaves of each coefficient raveled and concatenated"""
    import jax

    out = []
    for coeff in tree_sample:
        ls = jax.tree_util.tree_leaves(coeff)
        out.append(ls)
    return out


def flatten_coeffs(tree_sample, lead, N):
    """-> list over coefficients of arrays lead + (N, d): each coefficient's leaves raveled (ravel_pytree order)"""
    import jax

    out = []
    for coeff in tree_sample:
        ls = [np.asarray(x, dtype=np.float64) for x in jax.tree_util.tree_leaves(coeff)]
        ls = [x.reshape(lead + (N, -1)) for x in ls]
        out.append(np.concatenate(ls, axis=-1))
    return out


# ------------------------------------------------------------------------------------------------
# model calls


def model_chain(ctx, ch, xis):
    """xis[j][a]: draw of slice a at visited node j (j = 0: stored marginal). -> per slice (N, n) exact, code order"""
    out = []
    for a, sl in enumerate(ch["slices"]):
        n, p = sl["L0"].shape
        args = [sl["mean"], sl["L0"], xis[0][a]]
        for j, (bw, L) in enumerate(sl["nodes"]):
            args += sm.pc_args(bw) + [L, xis[j + 1][a]]
        ans = Cut(ctx.drv.call("smp_chain", n, p, int(ch["reverse"]), len(sl["nodes"]), *args))
        out.append(np.array([ans.take(n) for _ in range(ch["N"])], dtype=object))
        ans.done()
    return out


def magnitude(ch, xis):
    """float replica of the recursion with absolute values: the size of the summands each sample entry is built from"""
    out = []
    for a, sl in enumerate(ch["slices"]):
        mag = np.abs(sm.tofloat(sl["mean"])) + np.abs(sm.tofloat(sl["L0"])) @ np.abs(sm.tofloat(xis[0][a]))
        seq = [mag]
        for j, (bw, L) in enumerate(sl["nodes"]):
            A, b, tl, to = (np.abs(sm.tofloat(bw[k])) for k in ("A", "b", "tl", "to"))
            mag = to * (A @ (tl * mag) + b) + np.abs(sm.tofloat(L)) @ np.abs(sm.tofloat(xis[j + 1][a]))
            seq.append(mag)
        arr = np.array(seq)
        out.append(arr[::-1] if ch["reverse"] else arr)
    return out


def den_exact(c):
    A, b, Q, tl, to = c["A"], c["b"], c["Q"], c["tl"], c["to"]
    n = len(b)
    G = np.array([[to[i] * A[i, j] * tl[j] for j in range(n)] for i in range(n)], dtype=object)
    bb = np.array([to[i] * b[i] for i in range(n)], dtype=object)
    QQ = np.array([[to[i] * Q[i, j] * to[j] for j in range(n)] for i in range(n)], dtype=object)
    return G, bb, QQ


def joint_cov(sl, reverse, exact):
    """joint covariance of all visited states of one slice, in code order, from (P_0 = L0 L0^T, G_j, Q_j = gram of the
    conditional's own noise): Cov(x_j, x_l) = G_{j-1} ... G_l Cov(x_l), j >= l in visiting order.  Independent of the
    model (Python Fractions or float64)."""
    conv = (lambda a: a) if exact else sm.tofloat
    P = conv(sm.gramf(sm.tofloat(sl["L0"]))) if exact else sm.tofloat(sl["L0"]) @ sm.tofloat(sl["L0"]).T
    dens = [tuple(conv(x) for x in den_exact(bw)) for bw, _L in sl["nodes"]]
    N, n = len(dens) + 1, sl["L0"].shape[0]
    covs = [P]
    for G, _b, Q in dens:
        covs.append(G.dot(covs[-1]).dot(G.T) + Q)
    Sig = np.empty((N * n, N * n), dtype=object if exact else np.float64)
    for l in range(N):
        C = covs[l]
        for j in range(l, N):
            if j > l:
                C = dens[j - 1][0].dot(C)
            Sig[j * n : (j + 1) * n, l * n : (l + 1) * n] = C
            Sig[l * n : (l + 1) * n, j * n : (j + 1) * n] = C.T
    if reverse:
        idx = np.concatenate([np.arange((N - 1 - t) * n, (N - t) * n) for t in range(N)])
        Sig = Sig[np.ix_(idx, idx)]
    return Sig


# ------------------------------------------------------------------------------------------------
# checks on one Markov sequence


def check_sequence(ctx, rec, fact, seq, case, sigp, means_ref=None, nunit=None, shapes=((), (2,), (2, 3))):
    import jax
    import jax.numpy as jnp

    ch = chain_of(fact, seq)
    seq = ch["seq"]
    N, nsl = ch["N"], len(ch["slices"])
    key = jax.random.PRNGKey(int(ctx.rng.integers(0, 2**31 - 1)))
    jsample = jax.jit(lambda k: seq.sample(k, shape=()))

    def run(table):
        rec.table, rec.log = dict(table), []
        out = jsample(key)
        jax.block_until_ready(out)
        log = list(rec.log)
        return flatten_coeffs(out, (), N), log

    # ---- zero draws
    leaves0, log0 = run({})
    if len(log0) != N:
        ctx.violation(f"{sigp}:keys:count", f"normal was called {len(log0)} times for a chain with {N} nodes", case)
        return
    keys = [k for k, _ in log0]
    shp = log0[0][1]
    # one independent standard-normal entry per column of the stored factor: dense (n d,), isotropic (n, d), block-diagonal
    # (d, n); fewer entries mean that several coordinates share a draw (repository fix 186ceff for the isotropic model;
    # seeded change C13-s11 for the block-diagonal one)
    p0 = int(ch["slices"][0]["L0"].shape[1])
    want_shp = {"dense": (p0,), "iso": (p0, nsl), "bd": (nsl, p0)}[fact]
    if tuple(shp) != want_shp or any(tuple(sh) != want_shp for _, sh in log0):
        ctx.violation(f"{sigp}:draws:shape", f"sample_flat draws standard normals of shape {tuple(shp)}; one independent draw per factor column needs {want_shp}", case)
        return
    if len(set(keys)) != N:
        ctx.violation(f"{sigp}:keys:reused", f"the {N} nodes of one sample consumed only {len(set(keys))} distinct keys", case)
    want_paths = ctx.drv.call_raw("smp_keys", N - 1, 0)
    want_keys = [keybytes(key_of_path(key, [int(x) for x in p.split(".")], ())) for p in want_paths]
    if keys != want_keys:
        ctx.violation(f"{sigp}:keys:tree", "the keys handed to sample_flat are not those of the model's splitting tree (key, subkey = split(key, 2) per node)", case)
    zero = [draws_to_slices(fact, nsl, np.zeros(shp)) for _ in range(N)]
    got0 = sample_to_slices(fact, leaves0, N)
    mod0 = model_chain(ctx, ch, zero)
    mag0 = magnitude(ch, zero)
    for a in range(nsl):
        dv = float(np.max(np.abs(got0[a] - sm.tofloat(mod0[a])) / np.maximum(mag0[a], 1e-300)))
        ctx.dev("zero-draws.sample", dv, TOL, case=dict(case, slice=a), sig=f"{sigp}:zero-draws",
                what=f"sample with all draws zero deviates {dv:.2e} from the model (smoothing means)")
    # the model's zero-draw samples are the means of evaluate_marginals (theorem sample_zero_draws): cross-check with the op
    for a, sl in enumerate(ch["slices"]):
        n = len(sl["mean"])
        args = []
        for bw, _L in sl["nodes"]:
            args += sm.pc_args(bw)
        P0 = sm.gramf(sm.tofloat(sl["L0"]))
        ans = Cut(ctx.drv.call("smp_marginals", n, N - 1, sl["mean"], P0, *args))
        mm = []
        for _ in range(N):
            mm.append(ans.take(n))
            ans.take(n, n)
        mm = np.array(mm[::-1] if ch["reverse"] else mm, dtype=object)
        if not np.all(mm == mod0[a]):
            ctx.violation(f"{sigp}:model:zero-draws-vs-marginals", "model: zero-draw samples differ from evalMarginals means", case)
    if means_ref is not None:
        ref = sample_to_slices(fact, flatten_coeffs(means_ref, (), N), N)
        for a in range(nsl):
            dv = float(np.max(np.abs(got0[a] - ref[a]) / np.maximum(mag0[a], 1e-300)))
            ctx.dev("zero-draws.vs-marginal-means", dv, 1e-9, case=dict(case, slice=a), sig=f"{sigp}:zero-draws-vs-u",
                    what=f"sample with all draws zero deviates {dv:.2e} from the marginal means of the solution")
    # ---- random dyadic draws: exact affine image
    table, xis = {}, []
    for j in range(N):
        base = gen.dyadic(ctx.rng, shp, bits=4, scale=4.0)
        table[keys[j]] = base
        xis.append(draws_to_slices(fact, nsl, base))
    leaves, _ = run(table)
    got = sample_to_slices(fact, leaves, N)
    mod = model_chain(ctx, ch, xis)
    mag = magnitude(ch, xis)
    for a in range(nsl):
        dv = float(np.max(np.abs(got[a] - sm.tofloat(mod[a])) / np.maximum(mag[a], 1e-300)))
        ctx.dev("affine.sample", dv, TOL, case=dict(case, slice=a, draws=[np.asarray(table[k]).tolist() for k in keys]), sig=f"{sigp}:affine",
                what=f"sample deviates {dv:.2e} from the model's affine image of the draws")
    # ---- unit draws -> columns of M -> Gram vs joint covariance
    p = int(np.prod(shp))
    units = [(j, i) for j in range(N) for i in range(p)]
    if nunit is not None and len(units) > nunit:
        full = False
        sel = ctx.rng.choice(len(units), size=nunit, replace=False)
        units = [units[int(s)] for s in sorted(sel)]
    else:
        full = True
    n_sl = ch["slices"][0]["L0"].shape[0]
    M = np.zeros((nsl, N * n_sl, len(units)))
    colsc = np.ones(len(units))
    flat0 = [g.reshape(-1) for g in got0]
    for c_, (j, i) in enumerate(units):
        e = np.zeros(p)
        e[i] = 1.0
        # scale the unit draw so that the perturbation is not lost against the mean (exact power of two)
        Lmax = max(float(np.max(np.abs(sm.tofloat(sl["L0"] if j == 0 else sl["nodes"][j - 1][1])))) for sl in ch["slices"])
        mmax = max(float(np.max(np.abs(g))) for g in got0)
        sc = 2.0 ** int(np.clip(np.round(np.log2(max(mmax, 1e-300) / max(Lmax, 1e-300))), 0, 60)) if Lmax > 0 else 1.0
        base = (e * sc).reshape(shp)
        colsc[c_] = sc
        lv, _ = run({keys[j]: base})
        gs = sample_to_slices(fact, lv, N)
        xi1 = [draws_to_slices(fact, nsl, base if jj == j else np.zeros(shp)) for jj in range(N)]
        if c_ < 3:
            md = model_chain(ctx, ch, xi1)
            mg = magnitude(ch, xi1)
            for a in range(nsl):
                dv = float(np.max(np.abs(gs[a] - sm.tofloat(md[a])) / np.maximum(mg[a], 1e-300)))
                ctx.dev("unit-draw.sample", dv, TOL, case=dict(case, slice=a, node=j, component=i, scale=sc), sig=f"{sigp}:unit-draw",
                        what=f"sample with one unit draw deviates {dv:.2e} from the model")
        for a in range(nsl):
            M[a, :, c_] = (gs[a].reshape(-1) - flat0[a]) / sc
    if full:
        check_gram(ctx, ch, fact, M, [m_.reshape(-1) for m_ in mag0], colsc, case, sigp)
    # ---- shapes
    for shape in shapes:
        if shape == ():
            continue
        check_shape(ctx, rec, ch, fact, seq, key, shape, shp, case, sigp)
    ctx.count(f"units={'all' if full else 'subset'}")


def check_gram(ctx, ch, fact, M, mags, colsc, case, sigp):
    """M[a]: (N n, all draws) linear part of slice a, obtained as (sample(sc e_i) - sample(0)) / sc in float: every entry
    carries an absolute error ~ eps * mag / sc, which is propagated into an entrywise allowance for M M^T.
    Embedding: dense one slice; iso / bd independent dimensions."""
    nsl = M.shape[0]
    small = M.shape[1] <= 40
    eps = np.finfo(float).eps
    for a in range(nsl):
        Sig = sm.tofloat(joint_cov(ch["slices"][a], ch["reverse"], exact=True)) if small else joint_cov(ch["slices"][a], ch["reverse"], exact=False)
        ctx.count("joint covariance: exact" if small else "joint covariance: float")
        G = M[a] @ M[a].T
        dM = 8.0 * eps * np.outer(mags[a], 1.0 / colsc)
        err = np.abs(M[a]) @ dM.T + dM @ np.abs(M[a]).T + dM @ dM.T
        sd = np.sqrt(np.maximum(np.diag(Sig), 0.0))
        allowed = TOL_GRAM * np.outer(sd, sd) + 100.0 * err + np.finfo(float).tiny
        dv = float(np.max(np.abs(G - Sig) / allowed)) * TOL_GRAM
        ctx.dev("gram", dv, TOL_GRAM, case=dict(case, slice=a), sig=f"{sigp}:gram",
                what=f"Gram matrix of the sampling map deviates {dv:.2e} (relative to sqrt(S_ii S_jj), after the differencing allowance) from the joint smoothing covariance")
        if a == 0:
            for b in range(1, nsl):
                X = M[0] @ M[b].T
                errx = np.abs(M[0]) @ dM.T + dM @ np.abs(M[b]).T + dM @ dM.T
                rel = np.abs(X) / (np.outer(sd, sd) + 1e6 * errx + np.finfo(float).tiny)
                dvx = float(np.max(rel))
                if dvx > 1e-3:
                    sig = "iso:sample_flat:draws-shared-across-dimensions" if fact == "iso" else f"{sigp}:gram:cross-dimension"
                    ctx.violation(sig, f"{fact}: the law is a product over the d state dimensions (covariance C (x) I_d, as to_multivariate_normal / logpdf of the same class say), "
                                  f"but samples of dimension 0 and {b} have cross-Gram {dvx:.3f} (relative; 1 = perfectly correlated): all dimensions share one draw", dict(case, dims=[0, b]),
                                  theorem="Pdq.C13.sample_gram (Gram of the sampling map = joint covariance, independent dimensions) / Pdq.C13.iso_shared_draws_gram_violated (negation for a shared draw)" if fact == "iso" else "Pdq.C13.sample_gram",
                                  snippet=ISO_SNIPPET if fact == "iso" else None)
                    break


def check_shape(ctx, rec, ch, fact, seq, key, shape, shp, case, sigp):
    import jax

    N, nsl = ch["N"], len(ch["slices"])
    nent = int(np.prod(shape))
    # model keys per entry
    want = {}
    for idx in np.ndindex(*shape):
        paths = ctx.drv.call_raw("smp_keys", N - 1, len(shape), *[int(s) for s in shape], *[int(i) for i in idx])
        want[idx] = [keybytes(key_of_path(key, [int(x) for x in p.split(".")], shape)) for p in paths]
    outside = ctx.drv.call_raw("smp_keys", N - 1, len(shape), *[int(s) for s in shape], *([int(shape[0])] + [0] * (len(shape) - 1)))
    if outside != ["-"]:
        raise core.HarnessError("model: entry outside the shape has keys")
    table, xis = {}, {}
    for idx in np.ndindex(*shape):
        xis[idx] = []
        for j in range(N):
            base = gen.dyadic(ctx.rng, shp, bits=3, scale=2.0)
            table[want[idx][j]] = base
            xis[idx].append(draws_to_slices(fact, nsl, base))
    rec.table, rec.log = dict(table), []
    out = seq.sample(key, shape=tuple(shape))
    jax.block_until_ready(out)
    log = list(rec.log)
    c = dict(case, shape=list(shape))
    # shapes of the leaves
    for coeff, coeff0 in zip(out, seq.marginal.mean):
        for leaf, leaf0 in zip(jax.tree_util.tree_leaves(coeff), jax.tree_util.tree_leaves(coeff0)):
            if tuple(np.shape(leaf)) != tuple(shape) + (N,) + tuple(np.shape(leaf0)):
                ctx.violation(f"{sigp}:shape", f"sample(shape={shape}) returned a leaf of shape {np.shape(leaf)}; expected {tuple(shape) + (N,) + tuple(np.shape(leaf0))}", c)
                return
    seen = [k for k, _ in log]
    if len(seen) != nent * N or len(set(seen)) != nent * N:
        ctx.violation(f"{sigp}:keys:reused", f"sample(shape={shape}): normal called {len(seen)} times with {len(set(seen))} distinct keys; expected {nent * N} distinct", c)
    allwant = {k for ks in want.values() for k in ks}
    if set(seen) != allwant:
        ctx.violation(f"{sigp}:keys:tree", f"sample(shape={shape}): keys are not those of the model's splitting tree", c)
    leaves = flatten_coeffs(out, tuple(shape), N)
    for idx in list(np.ndindex(*shape)):
        gs = sample_to_slices(fact, [l[idx] for l in leaves], N)
        md = model_chain(ctx, ch, xis[idx])
        mg = magnitude(ch, xis[idx])
        for a in range(nsl):
            dv = float(np.max(np.abs(gs[a] - sm.tofloat(md[a])) / np.maximum(mg[a], 1e-300)))
            ctx.dev("shaped.sample", dv, TOL, case=dict(c, entry=list(idx), slice=a), sig=f"{sigp}:shaped-entry",
                    what=f"entry {idx} of sample(shape={shape}) deviates {dv:.2e} from the model sample with the draws of that entry's keys")
    ctx.count(f"shape={tuple(shape)}")


# ------------------------------------------------------------------------------------------------
# sources of Markov sequences


def posterior_from_run(cfg, field, u0s, t0, hs):
    from harness.checks import c12

    sol, objs = c12.make_solution(cfg, field, u0s, t0, hs)
    return sol, objs


def pytree_posterior(fact, q, t0, hs):
    """fixed-grid fixed-interval smoother on a pytree-valued state {"a": (2,), "b": ()} (d = 3)"""
    import jax.numpy as jnp
    from probdiffeq import ivpsolve
    from probdiffeq import probdiffeq as pdq

    ssm = {"dense": pdq.state_space_model_dense, "iso": pdq.state_space_model_isotropic, "bd": pdq.state_space_model_blockdiag}[fact]()

    def vf(u, /, *, t):
        return {"a": jnp.stack([0.5 * u["a"][1] - u["a"][0] * u["b"], -0.25 * u["a"][0] + t]), "b": 0.125 - 0.5 * u["b"] * u["b"]}

    ode = pdq.ode(vf, jacobian=pdq.jacobian_materialize())
    u0 = {"a": jnp.asarray([0.5, -0.25]), "b": jnp.asarray(0.75)}
    tcoeffs, _ = pdq.jetexpand_ode_padded_scan(num=q)(ode, (u0,), t=jnp.asarray(t0))
    prior = ssm.prior_wiener_integrated(tcoeffs, is_exact=False, inexact_eps=2.0**-6)
    solver = pdq.solver(strategy=pdq.strategy_smoother_fixedinterval(), constraint=ssm.constraint_ode_ts0(ode))
    grid = np.concatenate([[t0], t0 + np.cumsum(hs)])
    sol = ivpsolve.solve_fixed_grid(solver=solver)(prior, grid=jnp.asarray(grid), damp=0.0)
    return sol, prior


def check_from_grid(ctx, rec, cfg, d, prior, lam, grid, reverse, case, sigp):
    """MarkovSequence.from_grid vs the model's fromGridConds, then the sampling checks on it"""
    import jax
    import jax.numpy as jnp
    from probdiffeq._probdiffeq.estimators_and_losses import MarkovSequence

    seq = MarkovSequence.from_grid(prior, grid=jnp.asarray(grid), reverse=reverse)
    cnt = len(grid) - 1
    order = list(range(cnt - 1, -1, -1)) if reverse else list(range(cnt))
    q = cfg.q
    gridF = [F(float(x)) for x in np.asarray(grid, dtype=np.float64)]
    # np.diff in float: the code sees float differences; hand those to the model as a telescoping grid
    diffs = [F(float(x)) for x in np.diff(np.asarray(grid, dtype=np.float64))]
    tele = [Fraction(0)]
    for h in diffs:
        tele.append(tele[-1] + h)
    nsl = 1 if cfg.fact == "dense" else d
    for a in range(nsl):
        if cfg.fact == "dense":
            n = (q + 1) * d
            ans = Cut(ctx.drv.call("smp_from_grid", 0, q, d, Fraction(1), [l * l for l in lam], int(reverse), len(tele), tele))
        else:
            n = q + 1
            ans = Cut(ctx.drv.call("smp_from_grid", 1, q, 0, lam[a] * lam[a], int(reverse), len(tele), tele))
        for t in order:
            cm = sm.read_pcond(ans, n, n)
            ci = sm.cond_slices(cfg.fact, jax.tree_util.tree_map(lambda s: s[t], seq.conditional))[a]
            for k in ("A", "b", "tl", "to"):
                xi, xm = sm.tofloat(ci[k]), sm.tofloat(cm[k])
                dv = float(np.max(np.abs(xi - xm) / np.maximum(np.abs(xm), 1e-300 + (0.0 if k != "b" else 1.0)))) if xi.size else 0.0
                ctx.dev(f"from_grid.{k}", dv, 1e-12, case=dict(case, interval=t, slice=a), sig=f"{sigp}:from_grid:{k}",
                        what=f"from_grid conditional {t}: {k} deviates {dv:.2e} from the prior transition over diff(grid)[{t}]")
            Qi, Qm = sm.tofloat(ci["Q"]), sm.tofloat(cm["Q"])
            sdq = np.sqrt(np.diag(Qm))
            dv = float(np.max(np.abs(Qi - Qm) / np.outer(sdq, sdq)))
            ctx.dev("from_grid.Q", dv, 1e-10, case=dict(case, interval=t, slice=a), sig=f"{sigp}:from_grid:Q",
                    what=f"from_grid conditional {t}: noise covariance deviates {dv:.2e} from the prior transition")
        ans.done()
    m0 = np.asarray(seq.marginal.mean_flat)
    if not (np.array_equal(m0, np.asarray(prior.init.mean_flat)) and np.array_equal(np.asarray(seq.marginal.cholesky_flat), np.asarray(prior.init.cholesky_flat))):
        ctx.violation(f"{sigp}:from_grid:marginal", "from_grid does not store prior.init as the marginal", case)
    check_sequence(ctx, rec, cfg.fact, seq, case, sigp + ":from_grid", nunit=6, shapes=((), (3,)))


# ------------------------------------------------------------------------------------------------


def corpus(ctx, rec):
    """(a) D2 (fixed in /repo, commit 0fb64d4): isotropic apply_flat did not scale the offset by to_observed -> every sample of
    an isotropic posterior was wrong, zero draws included; logistic-type ODE, d = 1, all factorisations.
    (b) NEW: IsotropicNormal.sample_flat shares one draw between all state dimensions (d = 2 prior on a two-point grid)."""
    from harness.checks import c02

    field = problems.PolyField(1, 1, [[(Fraction(1), (1, 0)), (Fraction(-1), (2, 0))]])
    for fact in ("iso", "dense", "bd"):
        cfg = sm.Config(fact=fact, solver="solver", strategy="fixedinterval", lin="ts0", q=2, init="inexact")
        hs = [0.125, 0.25, 0.125]
        sol, _ = posterior_from_run(cfg, field, [np.array([0.125])], 0.0, hs)
        case = {"corpus": "D2-logistic", "fact": fact, "steps": hs}
        check_sequence(ctx, rec, fact, sol.solution_full.posterior, case, f"{fact}:run", means_ref=sol.u.mean, shapes=((), (2,)) if fact == "iso" else ((),))
        ctx.case(case)
    field2 = problems.PolyField(2, 1, [[(Fraction(1), (0, 1, 0))], [(Fraction(-1), (1, 0, 0))]])
    cfg = sm.Config(fact="iso", q=1, init="inexact", inexact_eps=0.5)
    objs = sm.build(cfg, field2, [np.array([1.0, 0.5])], 0.0)
    case = {"corpus": "iso-shared-draws", "fact": "iso", "d": 2, "q": 1, "grid": [0.0, 0.5]}
    check_from_grid(ctx, rec, cfg, 2, objs["prior"], c02.lam_of(cfg, 2), [0.0, 0.5], False, case, "iso:prior")
    ctx.case(case)


def run(ctx):
    import warnings

    import jax

    from harness.checks import c02, c12

    jax.config.update("jax_enable_x64", True)
    warnings.filterwarnings("ignore")
    ctx.rule = (
        "Markov sequences: posteriors of real smoother runs ({dense, iso, bd} x {fixed grid + fixed-interval, save_at + fixed-point} x {solver, mle, dynamic} x {TS0, TS1}, "
        "exact / inexact init, q <= 4, d <= 3, 2..8 output times), a pytree-valued state, and MarkovSequence.from_grid(prior, grid, reverse in {False, True}); "
        "draws: all zero, dyadic random, unit draws e_i (scaled by a power of two) at every node; shapes (), (2,), (2,3) / (3,); one PRNG key per case; "
        "distinct = different (source, config, field, grid)"
    )
    ctx.assumptions += [
        "random.normal is replaced inside the harness process by a host callback (jax.pure_callback, vmap_method=sequential) that looks the draw up by key",
        "factors L are handed to the model exactly as the implementation carries them (|to_observed| * noise.cholesky for the nodes); the joint covariance oracle uses their Gram matrices",
        "samples are compared relative to the magnitude of the summands of the affine recursion (float replica with absolute values)",
        "dense embedding of isotropic / block-diagonal laws: independent state dimensions (what to_multivariate_normal and logpdf of those classes define)",
    ]
    rec = Draws()
    rec.install()
    try:
        corpus(ctx, rec)
        n = ctx.n(6, 60)
        for it in range(n):
            cfg, d, field, u0s, t0, hs = c12.gen_case(ctx, it, ctx.quick)
            hs = hs[:7]
            src = "run"
            for key_ in ("fact", "strategy", "init", "solver"):
                ctx.count(f"{key_}={getattr(cfg, key_)}")
            case = {"config": cfg.key(), "field": field.describe(), "u0": [np.asarray(u).tolist() for u in u0s], "t0": t0, "steps": hs}
            sol, objs = posterior_from_run(cfg, field, u0s, t0, hs)
            if not np.all(np.isfinite(np.asarray(sol.u.mean[0]))) or not np.all(np.isfinite(np.asarray(sol.solution_full.posterior.conditional.noise.cholesky_flat))):
                ctx.skip("solver run produced non-finite values (problem blows up)")
                continue
            nunit = None if (cfg.q + 1) * (d if cfg.fact != "iso" else 1) * (len(hs) + 1) <= (40 if ctx.quick else 90) else 8
            shapes = [(), (2,), (2, 3)][: 1 + (it % 3)] if ctx.quick else ((), (2,), (2, 3))
            check_sequence(ctx, rec, cfg.fact, sol.solution_full.posterior, case, f"{cfg.fact}:run", means_ref=sol.u.mean, nunit=nunit, shapes=shapes)
            ctx.case(dict(cfg.key(), d=d, N=len(hs) + 1, source=src, field=str(field.describe()["components"])[:100]))
            # prior on a grid
            if it % 2 == 0:
                rev = bool((it // 2) % 2)
                grid = np.concatenate([[t0], t0 + np.cumsum(hs[:3])])
                if ctx.rng.random() < 0.5:
                    base = None
                elif cfg.fact == "iso":
                    base = float(2.0 ** ctx.rng.integers(-3, 4))
                else:
                    base = [float(2.0 ** ctx.rng.integers(-3, 4)) for _ in range(d)]
                cfgp = sm.Config(fact=cfg.fact, q=cfg.q, init="inexact", inexact_eps=float(2.0 ** ctx.rng.integers(-4, 1)), base_scale=base)
                ctx.count(f"from_grid base_scale={'default' if base is None else 'given'}")
                objp = sm.build(cfgp, field, u0s, t0)
                casep = dict(case, source="from_grid", reverse=rev, grid=grid.tolist(), inexact_eps=cfgp.inexact_eps, base_scale=base)
                check_from_grid(ctx, rec, cfgp, d, objp["prior"], c02.lam_of(cfgp, d), grid, rev, casep, f"{cfg.fact}:prior")
                ctx.count(f"from_grid reverse={rev}")
                ctx.case(dict(cfgp.key(), d=d, source="from_grid", reverse=rev, n=len(grid)))
        # pytree-valued states
        for fact in (["dense", "iso", "bd"] if not ctx.quick else [["dense", "iso", "bd"][ctx.seed % 3]]):
            hs = [0.125, 0.25]
            sol, _prior = pytree_posterior(fact, 2, 0.0, hs)
            case = {"source": "pytree", "fact": fact, "steps": hs}
            check_sequence(ctx, rec, fact, sol.solution_full.posterior, case, f"{fact}:pytree", means_ref=sol.u.mean, nunit=6, shapes=((), (2,)))
            ctx.count("pytree state")
            ctx.case(case)
    finally:
        rec.uninstall()
