"""C03 — Smoothing posterior equals the exact Rauch–Tung–Striebel posterior.

(a) per-step refinement of the smoother strategies (marginal + stored backward conditional) against the
    Lean model (`Strategy.predict` for fixed-interval / fixed-point, update) along the implementation
    trajectory;
(b) fixed grids, fixed-interval smoother: `solution.u` vs (i) the model's `solveFixedGridSmoothed` run
    open-loop in exact arithmetic from the initial state (small orders) and (ii) the model's
    `smootherFinalize` applied to the implementation's own stored backward conditionals, seeded at the
    final time (all orders); terminal smoothed marginal = filtering marginal; smoothed std <= filtered std;
(c) adaptive save-every-step runs (clip on: exact hit of t1; clip off: overstep), same finalisation checks;
(d) fixed-point smoothing at checkpoints vs fixed-interval off-grid marginals on the step grid.
"""

from __future__ import annotations

from fractions import Fraction

import numpy as np

from harness import core, gen, problems
from harness import solvermodel as sm
from harness.checks import c02
from harness.core import Cut, F

PROPS_MODULES = ["Pdq.Props.C03", "Pdq.Props.C03Run", "Pdq.Props.C03Order", "Pdq.Props.C02"]
LEVEL = "proof"
TOL = 1e-9


def smoother_refine(ctx, cfg, d, field, u0s, t0, hs):
    """per-step: marginals through c02.refine_steps, plus the stored backward conditional"""
    import jax.numpy as jnp

    objs = sm.build(cfg, field, u0s, t0)
    solver, prior = objs["solver"], objs["prior"]
    stepper = sm.ModelStepper(ctx, cfg, field, d, c02.lam_of(cfg, d), prior=prior)
    state = solver.init(jnp.asarray(t0), prior, damp=cfg.damp)
    t = F(t0)
    case = c02.case_of(cfg, field, u0s, t0, hs)
    for i, h in enumerate(hs):
        new = solver.step(state, dt=jnp.asarray(h), damp=cfg.damp)
        s0 = sm.state_slices(cfg, state)
        if not sm.state_is_finite(new):
            sig, why = sm.nonfinite_signature(ctx, cfg, stepper, s0, t, F(h))
            ctx.violation(sig, why, dict(case, step=i))
            return objs if "objs" in dir() else None
        ov = None
        if cfg.solver.startswith("dynamic"):
            osq = np.atleast_1d(np.asarray(new.output_scale, dtype=np.float64))
            ov = [F(x) ** 2 for x in osq] if cfg.fact == "bd" else F(float(osq[0])) ** 2
        try:
            ms, aux, info = stepper.step(s0, t, F(h), c02.aux_of(cfg, state), s2_override=ov)
        except core.ModelError as e:
            ctx.skip("model refused step: " + e.ans[:60])
            return
        if ov is not None:
            info["scale2"] = ov
        s1 = sm.state_slices(cfg, new)
        pv = c02.predicted_vars(ctx, stepper, s0, F(h), info)
        extra = stepper.gain_noise_scale(info["lins"], info["pred_means"], info["pred_covs"])
        c = dict(case, step=i)
        sigp = f"smstep:{cfg.fact}:{cfg.strategy}:{cfg.solver}:{cfg.lin}"
        sm.compare_state(ctx, f"{cfg.strategy}.step", s1, ms, TOL, c, sigp, scale_vars=pv, mean_extra=extra)
        # backward conditionals
        for j, (si, mi, p0) in enumerate(zip(s1, ms, s0)):
            kp = sm.corr_cond(info["pred_covs"][j])
            if not kp < 1e7:
                ctx.skip("backward conditional: predicted-covariance correlation condition >= 1e7")
                continue
            if cfg.strategy == "fixedinterval":
                prior_var = np.array([p0["cov"][a, a] for a in range(len(p0["mean"]))], dtype=object)
            else:
                # merged conditional maps to the anchor (last checkpoint); scale by its own noise + the carried one
                Am, bm, Qm = sm.den_float(mi["bw"])
                A0, b0, Q0 = sm.den_float(p0["bw"])
                pc = sm.tofloat(np.array([p0["cov"][a, a] for a in range(len(p0["mean"]))], dtype=object))
                prior_var = np.diag(Q0) + (np.abs(A0) ** 2) @ pc
            sm.compare_bw(ctx, f"{cfg.strategy}.step", si["bw"], mi["bw"], 1e-8, c, sigp, kappa=max(1.0, kp), prior_var=prior_var)
        ctx.case(dict(cfg.key(), d=d, order=field.order, h=float(h), step=i, field=str(field.describe()["components"])[:100]))
        state = new
        t = t + F(h)


def stacked_slices(cfg, sol):
    """solution (stacked over time) -> lists over time of slice lists: smoothed u, filtering, conditionals"""
    import jax

    N = int(np.asarray(sol.t).shape[0])
    us = [sm.normal_slices(cfg.fact, jax.tree_util.tree_map(lambda s: s[i], sol.u)) for i in range(N)]
    fil = [sm.normal_slices(cfg.fact, jax.tree_util.tree_map(lambda s: s[i], sol.solution_full.filtering)) for i in range(N)]
    post = sol.solution_full.posterior
    conds = [sm.cond_slices(cfg.fact, jax.tree_util.tree_map(lambda s: s[i], post.conditional)) for i in range(N - 1)]
    term = sm.normal_slices(cfg.fact, post.marginal)
    return us, fil, conds, term


def closed_loop_finalize(ctx, cfg, sol, case, sigp, exact_hit):
    """the implementation's own backward conditionals through the model's finalisation"""
    us, fil, conds, term = stacked_slices(cfg, sol)
    N = len(us)
    nsl = len(us[0])
    n = len(us[0][0][0])
    for j in range(nsl):
        # seed: the marginal handed to evaluate_marginals; for an exact hit it must be the filtering marginal at t1
        if exact_hit:
            seed = fil[-1][j]
            dm = sm._dev_vec(term[j][0], seed[0], np.abs(sm.tofloat(seed[0])) + np.sqrt(np.maximum(sm.tofloat(np.array([seed[1][a, a] for a in range(n)], dtype=object)), 0)) + 1e-300)
            dc = sm._dev_cov(term[j][1], seed[1], np.array([seed[1][a, a] + Fraction(1, 10**60) for a in range(n)], dtype=object))
            ctx.dev("terminal=filter.mean", dm, 1e-10, case=case, sig=f"{sigp}:terminal-marginal-is-not-the-filtering-marginal",
                    what=f"the last step ended at t1 but the terminal smoothed mean differs from the filtering mean there by {dm:.2e}")
            ctx.dev("terminal=filter.cov", dc, 1e-8, case=case, sig=f"{sigp}:terminal-marginal-is-not-the-filtering-marginal",
                    what=f"the last step ended at t1 but the terminal smoothed covariance differs from the filtering covariance there by {dc:.2e}")
        else:
            seed = term[j]
        post1 = {"mean": seed[0], "cov": seed[1], "bw": sm.ident_pcond(n)}
        bws = [conds[i][j] for i in range(N - 2, -1, -1)]
        # cancellation guard: when a stored gain is huge (degenerate reversal, e.g. exactly zero innovation variance) the
        # backward mean A x + b is the difference of huge numbers and is not determined by the float data
        amp = 1.0
        for i, b_ in enumerate(bws):
            A_, b0_, _Q = sm.den_float(b_)
            x_ = sm.tofloat(us[N - 1 - i][j][0])
            num = float(np.max(np.abs(A_) @ np.abs(x_) + np.abs(b0_)))
            den = float(np.max(np.abs(sm.tofloat(us[N - 2 - i][j][0])))) + float(np.sqrt(np.max(sm.tofloat(np.array([fil[N - 2 - i][j][1][a, a] for a in range(n)], dtype=object)))))
            if num > 0:
                amp = max(amp, num / den if den > 0 else float("inf"))
        if not amp < 1e6:
            ctx.skip("closed-loop finalisation: stored backward gain amplifies rounding by >= 1e6 (degenerate reversal)")
            continue
        args = []
        for b in bws:
            args += sm.pc_args(b)
        ans = Cut(ctx.drv.call("sv_finalize", n, Fraction(1), len(bws), *sm.st_args(post1), *args))
        for i in range(N - 1, -1, -1):
            mm, mc = ans.take(n), ans.take(n, n)
            sv = np.array([fil[i][j][1][a, a] + (fil[i][j][0][a] * Fraction(1, 10**10)) ** 2 + Fraction(1, 10**60) for a in range(n)], dtype=object)
            # natural magnitude of the summands of the backward mean A x + b (rounding is relative to it)
            nat = np.zeros(n)
            if i < N - 1:
                A_, b0_, _Q = sm.den_float(conds[i][j])
                nat = np.abs(A_) @ np.abs(sm.tofloat(us[i + 1][j][0])) + np.abs(b0_)
            dm = sm._dev_vec(us[i][j][0], mm, np.abs(sm.tofloat(mm)) + np.sqrt(sm.tofloat(sv)) + nat)
            dc = sm._dev_cov(us[i][j][1], mc, sv)
            c = dict(case, time_index=i, slice=j)
            ctx.dev("finalize.mean", dm, 1e-8, case=c, sig=f"{sigp}:smoothed-mean", what=f"smoothed mean at index {i} deviates {dm:.2e} from the backward recursion of the stored conditionals")
            ctx.dev("finalize.cov", dc, 1e-7, case=c, sig=f"{sigp}:smoothed-cov", what=f"smoothed covariance at index {i} deviates {dc:.2e} (relative to filter variances)")
            # smoothed variance <= filtered variance
            vs = sm.tofloat(np.array([us[i][j][1][a, a] for a in range(n)], dtype=object))
            vf = sm.tofloat(np.array([fil[i][j][1][a, a] for a in range(n)], dtype=object))
            if np.any(vs > vf * (1 + 1e-7) + 1e-300 + 1e-14 * np.max(vf, initial=0.0)):
                ctx.violation(f"{sigp}:smoothed-variance-exceeds-filtered", f"smoothed variances {vs} exceed filtered {vf} at index {i}", c)


def fixed_grid(ctx, cfg, d, field, u0s, t0, hs, open_loop):
    import jax.numpy as jnp
    from probdiffeq import ivpsolve

    objs = sm.build(cfg, field, u0s, t0)
    solver, prior = objs["solver"], objs["prior"]
    grid = np.concatenate([[t0], t0 + np.cumsum(hs)])
    sol = ivpsolve.solve_fixed_grid(solver=solver)(prior, grid=jnp.asarray(grid), damp=cfg.damp)
    case = c02.case_of(cfg, field, u0s, t0, hs)
    sigp = f"grid:{cfg.fact}:{cfg.strategy}:{cfg.solver}:{cfg.lin}"
    closed_loop_finalize(ctx, cfg, sol, case, sigp, exact_hit=True)
    ctx.case(dict(cfg.key(), d=d, mode="fixed-grid closed-loop", n=len(hs), field=str(field.describe()["components"])[:100]))
    if not open_loop:
        return
    # open loop: model trajectory in exact arithmetic, then solveFixedGridSmoothed
    stepper = sm.ModelStepper(ctx, cfg, field, d, c02.lam_of(cfg, d), prior=prior)
    state0 = solver.init(jnp.asarray(t0), prior, damp=cfg.damp)
    ms = sm.state_slices(cfg, state0)
    aux = c02.aux_of(cfg, state0) if cfg.solver.startswith("mle") else None
    t = F(t0)
    traj, amps = [], []
    try:
        for i in range(len(hs)):
            h = F(float(np.diff(grid)[i]))
            ms, aux, info = stepper.step(ms, t, h, aux)
            amps.append(info.get("amp", 1.0))
            t = t + h
            traj.append(ms)
    except core.ModelError as e:
        ctx.skip("model refused grid run: " + e.ans[:60])
        return
    if amps and not max(amps) < 1e6:
        ctx.skip("open-loop grid run: a calibration residual cancels to < 1e-6 of its summands")
        return
    if cfg.solver.startswith("mle"):
        r2 = aux[0]
        corr = Fraction(len(hs)) if cfg.solver == "mle" else Fraction(1)
        scale2 = [x / corr for x in r2] if isinstance(r2, list) else r2 / corr
    else:
        scale2 = Fraction(1)
    us, fil, conds, term = stacked_slices(cfg, sol)
    n = len(ms[0]["mean"])
    strat = sm.STRATS[cfg.strategy]
    for j in range(len(ms)):
        args = []
        for st in traj:
            args += sm.st_args(st[j])
        # unit scale in the model; rescale on the Python side (scale enters as scale^2 on covariances)
        ans = Cut(ctx.drv.call("sv_fixed_grid_smoothed", strat, n, Fraction(1), len(traj), *args))
        sc2 = scale2[j] if isinstance(scale2, list) else scale2
        for i in range(len(traj) + 1):
            mm, mc = ans.take(n), ans.take(n, n) * sc2
            # position 0 is the initial state
            sv = np.array([fil[i][j][1][a, a] + (mm[a] * Fraction(1, 10**10)) ** 2 + Fraction(1, 10**60) for a in range(n)], dtype=object)
            dm = sm._dev_vec(us[i][j][0], mm, np.abs(sm.tofloat(mm)) + np.sqrt(sm.tofloat(sv)))
            dc = sm._dev_cov(us[i][j][1], mc, sv)
            c = dict(case, time_index=i, slice=j)
            ctx.dev("grid.smoothed.mean", dm, 1e-7, case=c, sig=f"{sigp}:open-loop:smoothed-mean", what=f"solve_fixed_grid smoothed mean at index {i} deviates {dm:.2e} from the exact RTS posterior")
            ctx.dev("grid.smoothed.cov", dc, 1e-6, case=c, sig=f"{sigp}:open-loop:smoothed-cov", what=f"solve_fixed_grid smoothed covariance at index {i} deviates {dc:.2e} from the exact RTS posterior")
    ctx.case(dict(cfg.key(), d=d, mode="fixed-grid open-loop", n=len(hs)))


def adaptive_every_step(ctx, cfg, d, field, u0s, t0, t1, clip, tol):
    import jax.numpy as jnp
    from probdiffeq import probdiffeq as pdq
    from probdiffeq.util import test_util

    objs = sm.build(cfg, field, u0s, t0)
    solver, prior = objs["solver"], objs["prior"]
    err = pdq.error_residual_std(constraint=objs["constraint"])
    solve = test_util.solve_adaptive_save_every_step(solver, err, clip_dt=clip)
    sol = solve(prior, t0, t1, atol=tol, rtol=tol, dt0=0.1)
    ts = np.asarray(sol.t)
    if not np.all(np.isfinite(np.asarray(sol.u.mean[0]))):
        ctx.skip("adaptive run produced non-finite means (problem blows up)")
        return None
    # with clipping the last step ends exactly at t1; without, the run oversteps and interpolates back to t1
    exact_hit = bool(clip)
    case = {"config": cfg.key(), "field": field.describe(), "u0": [np.asarray(u).tolist() for u in u0s], "t0": t0, "t1": t1, "clip_dt": clip, "tol": tol}
    sigp = f"adaptive:{cfg.fact}:{cfg.strategy}:{cfg.solver}:{cfg.lin}:clip={clip}"
    closed_loop_finalize(ctx, cfg, sol, case, sigp, exact_hit=exact_hit)
    ctx.count(f"adaptive exact_hit={exact_hit}")
    ctx.case(dict(cfg.key(), d=d, mode="adaptive save-every-step", clip=clip, steps=len(ts) - 1))
    return sol, objs


def fixedpoint_vs_fixedinterval(ctx, cfg, d, field, u0s, t0, t1, tol):
    """fixed-point smoothing at checkpoints vs fixed-interval off-grid marginals of a save-every-step run"""
    import dataclasses

    import jax
    import jax.numpy as jnp
    from probdiffeq import ivpsolve
    from probdiffeq import probdiffeq as pdq
    from probdiffeq.util import test_util

    cfi = dataclasses.replace(cfg, strategy="fixedinterval")
    cfp = dataclasses.replace(cfg, strategy="fixedpoint")
    ofi, ofp = sm.build(cfi, field, u0s, t0), sm.build(cfp, field, u0s, t0)
    err_fi = pdq.error_residual_std(constraint=ofi["constraint"])
    err_fp = pdq.error_residual_std(constraint=ofp["constraint"])
    sol_fi = test_util.solve_adaptive_save_every_step(ofi["solver"], err_fi, clip_dt=False)(ofi["prior"], t0, t1, atol=tol, rtol=tol, dt0=0.1)
    if not np.all(np.isfinite(np.asarray(sol_fi.u.mean[0]))):
        ctx.skip("adaptive run produced non-finite means (problem blows up)")
        return
    ts = np.asarray(sol_fi.t)
    # interior checkpoints strictly between step ends
    cps = []
    for a, b in zip(ts[:-1], ts[1:]):
        if b < t1 and ctx.rng.random() < 0.6:
            # one, two or three checkpoints strictly inside the same step
            k = int(ctx.rng.integers(1, 4))
            # (kept at least 2% of the step apart: closer pairs run into the rounding amplification D11, which is C05's business)
            xs = sorted(float(x) for x in ctx.rng.uniform(0.1, 0.9, size=k))
            xs = [x for i, x in enumerate(xs) if i == 0 or x - xs[i - 1] >= 0.02]
            cps += [float(a + (b - a) * x) for x in xs]
    cps = [c_ for c_ in cps if t0 < c_ < t1][:6]
    ctx.count(f"fp-vs-fi checkpoints={len(cps)}")
    if not cps:
        return
    save_at = jnp.asarray([t0, *cps, t1])
    sol_fp = ivpsolve.solve_adaptive_save_at(solver=ofp["solver"], error=err_fp, clip_dt=False)(ofp["prior"], save_at=save_at, atol=tol, rtol=tol, dt0=0.1)
    case = {"config": cfg.key(), "field": field.describe(), "u0": [np.asarray(u).tolist() for u in u0s], "t0": t0, "t1": t1, "tol": tol, "checkpoints": cps}
    for k, tc in enumerate(cps):
        off = ofi["solver"].offgrid_marginals(jnp.asarray(tc), solution=sol_fi)
        got = jax.tree_util.tree_map(lambda s: s[k + 1], sol_fp.u)
        a, b = sm.normal_slices(cfg.fact, off), sm.normal_slices(cfg.fact, got)
        for j, ((ma, Ca), (mb, Cb)) in enumerate(zip(a, b)):
            n = len(ma)
            sv = np.array([Ca[i, i] + Cb[i, i] + (ma[i] * Fraction(1, 10**8)) ** 2 + Fraction(1, 10**60) for i in range(n)], dtype=object)
            dm = sm._dev_vec(mb, ma, np.abs(sm.tofloat(ma)) + np.sqrt(sm.tofloat(sv)) + 1e-6 * np.max(np.abs(sm.tofloat(ma)), initial=0.0))
            dc = sm._dev_cov(Cb, Ca, sv)
            ctx.dev("fp-vs-fi.mean", dm, 1e-5, case=dict(case, checkpoint=tc), sig=f"fp-vs-fi:{cfg.fact}:{cfg.solver}:{cfg.lin}:mean", what=f"fixed-point checkpoint mean differs from fixed-interval off-grid marginal by {dm:.2e}")
            ctx.dev("fp-vs-fi.cov", dc, 1e-4, case=dict(case, checkpoint=tc), sig=f"fp-vs-fi:{cfg.fact}:{cfg.solver}:{cfg.lin}:cov", what=f"fixed-point checkpoint covariance differs from fixed-interval off-grid marginal by {dc:.2e}")
    ctx.case(dict(cfg.key(), d=d, mode="fixedpoint-vs-fixedinterval", checkpoints=len(cps)))


def solve_function_reuse(ctx):
    """the function returned by `solve_adaptive_save_every_step` called twice on the same problem returns the same
    solution twice (seeded change C03-s12: a step buffer shared between calls)"""
    from probdiffeq import probdiffeq as pdq
    from probdiffeq.util import test_util

    field = problems.PolyField(1, 1, [[(Fraction(1), (1, 0)), (Fraction(-1), (2, 0))]])
    cfg = sm.Config(fact="iso", solver="solver", strategy="fixedinterval", lin="ts0", q=2)
    objs = sm.build(cfg, field, [np.array([0.125])], 0.0)
    err = pdq.error_residual_std(constraint=objs["constraint"])
    solve = test_util.solve_adaptive_save_every_step(objs["solver"], err, clip_dt=False)
    outs = []
    for _ in range(2):
        sol = solve(objs["prior"], 0.0, 1.0, atol=1e-3, rtol=1e-3, dt0=0.1)
        outs.append((np.asarray(sol.t), np.asarray(sol.u.mean[0]), np.asarray(sol.u.std[0])))
    case = {"mode": "same solve function called twice", "t first": outs[0][0].tolist(), "t second": outs[1][0].tolist()}
    ctx.case(case)
    ctx.count("solve-function-reuse")
    if not all(a.shape == b.shape and np.array_equal(a, b) for a, b in zip(outs[0], outs[1])):
        ctx.violation("every-step:solve-function-reuse", "the second call of the same save-every-step solve function returns a different solution (times / means / stds) than the first", case)


def corpus(ctx):
    """D1: logistic ODE on the grid [0,.1,.25,.5,.6] - terminal smoothed marginal must be the filtering marginal."""
    solve_function_reuse(ctx)
    field = problems.PolyField(1, 1, [[(Fraction(1), (1, 0)), (Fraction(-1), (2, 0))]])
    for fact in ("dense", "iso", "bd"):
        cfg = sm.Config(fact=fact, solver="solver", strategy="fixedinterval", lin="ts0", q=2)
        fixed_grid(ctx, cfg, 1, field, [np.array([0.125])], 0.0, [0.125, 0.125, 0.25, 0.125], open_loop=(fact == "dense"))


def run(ctx):
    import warnings

    import jax

    jax.config.update("jax_enable_x64", True)
    warnings.filterwarnings("ignore")
    ctx.rule = (
        "configurations as in C02 x {fixed-interval, fixed-point}; per-step refinement incl. stored backward conditionals; "
        "fixed grids (uniform / non-uniform, 2-6 steps) closed-loop for all orders and open-loop (exact RTS from the initial state) for q <= 2; "
        "adaptive save-every-step runs with clip on (exact hit of t1) and off (overstep); fixed-point checkpoints vs fixed-interval off-grid marginals"
    )
    ctx.assumptions += ["as C02; smoothed moments are judged relative to the filtering variances at the same node"]
    corpus(ctx)
    n = ctx.n(10, 150)
    for it in range(n):
        core.release_jax(8)
        strat = ["fixedinterval", "fixedpoint"][it % 2]
        cfg, d, order = c02.random_config(ctx, strat, it // 2)
        field, u0s, t0 = c02.make_problem(ctx, cfg, d, order)
        for k in ("fact", "solver", "lin", "init", "strategy"):
            ctx.count(f"{k}={getattr(cfg, k)}")
        hs = [float(2.0 ** ctx.rng.integers(-8, 0)) * float(gen.pick(ctx.rng, [1.0, 0.75, 1.5])) for _ in range(int(ctx.rng.integers(2, 4)))]
        smoother_refine(ctx, cfg, d, field, u0s, t0, hs)
        if strat == "fixedinterval":
            hs2 = [float(2.0 ** ctx.rng.integers(-4, 0)) for _ in range(int(ctx.rng.integers(2, 7)))]
            if ctx.rng.random() < 0.3:
                hs2 = [hs2[0]] * len(hs2)
            ol = cfg.q <= 2 and d <= 2 and not cfg.solver.startswith("dynamic") and len(hs2) <= 3
            fixed_grid(ctx, cfg, d, field, u0s, t0, hs2, open_loop=ol)
        if it % 4 == 0:
            import dataclasses

            cfa = dataclasses.replace(cfg, strategy="fixedinterval", q=min(cfg.q, 4), init="exact", damp=0.0, constraint_init=False, diffuse=0, prior="iwp")
            fld = problems.random_field(ctx.rng, d, order, max_degree=1, linear=True)
            tol = float(10.0 ** ctx.rng.uniform(-5, -2))
            t1 = t0 + float(gen.pick(ctx.rng, [0.5, 1.0, 0.75]))
            adaptive_every_step(ctx, cfa, d, fld, u0s, t0, t1, clip=bool(it % 8 == 0), tol=tol)
            fixedpoint_vs_fixedinterval(ctx, cfa, d, fld, u0s, t0, t1, tol)
