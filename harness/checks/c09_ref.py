"""High-precision reference for C09 (iii): matrix exponential and finite-horizon Gramian.

No multiprecision package is installed, so this is a self-contained fixed-point implementation on
Python integers (numpy object arrays): scaling-and-squaring Taylor series with `PREC` fractional bits.
It is an *oracle of the harness* (weaker than the exact rational model used for (i)/(ii)): not a rigorous
enclosure, but carried out with ~300 decimal digits, i.e. its own error is negligible against float64.

    expm_gram(A, B) -> (e^A, G),  G = int_0^1 e^{sA} B B^T e^{sA^T} ds

via Van Loan's block formula  exp([[A, BB^T],[0, -A^T]]) = [[e^A, F],[0, e^{-A^T}]],  G = F (e^A)^T,
which is numerically harmless at this precision.
"""

from __future__ import annotations

from fractions import Fraction

import numpy as np

PREC = 1100  # fractional bits


def _to_fix(M):
    """float / Fraction array -> object array of ints scaled by 2**PREC (exact for floats)."""
    M = np.asarray(M)
    out = np.empty(M.shape, dtype=object)
    for idx in np.ndindex(M.shape):
        x = M[idx]
        fr = x if isinstance(x, Fraction) else Fraction(float(x))
        out[idx] = (fr.numerator << PREC) // fr.denominator
    return out


def _mul(X, Y):
    Z = X.dot(Y)
    return np.vectorize(lambda z: z >> PREC, otypes=[object])(Z) if Z.size else Z


def _eye(n):
    I = np.zeros((n, n), dtype=object)
    for i in range(n):
        I[i, i] = 1 << PREC
    return I


def expm_fix(M):
    """exp of a fixed-point matrix (object ints)."""
    n = M.shape[0]
    if n == 0:
        return M
    norm = max(sum(abs(int(M[i, j])) for i in range(n)) for j in range(n))  # 1-norm, scaled
    k = 0
    while (norm >> k) > (1 << (PREC - 2)):  # ||M / 2^k|| <= 1/4
        k += 1
    Ms = np.vectorize(lambda z: z >> k, otypes=[object])(M)
    term = _eye(n)
    acc = _eye(n)
    j = 1
    while True:
        term = _mul(term, Ms)
        term = np.vectorize(lambda z: z // j, otypes=[object])(term)
        acc = acc + term
        if all(abs(int(t)) < 4 for t in term.reshape(-1)):
            break
        j += 1
        if j > 2000:
            raise RuntimeError("expm_fix: Taylor series did not terminate")
    for _ in range(k):
        acc = _mul(acc, acc)
    return acc


def _to_float(X):
    out = np.empty(X.shape, dtype=np.float64)
    for idx in np.ndindex(X.shape):
        out[idx] = float(Fraction(int(X[idx]), 1 << PREC))
    return out


def expm_gram(A, B):
    """(e^A, Gramian) as float64 arrays rounded from the high-precision values."""
    A = np.asarray(A)
    B = np.asarray(B)
    n = A.shape[0]
    Af, Bf = _to_fix(A), _to_fix(B)
    BBt = _mul(Bf, Bf.T.copy())
    M = np.zeros((2 * n, 2 * n), dtype=object)
    M[:n, :n] = Af
    M[:n, n:] = BBt
    M[n:, n:] = -Af.T
    E = expm_fix(M)
    eA = E[:n, :n]
    F = E[:n, n:]
    G = _mul(F, eA.T.copy())
    return _to_float(eA), _to_float(G)
