"""C08 — Gaussian conditional algebra is exact in every factorisation.

Correspondence: the real `DenseLatentCond` / `IsotropicLatentCond` / `BlockDiagLatentCond` and the
three `*Normal` classes are called in-process on generated inputs; the same inputs (exact dyadic
rationals, Cholesky factors mapped to covariances by the abstraction function `L -> L L^T`) go to the
Lean model (`Pdq.Model.Gauss`, executed by `pdqdrv`), whose outputs are the dense textbook formulas by
the theorems of `Pdq/Props/C08.lean`.  Isotropic / block-diagonal objects are read through their dense
embedding: one dense problem per state dimension (shared `n x n` factor / own factor).
"""

from __future__ import annotations

import math
from fractions import Fraction

import numpy as np

from harness import core, gen
from harness.core import F, Cut

PROPS_MODULES = ["Pdq.Props.C08", "Pdq.Props.C08Embed", "Pdq.Props.SqrtRefine"]
LEVEL = "proof"

TOL = 2e-11  # relative, in the scale-aware metric described in DESIGN §2.3 (observed max on clean tree ~1e-13)


def _np(x):
    return np.asarray(x, dtype=np.float64)


def gramf(L):
    """exact L L^T (object array of Fractions)"""
    L = _np(L)
    n, k = L.shape
    Lf = [[Fraction(float(L[i, j])) for j in range(k)] for i in range(n)]
    out = np.empty((n, n), dtype=object)
    for i in range(n):
        for j in range(i, n):
            s = sum(Lf[i][l] * Lf[j][l] for l in range(k))
            out[i, j] = s
            out[j, i] = s
    return out


def fl(a):
    return np.array([[float(x) for x in row] for row in a], dtype=np.float64) if np.ndim(a) == 2 else np.array(
        [float(x) for x in a], dtype=np.float64
    )


# ------------------------------------------------------------------------------------------------
# views: impl objects -> list of dense slices


def cond_slices(kind, c):
    A, b, L, tl, to = _np(c.A), _np(c.noise.mean_flat), _np(c.noise.cholesky_flat), _np(c.to_latent), _np(c.to_observed)
    if kind == "dense":
        return [(A, b, L, tl, to)]
    if kind == "iso":
        return [(A, b[:, j], L, tl, to) for j in range(b.shape[1])]
    return [(A[i], b[i], L[i], tl[i], to[i]) for i in range(A.shape[0])]


def rv_slices(kind, rv):
    m, L = _np(rv.mean_flat), _np(rv.cholesky_flat)
    if kind == "dense":
        return [(m, L)]
    if kind == "iso":
        return [(m[:, j], L) for j in range(m.shape[1])]
    return [(m[i], L[i]) for i in range(m.shape[0])]


def pt_slices(kind, x):
    x = _np(x)
    if kind == "dense":
        return [x]
    if kind == "iso":
        return [x[:, j] for j in range(x.shape[1])]
    return [x[i] for i in range(x.shape[0])]


# ------------------------------------------------------------------------------------------------
# comparison helpers (scale-aware)


def cmp_vec(ctx, name, impl, model, scale, case, sig):
    impl = _np(impl).reshape(-1)
    mod = fl(model.reshape(-1)) if isinstance(model, np.ndarray) else fl(model)
    scale = np.maximum(_np(scale).reshape(-1), np.finfo(float).tiny)
    if not np.all(np.isfinite(impl)):
        ctx.violation(sig, f"{name}: implementation returned non-finite values", case)
        return
    dev = float(np.max(np.abs(impl - mod) / scale)) if impl.size else 0.0
    ctx.dev(name, dev, TOL, case=case, sig=sig, what=f"{name}: relative deviation {dev:.3e} > {TOL:.0e} between implementation and exact model")


def cmp_cov(ctx, name, impl_L, model_C, scale_diag, case, sig):
    """impl_L: factor of the implementation (its Gram is compared); scale_diag: variances used as scale."""
    Ci = gramf(impl_L)
    Ci = fl(Ci)
    Cm = fl(model_C)
    d = np.sqrt(np.maximum(_np(scale_diag), 0.0))
    scale = np.outer(d, d)
    scale = np.where(scale > 0, scale, np.finfo(float).tiny)
    if not np.all(np.isfinite(Ci)):
        ctx.violation(sig, f"{name}: implementation returned non-finite values", case)
        return
    dev = float(np.max(np.abs(Ci - Cm) / scale)) if Ci.size else 0.0
    ctx.dev(name, dev, TOL, case=case, sig=sig, what=f"{name}: covariance deviation {dev:.3e} > {TOL:.0e} (metric |dC_ij|/sqrt(s_i s_j))")


def case_desc(kind, op, **kw):
    d = {"factorisation": kind, "op": op}
    d.update(kw)
    return d


def dump(*arrs):
    return [np.asarray(a, dtype=np.float64).tolist() for a in arrs]


# ------------------------------------------------------------------------------------------------
# construction of implementation objects


def make_impl(kind):
    from probdiffeq._probdiffeq import ssm_impl_blockdiag as B
    from probdiffeq._probdiffeq import ssm_impl_dense as D
    from probdiffeq._probdiffeq import ssm_impl_isotropic as I

    return {"dense": (D.DenseLatentCond, D.DenseNormal), "iso": (I.IsotropicLatentCond, I.IsotropicNormal), "bd": (B.BlockDiagLatentCond, B.BlockDiagNormal)}[kind]


def tree_flatten_for(kind, n, d):
    """A tree_flatten object for a state of n coefficients with d-vectors."""
    import jax.numpy as jnp
    from probdiffeq._probdiffeq import ssm_impl_blockdiag as B
    from probdiffeq._probdiffeq import ssm_impl_dense as D
    from probdiffeq._probdiffeq import ssm_impl_isotropic as I

    ex = [jnp.zeros((d,)) for _ in range(n)]
    return {"dense": D.DenseTreeFlatten, "iso": I.IsotropicTreeFlatten, "bd": B.BlockDiagTreeFlatten}[kind].from_example(ex)


def gen_rv(ctx, kind, n, d, fkind, tf=None):
    """Random Normal of the given factorisation with n coefficients, d dimensions."""
    import jax.numpy as jnp

    rng = ctx.rng
    _, Normal = make_impl(kind)
    if kind == "dense":
        N = n * d
        m = gen.dyadic(rng, (N,), bits=6, scale=4.0)
        L = gen.chol_factor(rng, N, fkind)
    elif kind == "iso":
        m = gen.dyadic(rng, (n, d), bits=6, scale=4.0)
        L = gen.chol_factor(rng, n, fkind)
    else:
        m = gen.dyadic(rng, (d, n), bits=6, scale=4.0)
        L = np.stack([gen.chol_factor(rng, n, fkind) for _ in range(d)])
    return Normal(jnp.asarray(m), jnp.asarray(L), tf)


def gen_cond(ctx, kind, k, n, d, fkind, skind, tf=None, zero_offset=False):
    """Random conditional from n coefficients to k coefficients (d dimensions)."""
    import jax.numpy as jnp

    rng = ctx.rng
    Cond, Normal = make_impl(kind)
    if kind == "dense":
        K, N = k * d, n * d
        A = gen.dyadic(rng, (K, N), bits=4, scale=2.0)
        b = gen.dyadic(rng, (K,), bits=6, scale=2.0)
        L = gen.chol_factor(rng, K, fkind)
        tl, to = gen.scalings(rng, N, skind), gen.scalings(rng, K, skind)
    elif kind == "iso":
        A = gen.dyadic(rng, (k, n), bits=4, scale=2.0)
        b = gen.dyadic(rng, (k, d), bits=6, scale=2.0)
        L = gen.chol_factor(rng, k, fkind)
        tl, to = gen.scalings(rng, n, skind), gen.scalings(rng, k, skind)
    else:
        A = gen.dyadic(rng, (d, k, n), bits=4, scale=2.0)
        b = gen.dyadic(rng, (d, k), bits=6, scale=2.0)
        L = np.stack([gen.chol_factor(rng, k, fkind) for _ in range(d)])
        tl, to = np.stack([gen.scalings(rng, n, skind) for _ in range(d)]), np.stack([gen.scalings(rng, k, skind) for _ in range(d)])
    if zero_offset:
        b = np.zeros_like(b)
    noise = Normal(jnp.asarray(b), jnp.asarray(L), tf)
    return Cond(jnp.asarray(A), noise, to_latent=jnp.asarray(tl), to_observed=jnp.asarray(to))


def deterministic_coordinate_case(ctx, kind):
    """An output coordinate that is exactly deterministic and is NOT the last one: the Gaussian knows input coordinate 0
    exactly (zero row of its factor), output 0 copies it without noise (row 0 of A is a multiple of e_0, row 0
    of the noise factor is zero), all other coordinates are random.  Triangularisation then meets a zero pivot in the first
    column with non-zero entries to its right (seeded change C08-s7: a sign normalisation with sign(0) = 0 wipes that row)."""
    import jax.numpy as jnp

    rng = ctx.rng
    Cond, Normal = make_impl(kind)
    n, k, d = 4, 3, 2

    def factor(m):
        L = np.tril(gen.dyadic(rng, (m, m), bits=4)) + np.diag(rng.integers(1, 4, size=m).astype(float))
        L[0, :] = 0.0  # coordinate 0 has no randomness; noise direction 0 still feeds the other coordinates
        return L

    def linop():
        A = gen.dyadic(rng, (k, n), bits=4, scale=2.0)
        A[0, :] = 0.0
        A[0, 0] = 1.5
        return A

    if kind == "dense":
        # coordinate 0 of every dimension block: build per dimension, then interleave through a Kronecker structure
        Lr = np.kron(factor(n), np.eye(d))
        A = np.kron(linop(), np.eye(d))
        Lq = np.kron(factor(k), np.eye(d))
        m, b = gen.dyadic(rng, (n * d,), bits=6, scale=4.0), gen.dyadic(rng, (k * d,), bits=6, scale=2.0)
        tl, to = gen.scalings(rng, n * d, "mild"), gen.scalings(rng, k * d, "mild")
    elif kind == "iso":
        Lr, A, Lq = factor(n), linop(), factor(k)
        m, b = gen.dyadic(rng, (n, d), bits=6, scale=4.0), gen.dyadic(rng, (k, d), bits=6, scale=2.0)
        tl, to = gen.scalings(rng, n, "mild"), gen.scalings(rng, k, "mild")
    else:
        Lr, A, Lq = np.stack([factor(n) for _ in range(d)]), np.stack([linop() for _ in range(d)]), np.stack([factor(k) for _ in range(d)])
        m, b = gen.dyadic(rng, (d, n), bits=6, scale=4.0), gen.dyadic(rng, (d, k), bits=6, scale=2.0)
        tl, to = np.stack([gen.scalings(rng, n, "mild") for _ in range(d)]), np.stack([gen.scalings(rng, k, "mild") for _ in range(d)])
    rv = Normal(jnp.asarray(m), jnp.asarray(Lr), None)
    c = Cond(jnp.asarray(A), Normal(jnp.asarray(b), jnp.asarray(Lq), None), to_latent=jnp.asarray(tl), to_observed=jnp.asarray(to))
    # D14 (known finding): with a singular innovation whose zero pivot has non-zero entries to its right, the backward
    # covariance returned by revert_conditional misses the part of R12 outside the range of R_Y; filed under its own signature
    tag = {"n": n, "d": d, "k": k, "structure": "deterministic first output coordinate", "it": "corpus", "sig_suffix": ":singular-innovation-coupled-noise"}
    ctx.count("structure=deterministic-coordinate")
    check_marg(ctx, kind, c, rv, tag)
    c2 = gen_cond(ctx, kind, 2, k, d, "rankdef", "mild")
    check_merge(ctx, kind, c2, c, tag)
    check_revert(ctx, kind, c, rv, 1, tag)
    ctx.case(dict(tag, kind=kind), nontrivial=True)


# ------------------------------------------------------------------------------------------------
# one check per operation


def model_pc_args(sl_c, sl_rv=None):
    A, b, L, tl, to = sl_c
    args = [A, b, gramf(L), tl, to]
    if sl_rv is not None:
        m, Lr = sl_rv
        args += [m, gramf(Lr)]
    return args


def check_marg(ctx, kind, c, rv, tag):
    out = c.marginalise(rv)
    for idx, (sc, sr, so) in enumerate(zip(cond_slices(kind, c), rv_slices(kind, rv), rv_slices(kind, out))):
        A, b, L, tl, to = sc
        m, Lr = sr
        k, n = A.shape
        ans = Cut(ctx.drv.call("pc_marg", k, n, *model_pc_args(sc, sr)))
        mm, mc = ans.take(k), ans.take(k, k)
        case = case_desc(kind, "marginalise", slice=idx, **tag, inputs=dict(zip("A b L tl to mean chol".split(), dump(A, b, L, tl, to, m, Lr))))
        sc_mean = np.abs(to) * (np.abs(A) @ np.abs(tl * m) + np.abs(b))
        cmp_vec(ctx, "marg.mean", so[0], mm, sc_mean, case, f"{kind}:marginalise:mean")
        cmp_cov(ctx, "marg.cov", so[1], mc, fl(np.diag(mc)), case, f"{kind}:marginalise:cov")


def check_apply(ctx, kind, c, x, tag):
    out = c.apply_flat(x)
    for idx, (sc, sx, so) in enumerate(zip(cond_slices(kind, c), pt_slices(kind, x), rv_slices(kind, out))):
        A, b, L, tl, to = sc
        k, n = A.shape
        ans = Cut(ctx.drv.call("pc_apply", k, n, *model_pc_args(sc), sx))
        mm, mc = ans.take(k), ans.take(k, k)
        case = case_desc(kind, "apply_flat", slice=idx, **tag, inputs=dict(zip("A b L tl to x".split(), dump(A, b, L, tl, to, sx))))
        sc_mean = np.abs(to) * (np.abs(A) @ np.abs(tl * sx) + np.abs(b))
        cmp_vec(ctx, "apply.mean", so[0], mm, sc_mean, case, f"{kind}:apply_flat:mean")
        cmp_cov(ctx, "apply.cov", so[1], mc, fl(np.diag(mc)), case, f"{kind}:apply_flat:cov")


def cond_scales(sc):
    """a natural magnitude for each field of a (de-preconditioned) conditional slice"""
    A, b, L, tl, to = sc
    return A, b, L, tl, to


def check_merge(ctx, kind, c2, c1, tag):
    out = c2.merge(c1)
    for idx, (s2, s1, so) in enumerate(zip(cond_slices(kind, c2), cond_slices(kind, c1), cond_slices(kind, out))):
        A2, b2, L2, tl2, to2 = s2
        A1, b1, L1, tl1, to1 = s1
        k, m = A2.shape
        _, n = A1.shape
        ans = Cut(ctx.drv.call("pc_merge", k, m, n, *model_pc_args(s2), *model_pc_args(s1)))
        mA, mb, mQ, mtl, mto = ans.take(k, n), ans.take(k), ans.take(k, k), ans.take(n), ans.take(k)
        case = case_desc(kind, "merge", slice=idx, **tag, inputs={"outer": dump(*s2), "inner": dump(*s1)})
        T = np.abs(tl2 * to1)
        cmp_vec(ctx, "merge.A", so[0], mA, np.abs(A2) @ (T[:, None] * np.abs(A1)), case, f"{kind}:merge:A")
        cmp_vec(ctx, "merge.b", so[1], mb, np.abs(A2) @ (T * np.abs(b1)) + np.abs(b2), case, f"{kind}:merge:b")
        cmp_cov(ctx, "merge.Q", so[2], mQ, fl(np.diag(mQ)), case, f"{kind}:merge:Q")
        cmp_vec(ctx, "merge.tl", so[3], mtl, np.abs(fl(mtl)), case, f"{kind}:merge:to_latent")
        cmp_vec(ctx, "merge.to", so[4], mto, np.abs(fl(mto)), case, f"{kind}:merge:to_observed")


def check_den(ctx, kind, c, tag):
    out = c.preconditioner_apply()
    for name in ("A", "to_latent", "to_observed"):
        if np.shape(getattr(out, name)) != np.shape(getattr(c, name)):
            ctx.violation(f"{kind}:preconditioner_apply:shape", f"preconditioner_apply changed the shape of {name}: {np.shape(getattr(c, name))} -> {np.shape(getattr(out, name))}",
                          case_desc(kind, "preconditioner_apply", **tag, inputs=dump(*cond_slices(kind, c)[0])))
            return
    if np.shape(out.noise.mean_flat) != np.shape(c.noise.mean_flat) or np.shape(out.noise.cholesky_flat) != np.shape(c.noise.cholesky_flat):
        ctx.violation(f"{kind}:preconditioner_apply:shape", "preconditioner_apply changed the shape of the noise", case_desc(kind, "preconditioner_apply", **tag))
        return
    for idx, (sc, so) in enumerate(zip(cond_slices(kind, c), cond_slices(kind, out))):
        A, b, L, tl, to = sc
        k, n = A.shape
        ans = Cut(ctx.drv.call("pc_den", k, n, *model_pc_args(sc)))
        mA, mb, mQ = ans.take(k, n), ans.take(k), ans.take(k, k)
        case = case_desc(kind, "preconditioner_apply", slice=idx, **tag, inputs=dump(*sc))
        cmp_vec(ctx, "den.A", so[0], mA, np.abs(fl(mA)), case, f"{kind}:preconditioner_apply:A")
        cmp_vec(ctx, "den.b", so[1], mb, np.abs(fl(mb)), case, f"{kind}:preconditioner_apply:b")
        cmp_cov(ctx, "den.Q", so[2], mQ, fl(np.diag(mQ)), case, f"{kind}:preconditioner_apply:Q")
        if not (np.all(so[3] == 1.0) and np.all(so[4] == 1.0)):
            ctx.violation(f"{kind}:preconditioner_apply:scalings", "scalings not removed", case)


def check_revert(ctx, kind, c, rv, mode, tag):
    """mode 0: triangular solve (regular S); mode 1: lstsq_svd (minimum-norm gain, singular S allowed)."""
    from probdiffeq.backend import linalg

    solve = linalg.solve_triu if mode == 0 else linalg.lstsq_svd
    obs, bw = c.revert(rv, solve_triu=solve)
    for idx, (sc, sr, so, sb) in enumerate(zip(cond_slices(kind, c), rv_slices(kind, rv), rv_slices(kind, obs), cond_slices(kind, bw))):
        A, b, L, tl, to = sc
        m, Lr = sr
        k, n = A.shape
        case = case_desc(kind, "revert", slice=idx, solve=("solve_triu", "lstsq_svd")[mode], **tag,
                         inputs=dict(zip("A b L tl to mean chol".split(), dump(A, b, L, tl, to, m, Lr))))
        try:
            ans = Cut(ctx.drv.call("pc_revert", k, n, mode, *model_pc_args(sc, sr)))
        except core.ModelError as e:
            # the exact S is singular but the caller asked for a triangular solve: outside the property
            ctx.skip("revert: exact innovation singular with triangular solve (" + e.ans[:40] + ")")
            continue
        om, oc = ans.take(k), ans.take(k, k)
        G, bb, bQ, btl, bto = ans.take(n, k), ans.take(n), ans.take(n, n), ans.take(k), ans.take(n)
        # inner quantities (float) for scales
        mi = tl * m
        Pi = fl(gramf(tl[:, None] * Lr))
        S = fl(oc) / np.outer(to, to)
        sc_obs = np.abs(to) * (np.abs(A) @ np.abs(mi) + np.abs(b))
        cmp_vec(ctx, "revert.obs.mean", so[0], om, sc_obs, case, f"{kind}:revert:observed.mean")
        cmp_cov(ctx, "revert.obs.cov", so[1], oc, fl(np.diag(oc)), case, f"{kind}:revert:observed.cov")
        cmp_vec(ctx, "revert.bw.tl", sb[3], btl, np.abs(fl(btl)), case, f"{kind}:revert:bw.to_latent")
        cmp_vec(ctx, "revert.bw.to", sb[4], bto, np.abs(fl(bto)), case, f"{kind}:revert:bw.to_observed")
        # conditioning of the problem itself: kappa of the correlation-normalised innovation covariance.
        # The Schur complement P' - P'A^T S^-1 A P' is only determined to kappa * eps by its data.
        dSn = np.sqrt(np.maximum(np.diag(S), 0))
        if mode == 0:
            Sn = S / np.where(np.outer(dSn, dSn) > 0, np.outer(dSn, dSn), 1.0)
            kappa = float(np.linalg.cond(Sn)) if np.all(np.isfinite(Sn)) else float("inf")
        else:
            kappa = 1.0  # lstsq cases are generated well separated from the cut-off
        if not kappa < 1e7:
            ctx.skip("revert: innovation correlation matrix has condition >= 1e7 (posterior not determined by float data)")
            continue
        ctx.count("revert.kappa<1e2" if kappa < 1e2 else "revert.kappa<1e7")
        # backward covariance: scale = prior (inner) variances
        Cb = fl(gramf(sb[2]))
        dP_ = np.sqrt(np.maximum(np.diag(Pi), 0))
        scb = np.where(np.outer(dP_, dP_) > 0, np.outer(dP_, dP_), np.finfo(float).tiny)
        devQ = float(np.max(np.abs(Cb - fl(bQ)) / scb)) / kappa if np.all(np.isfinite(Cb)) else float("inf")
        ctx.dev("revert.bw.Q" + (".singular-coupled" if tag.get("sig_suffix") else ""), devQ, TOL, case=case, sig=f"{kind}:revert:bw.cov" + tag.get("sig_suffix", ""),
                what=f"backward covariance deviates from P - G S G^T by {devQ:.3e} (relative to prior variances, / kappa={kappa:.1e})")
        # joint law: G_impl S = P' A^T in the metric sqrt(P'_ii S_jj); robust also for ill-conditioned S
        Gi = _np(sb[0])
        cross_i = Gi @ S
        cross_m = Pi @ A.T
        dP, dS = np.sqrt(np.maximum(np.diag(Pi), 0)), np.sqrt(np.maximum(np.diag(S), 0))
        scale = np.outer(dP, dS)
        scale = np.where(scale > 0, scale, np.finfo(float).tiny)
        if np.all(np.isfinite(Gi)):
            dev = float(np.max(np.abs(cross_i - cross_m) / scale))
            condS = kappa
            if mode == 0:
                ctx.dev("revert.cross", dev / max(1.0, condS), TOL, case=case, sig=f"{kind}:revert:cross-covariance",
                        what=f"gain does not reproduce Cov(x,y): deviation {dev:.3e} (cond S = {condS:.1e})")
            elif mode == 1:
                ctx.dev("revert.cross(lstsq)", dev, 1e-8, case=case, sig=f"{kind}:revert:cross-covariance",
                        what=f"minimum-norm gain does not reproduce Cov(x,y): deviation {dev:.3e}")
            # direct comparison of gain and backward offset where S is well conditioned
            if condS < 1e4:
                Gm = fl(G)
                gscale = dP[:, None] / np.where(dS > 0, dS, 1.0)[None, :]
                gscale = np.where(gscale > 0, gscale, np.finfo(float).tiny)
                devG = float(np.max(np.abs(Gi - Gm) / gscale)) / condS
                ctx.dev("revert.gain", devG, TOL, case=case, sig=f"{kind}:revert:gain", what=f"gain deviates from P A^T S^-1 by {devG:.3e} (relative, / cond S)")
                sc_b = np.abs(mi) + np.abs(Gm) @ (np.abs(A) @ np.abs(mi) + np.abs(b))
                devb = float(np.max(np.abs(_np(sb[1]) - fl(bb)) / np.maximum(sc_b, np.finfo(float).tiny))) / condS
                ctx.dev("revert.bw.b", devb, TOL, case=case, sig=f"{kind}:revert:bw.offset", what=f"backward offset deviates by {devb:.3e}")
            else:
                ctx.skip("revert.gain direct comparison: cond(S) >= 1e4")
        else:
            ctx.violation(f"{kind}:revert:nonfinite", "revert returned a non-finite gain although the exact problem is solvable", case)


def check_normal(ctx, kind, rv, n, d, fkind, tag):
    """logpdf, whitened rms, std, rescale, dense conversion of a Normal."""
    import jax.numpy as jnp

    rng = ctx.rng
    m = _np(rv.mean_flat)
    u = m + gen.dyadic(rng, m.shape, bits=5, scale=2.0)
    slices = rv_slices(kind, rv)
    us = pt_slices(kind, u)
    invertible = fkind in ("well", "general")
    # --- std and rescale: always
    std = rv.std
    std_flat = np.concatenate([np.atleast_1d(_np(s)).reshape(-1) for s in std]) if isinstance(std, (list, tuple)) else _np(std)
    fac = float(2.0 ** rng.integers(-4, 5)) * float(rng.choice([1.0, 3.0, 0.75]))
    if kind == "bd":
        facs = np.asarray([fac * (i + 1) for i in range(d)])
        resc = rv.rescale_cholesky(jnp.asarray(facs))
    else:
        facs = np.asarray([fac] * max(1, len(slices)))
        resc = rv.rescale_cholesky(jnp.asarray(fac))
    resc_sl = rv_slices(kind, resc)
    var_model = []
    for idx, (sl, rs) in enumerate(zip(slices, resc_sl)):
        mean, L = sl
        nn = L.shape[0]
        case = case_desc(kind, "normal", slice=idx, **tag, inputs=dump(mean, L))
        v = ctx.drv.call("g_var", nn, mean, gramf(L))
        var_model.append(fl(v))
        ans = Cut(ctx.drv.call("g_rescale", nn, mean, gramf(L), F(float(facs[idx if kind == "bd" else 0]))))
        rm, rc = ans.take(nn), ans.take(nn, nn)
        cmp_vec(ctx, "rescale.mean", rs[0], rm, np.abs(fl(rm)), case, f"{kind}:rescale_cholesky:mean")
        cmp_cov(ctx, "rescale.cov", rs[1], rc, fl(np.diag(rc)), case, f"{kind}:rescale_cholesky:cov")
    # batched rescaling (one factor per batch entry, as for a stack of states with per-step output scales): entry i of the
    # result is the un-batched rescaling with factor i; the batch length equals the number of coefficients so that a
    # factor broadcast along the wrong axis is not caught by shapes alone
    import jax

    Kb = int(_np(rv.cholesky_flat).shape[-1])
    if Kb >= 2:
        rvb = jax.tree_util.tree_map(lambda x: jnp.stack([x] * Kb), rv)
        fb = np.asarray([fac * (1.0 + 0.5 * i) for i in range(Kb)])
        facb = jnp.asarray(fb[:, None] * (np.arange(1, d + 1)[None, :])) if kind == "bd" else jnp.asarray(fb)
        try:
            rb = rvb.rescale_cholesky(facb)
            same = all(
                np.allclose(_np(rb.cholesky_flat)[i], _np(rv.rescale_cholesky(facb[i]).cholesky_flat), rtol=1e-14, atol=0.0)
                and np.array_equal(_np(rb.mean_flat)[i], _np(rv.mean_flat))
                for i in range(Kb)
            )
        except Exception as e:  # noqa: BLE001
            same = False
            ctx.notes.append(f"batched rescale_cholesky raised {type(e).__name__}") if hasattr(ctx, "notes") and len(ctx.notes) < 5 else None
        if not same:
            ctx.violation(f"{kind}:rescale_cholesky:batched", "rescale_cholesky of a stacked Gaussian with one factor per batch entry differs from the entry-wise rescaling",
                          case_desc(kind, "normal-batched-rescale", **tag, factors=np.asarray(facb).tolist()))
        ctx.count("rescale.batched")
    # operations are functional: rescaling returns a new object and leaves its receiver alone, so a second call on the same
    # object gives the same result (seeded change C08-s10: an in-place rescale_noise gives s^4 Q on the second call)
    Cond, _N = make_impl(kind)
    chol0 = _np(rv.cholesky_flat).copy()
    f_im = jnp.asarray(facs) if kind == "bd" else jnp.asarray(fac)
    cnd = Cond(jnp.zeros(_np(rv.cholesky_flat).shape), rv, to_latent=jnp.ones(_np(rv.mean_flat).shape if kind != "iso" else _np(rv.mean_flat).shape[:1]), to_observed=jnp.ones(_np(rv.mean_flat).shape if kind != "iso" else _np(rv.mean_flat).shape[:1]))
    try:
        r1 = _np(cnd.rescale_noise(f_im).noise.cholesky_flat)
        r2 = _np(cnd.rescale_noise(f_im).noise.cholesky_flat)
        same = np.array_equal(r1, r2) and np.array_equal(_np(cnd.noise.cholesky_flat), chol0) and np.array_equal(_np(rv.rescale_cholesky(f_im).cholesky_flat), r1) and np.array_equal(_np(rv.cholesky_flat), chol0)
    except Exception:  # noqa: BLE001
        same = False
    if not same:
        ctx.violation(f"{kind}:rescale:not-functional", "rescale_noise / rescale_cholesky changed its receiver or gave a different result on the second call on the same object",
                      case_desc(kind, "normal-rescale-twice", **tag))
    ctx.count("rescale.twice")
    # std layout: dense: coefficient-major flat; iso: one scalar per coefficient; bd: (d,n) -> tree of n leaves of d
    if kind == "dense":
        v = var_model[0]
        ctx.dev("std", float(np.max(np.abs(std_flat**2 - v) / np.maximum(v, np.finfo(float).tiny))) if v.size else 0.0, TOL,
                case=case_desc(kind, "std", **tag), sig=f"{kind}:std")
    elif kind == "iso":
        v = var_model[0]
        ctx.dev("std", float(np.max(np.abs(std_flat**2 - v) / np.maximum(v, np.finfo(float).tiny))), TOL, case=case_desc(kind, "std", **tag), sig=f"{kind}:std")
    else:
        v = np.stack(var_model)  # (d, n); impl std tree: n leaves each (d,)
        got = np.stack([_np(s) for s in std], axis=1)  # (d, n)
        ctx.dev("std", float(np.max(np.abs(got**2 - v) / np.maximum(v, np.finfo(float).tiny))), TOL, case=case_desc(kind, "std", **tag), sig=f"{kind}:std")
    # --- dense conversion: compare with the embedding (coefficient-major ravel order)
    mean_d, cov_d = rv.to_multivariate_normal()
    mean_d, cov_d = _np(mean_d), _np(cov_d)
    if kind == "dense":
        exp_mean, exp_cov = m, fl(gramf(_np(rv.cholesky_flat)))
    elif kind == "iso":
        C = fl(gramf(_np(rv.cholesky_flat)))
        exp_mean = m.reshape(-1)
        exp_cov = np.kron(C, np.eye(d))
    else:
        Cs = [fl(gramf(L)) for _, L in slices]
        exp_mean = m.T.reshape(-1)
        exp_cov = np.zeros((n * d, n * d))
        for i in range(d):
            for a in range(n):
                for b_ in range(n):
                    exp_cov[a * d + i, b_ * d + i] = Cs[i][a, b_]
    dd = np.sqrt(np.maximum(np.diag(exp_cov), 0))
    sc = np.where(np.outer(dd, dd) > 0, np.outer(dd, dd), np.finfo(float).tiny)
    ctx.dev("to_mvn.cov", float(np.max(np.abs(cov_d - exp_cov) / sc)), TOL, case=case_desc(kind, "to_multivariate_normal", **tag, inputs=dump(m, _np(rv.cholesky_flat))), sig=f"{kind}:to_multivariate_normal:cov")
    ctx.dev("to_mvn.mean", float(np.max(np.abs(mean_d - exp_mean))), 0.0, case=case_desc(kind, "to_multivariate_normal", **tag), sig=f"{kind}:to_multivariate_normal:mean")
    # --- logpdf / whitened rms: need an invertible covariance
    if invertible:
        maha_tot, logdet_tot, size = Fraction(0), 0.0, 0
        per_dim_maha = []
        for idx, (sl, uu) in enumerate(zip(slices, us)):
            mean, L = sl
            nn = L.shape[0]
            mh, det = ctx.drv.call("g_maha", nn, mean, gramf(L), uu)
            maha_tot += mh
            per_dim_maha.append((mh, nn))
            logdet_tot += (math.log(det.numerator) - math.log(det.denominator)) if det > 0 else float("nan")
            size += nn
        expect = -0.5 * (float(maha_tot) + size * math.log(2 * math.pi) + logdet_tot)
        got = float(rv.logpdf_flat(jnp.asarray(u)))
        case = case_desc(kind, "logpdf", **tag, inputs=dump(m, _np(rv.cholesky_flat), u))
        ctx.dev("logpdf", abs(got - expect) / (1.0 + abs(expect)), 1e-10, case=case, sig=f"{kind}:logpdf",
                what=f"logpdf {got!r} differs from -1/2(maha + N log 2pi + log det) = {expect!r}")
        if fkind == "well":  # lower-triangular factor: whitened residual norm is defined through solve_tril
            got = _np(rv.residual_whitened_rms_flat(jnp.asarray(u)))
            if kind == "bd":
                exp = np.array([math.sqrt(float(mh) / nn) for mh, nn in per_dim_maha])
            else:
                exp = np.array(math.sqrt(float(maha_tot) / size))
            ctx.dev("whitened_rms", float(np.max(np.abs(got - exp) / np.maximum(np.abs(exp), 1e-300))), 1e-10,
                    case=case_desc(kind, "residual_whitened_rms", **tag, inputs=dump(m, _np(rv.cholesky_flat), u)), sig=f"{kind}:residual_whitened_rms",
                    what=f"whitened RMS {got!r} differs from sqrt(maha/size) = {exp!r}")


def check_logpdf_extreme(ctx, kind, n, d, tag):
    """log-densities of many-dimensional Gaussians with extreme (admissible) scales: the determinant leaves the float64
    range although the log-density is perfectly representable"""
    import jax.numpy as jnp

    rng = ctx.rng
    scales = [1e-12, 1e12, 1e-10, 1e11, 1e-6, 1e6]
    scale = scales[ctx.dist.get("logpdf-extreme", 0) % len(scales)]  # deterministic cycle: every scale is visited
    ctx.count("logpdf-extreme")
    rv0 = gen_rv(ctx, kind, n, d, "well")
    _, Normal = make_impl(kind)
    L = _np(rv0.cholesky_flat) * scale
    m = _np(rv0.mean_flat)
    rv = Normal(jnp.asarray(m), jnp.asarray(L), None)
    u = m + scale * gen.dyadic(rng, m.shape, bits=5, scale=2.0)
    maha_tot, logdet_tot, size = Fraction(0), 0.0, 0
    for sl, uu in zip(rv_slices(kind, rv), pt_slices(kind, u)):
        mean, Ls = sl
        nn = Ls.shape[0]
        mh, det = ctx.drv.call("g_maha", nn, mean, gramf(Ls), uu)
        maha_tot += mh
        logdet_tot += math.log(det.numerator) - math.log(det.denominator)
        size += nn
    expect = -0.5 * (float(maha_tot) + size * math.log(2 * math.pi) + logdet_tot)
    got = float(rv.logpdf_flat(jnp.asarray(u)))
    case = case_desc(kind, "logpdf-extreme-scale", **tag, scale=scale, inputs=dump(m, L, u))
    ctx.dev("logpdf(extreme scale)", abs(got - expect) / (1.0 + abs(expect)) if math.isfinite(got) else float("inf"), 1e-10, case=case,
            sig=f"{kind}:logpdf", what=f"logpdf {got!r} differs from -1/2(maha + N log 2pi + log det) = {expect!r} (N = {size}, scale {scale:g})")
    ctx.case(case_desc(kind, "logpdf-extreme-scale", n=n, d=d, scale=scale))


def check_batched(ctx, kind, k, n, d, tag):
    """vmapped variants agree with the unbatched implementation (implementation vs itself)."""
    import jax

    cs = [gen_cond(ctx, kind, k, n, d, "well", "mild") for _ in range(3)]
    rs = [gen_rv(ctx, kind, n, d, "well") for _ in range(3)]
    stack = lambda xs: jax.tree_util.tree_map(lambda *a: np.stack(a), *xs)  # noqa: E731
    cb, rb = stack(cs), stack(rs)
    outb = jax.vmap(lambda c, r: c.marginalise(r))(cb, rb)
    for i in range(3):
        o = cs[i].marginalise(rs[i])
        dev = max(float(np.max(np.abs(_np(outb.mean_flat)[i] - _np(o.mean_flat)))), float(np.max(np.abs(np.abs(_np(outb.cholesky_flat)[i]) - np.abs(_np(o.cholesky_flat))))))
        ctx.dev("batched.marg", dev, 1e-10, case=case_desc(kind, "vmap-marginalise", **tag), sig=f"{kind}:batched:marginalise")
    mvn_b = rb.to_multivariate_normal()
    for i in range(3):
        mvn = rs[i].to_multivariate_normal()
        dev = float(np.max(np.abs(_np(mvn_b[1])[i] - _np(mvn[1]))))
        ctx.dev("batched.to_mvn", dev, 1e-10, case=case_desc(kind, "batched-to_multivariate_normal", **tag), sig=f"{kind}:batched:to_multivariate_normal")


def check_identity_and_derivative(ctx, kind, n, d, tag):
    import jax.numpy as jnp

    tf = tree_flatten_for(kind, n, d)
    rv = gen_rv(ctx, kind, n, d, "well", tf=tf)
    ident = rv.identity_conditional()
    for sc in cond_slices(kind, ident):
        A, b, L, tl, to = sc
        ok = np.array_equal(A, np.eye(A.shape[0])) and not b.any() and not L.any() and np.all(tl == 1) and np.all(to == 1)
        if not ok:
            ctx.violation(f"{kind}:identity_conditional", "identity_conditional is not the identity kernel", case_desc(kind, "identity_conditional", **tag))
    i = int(ctx.rng.integers(n))
    std = jnp.asarray(0.5) if kind == "iso" else jnp.full((d,), 0.5)
    obs = rv.to_derivative(i, std)
    # selecting coefficient i in the coefficient-major dense order
    for j, sc in enumerate(cond_slices(kind, obs)):
        A, b, L, tl, to = sc
        if kind == "dense":
            expA = np.zeros((d, n * d))
            for t in range(d):
                expA[t, i * d + t] = 1.0
            expQ = 0.25 * np.eye(d)
        else:
            expA = np.zeros((1, n))
            expA[0, i] = 1.0
            expQ = 0.25 * np.eye(1)
        ok = np.array_equal(A, expA) and not b.any() and np.allclose(L @ L.T, expQ, atol=0, rtol=0) and np.all(tl == 1) and np.all(to == 1)
        if not ok:
            ctx.violation(f"{kind}:to_derivative", f"to_derivative({i}) is not the selector of coefficient {i} with noise std^2", case_desc(kind, "to_derivative", index=i, **tag))
    ctx.case(case_desc(kind, "identity+to_derivative", n=n, d=d, i=i))


# ------------------------------------------------------------------------------------------------


def corpus(ctx):
    """Minimised past failures first (D2: isotropic apply_flat with non-unit to_observed and offset)."""
    import jax.numpy as jnp

    Cond, Normal = make_impl("iso")
    noise = Normal(jnp.asarray([[1.0, -2.0], [0.5, 0.25]]), jnp.asarray([[1.0, 0.0], [0.5, 2.0]]), None)
    c = Cond(jnp.asarray([[1.0, 2.0, 0.0], [0.0, 1.0, -1.0]]), noise, to_latent=jnp.asarray([2.0, 1.0, 0.5]), to_observed=jnp.asarray([4.0, 0.25]))
    x = jnp.asarray([[1.0, 0.0], [0.5, -1.0], [2.0, 2.0]])
    check_apply(ctx, "iso", c, x, {"corpus": "D2"})
    ctx.case({"corpus": "D2 isotropic apply_flat"})


def run(ctx):
    import jax

    jax.config.update("jax_enable_x64", True)
    ctx.rule = (
        "random (conditional, Gaussian) pairs per factorisation; shapes n<=9 coefficients, d<=5 dimensions, 1..n observed rows; "
        "factor kinds well/ill/rankdef/zero/general; scalings unit/mild/1e-12..1e12; ops marginalise, apply_flat, merge, "
        "preconditioner_apply, revert(solve_triu|lstsq_svd), logpdf, whitened rms, std, rescale, to_multivariate_normal, vmapped variants; "
        "a case is distinct/non-trivial when its (factorisation, op, shapes, kinds, drawn numbers) differ and the state has >= 2 entries"
    )
    ctx.assumptions += [
        "positive diagonal scalings (the property's quantifier); factors handed to residual_whitened_rms are lower triangular (see DESIGN C08)",
        "lstsq_svd cases are generated either clearly regular or exactly singular (zero rows/columns), never near the SVD cut-off",
    ]
    corpus(ctx)
    ncases = ctx.n(60, 900)
    kinds = ["dense", "iso", "bd"]
    for kind in kinds:
        deterministic_coordinate_case(ctx, kind)
    for it in range(ncases):
        kind = kinds[it % 3]
        rng = ctx.rng
        n = int(rng.integers(1, 10 if not ctx.quick else 7))
        d = int(rng.integers(1, 6 if not ctx.quick else 4))
        if kind == "dense" and n * d > 24:
            d = max(1, 24 // n)
        k = int(rng.integers(1, n + 1))
        fk_rv = gen.pick(rng, ["well", "ill", "rankdef", "zero", "general"], [4, 2, 2, 1, 2])
        fk_c = gen.pick(rng, ["well", "ill", "rankdef", "zero", "general"], [4, 2, 2, 2, 1])
        sk = gen.pick(rng, ["unit", "mild", "wide"], [1, 2, 2])
        tag = {"n": n, "d": d, "k": k, "rv_factor": fk_rv, "noise_factor": fk_c, "scalings": sk, "it": it}
        ctx.count(f"factorisation={kind}")
        ctx.count(f"rv_factor={fk_rv}")
        ctx.count(f"noise_factor={fk_c}")
        ctx.count(f"scalings={sk}")
        c = gen_cond(ctx, kind, k, n, d, fk_c, sk)
        rv = gen_rv(ctx, kind, n, d, fk_rv)
        check_marg(ctx, kind, c, rv, tag)
        x = gen.dyadic(rng, _np(rv.mean_flat).shape, bits=5, scale=3.0)
        import jax.numpy as jnp

        check_apply(ctx, kind, c, jnp.asarray(x), tag)
        check_den(ctx, kind, c, tag)
        k2 = int(rng.integers(1, k + 1))
        c2 = gen_cond(ctx, kind, k2, k, d, gen.pick(rng, ["well", "rankdef", "zero"]), sk)
        check_merge(ctx, kind, c2, c, tag)
        # revert: triangular solve needs a regular S -> pair a regular noise or prior with full-row-rank A
        if fk_c in ("well", "general", "ill") or (fk_rv in ("well", "general") and k == 1):
            check_revert(ctx, kind, c, rv, 0, tag)
            ctx.count("revert=solve_triu")
        if fk_c in ("well", "rankdef", "zero") and fk_rv in ("well", "rankdef", "zero") and sk != "wide":
            check_revert(ctx, kind, c, rv, 1, tag)
            ctx.count("revert=lstsq_svd")
        check_normal(ctx, kind, gen_rv(ctx, kind, n, d, fk_rv, tf=tree_flatten_for(kind, n, d)), n, d, fk_rv, tag)
        ctx.case(tag, nontrivial=(n * d >= 2))
        if it % 6 == 0:
            # many dimensions: dense up to 9*5 = 45 (thorough) / 30 (quick)
            # the determinant of a 32- (quick) / 45-dimensional dense Gaussian with entries ~1e+-12 leaves the float64 range
            nn_, dd_ = (9, 5) if not ctx.quick else (8, 4)
            check_logpdf_extreme(ctx, "dense", nn_, dd_, tag)
            check_logpdf_extreme(ctx, ["iso", "bd"][(it // 6) % 2], nn_, dd_, tag)
        if it % 20 == 0:
            check_batched(ctx, kind, k, n, d, tag)
            check_identity_and_derivative(ctx, kind, n, d, tag)
