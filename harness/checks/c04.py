"""C04 — Output-scale calibration is the documented estimator and is scale-equivariant.

(a) value, fixed grids: the un-calibrated per-step states of the real `solver.step` scan are fed (exact dyadic values)
    to the Lean model step, which returns the squared whitened-RMS term of every step (`Solver.mleTerm`, `Calib.rms2`
    with the size of the factorisation); `Solver.mleFold` / `Solver.mleFinal` of these terms must equal
    `solve_fixed_grid(...).output_scale²` (with / without correction, per dimension for block-diagonal); per-step
    running values; dynamic: per-step local scale; uncalibrated: exactly one; returned covariances = unit-scale
    covariances x scale² (filter: `Gauss.rescale2` on the raw state; fixed-interval: the model's `smootherFinalize` on
    the raw backward conditionals); optional `constraint_init` term;
(b) value, adaptive `solve_adaptive_save_at` (filter / fixed-point): the accepted steps are exposed by a replica of
    the loop built from the public pieces of `RejectionLoop`; the reported scale is the RMS over *all* accepted steps,
    divided by sqrt(num_steps) when the correction is on;
(c) equivariance under the base scale, `damp = 0` and exact initial state: c in [1e-6, 1e6] (half of them powers of
    two): same means, MLE / dynamic scale divided by c, calibrated std unchanged, uncalibrated std times c; adaptive:
    same number of steps and same accepted times.
    Decision on "same accepted step sequence": for c a power of two every float operation commutes with the scaling
    and the runs are bitwise identical (counted in the evidence, not asserted - it rests on LAPACK's QR not branching
    on magnitudes). For general c the error estimate differs by rounding x (cancellation factor of the ODE residual),
    so step sizes differ at that level and an acceptance decision can flip only if the acceptance factor is that close
    to one. Hence: `num_steps` must be equal *exactly*, accepted times must agree to 1e-9 x cancellation factor
    (relative to the interval), and runs whose closest acceptance factor is within 1e-9 x cancellation factor of the
    threshold are skipped and counted;
(d) probes of the excluded points (`damp > 0`, inexact initial state): deviations are *logged*, never asserted.
"""

from __future__ import annotations

import dataclasses
from fractions import Fraction

import numpy as np

from harness import core, gen, problems
from harness import solvermodel as sm
from harness.checks import c0414_lib as L
from harness.core import Cut, F

PROPS_MODULES = ["Pdq.Props.C04"]
LEVEL = "proof"
TOL = 1e-9  # relative, after division by the cancellation factor of the residual
STD_FLOOR = 1e-2
DEGENERATE = 1e12  # cancellation factor beyond which a residual is rounding noise only
FLOOR2 = (1e3 * 2.220446049250313e-16) ** 2  # (1e3 x the floor on the dynamic scale introduced by repository fix 4b386e0)^2
AMP_MAX = 1e7  # whitened residuals that cancel to less than 1e-7 of their summands are not determined by float data


# ------------------------------------------------------------------------------------------------
# helpers


def amp_dims(cfg, field, d, means, t_prev, h):
    """per dimension: the summands |m_K| + |f| (+ 2 |J||m|) and the absolute value |m_K - f| of the residual of the
    mean-only prediction from `means` ((n, d) floats); exact evaluation, float result: (rn (d,), r (d,))"""
    n = means.shape[0]
    K = field.order
    hq = F(h)
    fact = [1]
    for i in range(1, n + 1):
        fact.append(fact[-1] * i)
    mf = [[F(float(means[i, a])) for a in range(d)] for i in range(n)]
    pred = [[sum(hq ** (j - i) / fact[j - i] * mf[j][a] for j in range(i, n)) for a in range(d)] for i in range(n)]
    t1 = F(t_prev) + hq
    fx = field.eval_exact(pred, t1)
    J = field.jac_exact(pred, t1) if cfg.lin == "ts1" else None
    rn, r = np.zeros(d), np.zeros(d)
    for a in range(d):
        r[a] = abs(float(pred[K][a] - fx[a]))
        rn[a] = abs(float(pred[K][a])) + abs(float(fx[a]))
        if J is not None:
            rn[a] += 2 * sum(abs(float(J[a][k][b] * pred[k][b])) for k in range(K) for b in range(d))
    return rn, r


def amp_from(cfg, rn, r):
    """cancellation factor of a whitened residual: block-diagonal models estimate one scale per dimension (worst
    dimension counts), dense / isotropic models pool the dimensions (largest summand over largest residual).
    A residual that vanishes exactly (also 0 - 0) makes the scale estimate 0/0: infinity."""
    with np.errstate(divide="ignore", invalid="ignore"):
        if cfg.fact == "bd":
            q = np.where(r > 0, rn / r, np.inf)
            return float(max(1.0, np.max(q)))
        return float(max(1.0, np.max(rn) / np.max(r))) if np.max(r) > 0 else float("inf")


def amp_estimate(cfg, field, d, means, t_prev, h):
    return amp_from(cfg, *amp_dims(cfg, field, d, means, t_prev, h))


def means_nd(cfg, rv, d):
    """(n, d) float array of the Taylor-coefficient means of an un-batched normal"""
    m = np.asarray(rv.mean_flat, dtype=np.float64)
    if cfg.fact == "dense":
        return m.reshape(-1, d)
    if cfg.fact == "iso":
        return m
    return m.T


def filter_rv(cfg, sol_i):
    return sol_i.solution_full if cfg.strategy == "filter" else sol_i.solution_full.marginal


def random_base(rng, fact, d, allow_none=True):
    if allow_none and rng.random() < 0.35:
        return None
    def one():
        return float(gen.pick(rng, [1.0, 0.75, 1.25, 0.3]) * 2.0 ** rng.integers(-3, 4))
    return one() if fact == "iso" else [one() for _ in range(d)]


def random_config(ctx, it, strategies, damp0=False, exact=False, qmax=5):
    rng = ctx.rng
    fact = ["dense", "iso", "bd"][it % 3]
    solver = gen.pick(rng, ["mle", "mle_nocorr", "dynamic", "dynamic_relin", "solver"], [3, 2, 2, 1, 1])
    lin = gen.pick(rng, ["ts0", "ts1"])
    order = int(gen.pick(rng, [1, 2], [3, 1]))
    q = int(rng.integers(max(1, order), qmax + 1))
    d = int(rng.integers(1, 4))
    damp = 0.0 if damp0 else float(gen.pick(rng, [0.0, 2.0**-8, 0.125], [3, 1, 1]))
    init = "exact" if exact else gen.pick(rng, ["exact", "inexact"], [2, 1])
    strategy = gen.pick(rng, strategies)
    cfg = sm.Config(fact=fact, solver=solver, strategy=strategy, lin=lin, q=q, damp=damp, init=init, base_scale=random_base(rng, fact, d))
    return cfg, d, order


def depends_on_state(field):
    return all(any(any(e[:-1]) for _c, e in comp) for comp in field.comps)


def make_problem(ctx, d, order, kind="general", state_dependent=False):
    rng = ctx.rng
    field = L.random_problem(rng, d, order, kind=kind)
    for _ in range(20):
        if not state_dependent or depends_on_state(field):
            break
        field = L.random_problem(rng, d, order, kind=kind)
    u0s = [gen.dyadic(rng, (d,), bits=3, scale=1.0) for _ in range(order)]
    t0 = float(gen.pick(rng, [0.0, 0.5, -1.0]))
    return field, u0s, t0


def count_cfg(ctx, cfg, mode):
    for k in ("fact", "solver", "lin", "init", "strategy"):
        ctx.count(f"{mode}: {k}={getattr(cfg, k)}")
    ctx.count(f"{mode}: q={cfg.q}")
    ctx.count(f"{mode}: damp={'0' if cfg.damp == 0 else '>0'}")
    ctx.count(f"{mode}: base_scale={'default' if cfg.base_scale is None else 'given'}")


def expected_scale2(ctx, cfg, terms, nsteps, d, start=None):
    """model: fold of the running update over the terms, then the correction. terms: list of Fractions (dense/iso)
    or list of lists (bd). Returns list of d exact squares."""
    corr = 1 if cfg.solver == "mle" else 0
    out = []
    cols = [[t[a] for t in terms] for a in range(d)] if cfg.fact == "bd" else [terms]
    for j, col in enumerate(cols):
        if start is None:
            a2, num = Fraction(0), Fraction(0)
        else:
            a2, num = (start[0][j] if cfg.fact == "bd" else start[0]), start[1]
        r2, _num = ctx.drv.call("cal_mle_fold", a2, num, len(col), *col)
        out.append(ctx.drv.call("cal_mle_final", corr, r2, Fraction(nsteps))[0])
    return out if cfg.fact == "bd" else out * d


def check_scale(ctx, name, cfg, got, exp2, amp, case, sig):
    """got: implementation scale(s) (float array), exp2: list of d exact squares"""
    g2 = np.asarray(got, dtype=np.float64).reshape(-1) ** 2
    e2 = L.tofl(exp2 if cfg.fact == "bd" else exp2[:1])
    dev = L.rel(g2, e2) / max(1.0, min(amp, AMP_MAX))
    return ctx.dev(name, dev, TOL, case=case, sig=sig, what=f"{name}: implementation scale^2 {g2} vs model {e2} (deviation / cancellation factor = {dev:.2e})")


# ------------------------------------------------------------------------------------------------
# (a) value on fixed grids


def model_terms_along(ctx, cfg, stepper, states, dts, case, sigp, per_step_checks=True):
    """states: list of consecutive un-batched raw implementation states, dts: the (float) step sizes the code used;
    returns (terms, amp, dyn_scales) with the model evaluated closed-loop on every step (input = previous
    implementation state, exact)."""
    terms, dyn, amp_max = [], [], 1.0
    for i in range(len(states) - 1):
        prev, new = states[i], states[i + 1]
        h = F(float(dts[i]))
        s0 = sm.state_slices(cfg, prev)
        ms, aux, info = stepper.step(s0, F(float(prev.t)), h, L.aux_of(cfg, prev))
        amp = info.get("amp", 1.0)
        amp_max = max(amp_max, amp)
        c = dict(case, step=i)
        if cfg.solver.startswith("mle"):
            terms.append(info["new_term2"])
            if per_step_checks and amp < AMP_MAX:
                r2_impl, num_impl = L.aux_of(cfg, new)
                r2_mod, num_mod = aux
                if num_impl != num_mod:
                    ctx.violation(f"{sigp}:num_data", f"num_data {num_impl} after step {i}, model {num_mod}", c)
                dev = L.rel(L.tofl(r2_impl), L.tofl(r2_mod)) / amp
                ctx.dev("mle.running2", dev, TOL, case=c, sig=f"{sigp}:running-update", what=f"running scale^2 after step {i}: {L.tofl(r2_impl)} vs model {L.tofl(r2_mod)}")
        elif cfg.solver.startswith("dynamic"):
            dyn.append(info["scale2"])
            g2 = np.asarray(new.output_scale, dtype=np.float64).reshape(-1) ** 2
            if np.any(g2 <= FLOOR2):
                # repository fix 4b386e0 keeps the local scale >= machine epsilon; the model has no such floor
                ctx.skip("dynamic scale at / near the positivity floor (eps) of the implementation: not compared with the model")
            elif per_step_checks and amp < AMP_MAX:
                e2 = L.tofl(info["scale2"])
                dev = L.rel(g2, e2) / amp
                ctx.dev("dynamic.scale2", dev, TOL, case=c, sig=f"{sigp}:dynamic-scale", what=f"dynamic scale^2 of step {i}: {g2} vs model {e2}")
    return terms, amp_max, dyn


def pred_vars_slices(cfg, d, lam, prev, new, h):
    """float predicted variances per slice for the step prev -> new (unit output scale except for the dynamic
    solver, whose local scale is read from `new`): the scale against which posterior moments at `new` are judged"""
    Phi, Q = L.phi_q(cfg.q, float(h))
    s2 = np.asarray(new.output_scale, dtype=np.float64).reshape(-1) ** 2 if cfg.solver.startswith("dynamic") else np.ones(1)
    lam2 = np.array([float(x) ** 2 for x in lam])
    out = []
    for j, (_m, C) in enumerate(sm.normal_slices(cfg.fact, filter_rv(cfg, prev))):
        Cf = sm.tofloat(C)
        if cfg.fact == "dense":
            A = np.kron(Phi, np.eye(d))
            out.append(np.diag(A @ Cf @ A.T) + np.kron(np.diag(Q), lam2 * s2[0]))
        else:
            sa = s2[j] if len(s2) == d and cfg.fact == "bd" else s2[0]
            out.append(np.diag(Phi @ Cf @ Phi.T) + np.diag(Q) * lam2[j] * sa)
    return out


def check_rescaled_state(ctx, name, cfg, raw, got, s2list, pv, case, sigp):
    """`got` (returned normal) = raw filtering state with covariance x scale^2 (model: Gauss.rescale2 on the raw
    state); judged in the (calibrated) predicted-variance metric `pv` (None: the state's own variances)"""
    rsl = sm.normal_slices(cfg.fact, raw)
    gsl = sm.normal_slices(cfg.fact, got)
    for j, ((rm, rC), (gm, gC)) in enumerate(zip(rsl, gsl)):
        n = len(rm)
        s2 = s2list[j] if cfg.fact == "bd" else s2list[0]
        ans = Cut(ctx.drv.call("cal_rescale2", n, rm, rC, s2))
        em, eC = ans.take(n), ans.take(n, n)
        if pv is None:
            sv = np.array([eC[a, a] for a in range(n)], dtype=object)
        else:
            sv = np.array([Fraction(float(x)) * s2 for x in pv[j]], dtype=object)
        dm = sm._dev_vec(gm, em, np.abs(sm.tofloat(em)) + np.sqrt(np.maximum(sm.tofloat(sv), 0.0)) + 1e-300)
        dc = sm._dev_cov(gC, eC, sv)
        c = dict(case, slice=j)
        ctx.dev(f"{name}.mean=raw.mean", dm, 1e-8, case=c, sig=f"{sigp}:mean-changed-by-calibration", what=f"{name}: returned mean differs from the filter mean ({dm:.2e})")
        ctx.dev(f"{name}.cov=scale2*raw.cov", dc, TOL, case=c, sig=f"{sigp}:cov-not-scale2-times-unit", what=f"{name}: returned covariance deviates {dc:.2e} from scale^2 x unit-scale covariance (predicted-variance metric)")


def check_covariances_filter(ctx, cfg, d, raw_states, dts, sol, s2list, case, sigp):
    """solution.u[i] = raw filtering state i with covariance x scale^2"""
    lam = L.lam_of(cfg, d)
    for i, raw in enumerate(raw_states):
        pv = None if i == 0 else pred_vars_slices(cfg, d, lam, raw_states[i - 1], raw, dts[i - 1])
        check_rescaled_state(ctx, "u", cfg, filter_rv(cfg, raw), L.unstack(sol.u, i), s2list, pv, dict(case, time_index=i), sigp)


def check_covariances_smoother(ctx, cfg, d, raw_states, sol, scales, case, sigp):
    """fixed-interval: solution.u = model smootherFinalize(scale, raw last state at t1, raw backward conditionals)"""
    N = len(raw_states) - 1
    sl = [sm.state_slices(cfg, st) for st in raw_states]
    for j in range(len(sl[0])):
        n = len(sl[0][j]["mean"])
        f = scales[j] if cfg.fact == "bd" else scales[0]
        post1 = {"mean": sl[-1][j]["mean"], "cov": sl[-1][j]["cov"], "bw": sm.ident_pcond(n)}
        args = []
        for i in range(N, 0, -1):
            args += sm.pc_args(sl[i][j]["bw"])
        ans = Cut(ctx.drv.call("sv_finalize", n, f, N, *sm.st_args(post1), *args))
        for i in range(N, -1, -1):
            mm, mc = ans.take(n), ans.take(n, n)
            g = sm.normal_slices(cfg.fact, L.unstack(sol.u, i))[j]
            fv = sl[i][j]["cov"]
            sv = np.array([fv[a, a] * f * f + (mm[a] * Fraction(1, 10**10)) ** 2 + Fraction(1, 10**60) for a in range(n)], dtype=object)
            # natural magnitude of the summands of the backward mean A x + b (rounding is relative to it; for a state that is
            # identically zero the exact mean is 0 and the implementation returns rounding noise of that magnitude)
            nat = np.zeros(n)
            if i < N:
                A_, b0_, _Q = sm.den_float(sl[i + 1][j]["bw"])
                nat = np.abs(A_) @ np.abs(sm.tofloat(sm.normal_slices(cfg.fact, L.unstack(sol.u, i + 1))[j][0])) + np.abs(b0_)
            dm = sm._dev_vec(g[0], mm, np.abs(sm.tofloat(mm)) + np.sqrt(sm.tofloat(sv)) + nat)
            dc = sm._dev_cov(g[1], mc, sv)
            c = dict(case, time_index=i, slice=j)
            kap = L.kappa_q(cfg.q)
            dm, dc = dm / kap, dc / kap
            ctx.dev("smoothed.mean", dm, 1e-8, case=c, sig=f"{sigp}:smoothed-mean", what=f"smoothed mean at index {i} deviates {dm:.2e} (/ conditioning of the backward pass) from the model finalisation of the raw states")
            ctx.dev("smoothed.cov", dc, 1e-7, case=c, sig=f"{sigp}:smoothed-cov-not-scale2-times-unit", what=f"calibrated smoothed covariance at index {i} deviates {dc:.2e} (relative to calibrated filter variances)")


def value_fixed_grid(ctx, cfg, d, field, u0s, t0, hs, tag="grid"):
    import jax.numpy as jnp

    run_ = L.runner(cfg, field)
    grid = np.concatenate([[t0], t0 + np.cumsum(hs)])
    N = len(hs)
    case = L.case_of(cfg, field, u0s, t0, {"steps": [float(h) for h in hs]})
    sigp = f"{tag}:{cfg.fact}:{cfg.solver}:{cfg.strategy}:{cfg.lin}"
    state0, states, _last = run_.raw_grid(u0s, t0, grid, cfg.base_scale)
    sol = run_.solve_grid(u0s, t0, grid, cfg.base_scale)
    if not L.finite(sol):
        ctx.skip("non-finite solution (e.g. dynamic calibration with an exactly vanishing residual)")
        return
    raw = [state0] + [L.unstack(states, i) for i in range(N)]
    dts = [float(x) for x in np.diff(grid)]
    stepper = L.Stepper(ctx, cfg, field, d, L.lam_of(cfg, d))
    try:
        terms, amp, dyn = model_terms_along(ctx, cfg, stepper, raw, dts, case, sigp)
    except core.ModelError as e:
        ctx.skip("model refused step: " + e.ans[:60])
        return
    ns = np.asarray(sol.num_steps)
    if not np.array_equal(ns, np.arange(1, N + 1)):
        ctx.violation(f"{sigp}:num_steps", f"num_steps {ns} on a grid of {N} steps", case)
    osc = np.asarray(sol.output_scale, dtype=np.float64)
    if cfg.solver.startswith("mle"):
        if not np.all(osc == osc[-1]):
            ctx.violation(f"{sigp}:output-scale-not-constant", "MLE output scale differs along the time axis", case)
        exp2 = expected_scale2(ctx, cfg, terms, N, d)
        if amp < AMP_MAX:
            check_scale(ctx, "mle.output_scale2", cfg, osc[-1], exp2, amp, case, f"{sigp}:output-scale-is-not-the-rms")
        else:
            ctx.skip("whitened residual cancels below 1e-7 of its summands")
        s2impl = L.scale2_list(cfg, osc[-1], d)
        scales = [F(float(v)) for v in np.atleast_1d(osc[-1]).reshape(-1)] if cfg.fact == "bd" else [F(float(np.atleast_1d(osc[-1]).reshape(-1)[0]))]
    elif cfg.solver.startswith("dynamic"):
        if not np.all(osc[0] == 1.0):
            ctx.violation(f"{sigp}:dynamic-initial-scale", "dynamic output scale at t0 is not one", case)
        for i in range(N):
            # (two separately compiled programs: equal up to rounding x cancellation factor)
            dd = L.rel(osc[i + 1], np.asarray(raw[i + 1].output_scale, dtype=np.float64)) / max(1.0, min(amp, AMP_MAX))
            if amp < AMP_MAX:
                ctx.dev("dynamic.promoted", dd, TOL, case=dict(case, step=i), sig=f"{sigp}:dynamic-scale-promoted", what=f"solution.output_scale[{i + 1}] is not the local scale of step {i}")
        s2impl, scales = [Fraction(1)] * d, [Fraction(1)] * d
    else:
        if not np.all(osc == 1.0):
            ctx.violation(f"{sigp}:uncalibrated-scale-not-one", f"uncalibrated solver reports output scale {osc.reshape(-1)[:4]}", case)
        s2impl, scales = [Fraction(1)] * d, [Fraction(1)] * d
    if cfg.strategy == "filter":
        check_covariances_filter(ctx, cfg, d, raw, dts, sol, s2impl, case, sigp)
    elif cfg.q <= 3 and N <= 4:
        try:
            check_covariances_smoother(ctx, cfg, d, raw, sol, scales, case, sigp)
        except core.ModelError as e:
            ctx.skip("model refused finalisation: " + e.ans[:60])
    ctx.case(dict(cfg.key(), d=d, mode="fixed-grid value", n=N, order=field.order, field=str(field.describe()["components"])[:100]))


def value_constraint_init(ctx, cfg, d, field, u0s, t0, hs):
    """solver_mle with `constraint_init`: the initial whitened residual enters the running mean as datum number one"""
    import jax.numpy as jnp

    run_ = L.runner(cfg, field, constraint_init=True)
    # the initial mean must *violate* the ODE (otherwise the initial whitened residual is rounding noise and nothing about
    # the initial datum can be compared): shift the coefficient the constraint observes by dyadic amounts
    tc, base = run_.args(u0s, t0, cfg.base_scale)
    shift = jnp.asarray([0.125 * (-1.0) ** a * (a + 1) for a in range(d)], dtype=jnp.float64)
    tc = tuple(x + shift if k == field.order else x for k, x in enumerate(tc))
    prior = run_.prior(tc, base)
    grid = np.concatenate([[t0], t0 + np.cumsum(hs)])
    N = len(hs)
    case = L.case_of(cfg, field, u0s, t0, {"steps": [float(h) for h in hs], "constraint_init": True, "shift of the observed initial coefficient": np.asarray(shift).tolist()})
    sigp = f"cinit:{cfg.fact}:{cfg.solver}:{cfg.lin}"
    state0, states, _ = run_.raw(tc, base, jnp.asarray(grid, dtype=jnp.float64))
    sol = run_.fixed(tc, base, jnp.asarray(grid, dtype=jnp.float64))
    if not L.finite(sol):
        ctx.skip("non-finite solution with constraint_init")
        return
    stepper = L.Stepper(ctx, cfg, field, d, L.lam_of(cfg, d))
    # the initial term: update of the initial Gaussian through the identity transition
    init_slices = [{"mean": m, "cov": C, "bw": sm.ident_pcond(len(m))} for m, C in sm.normal_slices(cfg.fact, prior.init)]
    lins = stepper.linearise([s["mean"] for s in init_slices], F(t0))
    mahas = []
    try:
        for st, (H, b, R) in zip(init_slices, lins):
            n = len(st["mean"])
            ans = ctx.drv.call("sv_step", 0, n, stepper.kdim, 0, 0, *sm.pc_args(sm.ident_pcond(n)), H, b, R, *sm.st_args(st))
            if ans[-1] < 0:
                ctx.skip("constraint_init: singular initial innovation")
                return
            mahas.append(ans[-1])
        t0term = stepper.rms2(mahas)
        r2_impl, num_impl = L.aux_of(cfg, state0)
        amp0 = stepper.amplification(lins, [s["mean"] for s in init_slices])
        if num_impl != 1:
            ctx.violation(f"{sigp}:num_data-after-init", f"num_data {num_impl} after init with constraint_init", case)
        if amp0 < AMP_MAX:
            ctx.dev("cinit.term2", L.rel(L.tofl(r2_impl), L.tofl(t0term)) / amp0, TOL, case=case, sig=f"{sigp}:initial-term", what=f"running scale^2 after init {L.tofl(r2_impl)} vs model {L.tofl(t0term)}")
        raw = [state0] + [L.unstack(states, i) for i in range(N)]
        terms, amp, _ = model_terms_along(ctx, cfg, stepper, raw, [float(x) for x in np.diff(grid)], case, sigp)
    except core.ModelError as e:
        ctx.skip("model refused step: " + e.ans[:60])
        return
    exp2 = expected_scale2(ctx, cfg, terms, N, d, start=(t0term, Fraction(1)))
    amp = max(amp, amp0)
    if amp < AMP_MAX:
        check_scale(ctx, "cinit.output_scale2", cfg, np.asarray(sol.output_scale)[-1], exp2, amp, case, f"{sigp}:output-scale-is-not-the-rms-with-initial-term")
    ctx.case(dict(cfg.key(), d=d, mode="fixed-grid value with constraint_init", n=N))


# ------------------------------------------------------------------------------------------------
# (b) value on adaptive runs


def value_adaptive(ctx, cfg, d, field, u0s, t0, save_at, tol, clip):
    import jax.numpy as jnp

    run_ = L.runner(cfg, field)
    args = run_.args(u0s, t0, cfg.base_scale)
    case = L.case_of(cfg, field, u0s, t0, {"save_at": [float(x) for x in save_at], "tol": tol, "clip_dt": clip})
    sigp = f"adaptive:{cfg.fact}:{cfg.solver}:{cfg.strategy}:{cfg.lin}"
    sol_r, accepted, margin = run_.replica(clip).run(*args, save_at, tol, tol, 0.1)
    if sol_r is None or not L.finite(sol_r) or len(accepted) > ctx.n(40, 120):
        ctx.skip("adaptive run: non-finite or too many steps for the exact model")
        return
    sol = run_.save_at(clip)(*args, jnp.asarray(save_at), tol, tol, 0.1)
    ctx.count(f"adaptive: steps={min(len(accepted) // 10 * 10, 40)}+")
    nsteps = len(accepted)
    if margin < 1e-9:
        ctx.skip("adaptive: an acceptance decision within 1e-9 of the threshold")
        return
    if not np.array_equal(np.asarray(sol.num_steps), np.asarray(sol_r.num_steps)) or int(np.asarray(sol.num_steps)[-1]) != nsteps:
        ctx.violation(f"{sigp}:num_steps", f"num_steps {np.asarray(sol.num_steps)} vs replica {np.asarray(sol_r.num_steps)} / {nsteps} accepted steps", case)
        return
    stepper = L.Stepper(ctx, cfg, field, d, L.lam_of(cfg, d))
    # the accepted steps form a chain for the marginals; the fixed-point smoother only changes the backward conditional
    # at checkpoints, which does not enter the calibration. Evaluate the model on every accepted step.
    terms, dyn, amp = [], [], 1.0
    try:
        for i, (prev, dt, new) in enumerate(accepted):
            tt, a_, dd = model_terms_along(ctx, cfg, stepper, [prev, new], [dt], dict(case, accepted_step=i), sigp)
            terms += tt
            dyn += dd
            amp = max(amp, a_)
    except core.ModelError as e:
        ctx.skip("model refused step: " + e.ans[:60])
        return
    osc = np.asarray(sol.output_scale, dtype=np.float64)
    d_rep = L.rel(osc, np.asarray(sol_r.output_scale)) / max(1.0, min(amp, AMP_MAX))
    ctx.dev("adaptive.replica.output_scale", d_rep, TOL, case=case, sig=f"{sigp}:replica-differs", what=f"solve_adaptive_save_at output scale differs from the loop assembled from the public RejectionLoop pieces by {d_rep:.2e} (/ cancellation factor)")
    if cfg.solver.startswith("mle"):
        exp2 = expected_scale2(ctx, cfg, terms, nsteps, d)
        if amp < AMP_MAX:
            check_scale(ctx, "adaptive.mle.output_scale2", cfg, osc[-1], exp2, amp, case, f"{sigp}:output-scale-is-not-the-rms-of-all-accepted-steps")
        else:
            ctx.skip("whitened residual cancels below 1e-7 of its summands")
        if not np.all(osc == osc[-1]):
            ctx.violation(f"{sigp}:output-scale-not-constant", "MLE output scale differs along the time axis", case)
        # every forward-pass object of the MLE solver is unit-scale; the calibration multiplies all reported standard
        # deviations once, at the end: at *every* checkpoint (interpolated ones included) std = scale x std of the same run
        # with the uncalibrated solver (which takes the same steps: the error estimate does not read the calibration)
        if not cfg.solver.endswith("nocorr"):
            cfg0 = dataclasses.replace(cfg, solver="solver")
            run0 = L.runner(cfg0, field)
            sol0 = run0.save_at(clip)(*run0.args(u0s, t0, cfg.base_scale), jnp.asarray(save_at), tol, tol, 0.1)
            if np.array_equal(np.asarray(sol0.num_steps), np.asarray(sol.num_steps)) and L.finite(sol0):
                worst = 0.0
                for sa, sb in zip(sol.u.std, sol0.u.std):
                    sa, sb = np.asarray(sa, dtype=np.float64), np.asarray(sb, dtype=np.float64)
                    sc = np.asarray(osc[-1], dtype=np.float64).reshape((1,) * (sa.ndim - 1) + (-1,)) if cfg.fact == "bd" else float(np.asarray(osc[-1]).reshape(-1)[0])
                    ref = sb * sc
                    worst = max(worst, float(np.max(np.abs(sa - ref) / (np.abs(ref) + 1e-300 + 1e-12 * np.max(np.abs(ref), initial=0.0)))))
                ctx.dev("adaptive.mle.std-vs-unit-scale-run", worst, 1e-9, case=case, sig=f"{sigp}:std-is-not-scale-times-unit-scale-std",
                        what=f"standard deviations at the checkpoints differ from (final scale) x (standard deviations of the uncalibrated run on the same steps) by {worst:.2e}")
            else:
                ctx.skip("adaptive MLE: uncalibrated run takes different steps (not compared)")
        if cfg.strategy == "filter":
            # returned covariances at the checkpoints: calibrated = (same run, uncalibrated solver) x scale^2 is checked in (c);
            # here: the terminal value. With clip_dt the last step ends at t1 and the raw state is the last accepted one.
            if clip:
                s2impl = L.scale2_list(cfg, osc[-1], d)
                prev, dt, new = accepted[-1]
                pv = pred_vars_slices(cfg, d, L.lam_of(cfg, d), prev, new, dt)
                check_rescaled_state(ctx, "adaptive.terminal", cfg, new.solution_full, L.unstack(sol.u, L.stack_len(sol) - 1), s2impl, pv, case, sigp)
    elif cfg.solver.startswith("dynamic"):
        # reported scale at a checkpoint = local scale of the accepted step that reached / passed it (the per-step
        # values themselves were compared with the model above)
        if not np.all(osc[0] == 1.0):
            ctx.violation(f"{sigp}:dynamic-initial-scale", "dynamic output scale at t0 is not one", case)
        for kk in range(1, len(save_at)):
            jj = next((j for j, x in enumerate(accepted) if float(x[2].t) + 1e-8 >= float(save_at[kk])), None)
            if jj is None:
                continue
            if not np.array_equal(osc[kk], np.asarray(accepted[jj][2].output_scale, dtype=np.float64)) and amp < AMP_MAX:
                dd = L.rel(osc[kk], np.asarray(accepted[jj][2].output_scale, dtype=np.float64)) / amp
                ctx.dev("adaptive.dynamic.promoted", dd, TOL, case=dict(case, checkpoint=kk), sig=f"{sigp}:dynamic-scale-promoted", what=f"output scale at checkpoint {kk} is not the local scale of the accepted step that reached it")
    else:
        if not np.all(osc == 1.0):
            ctx.violation(f"{sigp}:uncalibrated-scale-not-one", "uncalibrated solver reports an output scale different from one", case)
    ctx.case(dict(cfg.key(), d=d, mode="adaptive value", steps=nsteps, clip=clip, tol=tol, checkpoints=len(save_at)))


# ------------------------------------------------------------------------------------------------
# (c) equivariance, (d) probes


def random_c(rng):
    if rng.random() < 0.5:
        return float(2.0 ** rng.integers(-20, 21))
    return float(10.0 ** rng.uniform(-6, 6))


def scaled_base(cfg, d, c):
    if cfg.fact == "iso":
        return (1.0 if cfg.base_scale is None else cfg.base_scale) * c
    b = [1.0] * d if cfg.base_scale is None else list(cfg.base_scale)
    return [x * c for x in b]


def compare_equivariant(ctx, cfg, d, a, b, c, amp, case, sigp, assert_=True, extra=None):
    """a: base run, b: run with base scale x c. Filtering moments are compared strictly; the smoothed moments of a
    smoother additionally, divided by the conditioning of the backward pass. Returns dict of deviations."""
    out = {}
    T = L.stack_len(a)
    calibrated = not cfg.solver == "solver"
    k = max(1.0, min(amp, AMP_MAX))
    # quantities into which an estimated scale enters are determined by the float data only up to the cancellation
    # factor of the residual; beyond AMP_MAX they are not compared (means and uncalibrated stds always are)
    scale_ok = amp < AMP_MAX
    if cfg.solver.startswith("dynamic"):
        oa_, ob_ = np.asarray(a.output_scale, dtype=np.float64)[1:], np.asarray(b.output_scale, dtype=np.float64)[1:]
        if np.any(oa_**2 <= FLOOR2) or np.any(ob_**2 <= FLOOR2):
            # the implementation keeps the dynamic scale >= machine epsilon (fix 4b386e0): for extreme c the scale of
            # one of the runs sits on that floor and is no longer sigma / c; outside the theorem (the model has no floor)
            if assert_:
                ctx.skip("equivariance (dynamic): a local scale at / near the positivity floor (eps): scale-dependent quantities not compared")
            scale_ok = False

    def cmp(na, nb):
        ma, sa = L.moments(na, T)
        mb, sb = L.moments(nb, T)
        # the observed coefficient has variance exactly zero for damp = 0 (float: rounding noise): standard deviations
        # are compared relative to themselves plus 1e-2 x the largest standard deviation at the same time point
        den = sa + STD_FLOOR * np.max(sa, axis=1, keepdims=True) + 1e-300
        ex = 0.0 if extra is None else extra[None, :]
        dm = float(np.max(np.abs(mb - ma) / (np.abs(ma) + sa + ex + 1e-300)))
        ds = float(np.max(np.abs(sb - sa) / den)) / k if calibrated else float(np.max(np.abs(sb / c - sa) / den))
        return dm, ds, bool(np.array_equal(ma, mb))

    fa, fb = L.filtering_of(cfg, a), L.filtering_of(cfg, b)
    if cfg.strategy == "filter":
        fa, fb = a.u, b.u
    out["mean"], out["std"], out["mean_bitwise"] = cmp(fa, fb)
    osa, osb = np.asarray(a.output_scale, dtype=np.float64), np.asarray(b.output_scale, dtype=np.float64)
    if calibrated:
        sel = slice(1, None) if cfg.solver.startswith("dynamic") else slice(None)
        out["scale"] = L.rel(osb[sel] * c, osa[sel]) / k
    else:
        out["scale"] = 0.0 if (np.all(osa == 1.0) and np.all(osb == 1.0)) else float("inf")
    kap = L.kappa_q(cfg.q)
    smoothed = cfg.strategy != "filter" and kap < 1e7
    if cfg.strategy != "filter" and not smoothed:
        ctx.skip("smoothed moments not compared: conditioning of the backward pass >= 1e7 (q >= 6); filtering moments are")
    if smoothed:
        dm, ds, _ = cmp(a.u, b.u)
        out["smoothed_mean"], out["smoothed_std"] = dm / kap, ds / kap
    if assert_:
        if calibrated and not scale_ok:
            ctx.skip("equivariance: scale and calibrated std not compared (whitened residual cancels below 1e-7 of its summands); means are")
        ctx.dev("equiv.mean", out["mean"], TOL, case=case, sig=f"{sigp}:mean-depends-on-base-scale", what=f"(filter) means change by {out['mean']:.2e} (relative to |m| + std) when the base scale is multiplied by {c}")
        if scale_ok or not calibrated:
            ctx.dev("equiv.scale", out["scale"], TOL, case=case, sig=f"{sigp}:scale-not-divided-by-c", what=f"output scale x c deviates from the base run by {out['scale']:.2e} (/ cancellation factor) for c = {c}")
            ctx.dev("equiv.std", out["std"], TOL, case=case, sig=f"{sigp}:std-not-{'unchanged' if calibrated else 'times-c'}", what=f"{'calibrated std changes' if calibrated else 'uncalibrated std / c deviates'} by {out['std']:.2e} for c = {c}")
        if smoothed:
            ctx.dev("equiv.smoothed.mean", out["smoothed_mean"], TOL, case=case, sig=f"{sigp}:smoothed-mean-depends-on-base-scale", what=f"smoothed means change by {out['smoothed_mean']:.2e} (/ conditioning of the backward pass) for c = {c}")
            if scale_ok or not calibrated:
                ctx.dev("equiv.smoothed.std", out["smoothed_std"], TOL, case=case, sig=f"{sigp}:smoothed-std-not-{'unchanged' if calibrated else 'times-c'}", what=f"smoothed std deviates by {out['smoothed_std']:.2e} (/ conditioning of the backward pass) for c = {c}")
        ctx.count("equivariance: means bitwise equal" if out["mean_bitwise"] else "equivariance: means equal up to rounding")
    return out


def amp_of_run(cfg, field, d, sol, hs_or_ts):
    """cancellation factor along a returned fixed-grid solution (filter means)"""
    fil = L.filtering_of(cfg, sol)
    ts = np.asarray(sol.t, dtype=np.float64)
    amp = 1.0
    for i in range(len(ts) - 1):
        m = means_nd(cfg, L.unstack(fil, i), d)
        amp = max(amp, amp_estimate(cfg, field, d, m, float(ts[i]), float(ts[i + 1]) - float(ts[i])))
    return amp


def equivariance_fixed(ctx, cfg, d, field, u0s, t0, hs, cs, probe=False):
    import jax.numpy as jnp

    run_ = L.runner(cfg, field)
    grid = np.concatenate([[t0], t0 + np.cumsum(hs)])
    a = run_.solve_grid(u0s, t0, grid, scaled_base(cfg, d, 1.0))
    if not L.finite(a) or np.any(np.asarray(a.output_scale) == 0):
        ctx.skip("non-finite solution or vanishing scale (equivariance)")
        return
    amp = amp_of_run(cfg, field, d, a, hs)
    if not amp < DEGENERATE and not probe:
        ctx.skip("a dimension whose ODE residual vanishes identically (solution polynomial of degree <= q): its scale is 0/0")
        return
    lam = scaled_base(cfg, d, 1.0)
    extra = L.mean_noise(cfg, field, d, a, np.array([lam] * d if cfg.fact == "iso" else lam, dtype=np.float64) ** 2)
    for c in cs:
        b = run_.solve_grid(u0s, t0, grid, scaled_base(cfg, d, c))
        case = L.case_of(cfg, field, u0s, t0, {"steps": [float(h) for h in hs], "c": c})
        sigp = f"equiv:grid:{cfg.fact}:{cfg.solver}:{cfg.strategy}:{cfg.lin}"
        out = compare_equivariant(ctx, cfg, d, a, b, c, amp, case, sigp, assert_=not probe, extra=extra)
        if probe:
            kind = ("damp>0" if cfg.damp > 0 else "inexact-init") + (" / dynamic" if cfg.solver.startswith("dynamic") else " / uncalibrated or MLE")
            rec = ctx.extra.setdefault("excluded_points", {}).setdefault(kind, {"runs": 0, "max_mean_dev": 0.0, "max_scale_dev": 0.0, "max_std_dev": 0.0, "means_changed_beyond_1e-6": 0})
            rec["runs"] += 1
            rec["max_mean_dev"] = max(rec["max_mean_dev"], out["mean"])
            rec["max_scale_dev"] = max(rec["max_scale_dev"], out["scale"] if np.isfinite(out["scale"]) else 0.0)
            rec["max_std_dev"] = max(rec["max_std_dev"], out["std"])
            rec["means_changed_beyond_1e-6"] += int(out["mean"] > 1e-6)
            ctx.count(f"probe {kind}: means {'changed' if out['mean'] > 1e-6 else 'unchanged to 1e-6'}")
        ctx.case(dict(cfg.key(), d=d, mode="equivariance probe" if probe else "equivariance fixed grid", c=c, n=len(hs), field=str(field.describe()["components"])[:80]))


def equivariance_adaptive(ctx, cfg, d, field, u0s, t0, save_at, tol, clip, cs):
    import jax.numpy as jnp

    run_ = L.runner(cfg, field)
    rep = run_.replica(clip)
    # quick tier: the solutions assembled by the replica (identical to solve_adaptive_save_at, checked in (b));
    # thorough tier: the jitted solve_adaptive_save_at itself
    solve = None if ctx.quick else run_.save_at(clip)
    pa = run_.args(u0s, t0, scaled_base(cfg, d, 1.0))
    ra, acc_a, margin_a = rep.run(*pa, save_at, tol, tol, 0.1)
    if ra is None or not L.finite(ra) or len(acc_a) > 400 or np.any(np.asarray(ra.output_scale)[1:] == 0):
        ctx.skip("adaptive equivariance: non-finite / too long base run")
        return
    a = ra if solve is None else solve(*pa, jnp.asarray(save_at), tol, tol, 0.1)
    amp = 1.0
    for prev, dt, _new in acc_a:
        amp = max(amp, amp_estimate(cfg, field, d, means_nd(cfg, filter_rv(cfg, prev), d), float(prev.t), dt))
    if not amp < AMP_MAX:
        # the step-size controller itself consumes the whitened residual: the step sequence is not determined
        ctx.skip("whitened residual cancels below 1e-7 of its summands (adaptive equivariance)")
        return
    ta = np.array([float(x[2].t) for x in acc_a])
    lam = scaled_base(cfg, d, 1.0)
    steps = []
    for prev, dt, new in acc_a:
        mp_, Cp_ = filter_rv(cfg, prev).to_multivariate_normal()
        if cfg.solver.startswith("dynamic"):
            o = np.asarray(new.output_scale, dtype=np.float64).reshape(-1)
            s2 = o**2 if len(o) == d else np.full(d, o[0] ** 2)
        else:
            s2 = np.ones(d)
        steps.append((np.asarray(mp_, dtype=np.float64), np.asarray(Cp_, dtype=np.float64), float(prev.t) + dt, dt, s2))
    extra = L.mean_noise_steps(cfg, field, d, steps, np.array([lam] * d if cfg.fact == "iso" else lam, dtype=np.float64) ** 2)
    for c in cs:
        pb = run_.args(u0s, t0, scaled_base(cfg, d, c))
        rb, acc_b, margin_b = rep.run(*pb, save_at, tol, tol, 0.1)
        case = L.case_of(cfg, field, u0s, t0, {"save_at": [float(x) for x in save_at], "tol": tol, "clip_dt": clip, "c": c})
        sigp = f"equiv:adaptive:{cfg.fact}:{cfg.solver}:{cfg.strategy}:{cfg.lin}"
        # an acceptance factor within (cancellation factor) x 1e-9 of one may flip under rounding
        if min(margin_a, margin_b) < 1e-9 * amp:
            ctx.skip("adaptive equivariance: an acceptance decision too close to the threshold")
            continue
        if rb is None or len(acc_b) != len(acc_a):
            ctx.violation(f"{sigp}:number-of-steps-depends-on-base-scale", f"{len(acc_a)} accepted steps with the base scale, {len(acc_b)} with c = {c}", case)
            continue
        tb = np.array([float(x[2].t) for x in acc_b])
        dt_dev = float(np.max(np.abs(ta - tb)) / (float(save_at[-1]) - float(save_at[0]))) / amp
        ctx.dev("equiv.accepted_times", dt_dev, TOL, case=case, sig=f"{sigp}:step-sequence-depends-on-base-scale", what=f"accepted times differ by {dt_dev:.2e} (relative, / cancellation factor) for c = {c}")
        ctx.count("adaptive equivariance: step sequence bitwise equal" if np.array_equal(ta, tb) else "adaptive equivariance: step sequence equal up to rounding")
        b = rb if solve is None else solve(*pb, jnp.asarray(save_at), tol, tol, 0.1)
        if not np.array_equal(np.asarray(a.num_steps), np.asarray(b.num_steps)):
            ctx.violation(f"{sigp}:num_steps-depends-on-base-scale", f"num_steps {np.asarray(a.num_steps)} vs {np.asarray(b.num_steps)} for c = {c}", case)
            continue
        compare_equivariant(ctx, cfg, d, a, b, c, amp, case, sigp, extra=extra)
        ctx.case(dict(cfg.key(), d=d, mode="equivariance adaptive", c=c, steps=len(acc_a), tol=tol))


# ------------------------------------------------------------------------------------------------


def corpus(ctx):
    """fixed regression cases (no known failure of C04 on the current tree): logistic ODE, all factorisations,
    MLE with correction on a non-uniform grid; scalar linear ODE, equivariance with c = 3 and c = 2^-10."""
    field = problems.PolyField(1, 1, [[(Fraction(1), (1, 0)), (Fraction(-1), (2, 0))]])
    for fact in ("dense", "iso", "bd") if not ctx.quick else ("iso",):
        cfg = sm.Config(fact=fact, solver="mle", strategy="filter", lin="ts0", q=2)
        value_fixed_grid(ctx, cfg, 1, field, [np.array([0.125])], 0.0, [0.125, 0.125, 0.25, 0.125], tag="corpus")
    lin = problems.PolyField(2, 1, [[(Fraction(-1, 2), (1, 0, 0))], [(Fraction(1, 4), (1, 0, 0)), (Fraction(-1), (0, 1, 0))]])
    cfg = sm.Config(fact="bd", solver="mle", strategy="fixedinterval", lin="ts1", q=3, base_scale=[0.5, 3.0])
    equivariance_fixed(ctx, cfg, 2, lin, [np.array([1.0, -0.5])], 0.0, [0.25, 0.125, 0.25], [3.0, 2.0**-10])
    # dynamic calibration under a large base scale: the local scale is (residual norm) / (base scale) ~ 1e-9, still far
    # above the positivity floor eps of the implementation; it must be the documented estimate and divide by c exactly
    # (seeded change C04-s2: floor sqrt(eps))
    slow = problems.PolyField(2, 1, [[(Fraction(-1, 8), (1, 0, 0))], [(Fraction(1, 16), (1, 0, 0)), (Fraction(-1, 8), (0, 1, 0))]])
    for fact in ("iso", "bd"):
        # slowly varying solution: local scale ~ 2e-3 at base scale 1, ~ 2e-9 at base scale 1e6
        cfgd = sm.Config(fact=fact, solver="dynamic", strategy="filter", lin="ts0", q=2, base_scale=(1.0 if fact == "iso" else [1.0, 2.0]))
        equivariance_fixed(ctx, cfgd, 2, slow, [np.array([1.0, -0.5])], 0.0, [0.125, 0.25, 0.125, 0.25], [1e6, 2.0**20])
    # dynamic calibration, many checkpoints inside single accepted steps: every checkpoint reports the local scale of
    # the step that passed it, also the second and later checkpoints of that step (seeded change C04-s4)
    cfgd = sm.Config(fact="iso", solver="dynamic", strategy="filter", lin="ts0", q=2)
    value_adaptive(ctx, cfgd, 2, lin, [np.array([1.0, -0.5])], 0.0, np.linspace(0.0, 1.0, 17), 1e-2, clip=False)
    # block-diagonal MLE, one component whose residual vanishes identically (a constant carried in the state): that dimension's
    # scale is exactly 0, the other dimension's scale is the documented estimate (seeded change C04-s11: a zero-guard
    # collapsed over all dimensions)
    aug = problems.PolyField(2, 1, [[(Fraction(-1, 2), (1, 1, 0))], [(Fraction(0), (0, 1, 0))]])
    cfga = sm.Config(fact="bd", solver="mle", strategy="filter", lin="ts0", q=2)
    hs_a = [0.125, 0.25, 0.125, 0.25]
    grid_a = np.concatenate([[0.0], np.cumsum(hs_a)])
    sol2 = L.runner(cfga, aug).solve_grid([np.array([1.0, 0.75])], 0.0, grid_a, None)
    # with TS0 the block of component 0 evolves exactly like the scalar problem y' = -(3/8) y (whose calibration is compared
    # with the model in the fixed-grid part)
    one = problems.PolyField(1, 1, [[(Fraction(-3, 8), (1, 0))]])
    sol1 = L.runner(cfga, one).solve_grid([np.array([1.0])], 0.0, grid_a, None)
    o2, o1 = np.asarray(sol2.output_scale, dtype=np.float64)[-1].reshape(-1), np.asarray(sol1.output_scale, dtype=np.float64)[-1].reshape(-1)
    case_a = {"corpus": "constant component", "field": "y0' = -y0 y1 / 2, y1' = 0", "u0": [1.0, 0.75], "steps": hs_a, "scales": o2.tolist(), "scalar problem scale": o1.tolist()}
    ctx.case(case_a)
    dev_a = abs(o2[0] - o1[0]) / o1[0]
    ctx.dev("mle.constant-component.scale", dev_a, 1e-10, case=case_a, sig="grid:bd:mle:constant-component:scale-of-the-other-dimension",
            what=f"block-diagonal MLE scale of the non-constant component ({o2[0]!r}) differs from the scale of the equivalent scalar problem ({o1[0]!r})")
    if o2[1] != 0.0:
        ctx.violation("grid:bd:mle:constant-component:scale-not-zero", f"scale of a component with identically vanishing residual is {o2[1]!r}, expected exactly 0", case_a)
    # adaptive MLE runs with checkpoints strictly inside steps (interpolation must use unit-scale transitions; seeded
    # change C04-s1 was only seen by C03/C05): filter and fixed-point smoother, no clipping
    for fact, strat in (("iso", "filter"), ("dense", "fixedpoint")) if ctx.quick else (("iso", "filter"), ("dense", "fixedpoint"), ("bd", "fixedpoint"), ("dense", "filter")):
        cfg = sm.Config(fact=fact, solver="mle", strategy=strat, lin="ts0", q=2)
        value_adaptive(ctx, cfg, 2, lin, [np.array([1.0, -0.5])], 0.0, np.array([0.0, 0.3, 0.55, 1.0]), 1e-3, clip=False)


def run(ctx):
    import warnings

    import jax

    jax.config.update("jax_enable_x64", True)
    warnings.filterwarnings("ignore")
    ctx.rule = (
        "random configurations {dense,iso,bd} x {mle (+/- correction), dynamic (+/- relinearise), uncalibrated} x {filter, fixed-interval | fixed-point} x "
        "{TS0,TS1} x damp in {0,>0} x {exact, inexact} init x base scales (default / per-dimension); random polynomial fields (degree <= 2, d <= 3, "
        "order 1-2); q <= 5; fixed grids of 2-6 steps in [2^-5, 0.75] and adaptive save_at runs (tol 1e-2..1e-5, 2-4 checkpoints, clip on/off); "
        "equivariance: c log-uniform in [1e-6, 1e6], half of them powers of two; distinct = different (config, field, grid | c)"
    )
    ctx.assumptions += [
        "linearisation (value / Jacobian of the polynomial field at the model's exact predicted mean) is evaluated on the Python side in exact arithmetic (model of `linearize`: C11)",
        "scale equivariance is read under damp = 0 and an exact initial state (C04.equivariance_fails_with_damp / _inexact_init prove that it fails otherwise); the excluded points are probed and logged in coverage.excluded_points",
        "two float runs that differ by the base scale agree up to (cancellation factor of the ODE residual) x rounding; comparisons divide by that factor and skip cases where it exceeds 1e7; for c a power of two all quantities are bitwise equal (counted)",
        "adaptive runs: an acceptance decision closer than 1e-9 x cancellation factor to the threshold may flip under rounding: such runs are skipped and counted",
    ]
    import time

    tm = ctx.extra.setdefault("wall_by_part", {})
    t_ = time.time()

    def lap(name):
        nonlocal t_
        tm[name] = round(tm.get(name, 0.0) + time.time() - t_, 1)
        t_ = time.time()

    corpus(ctx)
    lap("corpus")
    rng = ctx.rng
    # (a) fixed grids
    for it in range(ctx.n(6, 60)):
        L.release()
        cfg, d, order = random_config(ctx, it, ["filter", "fixedinterval"])
        field, u0s, t0 = make_problem(ctx, d, order)
        hs = [float(2.0 ** rng.integers(-5, 0)) * float(gen.pick(rng, [1.0, 0.75, 1.5])) for _ in range(int(rng.integers(2, 7)))]
        count_cfg(ctx, cfg, "value")
        value_fixed_grid(ctx, cfg, d, field, u0s, t0, hs)
    lap("value fixed grid")
    for it in range(ctx.n(2, 12)):
        L.release()
        cfg, d, order = random_config(ctx, it, ["filter"])
        # (alternating, so that the corrected and the uncorrected estimator are both reached in every run)
        cfg = dataclasses.replace(cfg, solver=["mle", "mle_nocorr"][it % 2], init="inexact", inexact_eps=2.0**-6, damp=float(gen.pick(rng, [0.0, 2.0**-8])))
        field, u0s, t0 = make_problem(ctx, d, order)
        hs = [float(2.0 ** rng.integers(-4, 0)) for _ in range(int(rng.integers(2, 5)))]
        value_constraint_init(ctx, cfg, d, field, u0s, t0, hs)
    lap("value constraint_init")
    # (b) adaptive
    for it in range(ctx.n(3, 20)):
        L.release()
        cfg, d, order = random_config(ctx, it, ["filter", "fixedpoint"], qmax=4)
        cfg = dataclasses.replace(cfg, solver=gen.pick(rng, ["mle", "mle_nocorr", "dynamic", "solver"], [3, 2, 1, 1]))
        field, u0s, t0 = make_problem(ctx, d, order, kind="linear")
        tol = float(10.0 ** rng.uniform(-5, -2))
        T = float(gen.pick(rng, [0.5, 1.0, 0.75]))
        inner = sorted(float(x) for x in t0 + T * rng.uniform(0.1, 0.9, size=int(rng.integers(0, 3))))
        save_at = np.array([t0, *inner, t0 + T])
        count_cfg(ctx, cfg, "adaptive")
        value_adaptive(ctx, cfg, d, field, u0s, t0, save_at, tol, clip=bool(rng.random() < 0.5))
    lap("value adaptive")
    # (c) equivariance
    for it in range(ctx.n(8, 90)):
        L.release()
        cfg, d, order = random_config(ctx, it, ["filter", "fixedinterval"], damp0=True, exact=True, qmax=6)
        field, u0s, t0 = make_problem(ctx, d, order, state_dependent=True)
        lo = -4 if cfg.q <= 3 else -2
        hs = [float(2.0 ** rng.integers(lo, 1)) * float(gen.pick(rng, [1.0, 0.75])) for _ in range(int(rng.integers(2, 9)))]
        count_cfg(ctx, cfg, "equivariance")
        equivariance_fixed(ctx, cfg, d, field, u0s, t0, hs, [random_c(rng) for _ in range(ctx.n(2, 3))])
    lap("equivariance fixed grid")
    for it in range(ctx.n(2, 16)):
        L.release()
        cfg, d, order = random_config(ctx, it, ["filter", "fixedpoint"], damp0=True, exact=True, qmax=4)
        field, u0s, t0 = make_problem(ctx, d, order, kind="linear")
        tol = float(10.0 ** rng.uniform(-6, -2))
        T = float(gen.pick(rng, [0.5, 1.0, 2.0]))
        save_at = np.array([t0, t0 + 0.4 * T, t0 + T])
        count_cfg(ctx, cfg, "equivariance-adaptive")
        equivariance_adaptive(ctx, cfg, d, field, u0s, t0, save_at, tol, bool(rng.random() < 0.5), [random_c(rng) for _ in range(2)])
    lap("equivariance adaptive")
    # (d) probes of the excluded points: logged, not asserted
    for it in range(ctx.n(2, 16)):
        L.release()
        cfg, d, order = random_config(ctx, it, ["filter"], damp0=True, exact=True, qmax=4)
        if it % 2 == 0:
            cfg = dataclasses.replace(cfg, damp=0.125)
        else:
            cfg = dataclasses.replace(cfg, init="inexact", inexact_eps=2.0**-4)
        field, u0s, t0 = make_problem(ctx, d, order)
        hs = [float(2.0 ** rng.integers(-3, 0)) for _ in range(3)]
        equivariance_fixed(ctx, cfg, d, field, u0s, t0, hs, [64.0, 1.0 / 64.0], probe=True)
    lap("probes")
