"""C16 — Automatic derivatives equal the true derivatives of the computed outputs (partial by design).

Theorems (`Pdq.Props.C16`): the differentiation rule of `qr_r` is exact for Gram consumers and wrong after
block extraction (D5), dual numbers over the model are an exact derivative oracle.  Correspondence:

(K) kernel level: `backend.linalg.qr_r` (which rule is shipped: the modelled one `Q^T M_dot`, or a triangular
    one; Gram contract; finite at singular / zero inputs; forward = reverse), `cholesky_util.revert_conditional`
    and `sum_of_sqrtm_factors` tangents mapped to covariance form vs the model at `Dual Rat` (`du_revert`, `du_marg`);
(S) solver level: `jax.jacfwd` / `jax.jacrev` (+ `jax.jvp`, `jax.grad` of random functionals) of means, standard
    deviations, output scale of `solve_fixed_grid` and of both marginal-likelihood losses with respect to the ODE
    parameters, the initial value, the prior base scale, the observation-noise levels; forward vs reverse, vs
    central differences with Richardson extrapolation, vs the dual-number model (filter, TS0/TS1, <= 3 steps, q <= 2).

Attribution of a wrong derivative is structural, never by the random case: it is filed as the known defect D5
(`qr_jvp:block-extraction:<path>:<quantity>-gradient`) only if (i) the parameter reaches a triangularised matrix on
that path (`path_class`: TS1 linearisation / the parameter is a scale or noise level / dynamic calibration / MLE
calibration inside the time-series loss), (ii) the shipped rule is the modelled rule `Q^T M_dot` (kernel check), and
(iii) the same code differentiated with a *triangular* tangent of `qr_r` (patched inside this process) agrees with
the oracle.  Anything else — a wrong derivative on a covariance-independent path (TS0 mean w.r.t. theta), forward !=
reverse, non-finite values, a wrong derivative that the triangular rule does not repair — gets a different signature.

Two further findings have their own structural signatures: `std_norm:zero-covariance:{iso,bd}:std-gradient-nonfinite`
(the isotropic / block-diagonal `std` differentiates `vector_norm` at the zero vector: NaN for every exactly known
coordinate, and NaN for *every* output in reverse mode) and
`lstsq_svd:repeated-singular-values:dense:loss-timeseries-gradient-nonfinite` (dense, d >= 2, equal noise levels:
`jnp.linalg.lstsq` differentiates an SVD with coinciding singular values).  Because a NaN poisons a whole reverse-mode
Jacobian, the outputs known to be affected (std at an exact initial state; the time-series loss with equal noise) are
differentiated in separate functions (`build_F(..., only=...)`).

Every configuration is differentiated in a worker process (`compute_config`: tracing and lowering hold the GIL); the
kernel checks and the model comparison run in the parent, which owns the driver.
"""

from __future__ import annotations

import concurrent.futures
import math
from fractions import Fraction

import numpy as np

from harness import core, gen
from harness.checks import c16_lib as L
from harness.checks.c16_lib import DCut, DualQ, dq_flat
from harness.core import F

PROPS_MODULES = ["Pdq.Props.C16"]
LEVEL = "proof"
EXPLANATION = (
    "Partial by design: theorems cover the custom differentiation rule of qr_r and the dual-number derivative oracle; "
    "JAX's differentiation of primitives and reverse = forward are compared at run time only."
)

TOL_FD = 1e-6  # AD vs Richardson-extrapolated central differences (relative, see `rel_dev`)
TOL_FR = 1e-10  # forward vs reverse mode
TOL_MODEL = 1e-7  # AD vs exact derivative of the exact-arithmetic model
TOL_KERNEL = 1e-9  # kernel tangents vs the dual model

QUANT = {"mean0": "mean", "mean1": "mean", "std0": "std", "std_hi": "std", "scale": "output-scale", "loss_terminal": "loss-terminal", "loss_timeseries": "loss-timeseries"}


# ================================================================================================
# (K) kernel level


def _gram_dual(Lm, Ld):
    """exact dual Gram matrix (L + Ld eps)(L + Ld eps)^T from float matrices"""
    n, k = Lm.shape
    A = [[F(Lm[i, j]) for j in range(k)] for i in range(n)]
    B = [[F(Ld[i, j]) for j in range(k)] for i in range(n)]
    out = np.empty((n, n), dtype=object)
    for i in range(n):
        for j in range(n):
            re = sum(A[i][l] * A[j][l] for l in range(k))
            ep = sum(B[i][l] * A[j][l] + A[i][l] * B[j][l] for l in range(k))
            out[i, j] = DualQ(re, ep)
    return out


def _dual_arr(a, ad):
    a, ad = np.asarray(a, dtype=np.float64), np.asarray(ad, dtype=np.float64)
    out = np.empty(a.shape, dtype=object)
    for idx in np.ndindex(a.shape):
        out[idx] = DualQ(F(a[idx]), F(ad[idx]))
    return out


def _const_vec(n, v=0):
    return np.array([DualQ(v)] * n, dtype=object)


def _eps(a):
    return np.array([float(x.eps) for x in np.asarray(a, dtype=object).reshape(-1)]).reshape(np.shape(a))


def _re(a):
    return np.array([float(x.re) for x in np.asarray(a, dtype=object).reshape(-1)]).reshape(np.shape(a))


def guarded(ctx, sig, fn, *args, default=None):
    """call into the real code; an exception raised there is a finding (never a harness error)"""
    try:
        return fn(*args)
    except (core.HarnessError, core.ModelError):
        raise
    except Exception as e:  # noqa: BLE001
        import traceback

        ctx.violation(f"{sig}:exception", f"{type(e).__name__}: {str(e)[:300]}", {"where": sig, "traceback": traceback.format_exc()[-1200:]})
        return default


def classify_qr_rule(ctx):
    """Which tangent does the shipped `qr_r` return?  'model' (= Q^T M_dot, the rule of the theorems),
    'triangular' (upper-triangular tangent, exact for every consumer) or 'other'."""
    import jax
    import jax.numpy as jnp
    from probdiffeq.backend import linalg

    rng = ctx.rng
    verdicts = set()
    shapes = [(2, 2), (3, 3), (4, 4), (5, 3), (4, 2), (6, 3), (3, 1), (2, 3), (3, 5)]
    for it in range(ctx.n(12, 60)):
        m, n = shapes[it % len(shapes)]
        M = gen.dyadic(rng, (m, n), bits=5) + (np.eye(m, n) * 2.0)
        if it >= len(shapes) and it % 2 == 0:  # also dense, sign-indefinite pivots
            M = gen.dyadic(rng, (m, n), bits=5) * 2.0 - np.eye(m, n)
        Md = gen.dyadic(rng, (m, n), bits=5)
        case = {"kernel": "qr_r", "M": M.tolist(), "M_dot": Md.tolist()}
        got = guarded(ctx, "qr_jvp", lambda: jax.jvp(linalg.qr_r, (jnp.asarray(M),), (jnp.asarray(Md),)))
        if got is None:
            verdicts.add("other")
            continue
        R, Rd = np.asarray(got[0]), np.asarray(got[1])
        sc = float(np.linalg.norm(M) * np.linalg.norm(Md)) + 1e-300
        if not np.all(np.isfinite(Rd)):
            ctx.violation("qr_jvp:nonfinite", "tangent of qr_r is not finite at a regular matrix", case)
            continue
        gram = Rd.T @ R + R.T @ Rd - (Md.T @ M + M.T @ Md)
        ctx.dev("qr_r.gram-contract", float(np.max(np.abs(gram))) / sc, 1e-12, case=case, sig="qr_jvp:gram-contract",
                what="the tangent of qr_r violates R_dot^T R + R^T R_dot = M_dot^T M + M^T M_dot (premise of every consumer, theorem qr_rule_gram_correct)")
        kk = min(m, n)
        Q = M[:, :kk] @ np.linalg.inv(R[:, :kk])
        d_model = float(np.max(np.abs(Rd - Q.T @ Md))) / (np.linalg.norm(Md) + 1e-300)
        d_tri = float(np.max(np.abs(np.tril(Rd, -1)))) / (np.linalg.norm(Md) + 1e-300)
        ctx.devs["qr_r.rule:dist-to-model-rule"] = max(ctx.devs.get("qr_r.rule:dist-to-model-rule", 0.0), d_model)
        lower_of_model = float(np.max(np.abs(np.tril(Q.T @ Md, -1)))) if n > 1 else 0.0
        if lower_of_model < 1e-6 and n > 1:
            ctx.skip("qr rule classification: Q^T M_dot happens to be triangular")
            continue
        if n == 1:
            v = "model" if d_model < 1e-12 else "other"  # both rules coincide for one column
            if v == "other":
                verdicts.add(v)
            continue
        v = "model" if d_model < 1e-12 else ("triangular" if d_tri < 1e-12 else "other")
        verdicts.add(v)
        # forward vs reverse on the kernel itself (once per shape)
        if it >= len(shapes):
            ctx.case({"kernel": "qr_r", "shape": [m, n], "it": it})
            continue
        got = guarded(ctx, "qr_jvp", lambda: (np.asarray(jax.jacfwd(linalg.qr_r)(jnp.asarray(M))), np.asarray(jax.jacrev(linalg.qr_r)(jnp.asarray(M)))))
        if got is None:
            continue
        Jf, Jr = got
        ctx.dev("qr_r.fwd-vs-rev", float(np.max(np.abs(Jf - Jr))) / (1.0 + float(np.max(np.abs(Jf)))), 1e-12, case=case, sig="qr_jvp:forward-vs-reverse")
        ctx.case({"kernel": "qr_r", "shape": [m, n], "it": it})
    # zero / singular inputs (issue #668): finite in both modes
    for name, M in [("zero-3x3", np.zeros((3, 3))), ("zero-4x2", np.zeros((4, 2))), ("zero-column", np.array([[1.0, 0.0, 2.0], [0.5, 0.0, 1.0], [0.25, 0.0, -1.0]])),
                    ("rank-1", np.outer([1.0, 2.0, -1.0], [1.0, 0.5, 0.25]))]:
        got = guarded(ctx, "qr_jvp", lambda M=M: (np.asarray(jax.jacfwd(linalg.qr_r)(jnp.asarray(M))), np.asarray(jax.jacrev(linalg.qr_r)(jnp.asarray(M)))))
        if got is None:
            continue
        Jf, Jr = got
        if not (np.all(np.isfinite(Jf)) and np.all(np.isfinite(Jr))):
            ctx.violation("qr_jvp:nonfinite-at-singular-input", f"derivative of qr_r at the {name} matrix is not finite", {"kernel": "qr_r", "M": M.tolist()})
        ctx.case({"kernel": "qr_r", "singular": name})
    if len(verdicts) == 1:
        rule = verdicts.pop()
    else:
        rule = "other" if verdicts else "model"
    if rule == "other":
        ctx.violation("qr_jvp:rule-not-modelled", "the tangent returned by qr_r is neither Q^T M_dot (the rule the theorems are about) nor upper triangular",
                      {"kernel": "qr_r", "verdicts": sorted(verdicts)})
    ctx.count(f"qr rule shipped = {rule}")
    ctx.extra["qr_rule_shipped"] = rule
    return rule


def kernel_revert_case(rng, n, k, kind):
    A = gen.dyadic(rng, (k, n), bits=4)
    Ad = gen.dyadic(rng, (k, n), bits=4)
    Lx = gen.chol_factor(rng, n, "well" if kind != "exact" else "zero")
    Lxd = np.tril(gen.dyadic(rng, (n, n), bits=4))
    LQ = gen.chol_factor(rng, k, "well")
    LQd = np.tril(gen.dyadic(rng, (k, k), bits=4))
    return A, Ad, Lx, Lxd, LQ, LQd


def check_revert_kernel(ctx, rule, A, Ad, Lx, Lxd, LQ, LQd, tag):
    """tangents of revert_conditional (both AD modes, and with the triangular rule) in covariance form vs `du_revert`"""
    import jax
    import jax.numpy as jnp
    from probdiffeq.backend import linalg
    from probdiffeq.util import cholesky_util

    k, n = A.shape
    case = {"kernel": "revert_conditional", "A": A.tolist(), "A_dot": Ad.tolist(), "L_X": Lx.tolist(), "L_X_dot": Lxd.tolist(), "L_YX": LQ.tolist(), "L_YX_dot": LQd.tolist(), **tag}

    def g(a, lx, lq):
        R_Y, (R_XY, G) = cholesky_util.revert_conditional((a @ lx).T, lx.T, lq.T, solve_triu=linalg.solve_triu)
        return R_Y.T @ R_Y, G, R_XY.T @ R_XY

    prim = tuple(jnp.asarray(x) for x in (A, Lx, LQ))
    tang = tuple(jnp.asarray(x) for x in (Ad, Lxd, LQd))
    out, dout = jax.jvp(g, prim, tang)
    with L.patched_qr("triangular"):
        _, dtri = jax.jvp(lambda *a: g(*a), prim, tang)
    # reverse mode: directional derivative of <W, output> must equal <W, forward tangent>
    W = [gen.dyadic(ctx.rng, np.shape(o), bits=3) for o in out]
    grads = jax.grad(lambda a, lx, lq: sum(jnp.sum(jnp.asarray(w) * o) for w, o in zip(W, g(a, lx, lq))), argnums=(0, 1, 2))(*prim)
    rev = float(sum(jnp.sum(gr * t) for gr, t in zip(grads, tang)))
    fwd = float(sum(np.sum(w * np.asarray(o)) for w, o in zip(W, dout)))
    ctx.dev("revert.fwd-vs-rev", abs(rev - fwd) / (abs(fwd) + 1.0), 1e-11, case=case, sig="revert_conditional:forward-vs-reverse")
    # the model at Dual Rat
    one = [DualQ(1)] * n
    ans = DCut(ctx.drv.call("du_revert", k, n, dq_flat(_dual_arr(A, Ad)), dq_flat(_const_vec(k)), dq_flat(_gram_dual(LQ, LQd)), dq_flat(one), dq_flat([DualQ(1)] * k),
                            dq_flat(_const_vec(n)), dq_flat(_gram_dual(Lx, Lxd))))
    ans.take(k)
    S = ans.take(k, k)
    G = ans.take(n, k)
    ans.take(n)
    Sig = ans.take(n, n)
    ans.take(k)
    ans.take(n)
    ans.done()
    names = ["innovation", "gain", "backward-noise"]
    ok_all = True
    for name, mod, val, ship, tri in zip(names, (S, G, Sig), out, dout, dtri):
        ref, refv = _eps(mod), _re(mod)
        sc = float(np.max(np.abs(ref))) + float(np.max(np.abs(refv))) + 1e-300
        dv = float(np.max(np.abs(np.asarray(val) - refv))) / (float(np.max(np.abs(refv))) + 1e-300)
        ctx.dev(f"revert.{name}.value", dv, 1e-10, case=case, sig=f"revert_conditional:{name}:value")
        d_ship = float(np.max(np.abs(np.asarray(ship) - ref))) / sc if np.all(np.isfinite(np.asarray(ship))) else float("inf")
        d_tri = float(np.max(np.abs(np.asarray(tri) - ref))) / sc
        ctx.devs[f"revert.{name}.tangent(triangular rule)"] = max(ctx.devs.get(f"revert.{name}.tangent(triangular rule)", 0.0), d_tri)
        if d_tri > TOL_KERNEL:
            ctx.violation(f"revert_conditional:{name}:tangent:not-repaired-by-triangular-rule",
                          f"tangent of the {name} Gram differs from the dual model by {d_tri:.2e} even with a triangular tangent of qr_r", case)
            ok_all = False
            continue
        if d_ship <= TOL_KERNEL:
            ctx.devs[f"revert.{name}.tangent"] = max(ctx.devs.get(f"revert.{name}.tangent", 0.0), d_ship)
            continue
        ok_all = False
        if rule == "model" and name != "innovation":
            sig = f"qr_jvp:block-extraction:revert_conditional:{name}-tangent"
        else:
            sig = f"revert_conditional:{name}:tangent"
        ctx.devs[f"revert.{name}.tangent"] = max(ctx.devs.get(f"revert.{name}.tangent", 0.0), d_ship)
        ctx.violation(sig, f"revert_conditional: tangent of the {name} ({'R_XY^T R_XY' if name == 'backward-noise' else name}) differs from the exact derivative "
                           f"(dual-number model, du_revert) by {d_ship:.2e} relative; with an upper-triangular tangent of qr_r the same code agrees to {d_tri:.1e} "
                           "(theorems qr_rule_block_incorrect / triangular_tangent_blocks_correct)", case,
                      theorem="Pdq.C16.qr_rule_block_incorrect")
    ctx.case({"kernel": "revert_conditional", **tag, "n": n, "k": k, "A": A.tolist(), "L_X": Lx.tolist()})
    return ok_all


def check_sum_kernel(ctx, tag):
    """sum_of_sqrtm_factors is a Gram consumer: its tangent must be exact with the shipped rule (qr_rule_gram_correct)"""
    import jax
    import jax.numpy as jnp
    from probdiffeq.util import cholesky_util

    rng = ctx.rng
    n = int(rng.integers(1, 4))
    A, Ad = gen.dyadic(rng, (n, n), bits=4), gen.dyadic(rng, (n, n), bits=4)
    Lx, Lxd = gen.chol_factor(rng, n, gen.pick(rng, ["well", "zero", "rankdef"])), np.tril(gen.dyadic(rng, (n, n), bits=4))
    LQ, LQd = gen.chol_factor(rng, n, "well"), np.tril(gen.dyadic(rng, (n, n), bits=4))
    case = {"kernel": "sum_of_sqrtm_factors", "A": A.tolist(), "A_dot": Ad.tolist(), "L_X": Lx.tolist(), "L_X_dot": Lxd.tolist(), "L_Q": LQ.tolist(), "L_Q_dot": LQd.tolist()}

    def g(a, lx, lq):
        R = cholesky_util.sum_of_sqrtm_factors(((a @ lx).T, lq.T))
        return R.T @ R

    prim = tuple(jnp.asarray(x) for x in (A, Lx, LQ))
    tang = tuple(jnp.asarray(x) for x in (Ad, Lxd, LQd))
    val, dval = jax.jvp(g, prim, tang)
    Jr = jax.jacrev(g, argnums=(0, 1, 2))(*prim)
    drev = sum(jnp.tensordot(j, t, axes=2) for j, t in zip(Jr, tang))
    ans = DCut(ctx.drv.call("du_marg", n, n, dq_flat(_dual_arr(A, Ad)), dq_flat(_const_vec(n)), dq_flat(_gram_dual(LQ, LQd)), dq_flat([DualQ(1)] * n), dq_flat([DualQ(1)] * n),
                            dq_flat(_const_vec(n)), dq_flat(_gram_dual(Lx, Lxd))))
    ans.take(n)
    C = ans.take(n, n)
    ans.done()
    ref = _eps(C)
    sc = float(np.max(np.abs(ref))) + float(np.max(np.abs(_re(C)))) + 1e-300
    for mode, d in (("forward", dval), ("reverse", drev)):
        if not np.all(np.isfinite(np.asarray(d))):
            ctx.violation(f"sum_of_sqrtm_factors:nonfinite:{mode}", "tangent of sum_of_sqrtm_factors is not finite", case)
            continue
        ctx.dev(f"sum_of_sqrtm.tangent.{mode}", float(np.max(np.abs(np.asarray(d) - ref))) / sc, TOL_KERNEL, case=case, sig=f"sum_of_sqrtm_factors:gram-tangent:{mode}",
                what="tangent of R^T R returned by sum_of_sqrtm_factors differs from the exact derivative of A P A^T + Q (dual model du_marg)")
    ctx.case({"kernel": "sum_of_sqrtm_factors", **tag, "n": n, "A": A.tolist(), "L_X": Lx.tolist()})


def kernel_zero_inputs(ctx):
    """the repository's own gradient tests (zero covariance inputs) stay finite"""
    import jax
    import jax.numpy as jnp
    from probdiffeq.backend import linalg
    from probdiffeq.util import cholesky_util

    X = jnp.asarray([[4.0, 0.5], [0.25, 3.5]])
    rc = lambda a, b, c: cholesky_util.revert_conditional(a, b, c, solve_triu=linalg.solve_triu)  # noqa: E731
    for mode, jac in (("reverse", jax.jacrev), ("forward", jax.jacfwd)):
        res = jac(rc, argnums=(0, 1, 2))(jnp.zeros((3, 2)), jnp.zeros((3, 3)), X.T)
        if not all(bool(jnp.all(jnp.isfinite(x))) for x in jax.tree_util.tree_leaves(res)):
            ctx.violation(f"revert_conditional:nonfinite-at-zero-covariance:{mode}", "derivative of revert_conditional at a zero covariance is not finite (issue #668)", {"kernel": "revert_conditional", "zero": True})
        res = jac(cholesky_util.sum_of_sqrtm_factors)((jnp.zeros((3, 3)), jnp.asarray([[1.0, 0.5, 0.0], [0.0, 2.0, 1.0]])))
        if not all(bool(jnp.all(jnp.isfinite(x))) for x in jax.tree_util.tree_leaves(res)):
            ctx.violation(f"sum_of_sqrtm_factors:nonfinite-at-zero-covariance:{mode}", "derivative of sum_of_sqrtm_factors with a zero factor is not finite (issue #668)", {"kernel": "sum_of_sqrtm_factors", "zero": True})
        ctx.case({"kernel": "zero-inputs", "mode": mode})


# ================================================================================================
# (S) solver level: the differentiated function


def field_of(cfg):
    return L.ParamField.from_description(cfg["field"])


def layout_of(cfg):
    """ordered parameter groups: (name, size)"""
    fld = cfg["field"]
    d, p = fld["d"], fld["p"]
    N = len(cfg["grid"])
    per = 1 if cfg["fact"] == "iso" else d
    lay = [("theta", p), ("u0", d)]
    if cfg.get("scale") is not None:
        lay.append(("scale", per))
    if cfg.get("damp"):
        lay.append(("damp", 1))
    if cfg.get("loss"):
        lay.append(("lstd", per))
        if cfg["strategy"] != "filter":
            lay.append(("sstd", N * per))
    return lay


def x0_of(cfg):
    vals = {"theta": cfg["theta"], "u0": cfg["u0"], "scale": cfg.get("scale"), "damp": [cfg.get("damp")], "lstd": cfg.get("lstd"), "sstd": cfg.get("sstd")}
    out = []
    for name, size in layout_of(cfg):
        v = list(np.asarray(vals[name], dtype=np.float64).reshape(-1))
        assert len(v) == size, (name, size, v)
        out += v
    return np.asarray(out, dtype=np.float64)


def param_names(cfg):
    out = []
    for name, size in layout_of(cfg):
        out += [(name, i) for i in range(size)]
    return out


def path_class(cfg, group, quantity="mean"):
    """which structural path makes the parameter reach a matrix that is triangularised and then read block- or
    triangle-wise (None: it does not — then every QR input is parameter-independent or only scaled uniformly)"""
    if cfg["lin"] == "ts1":
        return "ts1"  # the Jacobian of the vector field enters the covariance recursion
    if group in ("scale", "damp", "lstd", "sstd"):
        return "cov-param"  # the parameter is itself a covariance factor
    if cfg["solver"] == "dynamic":
        return "dyn-calibration"  # the local scale (a function of theta, u0) multiplies the process noise
    if cfg["solver"] == "mle" and quantity.startswith("loss"):
        return "mle-calibration"  # the calibrated scale multiplies the posterior, the observation noise of the loss is not scaled
    return None


def std_skips_t0(cfg):
    """isotropic / block-diagonal std of an exactly known state has a NaN derivative (separate finding); it is
    evaluated on its own (`build_F(..., only="std_t0")`) because in reverse mode the NaN would poison every output"""
    return cfg["init"] == "exact" and cfg["fact"] in ("iso", "bd")


def ts_degenerate(cfg):
    """dense, d >= 2, time-series loss with equal noise levels across the dimensions at some time point: the innovation factor
    handed to lstsq_svd has repeated singular values there, and differentiating the SVD returns NaN (separate finding).  The
    loss is then differentiated on its own (`build_F(..., only="loss_timeseries")`), since in reverse mode the NaN poisons every output."""
    d = cfg["field"]["d"]
    if not (cfg["fact"] == "dense" and d >= 2 and cfg.get("loss") and cfg["strategy"] != "filter"):
        return False
    ss = np.asarray(cfg["sstd"], dtype=np.float64).reshape(len(cfg["grid"]), d)
    return bool(np.any(np.all(ss == ss[:, :1], axis=1)))


def build_F(cfg, only=None):
    """returns (Fv, segments); Fv: flat parameter vector -> flat output vector; segments: [(name, size)].
    `only`: None (everything that can be differentiated together), "std_t0", "loss_timeseries"."""
    import jax
    import jax.numpy as jnp
    from probdiffeq import ivpsolve
    from probdiffeq import probdiffeq as pdq

    field = field_of(cfg)
    fj = field.as_jax()
    d = field.d
    fact = cfg["fact"]
    grid = jnp.asarray(np.asarray(cfg["grid"], dtype=np.float64))
    N = len(cfg["grid"])
    lay = layout_of(cfg)
    data = jnp.asarray(np.asarray(cfg["data"], dtype=np.float64)) if cfg.get("loss") else None

    def unpack(x):
        out, i = {}, 0
        for name, size in lay:
            out[name] = x[i : i + size]
            i += size
        return out

    def F(x):
        P = unpack(x)
        th, u0 = P["theta"], P["u0"]
        ssm = {"dense": pdq.state_space_model_dense, "iso": pdq.state_space_model_isotropic, "bd": pdq.state_space_model_blockdiag}[fact]()
        vf = pdq.ode(lambda u, /, *, t: fj(u, th), jacobian=pdq.jacobian_materialize())
        tcoeffs, _ = pdq.jetexpand_ode_padded_scan(num=cfg["q"])(vf, (u0,), t=grid[0])
        kw = {}
        if "scale" in P:
            kw["output_scale"] = P["scale"][0] if fact == "iso" else P["scale"]
        if cfg["init"] == "exact":
            prior = ssm.prior_wiener_integrated(tcoeffs, **kw)
        else:
            prior = ssm.prior_wiener_integrated(tcoeffs, is_exact=False, inexact_eps=cfg["eps"], **kw)
        strat = {"filter": pdq.strategy_filter, "fixedinterval": pdq.strategy_smoother_fixedinterval}[cfg["strategy"]]()
        con = ssm.constraint_ode_ts0(vf) if cfg["lin"] == "ts0" else ssm.constraint_ode_ts1(vf)
        if cfg["solver"] == "solver":
            sol = pdq.solver(strategy=strat, constraint=con)
        elif cfg["solver"] == "mle":
            sol = pdq.solver_mle(strategy=strat, constraint=con)
        else:  # the stop-gradient is excluded from the claim: differentiate through the calibration
            sol = pdq.solver_dynamic(strategy=strat, constraint=con, stop_gradient_through_calibration=False,
                                     re_linearize_after_calibration=bool(cfg.get("relin", False)))
        damp = P["damp"][0] if "damp" in P else 0.0
        s = ivpsolve.solve_fixed_grid(solver=sol)(prior, grid=grid, damp=damp)
        if only == "std_t0":
            first = jax.tree_util.tree_map(lambda a: a[0], s.u)
            return [("std_t0", first.std[0].reshape(-1))]
        if only == "loss_timeseries":
            stdS = P["sstd"] if fact == "iso" else P["sstd"].reshape(N, d)
            return [("loss_timeseries", pdq.loss_lml_timeseries()(data, posterior=s.solution_full.posterior, std=stdS).reshape(-1))]
        u_std = jax.tree_util.tree_map(lambda a: a[1:], s.u) if std_skips_t0(cfg) else s.u
        stds = u_std.std
        out = [("mean0", s.u.mean[0].reshape(-1)), ("mean1", s.u.mean[1].reshape(-1)), ("std0", stds[0].reshape(-1)),
               ("std_hi", jnp.concatenate([x.reshape(-1) for x in stds[1:]])), ("scale", jnp.asarray(s.output_scale).reshape(-1))]
        if cfg.get("loss"):
            last = jax.tree_util.tree_map(lambda a: a[-1], s.u)
            stdT = P["lstd"][0] if fact == "iso" else P["lstd"]
            out.append(("loss_terminal", pdq.loss_lml_terminal_values()(data[-1], marginals=last, std=stdT).reshape(-1)))
            if cfg["strategy"] != "filter" and not ts_degenerate(cfg):
                stdS = P["sstd"] if fact == "iso" else P["sstd"].reshape(N, d)
                out.append(("loss_timeseries", pdq.loss_lml_timeseries()(data, posterior=s.solution_full.posterior, std=stdS).reshape(-1)))
        return out

    x0 = jnp.asarray(x0_of(cfg))
    seg_names = ["mean0", "mean1", "std0", "std_hi", "scale"] + (["loss_terminal"] + (["loss_timeseries"] if cfg["strategy"] != "filter" and not ts_degenerate(cfg) else []) if cfg.get("loss") else [])
    if only is not None:
        seg_names = [only]
    shapes = jax.eval_shape(lambda x: [v for _, v in F(x)], x0)
    segments = [(name, int(np.prod(sh.shape))) for name, sh in zip(seg_names, shapes)]

    def Fv(x):
        return jnp.concatenate([v for _, v in F(x)])

    return Fv, segments


# ================================================================================================
# the exact model at dual numbers (filter; solver / mle; TS0 / TS1; all three factorisations)


class DualModel:
    def __init__(self, ctx, cfg):
        self.ctx, self.cfg = ctx, cfg
        self.field = field_of(cfg)
        self.d, self.q, self.fact = self.field.d, cfg["q"], cfg["fact"]
        self.n = self.q + 1
        self.N = self.n * self.d if self.fact == "dense" else self.n
        self.kdim = self.d if self.fact == "dense" else 1

    def covered(self):
        c = self.cfg
        return c["strategy"] == "filter" and c["solver"] in ("solver", "mle") and c["q"] <= 2 and len(c["grid"]) <= 4

    def seed(self, j):
        """DualQ parameters with derivative 1 on flat parameter j"""
        cfg = self.cfg
        x0 = x0_of(cfg)
        vals, i = {}, 0
        for name, size in layout_of(cfg):
            vals[name] = [DualQ(F(x0[i + a]), 1 if i + a == j else 0) for a in range(size)]
            i += size
        return vals

    def transitions(self, h, s2, lam):
        drv = self.ctx.drv
        if self.fact == "dense":
            ans = DCut(drv.call("du_iwp_transition_dense", self.q, self.d, dq_flat(h), dq_flat(s2), dq_flat([l * l for l in lam])))
            return [self.read_pcond(ans, self.N)]
        out = []
        for a in range(self.d):
            ans = DCut(drv.call("du_iwp_transition1", self.q, dq_flat(h), dq_flat(s2 * lam[a] * lam[a])))
            out.append(self.read_pcond(ans, self.n))
        return out

    @staticmethod
    def read_pcond(ans, n):
        return {"A": ans.take(n, n), "b": ans.take(n), "Q": ans.take(n, n), "tl": ans.take(n), "to": ans.take(n)}

    @staticmethod
    def pc_flat(c):
        return dq_flat(c["A"]) + dq_flat(c["b"]) + dq_flat(c["Q"]) + dq_flat(c["tl"]) + dq_flat(c["to"])

    def ident(self, n):
        return {"A": np.array([[DualQ(1 if i == j else 0) for j in range(n)] for i in range(n)], dtype=object), "b": _const_vec(n),
                "Q": np.array([[DualQ(0)] * n for _ in range(n)], dtype=object), "tl": _const_vec(n, 1), "to": _const_vec(n, 1)}

    def st_flat(self, st):
        return dq_flat(st["mean"]) + dq_flat(st["cov"]) + self.pc_flat(st["bw"])

    def coeffs_of(self, means):
        d, n = self.d, self.n
        if self.fact == "dense":
            return [[means[0][k * d + a] for a in range(d)] for k in range(n)]
        return [[means[a][k] for a in range(d)] for k in range(n)]

    def linearise(self, means, th, damp2):
        """list of (H, b, R) per slice, DualQ entries"""
        d, n = self.d, self.n
        co = self.coeffs_of(means)
        fx = self.field.eval(co[0], th)
        ts1 = self.cfg["lin"] == "ts1"
        J = self.field.jac(co[0], th) if ts1 else None
        zero, one = DualQ(0), DualQ(1)
        if self.fact == "dense":
            H = [[zero] * self.N for _ in range(d)]
            b = [zero] * d
            for a in range(d):
                H[a][d + a] = one
                b[a] = -DualQ.lift(fx[a])
                if ts1:
                    for bb in range(d):
                        H[a][bb] = H[a][bb] - J[a][bb]
                        b[a] = b[a] + J[a][bb] * co[0][bb]
            R = [[damp2 if i == j else zero for j in range(d)] for i in range(d)]
            return [(np.array(H, dtype=object), np.array(b, dtype=object), np.array(R, dtype=object))]
        out = []
        for a in range(d):
            H = [zero] * n
            H[1] = one
            b = -DualQ.lift(fx[a])
            if ts1:
                coef = (sum((J[bb][bb] for bb in range(d)), zero) / d) if self.fact == "iso" else DualQ.lift(J[a][a])
                H[0] = H[0] - coef
                b = b + coef * co[0][a]
            out.append((np.array([H], dtype=object), np.array([b], dtype=object), np.array([[damp2]], dtype=object)))
        return out

    def run(self, j):
        """exact value and derivative (w.r.t. flat parameter j) of every output segment the model covers.
        Returns dict name -> list of DualQ (same order as the implementation's flat segment)."""
        cfg, drv, d, n = self.cfg, self.ctx.drv, self.d, self.n
        P = self.seed(j)
        th, u0 = P["theta"], P["u0"]
        if "scale" in P:
            lam = [P["scale"][0]] * d if self.fact == "iso" else P["scale"]
        else:
            lam = [DualQ(1)] * d
        damp2 = P["damp"][0] * P["damp"][0] if "damp" in P else DualQ(0)
        tay = self.field.taylor(u0, th, self.q)  # tay[k][a]
        eps2 = DualQ(F(cfg["eps"]) ** 2) if cfg["init"] == "inexact" else DualQ(0)
        if self.fact == "dense":
            means = [np.array([DualQ.lift(tay[k][a]) for k in range(n) for a in range(d)], dtype=object)]
        else:
            means = [np.array([DualQ.lift(tay[k][a]) for k in range(n)], dtype=object) for a in range(d)]
        Nst = self.N
        states = [{"mean": m, "cov": np.array([[eps2 if r == c else DualQ(0) for c in range(Nst)] for r in range(Nst)], dtype=object), "bw": self.ident(Nst)} for m in means]
        traj = [states]
        mle = cfg["solver"] == "mle"
        running2 = [DualQ(0)] * d if self.fact == "bd" else DualQ(0)
        num = DualQ(0)
        grid = [F(t) for t in np.asarray(cfg["grid"], dtype=np.float64)]
        hs = [F(float(x)) for x in np.diff(np.asarray(cfg["grid"], dtype=np.float64))]
        for h in hs:
            hD = DualQ(h)
            trs = self.transitions(hD, DualQ(1), lam)
            preds = []
            for tr, st in zip(trs, states):
                ans = DCut(drv.call("du_predict", 0, Nst, self.pc_flat(tr), self.st_flat(st)))
                preds.append(ans.take(Nst))
            lins = self.linearise(preds, th, damp2)
            news, mahas = [], []
            for tr, st, (H, b, R) in zip(trs, states, lins):
                ans = DCut(drv.call("du_step", 0, Nst, self.kdim, self.pc_flat(tr), dq_flat(H), dq_flat(b), dq_flat(R), self.st_flat(st)))
                news.append({"mean": ans.take(Nst), "cov": ans.take(Nst, Nst), "bw": self.read_pcond(ans, Nst)})
                mahas.append(ans.take())
                ans.done()
            if mle:
                if self.fact == "dense":
                    term = mahas[0] / d
                elif self.fact == "iso":
                    term = sum(mahas[1:], mahas[0]) / d
                else:
                    term = list(mahas)
                if self.fact == "bd":
                    running2 = [DCut(drv.call("du_mle_running", dq_flat(r), dq_flat(num), dq_flat(t_))).take() for r, t_ in zip(running2, term)]
                else:
                    running2 = DCut(drv.call("du_mle_running", dq_flat(running2), dq_flat(num), dq_flat(term))).take()
                num = num + 1
            states = news
            traj.append(states)
        del grid
        nsteps = len(hs)
        if mle:
            scale2 = [r / nsteps for r in running2] if self.fact == "bd" else running2 / nsteps
        else:
            scale2 = [DualQ(1)] * d if self.fact == "bd" else DualQ(1)
        out = {"mean0": [], "mean1": [], "var0": [], "scale2": scale2, "nsteps": nsteps}
        for sts in traj:
            co = self.coeffs_of([s["mean"] for s in sts])
            out["mean0"] += [co[0][a] for a in range(d)]
            out["mean1"] += [co[1][a] for a in range(d)]
            if self.fact == "dense":
                out["var0"] += [sts[0]["cov"][a, a] * scale2 for a in range(d)]
            elif self.fact == "iso":
                out["var0"] += [sts[0]["cov"][0, 0] * scale2]
            else:
                out["var0"] += [sts[a]["cov"][0, 0] * scale2[a] for a in range(d)]
        # terminal-value loss: data ~ N(E0 m_T, E0 C_T E0^T scale2 + diag(std^2)); returns (maha, det) pairs and sizes
        if cfg.get("loss"):
            data = np.asarray(cfg["data"], dtype=np.float64)[-1]
            sts = traj[-1]
            co = self.coeffs_of([s["mean"] for s in sts])
            lst = P["lstd"]
            terms = []
            if self.fact == "dense":
                C = np.array([[sts[0]["cov"][a, b] * scale2 + (lst[a] * lst[a] if a == b else DualQ(0)) for b in range(d)] for a in range(d)], dtype=object)
                ans = DCut(drv.call("du_maha_det", d, dq_flat([co[0][a] for a in range(d)]), dq_flat(C), dq_flat([DualQ(F(x)) for x in data])))
                terms.append((ans.take(), ans.take(), d))
            else:
                for a in range(d):
                    s2a = scale2[a] if self.fact == "bd" else scale2
                    cov = sts[0]["cov"][0, 0] if self.fact == "iso" else sts[a]["cov"][0, 0]
                    sd = lst[0] if self.fact == "iso" else lst[a]
                    C = np.array([[cov * s2a + sd * sd]], dtype=object)
                    ans = DCut(drv.call("du_maha_det", 1, dq_flat([co[0][a]]), dq_flat(C), dq_flat([DualQ(F(data[a]))])))
                    terms.append((ans.take(), ans.take(), 1))
            out["loss_terms"] = terms
        return out


def affine_run_consistency(ctx, dm, j, res):
    """`du_run_affine` (a whole filter run inside the driver: `Solver.step` + `Iwp.transition1` + `affineLin` at Dual Rat,
    the setting of theorems solver_step_dual_is_derivative / affine_lin_dual_is_derivative) must reproduce the
    step-by-step dual model (linearisation evaluated on the Python side) exactly."""
    cfg, field, q = dm.cfg, dm.field, dm.q
    P = dm.seed(j)
    a, c = P["theta"]
    lam = P["scale"][0] if "scale" in P else DualQ(1)
    damp2 = P["damp"][0] * P["damp"][0] if "damp" in P else DualQ(0)
    tay = field.taylor(P["u0"], P["theta"], q)
    eps2 = DualQ(F(cfg["eps"]) ** 2) if cfg["init"] == "inexact" else DualQ(0)
    n = q + 1
    m0 = [DualQ.lift(tay[k][0]) for k in range(n)]
    P0 = [[eps2 if r == cc else DualQ(0) for cc in range(n)] for r in range(n)]
    hs = [DualQ(F(float(x))) for x in np.diff(np.asarray(cfg["grid"], dtype=np.float64))]
    ans = DCut(ctx.drv.call("du_run_affine", q, 1 if cfg["lin"] == "ts1" else 0, len(hs), dq_flat(a), dq_flat(c), dq_flat(damp2), dq_flat(lam * lam),
                            dq_flat(hs), dq_flat(m0), dq_flat(P0)))
    run_ = [(ans.take(n), ans.take(n, n)) for _ in hs]
    ans.done()
    s2 = res["scale2"]
    for i, (m, C) in enumerate(run_):
        if not (m[0] == res["mean0"][i + 1] and m[1] == res["mean1"][i + 1] and C[0, 0] * (s2[0] if isinstance(s2, list) else s2) == res["var0"][i + 1]):
            raise core.HarnessError("du_run_affine and the step-by-step dual model disagree (harness / driver bug)")
    ctx.count("du_run_affine == step-by-step dual model (exact)")


def is_affine_1d(cfg):
    return cfg["field"]["name"] == "affine" and cfg["field"]["d"] == 1 and cfg["fact"] in ("iso", "bd")


def model_column(ctx, cfg, j, segments, y):
    """float column j of the Jacobian from the dual model (NaN where the model has nothing to say), plus values"""
    dm = DualModel(ctx, cfg)
    res = dm.run(j)
    if is_affine_1d(cfg):
        affine_run_consistency(ctx, dm, j, res)
    col, val = [], []
    d = dm.d
    for name, size in segments:
        if name in ("mean0", "mean1"):
            col += [float(x.eps) for x in res[name]]
            val += [float(x.re) for x in res[name]]
        elif name == "std0":
            per = 1 if cfg["fact"] == "iso" else dm.d
            for x in res["var0"][per if std_skips_t0(cfg) else 0 :]:
                v = float(x.re)
                val.append(math.sqrt(v) if v >= 0 else float("nan"))
                col.append(float(x.eps) / (2.0 * math.sqrt(v)) if v > 0 else float("nan"))
        elif name == "scale":
            s2 = res["scale2"]
            per = s2 if isinstance(s2, list) else [s2]
            reps = size // len(per)
            for _ in range(reps):
                for x in per:
                    v = float(x.re)
                    val.append(math.sqrt(v))
                    col.append(float(x.eps) / (2.0 * math.sqrt(v)) if v > 0 else float("nan"))
        elif name == "loss_terminal" and "loss_terms" in res:
            v = sum(-0.5 * (float(mh.re) + math.log(float(dt.re)) + sz * math.log(2 * math.pi)) for mh, dt, sz in res["loss_terms"])
            g = sum(-0.5 * (float(mh.eps) + float(dt.eps) / float(dt.re)) for mh, dt, sz in res["loss_terms"])
            val.append(v)
            col.append(g)
        else:
            col += [float("nan")] * size
            val += [float("nan")] * size
    del d, y
    return np.asarray(col), np.asarray(val)


# ================================================================================================
# comparison


def rel_dev(Ja, Jref, y, s, allow=None):
    """entrywise relative deviation in scaled parameter coordinates (column j multiplied by s_j):
    max(0, |dJ| - allow) / (|Jref| + 1e-3 max_row |Jref| + 1e-5 |y|); `allow`: measured rounding sensitivity of the entry"""
    A, R = Ja * s[None, :], Jref * s[None, :]
    rowmax = np.nanmax(np.abs(R), axis=1, keepdims=True)
    sc = np.abs(R) + 1e-3 * rowmax + 1e-5 * np.abs(y)[:, None] + 1e-300
    diff = np.abs(A - R)
    if allow is not None:
        diff = np.maximum(0.0, diff - allow * s[None, :])
    return diff / sc


def compute_config(args):
    """Worker (own process: tracing / lowering hold the GIL, so configurations are differentiated in parallel processes).
    Pure function of its arguments; returns numpy arrays only.  `args = (cfg, seed_for_functionals or None, with_std_t0)`."""
    cfg, fseed, with_std_t0 = args
    import traceback

    try:
        import jax
        import jax.numpy as jnp

        jax.config.update("jax_enable_x64", True)
        try:
            jax.config.update("jax_disable_most_optimizations", True)  # compile time only
        except Exception:  # noqa: BLE001
            pass
        Fv, segments = build_F(cfg)
        x0 = jnp.asarray(x0_of(cfg))
        low = {"F": jax.jit(Fv).lower(x0), "jacfwd": jax.jit(jax.jacfwd(Fv)).lower(x0), "jacrev": jax.jit(jax.jacrev(Fv)).lower(x0)}
        with L.patched_qr("triangular"):
            low["jacfwd_tri"] = jax.jit(jax.jacfwd(lambda x: Fv(x))).lower(x0)
        if with_std_t0 and std_skips_t0(cfg):
            F0, _ = build_F(cfg, only="std_t0")
            low["std_t0_fwd"] = jax.jit(jax.jacfwd(F0)).lower(x0)
            low["std_t0_rev"] = jax.jit(jax.jacrev(F0)).lower(x0)
        if with_std_t0 and ts_degenerate(cfg):
            Fts, _ = build_F(cfg, only="loss_timeseries")
            low["ts_val"] = jax.jit(Fts).lower(x0)
            low["ts_fwd"] = jax.jit(jax.jacfwd(Fts)).lower(x0)
            low["ts_rev"] = jax.jit(jax.jacrev(Fts)).lower(x0)
        nout = sum(s for _, s in segments)
        if fseed is not None:
            low["jvp"] = jax.jit(lambda x, v: jax.jvp(Fv, (x,), (v,))[1]).lower(x0, jnp.zeros_like(x0))
            low["grad"] = jax.jit(jax.grad(lambda x, w: jnp.dot(w, Fv(x)))).lower(x0, jnp.zeros((nout,)))
        with concurrent.futures.ThreadPoolExecutor(max_workers=3) as ex:
            futs = {k: ex.submit(v.compile) for k, v in low.items()}
            fns = {k: f.result() for k, f in futs.items()}
        x0n = x0_of(cfg)
        s = np.maximum(np.abs(x0n), 2.0**-4)
        out = {"segments": segments, "y": np.asarray(fns["F"](x0n))}
        for k in ("jacfwd", "jacrev", "jacfwd_tri", "std_t0_fwd", "std_t0_rev", "ts_fwd", "ts_rev"):
            if k in fns:
                out[k] = np.asarray(fns[k](x0n))
        if "ts_val" in fns and np.all(np.isfinite(out["ts_fwd"])):
            out["ts_fd"], out["ts_fd_err"] = L.richardson_jacobian(lambda x: np.asarray(fns["ts_val"](x)), x0n, s)
        if np.all(np.isfinite(out["y"])):
            out["fd"], out["fd_err"] = L.richardson_jacobian(lambda x: np.asarray(fns["F"](x)), x0n, s)
            # rounding sensitivity of the computed derivatives: re-evaluate at inputs moved by 256 ulp
            x1 = x0n * (1.0 + 2.0**-44)
            # … and of the function values: the rounding noise of F enters a difference quotient divided by the smallest step
            ynoise = np.abs(np.asarray(fns["F"](x1)) - out["y"])
            # (a 256-ulp move overstates rounding by ~64x; Richardson amplifies the noise of the quotient by ~8x)
            out["fd_err"] = out["fd_err"] + (8.0 / 64.0) * ynoise[:, None] / (2.0**-8 * s)[None, :]
            with np.errstate(invalid="ignore"):
                out["noise"] = np.nan_to_num(np.maximum(np.abs(np.asarray(fns["jacfwd"](x1)) - out["jacfwd"]), np.abs(np.asarray(fns["jacrev"](x1)) - out["jacrev"])), nan=0.0, posinf=0.0)
        if fseed is not None:
            rng = np.random.Generator(np.random.PCG64(fseed))
            v = gen.dyadic(rng, x0n.shape, bits=3) * s
            w = gen.dyadic(rng, (nout,), bits=3)
            w = np.where(np.all(np.isfinite(out["jacfwd"]), axis=1), w, 0.0)
            out.update(v=v, w=w, jvp=np.asarray(fns["jvp"](x0n, v)), grad=np.asarray(fns["grad"](x0n, w)))
        return out
    except Exception as e:  # noqa: BLE001
        return {"error": f"{type(e).__name__}: {str(e)[:400]}", "traceback": traceback.format_exc()[-1500:]}


def check_config(ctx, cfg, rule, res, tag):
    """all comparisons for one configuration; `res`: what `compute_config` returned"""
    x0 = x0_of(cfg)
    names = param_names(cfg)
    case = dict(cfg, **tag)
    segments = res["segments"]
    y = res["y"]
    desc = {k: cfg[k] for k in ("fact", "solver", "strategy", "lin", "q", "init", "noise")}
    desc.update(field=cfg["field"]["name"], d=cfg["field"]["d"], params=[n for n, _ in layout_of(cfg)], theta=cfg["theta"], u0=cfg["u0"], grid=cfg["grid"], **tag)
    if not np.all(np.isfinite(y)):
        ctx.skip("primal solution not finite (outside the property)")
        return
    # outputs that are *exactly* zero (identically vanishing residual of a state component: whitened residual, scale and
    # standard deviation are 0 for every parameter value): their derivatives must be finite in both modes - checked before
    # the rounding-level skips below, which concern outputs that are zero only up to rounding
    if "jacfwd" in res and "jacrev" in res and np.any(y == 0.0):
        zrows = np.where(y == 0.0)[0]
        for mode in ("jacfwd", "jacrev"):
            # a NaN row of an exactly-zero output, or (reverse mode) NaN spilling into all other outputs
            J = np.asarray(res[mode])
            if not np.all(np.isfinite(J[zrows])) or (not np.all(np.isfinite(J)) and np.all(np.isfinite(np.asarray(res["jacfwd" if mode == "jacrev" else "jacrev"])))):
                if cfg["solver"] == "mle":
                    ctx.violation(f"grad:nonfinite:exactly-zero-output:{cfg['fact']}:{cfg['solver']}",
                                  f"{mode}: derivative entries of an output that is exactly 0 (identically vanishing residual) are not finite", dict(case, mode=mode))
                    return
    if cfg["solver"] in ("mle", "dynamic"):
        i0 = 0
        for name, size in segments:
            if name == "scale" and np.min(np.abs(y[i0 : i0 + size])) < 1e-9:
                ctx.skip("calibrated scale at rounding level (the solution is a polynomial of degree <= q: residuals cancel, derivatives are not determined by the float data)")
                return
            i0 += size
    # dynamic calibration with an exactly consistent state: the local scale sits at its floor (machine epsilon, repository fix
    # 4b386e0) and every standard deviation is ~1e-16: their derivatives are rounding noise in both AD modes
    i0 = 0
    for name, size in segments:
        if name in ("std0", "std_hi") and size and np.max(np.abs(y[i0 : i0 + size])) < 1e-9:
            ctx.skip("all standard deviations at rounding level (calibrated scale at its floor): derivatives are not determined by the float data")
            return
        i0 += size
    Jf, Jr, Jt = res["jacfwd"], res["jacrev"], res["jacfwd_tri"]
    s = np.maximum(np.abs(x0), 2.0**-4)
    Jd, err = res["fd"], res["fd_err"]
    allow = 16.0 * res["noise"]  # entrywise: what input rounding alone does to the computed derivative
    # row bookkeeping
    rows, i = [], 0
    for name, size in segments:
        rows += [(name, k) for k in range(size)]
        i += size
    # ---- standard deviation of the exactly known initial state (isotropic / block-diagonal)
    if "std_t0_fwd" in res:
        J0f, J0r = res["std_t0_fwd"], res["std_t0_rev"]
        if not (np.all(np.isfinite(J0f)) and np.all(np.isfinite(J0r))):
            ctx.violation(f"std_norm:zero-covariance:{cfg['fact']}:std-gradient-nonfinite",
                          f"derivative of the standard deviation of an exactly known state (zero covariance: std = 0 at the initial grid point) is NaN in the {cfg['fact']} factorisation in "
                          f"{'both modes' if not np.all(np.isfinite(J0f)) else 'reverse mode'} (vector_norm at the zero vector; in reverse mode the NaN also poisons every other output of a function that "
                          "evaluates it); the true derivative is 0 and the dense factorisation returns 0 (it goes through qr_r)", dict(case, output="std at t0", forward=J0f.tolist(), reverse=J0r.tolist()))
        else:
            ctx.dev("std(t0) of an exact initial state: derivative", float(max(np.max(np.abs(J0f)), np.max(np.abs(J0r)))), 1e-12, case=dict(case, output="std at t0"),
                    sig=f"grad:wrong:std-at-exact-initial-state:{cfg['fact']}", what="the standard deviation of an exactly known state is identically 0, its derivative must be 0")
        ctx.count(f"std at an exact initial state differentiated separately ({cfg['fact']})")
    # ---- time-series loss whose innovation factor has repeated singular values (dense, equal noise across dimensions)
    if "ts_fwd" in res:
        Tf, Tr = res["ts_fwd"], res["ts_rev"]
        c = dict(case, output="loss_timeseries (differentiated separately)")
        if not (np.all(np.isfinite(Tf)) and np.all(np.isfinite(Tr))):
            ctx.violation("lstsq_svd:repeated-singular-values:dense:loss-timeseries-gradient-nonfinite",
                          "gradient of loss_lml_timeseries is NaN (dense factorisation, d >= 2, equal noise levels across the dimensions at some time point): lstsq_svd = jnp.linalg.lstsq "
                          "differentiates an SVD, which divides by differences of singular values; the innovation factor is a multiple of the identity there "
                          f"(forward finite: {bool(np.all(np.isfinite(Tf)))}, reverse finite: {bool(np.all(np.isfinite(Tr)))}; in reverse mode the NaN poisons every output of a function that evaluates the loss)",
                          dict(c, forward=Tf.tolist(), reverse=Tr.tolist()))
        else:
            sc_ = np.abs(Tf * s[None, :]) + 1e-3 * np.max(np.abs(Tf * s[None, :])) + 1e-300
            ctx.dev("fwd-vs-rev.loss_timeseries", float(np.max(np.abs(Tf - Tr) * s[None, :] / sc_)), TOL_FR, case=c, sig="grad:forward-vs-reverse:loss-timeseries")
            if "ts_fd" in res:
                ok = (res["ts_fd_err"] * s[None, :]) <= 0.002 * TOL_FD * sc_
                dv = float(np.max(np.where(ok, np.abs(Tf - res["ts_fd"]) * s[None, :] / sc_, 0.0)))
                if dv > TOL_FD and not (rule == "model"):
                    ctx.violation(f"grad:wrong:{cfg['lin']}:loss-timeseries-gradient", f"gradient of the time-series loss (equal noise) differs from central differences by {dv:.2e}", c)
                elif dv <= TOL_FD:
                    ctx.devs["AD vs FD.loss-timeseries"] = max(ctx.devs.get("AD vs FD.loss-timeseries", 0.0), dv)
        ctx.count("time-series loss with repeated singular values differentiated separately")
    elif ts_degenerate(cfg):
        ctx.count("time-series loss with repeated singular values: excluded from the jointly differentiated outputs")
    # ---- explicit jvp / grad of random functionals
    if "jvp" in res:
        v, w, jv, gr = res["v"], res["w"], res["jvp"], res["grad"]
        fin = np.all(np.isfinite(Jf), axis=1)
        a = np.where(fin, jv, 0.0)
        b = np.where(fin, np.nan_to_num(Jf) @ v, 0.0)
        al = allow @ np.abs(v)  # rounding sensitivity of the directional derivative
        ctx.dev("jvp vs jacfwd", float(np.max(np.maximum(0.0, np.abs(a - b) - al) / (np.abs(b) + 1e-3 * np.max(np.abs(b)) + 1e-5 * np.abs(y) + 1e-300))), TOL_FR, case=case, sig="grad:jvp-vs-jacfwd")
        g2 = w @ np.nan_to_num(Jr)
        al = np.abs(w) @ allow
        ctx.dev("grad vs jacrev", float(np.max(np.maximum(0.0, np.abs(gr - g2) - al) * s / (np.abs(g2) * s + 1e-3 * np.max(np.abs(g2) * s) + 1e-300))), TOL_FR, case=case, sig="grad:grad-vs-jacrev")
        ctx.count("explicit jax.jvp / jax.grad of random functionals")
    # ---- non-finite derivatives
    fin_f, fin_r = np.isfinite(Jf), np.isfinite(Jr)
    std_rows = [r for r, (n, _) in enumerate(rows) if n in ("std0", "std_hi")]
    zero_std = [r for r in std_rows if y[r] == 0.0]
    std_sig = f"std_norm:zero-covariance:{cfg['fact']}:std-gradient-nonfinite"
    poisoned = cfg["fact"] in ("iso", "bd") and bool(zero_std)
    for r in sorted(set(np.argwhere(~(fin_f & fin_r))[:, 0])):
        name, k = rows[r]
        c = dict(case, output=name, index=int(k))
        if poisoned and (r in zero_std or np.all(fin_f[r])):
            # the std of an exactly known coordinate (e.g. the derivative pinned by a noise-free observation) is 0: NaN there, and NaN in
            # reverse mode for every other output of the same function (zero cotangent times NaN)
            ctx.violation(std_sig, f"derivative of {name}[{k}] is not finite: the {cfg['fact']} factorisation computes standard deviations with vector_norm, whose derivative at the zero "
                                   f"vector is NaN, and {len(zero_std)} standard deviation(s) of this solution are exactly 0 (noise-free observation / exact state); forward finite: {bool(np.all(fin_f[r]))}", c)
            continue
        ctx.violation(f"grad:nonfinite:{QUANT[name]}", f"derivative of {name}[{k}] is not finite (forward {Jf[r].tolist()}, reverse {Jr[r].tolist()})", c)
    if poisoned:
        ctx.count("reverse mode poisoned by a zero standard deviation (iso / bd): reverse comparisons skipped for this configuration")
        fin_r = fin_f.copy()
        Jr = Jf
    finite = fin_f & fin_r
    ok_rows = np.all(finite, axis=1)
    # ---- forward vs reverse
    dfr = rel_dev(np.where(finite, Jr, 0.0), np.where(finite, Jf, 0.0), y, s, allow)
    # standard deviations that are exactly zero in exact arithmetic (noise-free observation of a coefficient, damp = 0) come
    # out as rounding noise ~1e-18; so do their derivatives in either mode: such rows are not compared (thorough-tier false
    # alarm: both modes returned entries of size 1e-17 that differ by 5e-17)
    std_rows = [r for r, (n, _) in enumerate(rows) if n.startswith("std")]
    std_top = float(np.max(np.abs(y[std_rows]))) if std_rows else 0.0
    noise_row = np.array([(n.startswith("std") and abs(float(y[r])) <= 1e-9 * std_top) for r, (n, _) in enumerate(rows)])
    if np.any(noise_row & ok_rows):
        ctx.skipped["standard deviation at rounding level (exactly zero in exact arithmetic): forward-vs-reverse not compared for this output"] = ctx.skipped.get(
            "standard deviation at rounding level (exactly zero in exact arithmetic): forward-vs-reverse not compared for this output", 0) + int(np.sum(noise_row & ok_rows))
    for name in {n for n, _ in rows}:
        idx = [r for r, (n, _) in enumerate(rows) if n == name and ok_rows[r] and not noise_row[r]]
        if idx:
            ctx.dev(f"fwd-vs-rev.{name}", float(np.max(dfr[idx])), TOL_FR, case=dict(case, output=name), sig=f"grad:forward-vs-reverse:{QUANT[name]}",
                    what=f"jacfwd and jacrev of {name} differ by {float(np.max(dfr[idx])):.2e} (relative)")
    # ---- oracle 1: finite differences
    rowmax = np.max(np.abs(Jd * s[None, :]), axis=1, keepdims=True)
    fd_scale = np.abs(Jd * s[None, :]) + 1e-3 * rowmax + 1e-5 * np.abs(y)[:, None] + 1e-300
    fd_bad = (err * s[None, :]) > 0.002 * TOL_FD * fd_scale
    ill = (allow * s[None, :]) > 0.05 * TOL_FD * fd_scale
    nill = int(np.sum(ill & ~fd_bad))
    if nill:
        ctx.skipped["derivative entry ill-conditioned (moves by > 5% of the tolerance under a 256-ulp change of the inputs)"] = ctx.skipped.get(
            "derivative entry ill-conditioned (moves by > 5% of the tolerance under a 256-ulp change of the inputs)", 0) + nill
    fd_bad = fd_bad | ill
    e_ship = np.maximum(rel_dev(np.where(finite, Jf, 0.0), Jd, y, s), rel_dev(np.where(finite, Jr, 0.0), Jd, y, s))
    e_tri = rel_dev(Jt, Jd, y, s)
    # ---- oracle 2: the dual-number model
    dm = DualModel(ctx, cfg)
    Jm = None
    if dm.covered():
        try:
            cols = [model_column(ctx, cfg, j, segments, y) for j in range(len(x0))]
            Jm = np.stack([c for c, _ in cols], axis=1)
            ym = cols[0][1]
            have = np.isfinite(ym)
            dv = float(np.max(np.abs(ym[have] - y[have]) / (np.abs(ym[have]) + 1e-6 * np.max(np.abs(ym[have])) + 1e-12)))
            ctx.dev("model.value", dv, 1e-7, case=case, sig="model:value", what=f"primal outputs differ from the exact model by {dv:.2e} (C02 territory; derivative comparison would be meaningless)")
            ctx.count("dual-model runs (columns)", len(x0))
        except core.ModelError as e:
            ctx.skip("dual model refused: " + e.ans[:60])
            Jm = None
    # ---- classification per (segment, parameter group)
    groups = {}
    for j, (g, _) in enumerate(names):
        groups.setdefault(g, []).append(j)
    for name in [n for n, _ in segments]:
        ridx = [r for r, (n, _) in enumerate(rows) if n == name and ok_rows[r]]
        if not ridx:
            continue
        for g, cols_ in groups.items():
            sub = np.ix_(ridx, cols_)
            usable = ~fd_bad[sub]
            nskip = int(np.sum(~usable))
            if nskip:
                ctx.skipped["finite differences not converged (entry skipped)"] = ctx.skipped.get("finite differences not converged (entry skipped)", 0) + nskip
            es = float(np.max(np.where(usable, e_ship[sub], 0.0))) if usable.any() else 0.0
            et = float(np.max(np.where(usable, e_tri[sub], 0.0))) if usable.any() else 0.0
            em = emt = None
            if Jm is not None:
                mm = Jm[sub]
                hm = np.isfinite(mm)
                if hm.any():
                    em = float(np.max(np.where(hm, rel_dev(np.where(finite, Jf, 0.0), np.nan_to_num(Jm), y, s)[sub], 0.0)))
                    emt = float(np.max(np.where(hm, rel_dev(Jt, np.nan_to_num(Jm), y, s)[sub], 0.0)))
                    efd = float(np.max(np.where(hm & usable, rel_dev(Jd, np.nan_to_num(Jm), y, s)[sub], 0.0)))
                    ctx.dev("oracles: finite differences vs dual model", efd, 10 * TOL_FD, case=dict(case, output=name, param=g), sig="oracle:finite-differences-vs-dual-model",
                            what=f"the two derivative oracles disagree on d {name} / d {g} by {efd:.2e}")
            q = QUANT[name]
            path = path_class(cfg, g, q)
            c = dict(case, output=name, param=g)
            ctx.devs[f"triangular-rule AD vs FD.{q}"] = max(ctx.devs.get(f"triangular-rule AD vs FD.{q}", 0.0), et)
            if emt is not None:
                ctx.devs[f"triangular-rule AD vs dual model.{q}"] = max(ctx.devs.get(f"triangular-rule AD vs dual model.{q}", 0.0), emt)
            wrong_fd = es > TOL_FD
            wrong_model = em is not None and em > TOL_MODEL
            if not (wrong_fd or wrong_model):
                ctx.devs[f"AD vs FD.{q}"] = max(ctx.devs.get(f"AD vs FD.{q}", 0.0), es)
                if em is not None:
                    ctx.devs[f"AD vs dual model.{q}"] = max(ctx.devs.get(f"AD vs dual model.{q}", 0.0), em)
                ctx.count(f"pass: {q} w.r.t. {g} ({'cov-independent path' if path is None else path})")
                continue
            repaired = et <= TOL_FD and (emt is None or emt <= TOL_MODEL)
            worst = max(es, em or 0.0)
            if path is not None and rule == "model" and repaired:
                sig = f"qr_jvp:block-extraction:{path}:{q}-gradient"
                msg = (f"d {name} / d {g}: both AD modes differ from the true derivative by {worst:.2e} relative (central differences{' and dual-number model' if em is not None else ''}); "
                       f"path '{path}' sends the parameter through qr_r, whose tangent Q^T M_dot is not triangular; with a triangular tangent the same code agrees to {max(et, emt or 0.0):.1e} (D5, theorem qr_rule_block_incorrect)")
                ctx.count(f"D5: {q} w.r.t. {g} ({path})")
            else:
                why = "covariance-independent path" if path is None else ("not repaired by a triangular tangent of qr_r" if not repaired else f"qr_r rule is '{rule}'")
                sig = f"grad:wrong:{cfg['lin']}:{q}-gradient"
                msg = f"d {name} / d {g}: AD differs from the true derivative by {worst:.2e} relative ({why}); triangular-rule AD deviates {et:.1e}"
            ctx.violation(sig, msg, c, theorem="Pdq.C16.qr_rule_block_incorrect" if sig.startswith("qr_jvp") else None)
    ctx.case(desc)


# ================================================================================================
# configurations


def base_cfg(field, **kw):
    cfg = {"fact": "dense", "solver": "solver", "strategy": "filter", "lin": "ts0", "q": 2, "init": "exact", "eps": 2.0**-6, "field": field.describe(),
           "grid": [0.0, 0.125, 0.375, 0.5], "theta": [2.0] * field.p, "u0": [0.25] * field.d, "scale": None, "damp": None, "loss": False, "noise": "equal"}
    cfg.update(kw)
    return cfg


def add_loss(cfg, rng=None, unequal=False):
    d = cfg["field"]["d"]
    N = len(cfg["grid"])
    per = 1 if cfg["fact"] == "iso" else d
    cfg["loss"] = True
    u0 = np.asarray(cfg["u0"], dtype=np.float64)
    offs = np.array([[((3 * i + 5 * a) % 7 - 3) / 32.0 for a in range(d)] for i in range(N)])
    cfg["data"] = (u0[None, :] + offs + 0.0625 * np.arange(N)[:, None]).tolist()
    if unequal:
        cfg["noise"] = "unequal"
        cfg["lstd"] = [0.5 + 0.25 * a for a in range(per)]
        cfg["sstd"] = [0.25 * (1 + ((2 * i + a) % 4)) for i in range(N) for a in range(per)]
    else:
        cfg["noise"] = "equal"
        cfg["lstd"] = [0.5] * per
        cfg["sstd"] = [0.5] * (N * per)
    return cfg


def corpus():
    """minimised configurations of the known failures; they also fix the set of signatures the unchanged tree produces"""
    lg = L.logistic()
    out = []
    # D5 on the TS1 path and for scale / noise parameters: every quantity
    out.append(("corpus:D5:ts1+cov-param", add_loss(base_cfg(lg, solver="mle", strategy="fixedinterval", lin="ts1", init="inexact", scale=[1.5], damp=0.125), unequal=True)))
    # D5 for scale / noise parameters on a TS0 path; theta and u0 are covariance-independent here and must pass
    out.append(("corpus:D5:ts0-cov-param", add_loss(base_cfg(lg, solver="mle", strategy="fixedinterval", lin="ts0", init="exact", scale=[1.5], damp=0.125))))
    # D5 through the dynamic calibration (no stop-gradient requested)
    out.append(("corpus:D5:dyn-calibration", add_loss(base_cfg(lg, solver="dynamic", strategy="fixedinterval", lin="ts0", init="inexact"))))
    # the same with re-linearisation after the calibration (TS0 / TS1 linearise at the mean, which the calibration does not move:
    # values and derivatives are those of the plain dynamic solver; the two constructor flags must not be mixed up)
    out.append(("corpus:dyn-relinearise", base_cfg(lg, fact="iso", solver="dynamic", strategy="filter", lin="ts0", init="exact", relin=True, grid=[0.0, 0.125, 0.375, 0.5, 0.75])))
    # D5 through the MLE calibration in the losses, two dimensions, dense, unequal noise; theta / u0 gradients of means, stds, scale pass
    out.append(("corpus:D5:mle-calibration", add_loss(base_cfg(L.lotka_volterra(), solver="mle", strategy="fixedinterval", lin="ts0", init="exact", theta=[0.5, 0.75, 1.0, 0.25], u0=[1.0, 0.5],
                                                                  grid=[0.0, 0.125, 0.25, 0.5]), unequal=True)))
    # NaN gradient of the time-series loss: dense, two dimensions, equal noise levels (repeated singular values inside lstsq_svd)
    out.append(("corpus:lstsq-nan", add_loss(base_cfg(L.lotka_volterra(), solver="solver", strategy="fixedinterval", lin="ts0", init="exact", theta=[0.5, 0.75, 1.0, 0.25], u0=[1.0, 0.5],
                                                       grid=[0.0, 0.125, 0.25, 0.5]))))
    # non-finite std gradient at an exact initial state (isotropic, block-diagonal); TS0 mean gradients pass; model-covered
    out.append(("corpus:std-nan:iso", add_loss(base_cfg(lg, fact="iso", solver="mle", strategy="filter", lin="ts0", init="exact"))))
    aff = L.ParamField(1, 2, [[(Fraction(1), (1,), (1, 0)), (Fraction(1), (0,), (0, 1))]], "affine")
    out.append(("corpus:affine-run", base_cfg(aff, fact="iso", solver="solver", strategy="filter", lin="ts1", init="inexact", q=2, grid=[0.0, 0.25, 0.375],
                                             theta=[-1.5, 0.5], u0=[0.75], scale=[1.5], damp=0.125)))
    # a state component whose ODE residual vanishes identically (a constant carried in the state): its whitened residual,
    # its MLE scale and its standard deviations are exactly 0 for every parameter value; norm / hypot at the origin
    # must not turn that into NaN derivatives (repository fix a307d9d)
    const = L.ParamField(2, 1, [[(Fraction(1), (1, 1), (1,))], [(Fraction(0), (0, 1), (0,))]], "augmented-constant")
    out.append(("corpus:mle-zero-residual:bd", base_cfg(const, fact="bd", solver="mle", strategy="filter", lin="ts0", init="exact", q=2, grid=[0.0, 0.25, 0.5, 0.75, 1.0],
                                                       theta=[0.5], u0=[1.0, 0.75])))
    # the same for the isotropic and the dense model, where the whole residual has to vanish: an ODE started exactly at an
    # equilibrium (seeded change C16-s8: a norm without the guard in the isotropic whitened residual)
    for fact in ("iso", "dense"):
        out.append((f"corpus:mle-zero-residual:{fact}", base_cfg(lg, fact=fact, solver="mle", strategy="filter", lin="ts0", init="exact", q=2, grid=[0.0, 0.25, 0.5, 0.75],
                                                              theta=[1.5], u0=[1.0])))
    out.append(("corpus:std-nan:bd", base_cfg(lg, fact="bd", solver="solver", strategy="filter", lin="ts1", init="exact", q=1, grid=[0.0, 0.25, 0.5])))
    return out


def random_cfg(ctx, it):
    rng = ctx.rng
    fact = ["dense", "iso", "bd"][it % 3]
    kind = gen.pick(rng, ["logistic", "lv", "random", "affine"], [2, 2, 3, 1])
    if kind == "logistic":
        field = L.logistic()
    elif kind == "lv":
        field = L.lotka_volterra()
    elif kind == "affine":
        field = L.ParamField(1, 2, [[(Fraction(1), (1,), (1, 0)), (Fraction(1), (0,), (0, 1))]], "affine")
    else:
        d = int(rng.integers(1, 3))
        field = L.random_param_field(rng, d, int(rng.integers(1, 3)))
    covered = bool(rng.random() < 0.6)  # inside the dual model's reach
    strategy = "filter" if covered else gen.pick(rng, ["filter", "fixedinterval"], [1, 2])
    solver = gen.pick(rng, ["solver", "mle"]) if covered else gen.pick(rng, ["solver", "mle", "dynamic"], [2, 2, 1])
    q = int(rng.integers(1, 3)) if covered else int(rng.integers(1, 5))
    nst = int(rng.integers(2, 4)) if covered else int(rng.integers(2, 6))
    hs = [float(2.0 ** rng.integers(-4, -1)) * float(gen.pick(rng, [1.0, 0.75, 1.5])) for _ in range(nst)]
    grid = [0.0] + list(np.cumsum(hs))
    per = 1 if fact == "iso" else field.d
    cfg = base_cfg(field, fact=fact, solver=solver, strategy=strategy, lin=gen.pick(rng, ["ts0", "ts1"]), q=q, init=gen.pick(rng, ["exact", "inexact"]),
                   eps=float(2.0 ** rng.integers(-8, -3)), grid=grid,
                   theta=[float(x) if x != 0 else 0.5 for x in (gen.dyadic(rng, (field.p,), bits=3) + np.sign(rng.random(field.p) - 0.3) * 1.0)],
                   u0=[float(x) for x in (0.25 + np.abs(gen.dyadic(rng, (field.d,), bits=3)) * 0.5)])
    if solver == "dynamic":
        cfg["relin"] = bool(rng.random() < 0.5)
    if rng.random() < 0.5:
        cfg["scale"] = [float(2.0 ** rng.integers(-2, 2)) * (1.0 + 0.25 * a) for a in range(per)]
    if rng.random() < 0.5:
        cfg["damp"] = float(2.0 ** rng.integers(-6, -1))
    if rng.random() < 0.6:
        add_loss(cfg, unequal=bool(rng.random() < 0.5))
    return cfg


# ================================================================================================


def check_adaptive_stopped_dt(ctx, it):
    """The step sizes of an adaptive solve are constants for the differentiation (stop-gradient through dt, requested by the
    implementation itself): the forward-mode derivative of an adaptive solve equals the derivative of the fixed-grid solve on
    the realised grid, which the solver-level part compares with directional derivatives of the computed quantities."""
    import jax
    import jax.numpy as jnp
    from probdiffeq import ivpsolve
    from probdiffeq import probdiffeq as pdq
    from probdiffeq.util import test_util

    rng = ctx.rng
    fact = ["iso", "dense", "bd"][it % 3]
    solver_kind = gen.pick(rng, ["solver", "mle", "dynamic"])
    lin = gen.pick(rng, ["ts0", "ts1"])
    q = int(rng.integers(2, 4))
    tol = float(10.0 ** rng.uniform(-5, -3))
    t1 = float(gen.pick(rng, [1.0, 2.0, 3.0]))
    th0 = float(gen.pick(rng, [0.75, 1.0, 1.5]))
    clip = bool(it % 2 == 0)
    case = {"fact": fact, "solver": solver_kind, "lin": lin, "q": q, "tol": tol, "t1": t1, "theta": th0, "clip_dt": clip, "u0": 0.25, "field": "logistic th*u*(1-u)"}

    def make(th):
        ssm = {"dense": pdq.state_space_model_dense, "iso": pdq.state_space_model_isotropic, "bd": pdq.state_space_model_blockdiag}[fact]()
        vf = pdq.ode(lambda u, /, *, t: th * u * (1 - u), jacobian=pdq.jacobian_materialize())
        tcoeffs, _ = pdq.jetexpand_ode_padded_scan(num=q)(vf, (jnp.asarray([0.25]),), t=0.0)
        prior = ssm.prior_wiener_integrated(tcoeffs)
        con = ssm.constraint_ode_ts0(vf) if lin == "ts0" else ssm.constraint_ode_ts1(vf)
        strat = pdq.strategy_filter()
        if solver_kind == "solver":
            sol = pdq.solver(strategy=strat, constraint=con)
        elif solver_kind == "mle":
            sol = pdq.solver_mle(strategy=strat, constraint=con)
        else:
            sol = pdq.solver_dynamic(strategy=strat, constraint=con, stop_gradient_through_calibration=False)
        return prior, sol, pdq.error_residual_std(constraint=con)

    prior, sol, err = make(jnp.asarray(th0))
    ts = np.asarray(test_util.solve_adaptive_save_every_step(sol, err, clip_dt=clip)(prior, 0.0, t1, atol=tol, rtol=tol, dt0=0.1).t)
    if len(ts) < 4 or not np.all(np.isfinite(ts)):
        ctx.skip("adaptive stop-gradient case: fewer than three accepted steps")
        return
    if not clip:
        # the last step ends beyond t1: solve adaptively up to the last accepted step end inside [0, t1] instead (same steps,
        # same number of calibration terms; the final state is the step's own posterior)
        ts = ts[:-1]

    def f_adaptive(th):
        prior, sol, err = make(th)
        if clip:
            s = ivpsolve.solve_adaptive_terminal_values(sol, err, clip_dt=True)(prior, t0=jnp.asarray(0.0), t1=jnp.asarray(t1), atol=tol, rtol=tol, dt0=0.1)
            return s.u.mean[0].reshape(-1), s.u.std[0].reshape(-1)
        s = ivpsolve.solve_adaptive_save_at(solver=sol, error=err, clip_dt=False)(prior, save_at=jnp.asarray([0.0, float(ts[-1])]), atol=tol, rtol=tol, dt0=0.1)
        return s.u.mean[0][-1].reshape(-1), s.u.std[0][-1].reshape(-1)

    def f_fixed(th):
        prior, sol, _ = make(th)
        s = ivpsolve.solve_fixed_grid(solver=sol)(prior, grid=jnp.asarray(ts), damp=0.0)
        return s.u.mean[0][-1].reshape(-1), s.u.std[0][-1].reshape(-1)

    def bounded_while_loop(cond_fun, body_fun, init, *, max_steps=48):
        """a reverse-differentiable while-loop (scan that stops updating once the condition is false), as a user would pass"""

        def step(carry, _):
            return jax.lax.cond(cond_fun(carry), body_fun, lambda c: c, carry), None

        final, _ = jax.lax.scan(step, init, xs=None, length=max_steps)
        return final

    def f_adaptive_rev(th):
        prior, sol, err = make(th)
        if clip:
            s = ivpsolve.solve_adaptive_terminal_values(sol, err, clip_dt=True, while_loop=bounded_while_loop)(prior, t0=jnp.asarray(0.0), t1=jnp.asarray(t1), atol=tol, rtol=tol, dt0=0.1)
            return jnp.concatenate([s.u.mean[0].reshape(-1), s.u.std[0].reshape(-1)])
        s = ivpsolve.solve_adaptive_save_at(solver=sol, error=err, clip_dt=False, while_loop=bounded_while_loop)(prior, save_at=jnp.asarray([0.0, float(ts[-1])]), atol=tol, rtol=tol, dt0=0.1)
        return jnp.concatenate([s.u.mean[0][-1].reshape(-1), s.u.std[0][-1].reshape(-1)])

    (ma, sa), (dma, dsa) = jax.jvp(f_adaptive, (jnp.asarray(th0),), (jnp.asarray(1.0),))
    (mf, sf), (dmf, dsf) = jax.jvp(f_fixed, (jnp.asarray(th0),), (jnp.asarray(1.0),))
    ctx.evaluations += 1
    ctx.case(dict(case, mode="adaptive-vs-realised-grid", steps=len(ts) - 1))
    ctx.count(f"adaptive stop-gradient clip_dt={clip}")
    vals = float(max(np.max(np.abs(np.asarray(ma) - np.asarray(mf)) / (np.abs(np.asarray(mf)) + 1e-300)), np.max(np.abs(np.asarray(sa) - np.asarray(sf)) / (np.abs(np.asarray(sf)) + 1e-300))))
    if not clip and vals > 1e-9:
        # without clipping the checkpoint equals a step end only up to the at-step-end tolerance; values must still agree
        ctx.skip("adaptive stop-gradient case: checkpoint at a step end not reproduced")
        return
    if vals > 1e-9:
        ctx.skip(f"adaptive stop-gradient case: fixed-grid replay of the realised grid deviates by {vals:.1e} (C05/C06 territory)")
        return
    if it < 2 and len(ts) - 1 <= 40:
        # reverse mode through the adaptive loops needs a differentiable loop supplied by the user: every entry point must
        # hand it to the loops, and the reverse-mode derivative must agree with the forward-mode one (seeded change C16-s6)
        try:
            g = np.asarray(jax.jacrev(f_adaptive_rev)(jnp.asarray(th0)), dtype=np.float64).reshape(-1)
            ref = np.concatenate([np.asarray(dma, dtype=np.float64).reshape(-1), np.asarray(dsa, dtype=np.float64).reshape(-1)])
            devr = float(np.max(np.abs(g - ref) / (np.abs(ref) + 1e-6 * (1 + np.max(np.abs(ref))))))
            ctx.dev("adaptive.reverse-vs-forward", devr, 1e-6, case=dict(case, while_loop="scan-based bounded loop"), sig="adaptive:reverse-vs-forward",
                    what=f"reverse-mode derivative of the adaptive solve (user-supplied differentiable loop) differs from the forward-mode derivative by {devr:.2e}")
        except Exception as e:  # noqa: BLE001
            ctx.violation("adaptive:reverse-mode:exception", f"reverse-mode differentiation of the adaptive solve with a user-supplied differentiable while_loop raised {type(e).__name__}: {str(e)[:200]}",
                          dict(case, while_loop="scan-based bounded loop"))
        ctx.count("adaptive reverse mode (bounded loop)")
    for name, a, b in (("mean", dma, dmf), ("std", dsa, dsf)):
        a, b = np.asarray(a, dtype=np.float64), np.asarray(b, dtype=np.float64)
        if not (np.all(np.isfinite(a)) and np.all(np.isfinite(b))):
            ctx.violation(f"adaptive:stopped-dt:{name}:nonfinite", f"forward-mode derivative of the adaptive solve ({name}) is not finite", case)
            continue
        dev = float(np.max(np.abs(a - b) / (np.abs(b) + 1e-6 * (1 + np.max(np.abs(b))))))
        ctx.dev(f"adaptive.stopped-dt.{name}", dev, 1e-6, case=case, sig=f"adaptive:stopped-dt:{name}",
                what=f"forward-mode derivative of the adaptive solve ({name}) differs from the derivative on the realised grid by {dev:.2e}: the step sizes are not treated as constants")


def check_map_taylor_point(ctx, it):
    """Iterated (maximum-a-posteriori) linearisation, dense model: the Taylor point is a function of the parameters (a
    Gauss-Newton fixed point); forward-mode derivatives of means and standard deviations equal the directional derivatives
    of the computed quantities (central differences, Richardson).  Reverse mode needs a user-supplied differentiable loop
    and is outside this sub-check."""
    import jax
    import jax.numpy as jnp
    from probdiffeq import ivpsolve
    from probdiffeq import probdiffeq as pdq
    from probdiffeq._probdiffeq import taylor_points

    rng = ctx.rng
    q = int(rng.integers(2, 4))
    grid = jnp.asarray([0.0, 0.125, 0.375, 0.5, 0.75][: int(rng.integers(3, 6))])
    th0 = np.array([float(gen.pick(rng, [0.75, 1.0, 1.5])), float(gen.pick(rng, [0.5, 0.25]))])
    init = gen.pick(rng, ["exact", "inexact"])
    case = {"fact": "dense", "lin": "ts1 + taylor_point_maximum_a_posteriori", "q": q, "grid": np.asarray(grid).tolist(), "theta": th0.tolist(), "init": init,
            "field": "u' = th0 u (1 - u) + th1 u^2 v, v' = -v + u", "u0": [0.25, 0.5]}

    def F(th):
        ssm = pdq.state_space_model_dense()
        vf = pdq.ode(lambda u, /, *, t: jnp.stack([th[0] * u[0] * (1 - u[0]) + th[1] * u[0] ** 2 * u[1], -u[1] + u[0]]), jacobian=pdq.jacobian_materialize())
        tcoeffs, _ = pdq.jetexpand_ode_padded_scan(num=q)(vf, (jnp.asarray([0.25, 0.5]),), t=0.0)
        prior = ssm.prior_wiener_integrated(tcoeffs) if init == "exact" else ssm.prior_wiener_integrated(tcoeffs, is_exact=False, inexact_eps=2.0**-5)
        # converged iteration (tight solver) or the default solver (at most 10 sweeps, tolerance 1e-6: the iteration is part of
        # the computed function and is differentiated as it runs, starting point included - seeded change C16-s9)
        tp = pdq.taylor_point_maximum_a_posteriori(nlstsq=taylor_points.lstsq_constrained_gauss_newton(maxiter=30, tol=1e-13)) if it % 2 == 0 else pdq.taylor_point_maximum_a_posteriori()
        con = ssm.constraint_ode_ts1(vf, taylor_point=tp)
        sol = pdq.solver(strategy=pdq.strategy_filter(), constraint=con)
        s = ivpsolve.solve_fixed_grid(solver=sol)(prior, grid=grid, damp=2.0**-6)
        return jnp.concatenate([s.u.mean[0][-1].reshape(-1), s.u.mean[1][-1].reshape(-1), s.u.std[0][-1].reshape(-1)])

    Fj = jax.jit(F)
    J = np.asarray(jax.jit(jax.jacfwd(F))(jnp.asarray(th0)))
    y = np.asarray(Fj(jnp.asarray(th0)))
    ctx.evaluations += 1
    ctx.case(dict(case, mode="map-taylor-point"))
    ctx.count("MAP taylor point (dense, forward mode vs differences)")
    if not (np.all(np.isfinite(y)) and np.all(np.isfinite(J))):
        ctx.violation("map-taylor-point:nonfinite", "solution or forward-mode derivative with a MAP Taylor point is not finite", case)
        return
    Jd, err = L.richardson_jacobian(lambda x: np.asarray(Fj(jnp.asarray(x))), th0, np.maximum(np.abs(th0), 2.0**-4))
    sc = np.abs(Jd) + 1e-3 * np.max(np.abs(Jd), axis=1, keepdims=True) + 1e-5 * np.abs(y)[:, None] + 1e-300
    ok = err <= 0.01 * 1e-5 * sc
    if not np.any(ok):
        ctx.skip("MAP taylor point: finite differences not converged")
        return
    dev = float(np.max(np.where(ok, np.abs(J - Jd) / sc, 0.0)))
    ctx.dev("map-taylor-point.fwd-vs-fd", dev, 1e-5, case=case, sig="map-taylor-point:forward-vs-differences",
            what=f"forward-mode derivative with a MAP Taylor point differs from the directional derivative of the computed solution by {dev:.2e}")


def run(ctx):
    import jax

    jax.config.update("jax_enable_x64", True)
    try:
        jax.config.update("jax_disable_most_optimizations", True)  # compile time only
    except Exception:  # noqa: BLE001
        pass
    ctx.rule = (
        "kernel: random dyadic matrices (2x2 … 6x3, zero / rank-deficient inputs) through qr_r, revert_conditional (n <= 3, k <= 2; exact / inexact priors), sum_of_sqrtm_factors; "
        "solver: corpus of minimised known failures, then random configurations {dense, iso, bd} x {solver, mle, dynamic without stop-gradient} x {filter, fixed-interval} x {TS0, TS1} x "
        "{exact, inexact init} x q <= 4 x parametrised polynomial fields (logistic, Lotka-Volterra, affine, random degree <= 2; d <= 2, p <= 4) on grids of 2-5 steps; parameters: theta, u0, "
        "base scale, constraint noise (damp), loss noise (equal / unequal); outputs: means (u, u'), stds, output scale, both losses; jacfwd, jacrev, jvp, grad vs Richardson central differences "
        "and vs the dual-number model (filter, solver / mle, q <= 2, <= 3 steps); distinct = different (configuration, field, parameter set)"
    )
    ctx.assumptions += [
        "the claim excludes requested stop-gradients: solver_dynamic is differentiated with stop_gradient_through_calibration=False; adaptive step selection is differentiated only to confirm that the step sizes are constants: jvp of the adaptive solve = jvp of the fixed-grid solve on the realised grid (clip_dt on / off)",
        "finite differences: 3-level Richardson extrapolation in float64; entries whose error estimate exceeds 0.2% of the tolerance are skipped and counted",
        "derivative oracle where covered: Pdq.Model.Solver / Iwp instantiated at Dual Rat (theorems dual_number_derivative, solver_step_dual_is_derivative); linearisation and initial Taylor coefficients evaluated in exact dual arithmetic on the Python side",
        "attribution to D5 uses a triangular tangent of qr_r patched into probdiffeq.backend.linalg inside the harness process only (no source change)",
    ]
    import time

    tm = {}
    ctx.extra["timing_s"] = tm
    # ---- (S)
    configs = corpus() + [(f"random:{it}", random_cfg(ctx, it)) for it in range(ctx.n(3, 90))]
    jobs = []
    for ci, (tag, cfg) in enumerate(configs):
        for k_ in ("fact", "solver", "strategy", "lin", "init", "noise"):
            ctx.count(f"{k_}={cfg[k_]}")
        ctx.count(f"q={cfg['q']}")
        ctx.count(f"field={cfg['field']['name']}(d={cfg['field']['d']},p={cfg['field']['p']})")
        for g, _ in layout_of(cfg):
            ctx.count(f"param group {g}")
        withf = ci == 0 if ctx.quick else ci % 3 == 0
        jobs.append((cfg, int(ctx.rng.integers(0, 2**31)) if withf else None, tag.startswith("corpus") or not ctx.quick))
    import multiprocessing

    t_ = time.time()
    nproc = int(min(len(jobs), max(2, min(6, (multiprocessing.cpu_count() or 4) // 2))))
    with concurrent.futures.ProcessPoolExecutor(max_workers=nproc, mp_context=multiprocessing.get_context("spawn")) as pool:
        futures = [pool.submit(compute_config, job) for job in jobs]
        # ---- (K) runs in this process while the workers differentiate
        tk = time.time()
        rule = classify_qr_rule(ctx)
        guarded(ctx, "kernel:zero-inputs", kernel_zero_inputs, ctx)
        # fixed minimal instance (1+1 blocks) first, then random ones
        guarded(ctx, "revert_conditional", check_revert_kernel, ctx, rule, np.array([[1.0]]), np.array([[0.5]]), np.array([[1.0]]), np.array([[0.25]]), np.array([[0.5]]), np.array([[1.0]]), {"tag": "corpus:1+1"})
        for it in range(ctx.n(6, 120)):
            n, k = int(ctx.rng.integers(1, 4)), int(ctx.rng.integers(1, 3))
            kind = ["inexact", "inexact", "exact"][it % 3]
            guarded(ctx, "revert_conditional", check_revert_kernel, ctx, rule, *kernel_revert_case(ctx.rng, n, k, kind), {"tag": f"random:{kind}"})
            guarded(ctx, "sum_of_sqrtm_factors", check_sum_kernel, ctx, {"tag": "random"})
        tm["kernel"] = round(time.time() - tk, 1)
        budget = 60.0 if ctx.quick else 600.0  # wall-clock budget for the random part on a loaded machine (the corpus always runs)
        for (tag, cfg), fut in zip(configs, futures):
            if not tag.startswith("corpus") and time.time() - ctx.t0 > budget and fut.cancel():
                ctx.skip("time budget reached: random configuration not differentiated")
                continue
            res = fut.result()
            if "error" in res:
                ctx.violation("grad:exception", f"differentiating the solve raised {res['error']}", dict(cfg, tag=tag, traceback=res["traceback"]))
                continue
            tc = time.time()
            check_config(ctx, cfg, rule, res, {"tag": tag})
            tm["compare"] = round(tm.get("compare", 0) + time.time() - tc, 1)
    tm["solver-level wall"] = round(time.time() - t_, 1)
    ta = time.time()
    for it in range(ctx.n(2, 12)):
        guarded(ctx, "adaptive:stopped-dt", check_adaptive_stopped_dt, ctx, it)
    tm["adaptive stop-gradient"] = round(time.time() - ta, 1)
    ta = time.time()
    for it in range(ctx.n(2, 6)):
        guarded(ctx, "map-taylor-point", check_map_taylor_point, ctx, it)
    tm["MAP taylor point"] = round(time.time() - ta, 1)
