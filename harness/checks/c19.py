"""C19 — Constrained least-squares points are feasible, optimal, exact if affine.

Correspondence: the real `lstsq_constrained_gauss_newton(...)` (and its users
`taylor_point_maximum_a_posteriori`, `DenseResidual.linearize`, `jetexpand_residual`) are called in-process
on affine and mildly nonlinear polynomial constraints.  The routine's `while_loop` argument is a public
constructor parameter, so a recording Python loop makes every iterate observable without touching the
source; the default `lax.while_loop` run is compared with it.

* closed loop, iterate by iterate: the implementation's own iterate `x_i` (exact dyadic rationals) goes
  to the Lean model's `body` (`gn_step`: exact polynomial constraint and Jacobian, certified
  minimum-norm least-squares answer), the result is compared with `x_{i+1}`; `fx_{i+1}` is compared with
  the exact constraint at the implementation's `x_{i+1}`; the continue/stop decision is compared with
  the model's `cont` on the implementation's carry (exact squared norms; near-ties skipped);
* open loop: for affine constraints (and short nonlinear runs) the whole model routine `gn_run` is run
  in exact arithmetic from the same `x0` and the final point, iteration count and statistics compared;
* the property's own clauses are checked on the real output: conditional mean after one iteration for
  affine constraints, exit disjunction, truthful statistics, range condition `x - m in range(P J^T)` up to
  the last increment.
"""

from __future__ import annotations

import math
import sys
from fractions import Fraction

import numpy as np

if hasattr(sys, "set_int_max_str_digits"):
    sys.set_int_max_str_digits(0)  # exact open-loop runs of nonlinear constraints produce long rationals

from harness import core, gen
from harness.core import F, Cut

PROPS_MODULES = ["Pdq.Props.C19"]
LEVEL = "proof"

TOL = 1e-10  # relative (scale-aware, divided by cond(J L)); observed max on the clean tree ~1e-13
TOL_EVAL = 1e-13  # constraint evaluation at the implementation's own point, relative to sum |terms|
NEAR = 1e-9  # relative distance of a squared norm to its threshold below which a decision is not compared

EXPLANATION = (
    "Lean: one Gauss-Newton step returns m - L dy for every constraint; for affine constraints it is independent of the start, "
    "feasible whenever the constraint is consistent on m + range L, and the Gaussian conditional mean when C P C^T is invertible; "
    "minimum-norm dy puts x - m into range(P J^T); the loop with fuel maxiter has stopped on return (three-way exit), never exceeds "
    "the budget, and the reported statistics are those of the returned state; as Taylor point it makes the affine update exact. "
    "LAPACK's SVD least-squares is modelled by exact certificates (normal equations + row-space witness, proved to determine dy)."
)


def _np(x):
    return np.asarray(x, dtype=np.float64)


def fl(a):
    a = np.asarray(a, dtype=object)
    return np.array([float(x) for x in a.reshape(-1)], dtype=np.float64).reshape(a.shape)


# ------------------------------------------------------------------------------------------------
# polynomial constraints


class PolyConstraint:
    """rows of monomials (coef, exponents); affine part C x - e plus optional small higher-order terms"""

    def __init__(self, D, rows):
        self.D, self.rows, self.k = D, rows, len(rows)

    @staticmethod
    def affine(C, e):
        k, D = C.shape
        rows = []
        for i in range(k):
            row = [(float(C[i, j]), [1 if l == j else 0 for l in range(D)]) for j in range(D) if C[i, j] != 0.0]
            row.append((-float(e[i]), [0] * D))
            rows.append(row)
        return PolyConstraint(D, rows)

    def is_affine(self):
        return all(sum(p) <= 1 for row in self.rows for _, p in row)

    def affine_parts(self):
        C = np.zeros((self.k, self.D))
        e = np.zeros(self.k)
        for i, row in enumerate(self.rows):
            for c, p in row:
                if sum(p) == 0:
                    e[i] -= c
                else:
                    C[i, p.index(1)] += c
        return C, e

    def jax_fun(self):
        import jax.numpy as jnp

        rows = self.rows

        def g(x, **_kw):
            out = []
            for row in rows:
                acc = jnp.zeros((), dtype=x.dtype)
                for c, p in row:
                    term = jnp.asarray(c, dtype=x.dtype)
                    for j, ex in enumerate(p):
                        if ex:
                            term = term * x[j] ** ex
                    acc = acc + term
                out.append(acc)
            return jnp.stack(out)

        return g

    def abs_terms(self, x):
        """sum of |terms| per row at x (float): the scale of the rounding of one evaluation"""
        x = _np(x)
        out = np.zeros(self.k)
        for i, row in enumerate(self.rows):
            for c, p in row:
                out[i] += abs(c) * float(np.prod([abs(x[j]) ** ex for j, ex in enumerate(p)]))
        return out

    def jac_float(self, x):
        x = _np(x)
        J = np.zeros((self.k, self.D))
        for i, row in enumerate(self.rows):
            for c, p in row:
                for j, ex in enumerate(p):
                    if ex:
                        q = list(p)
                        q[j] -= 1
                        J[i, j] += c * ex * float(np.prod([x[l] ** qq for l, qq in enumerate(q)]))
        return J

    def args(self):
        """driver encoding: per row: #monomials, then coef + D exponents each"""
        out = []
        for row in self.rows:
            out.append(len(row))
            for c, p in row:
                out.append(F(c))
                out.extend(int(e) for e in p)
        return out

    def dump(self):
        return [[(c, list(p)) for c, p in row] for row in self.rows]


def gen_constraint(rng, D, k, kind):
    C = gen.dyadic(rng, (k, D), bits=3, scale=2.0)
    for i in range(k):  # no zero rows
        if not C[i].any():
            C[i, rng.integers(D)] = 1.0
    e = gen.dyadic(rng, (k,), bits=4, scale=2.0)
    pc = PolyConstraint.affine(C, e)
    if kind == "affine":
        return pc
    # mildly nonlinear: a few quadratic / cubic monomials with small coefficients
    eps = float(rng.choice([1 / 8, 1 / 16, 1 / 32]))
    for i in range(k):
        for _ in range(int(rng.integers(1, 3))):
            p = [0] * D
            deg = 2 if rng.random() < 0.75 else 3
            for _ in range(deg):
                p[int(rng.integers(D))] += 1
            c = eps * float(rng.choice([-1.0, 1.0, 0.5, -0.5]))
            pc.rows[i].append((c, p))
    return pc


def gen_factor(rng, D, kind):
    if kind in ("well", "general", "ill", "rankdef", "zero"):
        return gen.chol_factor(rng, D, kind)
    if kind == "scaled":
        return gen.chol_factor(rng, D, "well") * 2.0 ** float(rng.integers(-20, 21))
    if kind == "diffuse":  # what jetexpand_residual builds: exact coordinates (std 0) and diffuse ones (std 1)
        dvec = (rng.random(D) < 0.5).astype(float)
        if not dvec.any():
            dvec[rng.integers(D)] = 1.0
        return np.diag(dvec)
    raise ValueError(kind)


# ------------------------------------------------------------------------------------------------
# exact helpers


def rank_q(M):
    """exact rank of an object array of Fractions"""
    A = [list(r) for r in M]
    rk, rows, cols = 0, len(A), len(A[0]) if A else 0
    for c in range(cols):
        piv = next((i for i in range(rk, rows) if A[i][c] != 0), None)
        if piv is None:
            continue
        A[rk], A[piv] = A[piv], A[rk]
        for i in range(rows):
            if i != rk and A[i][c] != 0:
                f = A[i][c] / A[rk][c]
                A[i] = [a - f * b for a, b in zip(A[i], A[rk])]
        rk += 1
        if rk == rows:
            break
    return rk


def sq(v):
    return sum((F(x) * F(x) for x in _np(v).reshape(-1)), Fraction(0))


def numeric_rank_info(Hf):
    """(numeric rank under jnp.linalg.lstsq's cut-off, cond of the retained part, ambiguous?)"""
    k, r = Hf.shape
    if not Hf.any():
        return 0, 1.0, False
    s = np.linalg.svd(Hf, compute_uv=False)
    cutoff = np.finfo(np.float64).eps * max(k, r) * s[0]
    kept = s[s > cutoff]
    ambiguous = bool(np.any((s > cutoff / 4) & (s < 1e3 * cutoff)))
    return int(kept.size), float(s[0] / kept[-1]), ambiguous


# ------------------------------------------------------------------------------------------------


def py_while(cond_fun, body_fun, init):
    """drop-in for flow.while_loop that records the carry after every iteration"""
    trace = [init]
    s = init
    while bool(cond_fun(s)):
        s = body_fun(s)
        trace.append(s)
    py_while.last_trace = trace
    py_while.last_cond = cond_fun
    py_while.last_cls = type(init)
    return s


def call_real(pc, x0, m, L, tol, maxiter, record):
    import jax.numpy as jnp
    from probdiffeq._probdiffeq import taylor_points as tp

    kw = {"while_loop": py_while} if record else {}
    solver = tp.lstsq_constrained_gauss_newton(maxiter=maxiter, tol=tol, **kw)
    py_while.last_trace = None
    x, stats = solver(pc.jax_fun(), jnp.asarray(x0), jnp.asarray(m), jnp.asarray(L))
    trace = py_while.last_trace if record else None
    return _np(x), {k: _np(v) for k, v in stats.items()}, trace


def probe_termination_test(ctx, D, k, tol, tol2, maxiter, case):
    import jax.numpy as jnp

    cond_fun, cls = py_while.last_cond, py_while.last_cls
    rng = ctx.rng
    for _ in range(ctx.n(6, 12)):
        uf, ud = rng.standard_normal(k), rng.standard_normal(D)
        a = float(rng.choice([0.0, 0.5, 0.999, 1.001, 2.0, 1e3]))
        b = float(rng.choice([0.0, 0.5, 0.999, 1.001, 2.0, 1e3]))
        fx = uf / np.linalg.norm(uf) * tol * math.sqrt(k) * a
        dx = ud / np.linalg.norm(ud) * tol * math.sqrt(D) * b
        i = int(rng.choice([0, max(maxiter - 1, 0), maxiter, maxiter + 1]))
        got = bool(cond_fun(cls(x=jnp.zeros((D,)), fx=jnp.asarray(fx), dx=jnp.asarray(dx), i=i)))
        ans = ctx.drv.call("gn_cont", D, k, tol2, maxiter, fx, dx, i)
        c_model, nfx, thr_f, ndx, thr_d = int(ans[0]), ans[1], ans[2], ans[3], ans[4]
        if any(t > 0 and abs(q / t - 1) < Fraction(NEAR) for q, t in ((nfx, thr_f), (ndx, thr_d))):
            ctx.skip("termination test within 1e-9 of a threshold")
            continue
        ctx.count("cond_fun-probe")
        if got != bool(c_model):
            ctx.violation("gn:termination-test", f"cond_fun on a crafted carry (|fx| = {a} tol sqrt(k), |dx| = {b} tol sqrt(D), i = {i}, maxiter = {maxiter}) "
                          f"returns {got}, the model's cont says {bool(c_model)}", {**case, "probe": {"fx": fx.tolist(), "dx": dx.tolist(), "i": i}})
            return


def check_case(ctx, pc, x0, m, L, tol, maxiter, tag):
    D, k = pc.D, pc.k
    r = L.shape[1]
    tol2 = F(tol) * F(tol)
    case = {"constraint_rows(coef,exponents)": pc.dump(), "x0": _np(x0).tolist(), "mean": _np(m).tolist(),
            "cholesky": _np(L).tolist(), "tol": tol, "maxiter": maxiter, **tag}
    x_fin, stats, trace = call_real(pc, x0, m, L, tol, maxiter, record=True)
    iters = int(stats["iters"])
    ctx.count(f"iters={min(iters, 6)}{'+' if iters >= 6 else ''}")
    case["returned"] = {"x": x_fin.tolist(), "iters": iters, "final_constraint": stats["final_constraint"].tolist(),
                        "final_increment": stats["final_increment"].tolist()}
    states = [(_np(s.x), _np(s.fx), _np(s.dx), int(s.i)) for s in trace]

    # ---- (c) reported statistics are those of the returned carry
    xs, fxs, dxs, i_s = states[-1]
    if not (np.array_equal(x_fin, xs) and iters == i_s == len(states) - 1
            and np.array_equal(stats["final_constraint"], fxs) and np.array_equal(stats["final_increment"], dxs)):
        ctx.violation("gn:stats-not-of-returned-state", f"returned point / statistics differ from the final loop carry (iters reported {iters}, carry i = {i_s}, body evaluations {len(states) - 1})", case)
        return
    if not all(np.all(np.isfinite(a)) for st in states for a in st[:3]):
        ctx.violation("gn:nonfinite", "non-finite iterate although the exact problem is well defined", case)
        return
    if iters > maxiter:
        ctx.violation("gn:budget-exceeded", f"{iters} iterations with maxiter = {maxiter}", case)

    # ---- closed loop over the recorded iterates
    ambiguous = False
    conds = []
    for idx, (x_i, fx_i, dx_i, i_i) in enumerate(states):
        continued = idx < len(states) - 1
        if i_i != idx:
            ctx.violation("gn:iteration-counter", f"carry {idx} has i = {i_i}", case)
            return
        # (a) the termination test on the implementation's own carry
        ans = ctx.drv.call("gn_cont", D, k, tol2, maxiter, fx_i, dx_i, i_i)
        c_model, nfx, thr_f, ndx, thr_d = int(ans[0]), ans[1], ans[2], ans[3], ans[4]
        near = any(t > 0 and abs(q / t - 1) < Fraction(NEAR) for q, t in ((nfx, thr_f), (ndx, thr_d)))
        if near:
            ctx.skip("termination test within 1e-9 of a threshold")
        elif bool(c_model) != continued:
            which = "continued" if continued else "stopped"
            ctx.violation("gn:termination-test", f"at iterate {idx} the implementation {which}, the model's cond_fun says continue={bool(c_model)} "
                          f"(|fx|^2={float(nfx):.3e} vs {float(thr_f):.3e}, i={i_i}/{maxiter}, |dx|^2={float(ndx):.3e} vs {float(thr_d):.3e})", case)
            return
        # (b2) fx_i is the constraint at x_i
        gv = fl(Cut(ctx.drv.call("gn_eval", D, k, *pc.args(), x_i)).take(k))
        sc = np.maximum(pc.abs_terms(x_i), np.finfo(float).tiny)
        ctx.dev("state.fx", float(np.max(np.abs(fx_i - gv) / sc)), TOL_EVAL, case=case, sig="gn:carry-fx-is-not-constraint-at-x",
                what=f"carry {idx}: fx differs from the constraint at the carried x")
        if idx > 0:
            x_p = states[idx - 1][0]
            scd = np.maximum(np.abs(x_i) + np.abs(x_p), np.finfo(float).tiny)
            ctx.dev("state.dx", float(np.max(np.abs(dx_i - (x_i - x_p)) / scd)), 4e-16, case=case, sig="gn:carry-dx-is-not-last-increment",
                    what=f"carry {idx}: dx differs from x_{idx} - x_{idx - 1}")
        elif not np.all(dx_i == 1.0):
            ctx.violation("gn:init-dx", "initial increment is not ones_like(x0)", case)
        if not continued:
            break
        # (b1) one model step from the implementation's iterate
        try:
            ans = Cut(ctx.drv.call("gn_step", D, k, r, *pc.args(), m, L, x_i))
        except core.ModelError as e:
            raise core.HarnessError(f"model refused a Gauss-Newton step: {e.ans}") from e
        xn, fxn, dxn, H, y = ans.take(D), ans.take(k), ans.take(D), ans.take(k, r), ans.take(r)
        ans.done()
        nrank, cond, amb = numeric_rank_info(fl(H))
        exact_rank = rank_q(H)
        if amb or nrank != exact_rank:
            ambiguous = True
            ctx.skip("numerical rank of J L ambiguous under the SVD cut-off (or differs from the exact rank)")
            continue
        conds.append(cond)
        ctx.count("rank(JL)=full" if exact_rank == min(k, r) and exact_rank == k else "rank(JL)<k")
        x_next = states[idx + 1][0]
        scale = np.abs(_np(m)) + np.abs(_np(L)) @ np.abs(fl(y))
        scale = np.maximum(scale, np.max(scale, initial=0.0) * 1e-3)
        scale = np.where(scale > 0, scale, np.finfo(float).tiny)
        dev = float(np.max(np.abs(x_next - fl(xn)) / scale)) / cond
        if not ctx.dev("step.x", dev, TOL, case=case, sig="gn:step",
                       what=f"iterate {idx + 1} deviates from the model's Gauss-Newton step m - L lstsq(JL, f + J(m - x)) from iterate {idx}: {dev:.3e} (relative, / cond(JL) = {cond:.1e})"):
            return

    # ---- the termination test itself, probed on crafted carries around its three thresholds
    # (the recording while_loop receives the routine's own cond_fun and carry type)
    probe_termination_test(ctx, D, k, tol, tol2, maxiter, case)

    # ---- property clauses on the real output
    nfx, ndx = sq(fxs), sq(dxs)
    exit_ok = (nfx <= tol2 * k * (1 + Fraction(NEAR))) or iters == maxiter or (ndx <= tol2 * D * (1 + Fraction(NEAR)))
    if not exit_ok:
        ctx.violation("gn:exit-condition", f"returned with |f|^2={float(nfx):.3e} > tol^2 k, iters={iters} < maxiter={maxiter}, |dx|^2={float(ndx):.3e} > tol^2 D", case)
    ctx.count("exit=" + ("feasible" if nfx <= tol2 * k else "budget" if iters == maxiter else "increment"))

    if iters >= 1 and not ambiguous:
        # range condition at the returned point: x - m in range(P J(x)^T) up to the last increment
        P = _np(L) @ _np(L).T
        Jf, Jp = pc.jac_float(xs), pc.jac_float(states[-2][0])
        A = P @ Jf.T
        v = xs - _np(m)
        res = v - A @ np.linalg.lstsq(A, v, rcond=1e-12)[0] if A.any() else v
        # x - m = -P J(x_prev)^T z exactly (gn_displacement_range); z from the last step
        Hp = Jp @ _np(L)
        yy = np.linalg.lstsq(_np(L), -(v), rcond=1e-12)[0] if _np(L).any() else np.zeros(r)
        z = np.linalg.lstsq(Hp.T, yy, rcond=1e-12)[0] if Hp.any() else np.zeros(k)
        bound = np.linalg.norm(P, 2) * np.linalg.norm(Jp - Jf, 2) * np.linalg.norm(z)
        noise = 1e-9 * (np.linalg.norm(v) + np.linalg.norm(P, 2) * np.linalg.norm(z) * max(np.linalg.norm(Jf, 2), 1.0)) * max(conds + [1.0])
        rn, dn = float(np.linalg.norm(res)), float(np.linalg.norm(dxs))
        ctx.devs["range.residual/|dx|(info)"] = max(ctx.devs.get("range.residual/|dx|(info)", 0.0), rn / dn if dn > 0 else 0.0)
        if rn > bound * (1 + 1e-6) + noise:
            ctx.violation("gn:range-condition", f"distance of x - m from range(P J(x)^T) is {rn:.3e} > |P| |J(x_prev)-J(x)| |z| = {bound:.3e} (last increment {dn:.3e})", case)

    # ---- default while_loop (lax) agrees with the recorded Python loop (quick tier: every other case; one XLA compile each)
    do_lax = (not ctx.quick) or "corpus" in tag or (isinstance(tag.get("it"), int) and tag["it"] % 2 == 0) or "user" in tag
    x_lax, stats_lax, _ = call_real(pc, x0, m, L, tol, maxiter, record=False) if do_lax else (xs, stats, None)
    if int(stats_lax["iters"]) != iters:
        ctx.skip("lax.while_loop and the Python loop stop at different iterations (rounding at a threshold)") if ambiguous or conds and max(conds) > 1e6 else \
            ctx.violation("gn:lax-vs-python-loop", f"lax.while_loop made {int(stats_lax['iters'])} iterations, the recorded Python loop {iters}", case)
    else:
        sc = np.maximum(np.abs(xs), np.max(np.abs(xs), initial=0.0) * 1e-3 + np.finfo(float).tiny)
        ctx.dev("lax-vs-python.x", float(np.max(np.abs(x_lax - xs) / sc)) / max(conds + [1.0]), TOL, case=case, sig="gn:lax-vs-python-loop")

    # ---- open loop: the whole model routine in exact arithmetic
    affine = pc.is_affine()
    if (affine or (maxiter <= 2 and D <= 5)) and not ambiguous:
        if affine:
            C, e = pc.affine_parts()
            ans = ctx.drv.call("gn_run_affine", D, k, r, C, e, m, L, tol2, maxiter, x0)
        else:
            ans = ctx.drv.call("gn_run", D, k, r, *pc.args(), m, L, tol2, maxiter, x0)
        cut = Cut(ans)
        n_states = int(cut.take())
        mstates = [(cut.take(D), cut.take(k), cut.take(D), int(cut.take())) for _ in range(n_states)]
        mx, mit, mfc, mfi = cut.take(D), int(cut.take()), cut.take(k), cut.take(D)
        cut.done()
        cond = max(conds + [1.0])
        # margins of every exact decision against float noise
        xmax = max(float(np.max(np.abs(_np(m)))), float(np.max(np.abs(fl(mx)))), 1.0)
        noise_f = 1e-13 * cond * max(float(np.max(pc.abs_terms(fl(mx)))), 1.0)
        noise_d = 1e-13 * cond * xmax
        thr_f, thr_d = tol * math.sqrt(k), tol * math.sqrt(D)
        safe = True
        for (sx, sfx, sdx, si) in mstates:
            nf, nd = math.sqrt(float(sum(q * q for q in sfx))), math.sqrt(float(sum(q * q for q in sdx)))
            for val, thr, noise in ((nf, thr_f, noise_f), (nd, thr_d, noise_d)):
                if abs(val - thr) < 10 * noise + NEAR * thr:
                    safe = False
        if not safe:
            ctx.skip("open-loop comparison: an exact decision lies within float noise of its threshold")
        else:
            ctx.count("open-loop=affine" if affine else "open-loop=nonlinear")
            if mit != iters:
                ctx.violation("gn:iteration-count", f"implementation reports iters = {iters}, the exact model routine makes {mit}", case)
            else:
                scale = np.maximum(np.abs(fl(mx)), xmax * 1e-3)
                dev = float(np.max(np.abs(xs - fl(mx)) / scale)) / cond / max(1, iters)
                ctx.dev("run.x", dev, TOL, case=case, sig="gn:final-point", what=f"returned point deviates from the exact model routine by {dev:.3e} (relative, / cond, / iters)")
                scf = np.maximum(pc.abs_terms(fl(mx)), np.finfo(float).tiny) * cond * max(float(np.linalg.norm(pc.jac_float(fl(mx)), 2)), 1.0)
                ctx.dev("run.final_constraint", float(np.max(np.abs(fxs - fl(mfc)) / scf)), TOL * 10, case=case, sig="gn:final-constraint")

    # ---- affine: Gaussian conditional mean after one iteration
    if affine and iters >= 1 and not ambiguous:
        C, e = pc.affine_parts()
        ans = Cut(ctx.drv.call("gn_step_affine", D, k, r, C, e, m, L, x0))
        xn = fl(ans.take(D))
        cond = max(conds + [1.0])
        x1 = states[1][0]
        scale = np.maximum(np.abs(xn), max(float(np.max(np.abs(xn))), float(np.max(np.abs(_np(m)))), 1e-300) * 1e-3)
        dev = float(np.max(np.abs(x1 - xn) / scale)) / cond
        ctx.dev("affine.one_step", dev, TOL, case=case, sig="gn:affine-not-conditional-mean-after-one-iteration",
                what=f"affine constraint: the first iterate deviates from m - L (CL)^+ (Cm - e) by {dev:.3e}")
        S = C @ (_np(L) @ _np(L).T) @ C.T
        if np.linalg.matrix_rank(S) == k and np.linalg.cond(S) < 1e8:
            # independent float formula of the conditional mean (cross-check of the model, cond^2-limited)
            cm = _np(m) - (_np(L) @ _np(L).T) @ C.T @ np.linalg.solve(S, C @ _np(m) - e)
            ctx.dev("affine.cond_mean(numpy)", float(np.max(np.abs(xn - cm) / scale)) / np.linalg.cond(S), 1e-9, case=case, sig="gn:model-vs-numpy-conditional-mean")
            ctx.count("affine.full-row-rank")
            if iters != 1 and tol * math.sqrt(k) > 1e-13 * cond * max(float(np.max(pc.abs_terms(xn))), 1.0) * 100:
                ctx.violation("gn:affine-more-than-one-iteration", f"affine constraint with invertible C P C^T needed {iters} iterations", case)
        else:
            ctx.count("affine.rank-deficient")
    ctx.case(tag)


# ------------------------------------------------------------------------------------------------
# users of the routine


def check_map_taylor_point(ctx, pc, m, L, tag):
    """taylor_point_maximum_a_posteriori()(constraint_flat, rv, t=) == the routine started at the mean"""
    import jax.numpy as jnp
    from probdiffeq._probdiffeq import ssm_impl_dense as Dn
    from probdiffeq._probdiffeq import taylor_points as tp

    rv = Dn.DenseNormal(jnp.asarray(m), jnp.asarray(L), None)
    g = pc.jax_fun()
    seen = []

    def constraint_flat(x, *, t):
        seen.append(float(t))
        return g(x)

    xi = _np(tp.taylor_point_maximum_a_posteriori()(constraint_flat, rv, t=0.25))
    default = tp.lstsq_constrained_gauss_newton()
    x_ref, _ = default(g, jnp.asarray(m), jnp.asarray(m), jnp.asarray(L))
    case = {"user": "taylor_point_maximum_a_posteriori", "constraint_rows": pc.dump(), "mean": _np(m).tolist(), "cholesky": _np(L).tolist(), **tag}
    if not np.array_equal(xi, _np(x_ref)):
        ctx.violation("map-taylor-point:differs-from-routine", "taylor_point_maximum_a_posteriori does not return lstsq_constrained_gauss_newton()(c, mean, mean, cholesky)", case)
    if not seen or any(t != 0.25 for t in seen):
        ctx.violation("map-taylor-point:kwargs", "constraint keyword arguments (t) are not passed through", case)
    if not np.array_equal(_np(tp.taylor_point_prior()(constraint_flat, rv, t=0.0)), _np(m)):
        ctx.violation("taylor-point-prior", "taylor_point_prior does not return the mean", case)
    # the defaults (maxiter, tol) read from the instance drive the full check
    check_case(ctx, pc, m, m, L, float(default.tol), int(default.maxiter), {**tag, "user": "taylor_point_maximum_a_posteriori (x0 = mean, defaults)"})
    ctx.count("user=map-taylor-point")


def check_residual_linearize(ctx, n, d, kc, tag):
    """DenseResidual.linearize with the MAP Taylor point on an affine residual: exact observation model,
    and one update (revert) lands on the Gaussian conditional mean"""
    import jax.numpy as jnp
    from probdiffeq._probdiffeq import jacobians, problems
    from probdiffeq._probdiffeq import ssm_impl_dense as Dn
    from probdiffeq._probdiffeq import taylor_points as tp
    from probdiffeq.backend import linalg

    rng = ctx.rng
    D = n * d
    pc = gen_constraint(rng, D, kc, "affine")
    C, e = pc.affine_parts()
    g = pc.jax_fun()
    m = gen.dyadic(rng, (D,), bits=5, scale=3.0)
    L = gen.chol_factor(rng, D, "well")
    tf = Dn.DenseTreeFlatten.from_example([jnp.zeros((d,)) for _ in range(n)])
    rv = Dn.DenseNormal(jnp.asarray(m), jnp.asarray(L), tf)

    def jetfunc(*, jet_coords, t):
        x = jnp.concatenate([jnp.reshape(c, (-1,)) for c in jet_coords])
        return [g(x)]

    residual = problems.JetResidual(jetfunc, jacobian=jacobians.jacobian_materialize(), num_tcoeffs_in_args=n)
    constraint = Dn.DenseResidual(residual, taylor_point=tp.taylor_point_maximum_a_posteriori())
    state = constraint.init_linearization()
    cond, _ = constraint.linearize(rv, state, damp=0.0, t=0.0)
    case = {"user": "DenseResidual.linearize(taylor_point_maximum_a_posteriori)", "C": C.tolist(), "e": e.tolist(), "mean": m.tolist(), "cholesky": L.tolist(), **tag}
    ans = Cut(ctx.drv.call("gn_step_affine", D, kc, D, C, e, m, L, m))
    xn = fl(ans.take(D))
    ans = Cut(ctx.drv.call("gn_linearize", D, kc, *pc.args(), xn))
    A_m, b_m = fl(ans.take(kc, D)), fl(ans.take(kc))
    scA = np.maximum(np.abs(A_m), 1e-3)
    ctx.dev("linearize.A", float(np.max(np.abs(_np(cond.A) - A_m) / scA)), 1e-12, case=case, sig="residual-linearize:A")
    scb = np.abs(C) @ np.abs(xn) + np.abs(e) + 1e-300
    ctx.dev("linearize.b", float(np.max(np.abs(_np(cond.noise.mean_flat) - b_m) / scb)), 1e-12, case=case, sig="residual-linearize:offset",
            what="linearised offset at the MAP Taylor point differs from g(xi) - J xi = -e")
    # one filter update: condition on the linearised constraint = 0
    _obs, bw = cond.revert(rv, solve_triu=linalg.solve_triu)
    post = _np(bw.apply_flat(jnp.zeros((kc,))).mean_flat)
    S = C @ L @ L.T @ C.T
    cnd = float(np.linalg.cond(S))
    scale = np.maximum(np.abs(xn), float(np.max(np.abs(xn))) * 1e-3 + 1e-300)
    ctx.dev("update.mean", float(np.max(np.abs(post - xn) / scale)) / cnd, TOL, case=case, sig="residual-linearize:update-not-conditional-mean",
            what="posterior mean of one update with the MAP-linearised affine constraint differs from the Gaussian conditional mean")
    ctx.case({**tag, "user": "residual-linearize", "n": n, "d": d, "k": kc})
    ctx.count("user=residual-linearize")


def check_jetexpand_residual(ctx, d, tag):
    """jetexpand_residual on the hand-written first two derivative constraints of u' = A u + c"""
    import jax.numpy as jnp
    from probdiffeq._probdiffeq import jacobians, jet_expansion_algorithms as jea, problems
    from probdiffeq._probdiffeq import ssm_impl_dense as Dn
    from probdiffeq._probdiffeq import taylor_points as tp

    rng = ctx.rng
    A = gen.dyadic(rng, (d, d), bits=2, scale=2.0)
    c = gen.dyadic(rng, (d,), bits=3, scale=2.0)
    u0 = gen.dyadic(rng, (d,), bits=4, scale=2.0)
    num = int(rng.integers(1, 3))
    n = num + 1
    D = n * d
    # residual rows: u' - A u - c  (and u'' - A u' when num = 2), as an affine PolyConstraint on x = (u, u', u'')
    Cm = np.zeros((num * d, D))
    ev = np.zeros(num * d)
    Cm[:d, :d], Cm[:d, d:2 * d], ev[:d] = -A, np.eye(d), c
    if num == 2:
        Cm[d:, d:2 * d], Cm[d:, 2 * d:] = -A, np.eye(d)
    pc = PolyConstraint.affine(Cm, ev)
    g = pc.jax_fun()

    def jetfunc(*, jet_coords, t):
        x = jnp.concatenate([jnp.reshape(cc, (-1,)) for cc in jet_coords])
        return g(x)

    residual = problems.JetResidual(jetfunc, jacobian=jacobians.jacobian_materialize(), num_tcoeffs_in_args=n)
    nl = tp.lstsq_constrained_gauss_newton(while_loop=py_while)
    tcoeffs, info = jea.jetexpand_residual(num, nlstsq=nl)(residual, [jnp.asarray(u0)], t=0.0)
    got = np.concatenate([_np(tc).reshape(-1) for tc in tcoeffs])
    prior = Dn.state_space_model_dense().prior_wiener_integrated([jnp.asarray(u0)], diffuse_derivatives=num)
    m, L = _np(prior.init.mean_flat), _np(prior.init.cholesky_flat)
    case = {"user": "jetexpand_residual", "A": A.tolist(), "c": c.tolist(), "u0": u0.tolist(), "num": num, **tag}
    tol2 = F(float(nl.tol)) ** 2
    ans = Cut(ctx.drv.call("gn_run_affine", D, num * d, D, Cm, ev, m, L, tol2, int(nl.maxiter), m))
    n_states = int(ans.take())
    for _ in range(n_states):
        ans.take(D), ans.take(num * d), ans.take(D), ans.take()
    mx, mit = fl(ans.take(D)), int(ans.take())
    truth = [u0, A @ u0 + c] + ([A @ (A @ u0 + c)] if num == 2 else [])
    truth = np.concatenate(truth)
    sc = np.maximum(np.abs(mx), float(np.max(np.abs(mx))) * 1e-3 + 1e-300)
    ctx.dev("jetexpand_residual.x", float(np.max(np.abs(got - mx) / sc)), TOL, case=case, sig="jetexpand-residual:point")
    ctx.dev("jetexpand_residual.truth", float(np.max(np.abs(mx - truth) / sc)), 1e-12, case=case, sig="jetexpand-residual:model-vs-taylor-coefficients")
    if int(info["iters"]) != mit:
        ctx.violation("jetexpand-residual:iters", f"reported iters {int(info['iters'])}, exact model routine {mit}", case)
    ctx.case({**tag, "user": "jetexpand_residual", "d": d, "num": num})
    ctx.count("user=jetexpand-residual")


# ------------------------------------------------------------------------------------------------


def corpus(ctx):
    """hand-made cases first: affine full rank from a far start; singular factor, inconsistent constraint
    (second iteration has zero increment); zero factor; feasible start (zero iterations); budget 1"""
    C = np.array([[1.0, 1.0, 0.0], [0.0, 1.0, -1.0]])
    e = np.array([1.0, 0.5])
    pc = PolyConstraint.affine(C, e)
    m = np.array([0.5, -1.0, 2.0])
    x_far = np.array([5.0, 7.0, -3.0])
    check_case(ctx, pc, x_far, m, np.diag([1.0, 2.0, 0.5]), 1e-8, 10, {"corpus": "affine full rank, far start"})
    check_case(ctx, pc, x_far, m, np.diag([1.0, 0.0, 0.0]), 1e-8, 10, {"corpus": "affine, rank-one factor, inconsistent"})
    check_case(ctx, pc, x_far, m, np.zeros((3, 3)), 1e-8, 10, {"corpus": "affine, zero factor"})
    check_case(ctx, pc, np.array([1.0, 0.0, -0.5]), m, np.eye(3), 1e-8, 10, {"corpus": "feasible start: zero iterations"})
    check_case(ctx, pc, x_far, m, np.eye(3), 1e-12, 1, {"corpus": "budget 1"})
    pcn = PolyConstraint(2, [[(1.0, [2, 0]), (1.0, [0, 1]), (-2.0, [0, 0])]])
    check_case(ctx, pcn, np.array([1.5, 0.5]), np.array([1.0, 0.5]), np.eye(2), 1e-10, 50, {"corpus": "x0^2 + x1 = 2"})
    check_case(ctx, pcn, np.array([1.5, 0.5]), np.array([1.0, 0.5]), np.eye(2), 1e-10, 2, {"corpus": "x0^2 + x1 = 2, budget 2"})


def run(ctx):
    import jax

    jax.config.update("jax_enable_x64", True)
    ctx.rule = (
        "polynomial constraints (affine C x - e with dyadic entries; mildly nonlinear = affine + 1..2 quadratic/cubic monomials per row "
        "with coefficients <= 1/8) with k = 1..D-1 rows on D = 2..10 variables; means dyadic in [-3,3]; factors well / general / "
        "ill-conditioned / rank-deficient / zero / scaled 2^+-20 / diffuse 0-1 diagonal; tol = 1e-4..1e-12; maxiter in {1,2,3,5,10,20,50}; "
        "starts: the mean, a far point, a near point, a feasible point (affine); every iterate of the real routine (recording while_loop) is compared with one "
        "exact model step from the implementation's own previous iterate; affine and short runs additionally open loop. A case is distinct "
        "when its drawn numbers differ."
    )
    ctx.assumptions += [
        "jnp.linalg.lstsq (LAPACK SVD with relative cut-off eps*max(k,D)) is modelled by the exact minimum-norm least-squares solution; "
        "cases where a singular value of J L lies between cut-off/4 and 1000*cut-off, or where the numerical rank differs from the exact rank, are skipped and counted",
        "termination decisions whose squared norm is within 1e-9 of the threshold are not compared",
        "tol < 1 (otherwise the initial increment ones_like(x0) already passes the convergence test and no iteration is made)",
    ]
    corpus(ctx)
    rng = ctx.rng
    n = ctx.n(72, 800)
    Dmax = 8 if ctx.quick else 10
    for it in range(n):
        D = int(rng.integers(2, Dmax + 1))
        k = int(rng.integers(1, D))
        ckind = "affine" if it % 2 == 0 else "nonlinear"
        fkind = gen.pick(rng, ["well", "general", "ill", "rankdef", "zero", "scaled", "diffuse"], [5, 3, 2, 3, 1, 2, 2])
        tol = float(10.0 ** -float(rng.integers(4, 13)))
        maxiter = int(rng.choice([1, 2, 3, 5, 10, 20, 50]))
        pc = gen_constraint(rng, D, k, ckind)
        m = gen.dyadic(rng, (D,), bits=5, scale=3.0)
        L = gen_factor(rng, D, fkind)
        start = gen.pick(rng, ["mean", "far", "near", "feasible"], [6, 4, 2, 1])
        if start == "feasible" and ckind == "affine":  # passes the test at once: zero iterations, x0 returned untouched
            Ca, ea = pc.affine_parts()
            x0 = np.linalg.lstsq(Ca, ea, rcond=None)[0] + 0.0
        elif start == "feasible":
            start, x0 = "mean", m.copy()
        elif start == "mean":
            x0 = m.copy()
        elif start == "far":
            x0 = gen.dyadic(rng, (D,), bits=4, scale=4.0)
        else:
            x0 = m + gen.dyadic(rng, (D,), bits=6, scale=0.25)
        tag = {"it": it, "D": D, "k": k, "constraint": ckind, "factor": fkind, "start": start, "tol": tol, "maxiter": maxiter}
        for key in ("constraint", "factor", "start"):
            ctx.count(f"{key}={tag[key]}")
        ctx.count(f"D={D}")
        check_case(ctx, pc, x0, m, L, tol, maxiter, tag)
        if it % 10 == 0:
            check_map_taylor_point(ctx, pc, m, L if fkind != "zero" else gen_factor(rng, D, "well"), {**tag, "it": f"{it}-map"})
        if it % 12 == 0:
            nn, dd = int(rng.integers(2, 4)), int(rng.integers(1, 3))
            check_residual_linearize(ctx, nn, dd, int(rng.integers(1, nn * dd)), {"it": f"{it}-lin"})
        if it % 15 == 0:
            check_jetexpand_residual(ctx, int(rng.integers(1, 4)), {"it": f"{it}-jet"})
