"""Helpers of the C15 check: pytree specs with an *own* traversal (independent of jax.tree_util),
a run-time parametrised quadratic vector-field family, construction of real solves.

Tree specs are plain Python data:
    ("L", shape)                            array leaf
    ("T", [child, ...])                     tuple
    ("S", [child, ...])                     list
    ("D", [(key, child), ...])              dict, keys in *insertion* order
    ("N", name, [(field, child), ...])      namedtuple, fields in declaration order
Canonical leaf order (what the Lean model `PyTree.ravel` denotes): tuples / lists / namedtuples in order,
dicts in sorted key order, row-major within a leaf.
"""

from __future__ import annotations

import collections
import dataclasses
import itertools

import numpy as np

_NT_CACHE = {}


def _nt(name, fields):
    key = (name, tuple(fields))
    if key not in _NT_CACHE:
        _NT_CACHE[key] = collections.namedtuple(name, fields)
    return _NT_CACHE[key]


# ------------------------------------------------------------------------------------------------
# specs


def spec_leaves(spec):
    """leaf shapes in canonical order"""
    k = spec[0]
    if k == "L":
        return [tuple(spec[1])]
    if k in ("T", "S"):
        return [s for c in spec[1] for s in spec_leaves(c)]
    if k == "D":
        return [s for _key, c in sorted(spec[1], key=lambda kv: kv[0]) for s in spec_leaves(c)]
    if k == "N":
        return [s for _f, c in spec[2] for s in spec_leaves(c)]
    raise ValueError(k)


def spec_size(spec):
    return int(sum(int(np.prod(s)) if len(s) else 1 for s in spec_leaves(spec)))


def spec_max_rank(spec):
    return max(len(s) for s in spec_leaves(spec))


def spec_kinds(spec):
    k = spec[0]
    if k == "L":
        return {"rank%d" % len(spec[1])}
    if k in ("T", "S"):
        out = {"tuple" if k == "T" else "list"}
        for c in spec[1]:
            out |= spec_kinds(c)
        return out
    if k == "D":
        out = {"dict"}
        for _key, c in spec[1]:
            out |= spec_kinds(c)
        return out
    out = {"namedtuple"}
    for _f, c in spec[2]:
        out |= spec_kinds(c)
    return out


def build(spec, leaf_fn):
    """Instantiate a spec; `leaf_fn(shape, offset)` returns the array of a leaf whose first element has
    canonical offset `offset`.  Dict entries are *inserted* in the order of the spec (not sorted)."""
    offsets = {}

    def assign(sp, off):
        k = sp[0]
        if k == "L":
            offsets[id(sp)] = off
            return off + (int(np.prod(sp[1])) if len(sp[1]) else 1)
        if k in ("T", "S"):
            for c in sp[1]:
                off = assign(c, off)
            return off
        if k == "D":
            for _key, c in sorted(sp[1], key=lambda kv: kv[0]):
                off = assign(c, off)
            return off
        for _f, c in sp[2]:
            off = assign(c, off)
        return off

    assign(spec, 0)

    def mk(sp):
        k = sp[0]
        if k == "L":
            return leaf_fn(tuple(sp[1]), offsets[id(sp)])
        if k == "T":
            return tuple(mk(c) for c in sp[1])
        if k == "S":
            return [mk(c) for c in sp[1]]
        if k == "D":
            return {key: mk(c) for key, c in sp[1]}
        cls = _nt(sp[1], [f for f, _ in sp[2]])
        return cls(*[mk(c) for _f, c in sp[2]])

    return mk(spec)


def to_tree(spec, y, xp):
    """flat vector (canonical order) -> pytree"""
    return build(spec, lambda shape, off: xp.reshape(y[off : off + (int(np.prod(shape)) if len(shape) else 1)], shape))


def leaves_canonical(obj):
    """own traversal of a Python pytree object (no jax.tree_util): list of array leaves"""
    if isinstance(obj, dict):
        out = []
        for key in sorted(obj.keys()):
            out += leaves_canonical(obj[key])
        return out
    if isinstance(obj, tuple) and hasattr(obj, "_fields"):
        out = []
        for f in obj._fields:
            out += leaves_canonical(getattr(obj, f))
        return out
    if isinstance(obj, (tuple, list)):
        out = []
        for c in obj:
            out += leaves_canonical(c)
        return out
    return [obj]


def from_tree(obj, xp):
    return xp.concatenate([xp.reshape(x, (-1,)) for x in leaves_canonical(obj)])


def same_container_types(a, b):
    """structural equality of two pytree objects: container types, keys / fields, recursively (leaves ignored)"""
    if isinstance(a, dict):
        return isinstance(b, dict) and sorted(a.keys()) == sorted(b.keys()) and all(same_container_types(a[k], b[k]) for k in a)
    if isinstance(a, tuple) and hasattr(a, "_fields"):
        return type(a) is type(b) and all(same_container_types(x, y) for x, y in zip(a, b))
    if isinstance(a, (tuple, list)):
        return type(a) is type(b) and len(a) == len(b) and all(same_container_types(x, y) for x, y in zip(a, b))
    return not isinstance(b, (dict, tuple, list))


def rowmajor(arr):
    """row-major entries of an array by explicit index iteration"""
    arr = np.asarray(arr)
    return [arr[idx] for idx in np.ndindex(*arr.shape)]


def encode(obj, fmt=lambda x: str(int(x)), sort_dicts=False):
    """token list of a Python pytree object in the driver's format"""
    if isinstance(obj, dict):
        keys = sorted(obj.keys()) if sort_dicts else list(obj.keys())
        toks = ["N", "1", str(len(keys))]
        for key in keys:
            toks += [str(key)] + encode(obj[key], fmt, sort_dicts)
        return toks
    if isinstance(obj, tuple) and hasattr(obj, "_fields"):
        toks = ["N", "2", str(len(obj._fields))]
        for f in obj._fields:
            toks += [f] + encode(getattr(obj, f), fmt, sort_dicts)
        return toks
    if isinstance(obj, (tuple, list)):
        toks = ["N", "0", str(len(obj))]
        for i, c in enumerate(obj):
            toks += [str(i)] + encode(c, fmt, sort_dicts)
        return toks
    arr = np.asarray(obj)
    data = rowmajor(arr)
    return ["L", str(arr.ndim)] + [str(s) for s in arr.shape] + [str(len(data))] + [fmt(x) for x in data]


_KEYS = ["a", "b", "k", "u", "z", "U", "Z", "aa", "ab", "x1", "x10", "x2", "_p", "prey", "predators"]
_SHAPES = {
    1: [(), (1,), (1, 1), (1, 1, 1)],
    2: [(2,), (1, 2), (2, 1), (2, 1, 1), (1, 1, 2), (1, 2, 1)],
    3: [(3,), (3, 1), (1, 3), (1, 3, 1)],
    4: [(4,), (2, 2), (2, 1, 2), (1, 4), (2, 2, 1)],
    6: [(6,), (2, 3), (3, 2), (1, 2, 3), (3, 1, 2)],
}


def random_spec(rng, d, force=None):
    """random nested spec with `d` scalars in total; leaves of rank 0..3"""
    if force is None and d in _SHAPES and rng.random() < 0.15:
        return ("L", _SHAPES[d][int(rng.integers(len(_SHAPES[d])))])  # a bare array as the state
    sizes = []
    left = d
    while left > 0:
        opts = [s for s in _SHAPES if s <= left]
        s = int(opts[int(rng.integers(len(opts)))])
        if rng.random() < 0.5:
            s = 1
        sizes.append(s)
        left -= s
    leaves = [("L", _SHAPES[s][int(rng.integers(len(_SHAPES[s])))]) for s in sizes]
    rng.shuffle(leaves)
    nodes = list(leaves)

    def wrap(children):
        kind = ["T", "S", "D", "N"][int(rng.integers(4))] if force is None else force
        if kind in ("T", "S"):
            return (kind, children)
        keys = [str(k) for k in rng.choice(_KEYS, size=len(children), replace=False)]
        if kind == "D":
            return ("D", list(zip(keys, children)))
        fields = [("f_" + k.strip("_")) for k in keys]
        return ("N", "NT" + "".join(f[2] for f in fields), list(zip(fields, children)))

    # group bottom-up into 1..3 levels
    while len(nodes) > 1:
        m = int(rng.integers(1, min(3, len(nodes)) + 1))
        grp, nodes = nodes[:m], nodes[m:]
        nodes.append(wrap(grp))
        rng.shuffle(nodes)
    root = nodes[0]
    if root[0] == "L" or rng.random() < 0.5:
        root = wrap([root])
    return root


CRAZY = ("D", [("U", ("N", "PredPrey", [("predators", ("L", (1, 1, 1))), ("prey", ("L", ()))]))])  # backend/ode.py


# ------------------------------------------------------------------------------------------------
# problems: quadratic fields with run-time coefficients


@dataclasses.dataclass
class Problem:
    d: int
    u0: np.ndarray  # (d,)
    c: np.ndarray  # (d,)
    L: np.ndarray  # (d,d)
    Q: np.ndarray  # (d,d,d)
    g: np.ndarray  # (d,)
    lam: np.ndarray  # (d,) base output scales (dense / block-diagonal); isotropic uses lam[0]
    ctl: np.ndarray = dataclasses.field(default_factory=lambda: np.array([1.0, 1.0, 0.05]))
    # ctl = (factor on the tolerances, factor on the time grid, dt0): run-time arguments so that batches can
    # differ in them as well

    def theta(self):
        return (self.u0, self.c, self.L, self.Q, self.g, self.lam, self.ctl)

    def permuted(self, perm):
        """the problem whose component a is component perm[a] of this one"""
        p = np.asarray(perm)
        return Problem(self.d, self.u0[p], self.c[p], self.L[np.ix_(p, p)], self.Q[np.ix_(p, p, p)], self.g[p], self.lam[p], self.ctl)

    def with_u0(self, u0):
        return Problem(self.d, u0, self.c, self.L, self.Q, self.g, self.lam, self.ctl)

    def describe(self):
        return {k: np.asarray(getattr(self, k)).tolist() for k in ("u0", "c", "L", "Q", "g", "lam", "ctl")}


def field(y, t, c, L, Q, g, xp):
    return c + L @ y + xp.einsum("abc,b,c->a", Q, y, y) + g * t


def random_problem(rng, d, stiff=1.0, equal_scales=False):
    """dyadic coefficients; dissipative linear part (-k_a on the diagonal, k_a in [0.5, 2]*stiff for the last
    component only), small couplings: solutions stay O(1) on [0, 1]"""
    u0 = rng.integers(4, 17, size=d) / 8.0
    c = rng.integers(-4, 5, size=d) / 8.0
    L = rng.integers(-4, 5, size=(d, d)) / 16.0
    kdiag = rng.integers(4, 17, size=d) / 8.0
    kdiag[-1] *= stiff
    L[np.diag_indices(d)] = -kdiag
    Q = np.zeros((d, d, d))
    for _ in range(d):
        a, b, e = rng.integers(d, size=3)
        Q[a, b, e] = rng.integers(-2, 3) / 16.0
    g = rng.integers(-2, 3, size=d) / 8.0
    lam = np.ones(d) if equal_scales else 2.0 ** rng.integers(-1, 2, size=d)
    return Problem(d, u0.astype(float), c.astype(float), L.astype(float), Q, g.astype(float), lam.astype(float))


# ------------------------------------------------------------------------------------------------
# solves


@dataclasses.dataclass(frozen=True)
class Cfg:
    fact: str  # dense | iso | bd
    strategy: str  # filter | fixedinterval | fixedpoint
    mode: str  # fixed | adaptive
    lin: str = "ts0"
    calib: str = "mle"  # solver | mle | dynamic
    q: int = 2
    ngrid: int = 5
    tol: float = 1e-3
    t1: float = 1.0
    container: str = "list"  # list | tuple | namedtuple  (Taylor-coefficient container)
    est: str = "residual"  # residual | state | state1  (error estimator of the adaptive runs; state1: derivative_idx = 1, per unit step)

    def key(self):
        return f"{self.fact}-{self.strategy}-{self.mode}-{self.lin}-{self.calib}-q{self.q}" + ("" if self.est == "residual" else f"-{self.est}")


class Taylor3(collections.namedtuple("Taylor3", ["state", "velocity", "acceleration"])):
    pass


class Taylor4(collections.namedtuple("Taylor4", ["state", "velocity", "acceleration", "jerk"])):
    pass


def wrap_container(cfg, coeffs):
    if cfg.container == "tuple":
        return tuple(coeffs)
    if cfg.container == "namedtuple":
        cls = {3: Taylor3, 4: Taylor4}[len(coeffs)]
        return cls(*coeffs)
    return list(coeffs)


def make_solve(cfg: Cfg, spec=None):
    """Returns solve(u0, c, L, Q, g, lam, ctl) -> ProbabilisticSolution, with the state either flat (spec None) or
    structured according to `spec` (the vector field then maps pytrees to pytrees).  Everything numeric is a
    run-time argument, so one compilation serves all permutations / batch members."""
    import jax.numpy as jnp
    from probdiffeq import ivpsolve
    from probdiffeq import probdiffeq as pdq

    ssm = {"dense": pdq.state_space_model_dense, "iso": pdq.state_space_model_isotropic, "bd": pdq.state_space_model_blockdiag}[cfg.fact]()
    strategy = {"filter": pdq.strategy_filter, "fixedinterval": pdq.strategy_smoother_fixedinterval, "fixedpoint": pdq.strategy_smoother_fixedpoint}[cfg.strategy]()
    grid = np.linspace(0.0, cfg.t1, cfg.ngrid)

    def solve(u0, c, L, Q, g, lam, ctl):
        if spec is None:

            def vf(y, /, *, t):
                return field(y, t, c, L, Q, g, jnp)

            init = u0
            scale = lam
        else:

            def vf(x, /, *, t):
                return to_tree(spec, field(from_tree(x, jnp), t, c, L, Q, g, jnp), jnp)

            init = to_tree(spec, u0, jnp)
            scale = to_tree(spec, lam, jnp)
        ode = pdq.ode(vf, jacobian=pdq.jacobian_materialize())
        tcoeffs, _ = pdq.jetexpand_ode_padded_scan(num=cfg.q)(ode, (init,), t=jnp.asarray(0.0))
        tcoeffs = wrap_container(cfg, tcoeffs)
        if cfg.fact == "iso":
            prior = ssm.prior_wiener_integrated(tcoeffs, output_scale=lam[0])
        else:
            prior = ssm.prior_wiener_integrated(tcoeffs, output_scale=scale)
        constraint = ssm.constraint_ode_ts0(ode) if cfg.lin == "ts0" else ssm.constraint_ode_ts1(ode)
        solver = {"solver": pdq.solver, "mle": pdq.solver_mle, "dynamic": pdq.solver_dynamic}[cfg.calib](strategy=strategy, constraint=constraint)
        if cfg.mode == "fixed":
            return ivpsolve.solve_fixed_grid(solver=solver)(prior, grid=jnp.asarray(grid) * ctl[1])
        if cfg.est == "residual":
            error = pdq.error_residual_std(constraint=constraint)
        elif cfg.est == "state":
            error = pdq.error_state_std(constraint=constraint)
        else:
            error = pdq.error_state_std(constraint=constraint, derivative_idx=1, error_per_unit_step=True)
        sol = ivpsolve.solve_adaptive_save_at(solver=solver, error=error)
        return sol(prior, save_at=jnp.asarray(grid) * ctl[1], atol=cfg.tol * 1e-1 * ctl[0], rtol=cfg.tol * ctl[0], dt0=ctl[2])

    return solve, grid


def observe(cfg, sol, spec=None):
    """numpy view of the observable part of a solution: dict name -> array with leading time axis; means / stds as
    (T, n, d) arrays in canonical component order (own traversal).  If the leading axes of the parts are
    inconsistent the dict has the single key "error"."""
    t = np.asarray(sol.t)
    mean, std = sol.u.mean, sol.u.std
    try:
        lead = {int(np.shape(x)[0]) for x in leaves_canonical(mean)} | {int(np.shape(x)[0]) for x in leaves_canonical(std)}
        if t.ndim != 1 or lead != {int(t.shape[0])}:
            return {"error": f"leading axes: t {t.shape}, leaves of u.mean / u.std {sorted(lead)}"}
        nt = t.shape[0]
        means = np.stack([_flat_time(m, nt) for m in mean], axis=1)
        if cfg.fact == "iso":
            stds = np.stack([np.asarray(s).reshape(nt, 1) for s in std], axis=1)
        else:
            stds = np.stack([_flat_time(s, nt) for s in std], axis=1)
    except (ValueError, IndexError, TypeError) as e:
        return {"error": f"{type(e).__name__}: {e}"}
    return {"t": t, "mean": means, "std": stds, "num_steps": np.asarray(sol.num_steps), "output_scale": np.asarray(sol.output_scale)}


def _flat_time(obj, nt):
    return np.concatenate([np.asarray(x).reshape(nt, -1) for x in leaves_canonical(obj)], axis=1)


def all_perms(d):
    return list(itertools.permutations(range(d)))
