"""C06 — Adaptive step control is safe for every accept/reject history.

Correspondence: the *real* ``solve_adaptive_save_at``, ``solve_adaptive_terminal_values``,
``test_util.solve_adaptive_save_every_step`` (which drives the real ``RejectionLoop`` from Python), the real
``RejectionLoop.init`` / ``.loop`` driven directly with arbitrary (unsorted, repeated) targets, and the real
``control_integral`` / ``control_proportional_integral`` are run in-process with *scripted* protocol objects:

* ``ScriptedSolver`` — state ``(t, num_steps, tag)``; ``step`` adds ``dt`` / 1 and rehashes the payload id ``tag``;
  the two interpolations return the times documented in ``solvers.py`` and tags that depend on *which* states
  were passed as ``interp_from`` / ``interp_to`` (so a swapped or stale argument changes the trace),
* ``ScriptedError`` — ``error_power`` is a function of ``(previous.t, dt)``: a finite table (exact match) over a
  piecewise-constant profile ``t -> (h, acc, rej)`` (``acc`` if ``dt <= h`` else ``rej``); the script travels
  through the ``atol`` argument, so one compiled program serves all scripts,
* ``RecordingControl`` — delegates to the real controller.

Every protocol call is reported through ``jax.debug.callback(..., ordered=True)``.  The same script goes to the
Lean model (``Pdq.Model.Adaptive`` executed by ``pdqdrv``; the acceptance seed comes from the generated constants),
whose trace is expanded into the expected sequence of protocol calls and compared call by call.

*Exact runs*: all numbers are dyadic with few mantissa bits; the check verifies on the model's (exact, rational)
trace that every intermediate value is a float64, hence every float operation of the implementation is exact and
the traces must be **identical**.  *Tolerant runs* (shipped defaults, real PI exponents): discrete events must be
identical, step sizes / times agree to 1e-11 (observed <= 6e-14); scripts with a decision closer than 1e-9 to a tie are skipped and
counted.

Independently of the model, eight invariant monitors (the clauses of the property) run over the implementation's
call trace; a trace that differs from the model but passes all monitors is reported as ``model-mismatch:*``
(no failing input for the property itself), a monitor failure as ``monitor:*``.
"""

from __future__ import annotations

import ast
import inspect
import itertools
import math
import logging
import signal
import sys
from fractions import Fraction
from typing import Any, NamedTuple

import numpy as np

from harness import core, gen
from harness.core import F

sys.set_int_max_str_digits(0)  # exact rational traces of long tolerant runs have thousands of digits
logging.getLogger("jax._src.debugging").setLevel(logging.CRITICAL)  # the stall detector raises inside a callback on purpose

PROPS_MODULES = ["Pdq.Props.C06", "Pdq.Props.C06Real", "Pdq.Props.C06Term"]
LEVEL = "proof"
EXPLANATION = (
    "Theorems (Pdq/Props/C06.lean) hold for every fuel, script, ordered field; the correspondence replays scripted "
    "solver/estimator/controller runs of the real time-stepping code against the executable model, call by call."
)

NB, NT = 4, 10  # padded sizes of the script arrays (breakpoints, table rows)
CAP = 600  # safety net: the scripted solver jumps far ahead after CAP accepted steps (never reached in a compared run)
FUEL_A, FUEL_R = 700, 80
TOL = 1e-11  # relative; largest deviation observed on the clean tree (thorough, 2000 tolerant runs): 5.8e-14
TIE = 1e-9
STALL_SIG = "every_step:stall-within-eps-before-t1"

REC: list = []
_STALL = {"on": False, "last": None, "n": 0, "hit": False}
_GUARD = {"limit": 10**9, "hit": False}  # watchdog: abort a run that makes far more protocol calls than the model predicts


class StallDetected(Exception):
    pass


class RunawayDetected(Exception):
    pass


# ------------------------------------------------------------------------------------------------
# scripted protocol objects (JAX side)

import jax  # noqa: E402
import jax.numpy as jnp  # noqa: E402


class State(NamedTuple):
    t: Any
    num_steps: Any
    tag: Any


class InterpRes(NamedTuple):
    step_from: Any
    interp_from: Any


def _recorder(kind):
    def f(*a):
        vals = tuple(x.item() for x in a)
        REC.append((kind,) + vals)
        if len(REC) > _GUARD["limit"]:
            _GUARD["hit"] = True
            raise RunawayDetected("far more protocol calls than the model predicts")
        if kind == "at1" and _STALL["on"]:
            key = vals[4]  # interp_to.t
            if _STALL["last"] == key:
                _STALL["n"] += 1
            else:
                _STALL["last"], _STALL["n"] = key, 1
            if _STALL["n"] > 12:
                _STALL["hit"] = True
                raise StallDetected("interpolate_fwd_at_t1 called >12 times in a row for the same state")

    return f


_RECS = {k: _recorder(k) for k in ("step", "est", "ctl", "fwd", "at1")}


def cb(kind, *a):
    jax.debug.callback(_RECS[kind], *a, ordered=True)


class ScriptedSolver:
    is_suitable_for_save_at = True
    is_suitable_for_save_every_step = True

    def init(self, t, u, *, damp):
        del damp
        return State(jnp.asarray(t, dtype=jnp.float64), jnp.zeros((), dtype=jnp.int64), jnp.asarray(u, dtype=jnp.int64))

    def step(self, state, *, dt, damp):
        del damp
        jump = jnp.where(state.num_steps >= CAP, 2.0**30, 0.0)
        new = State(state.t + dt + jump, state.num_steps + 1, (3 * state.tag + 1) % 1009)
        cb("step", *state, dt, *new)
        return new

    @staticmethod
    def _h(a, b, k):
        return (3 * b.tag + 5 * a.tag + k) % 1009

    def interpolate_fwd(self, *, t, interp_from, interp_to):
        a, b = interp_from, interp_to
        t = jnp.asarray(t, dtype=jnp.float64)
        cb("fwd", t, *a, *b)
        sol = State(t, b.num_steps, self._h(a, b, 2))
        return sol, InterpRes(State(b.t, b.num_steps, self._h(a, b, 3)), State(t, a.num_steps, self._h(a, b, 4)))

    def interpolate_fwd_at_t1(self, *, t, interp_from, interp_to):
        a, b = interp_from, interp_to
        t = jnp.asarray(t, dtype=jnp.float64)
        cb("at1", t, *a, *b)
        sol = State(b.t, b.num_steps, self._h(a, b, 5))
        return sol, InterpRes(State(b.t, b.num_steps, self._h(a, b, 6)), State(b.t, a.num_steps, self._h(a, b, 7)))

    def userfriendly_output(self, *, solution0, solution, solution1):
        stacked = jax.tree.map(lambda s0, s: jnp.concatenate([s0[None], s]), solution0, solution)
        return {"sol": stacked, "s1": jax.tree.map(lambda s: s[None], solution1)}


class ScriptedError:
    def init_error(self):
        return jnp.zeros((), dtype=jnp.int64)

    def estimate_error_norm(self, es, *, previous, proposed, dt, atol, rtol, damp):
        del rtol, damp
        s = atol
        idx = jnp.sum(s["bps"] <= previous.t)
        ep = jnp.where(dt <= s["hs"][idx], s["accs"][idx], s["rejs"][idx])
        match = (s["tab_t"] == previous.t) & (s["tab_dt"] == dt)
        ep = jnp.where(jnp.any(match), s["tab_ep"][jnp.argmax(match)], ep)
        new = (7 * es + proposed.tag + 1) % 1013
        cb("est", es, *previous, *proposed, dt, ep, new)
        return ep, new


def _controllers():
    from probdiffeq._ivpsolve import controllers

    return controllers


class RecordingControl:
    """Delegates to the real controller; reports (dt, state_in, error_power, dt_new, state_out)."""

    def __init__(self, inner, kind):
        self.inner, self.kind = inner, kind

    def init(self, dt, /):
        return self.inner.init(dt)

    def apply(self, dt, state, /, *, error_power):
        dt_new, st = self.inner.apply(dt, state, error_power=error_power)
        if self.kind == "I":
            cb("ctl", dt, jnp.zeros(()), error_power, dt_new, jnp.zeros(()))
        else:
            cb("ctl", dt, state, error_power, dt_new, st)
        return dt_new, st


def make_control(kind, params, defaults=False):
    C = _controllers()
    if defaults:
        inner = C.control_integral() if kind == "I" else C.control_proportional_integral()
    elif kind == "I":
        inner = C.control_integral(safety=params[0], factor_min=params[1], factor_max=params[2])
    else:
        inner = C.control_proportional_integral(
            safety=params[0], factor_min=params[1], factor_max=params[2], exponent_integral=params[3], exponent_proportional=params[4]
        )
    return RecordingControl(inner, kind)


SOLVER, ERROR = ScriptedSolver(), ScriptedError()
_JIT: dict = {}


def _solve_fn(mode, kind, clip, defaults):
    """python callable (params, u, save_at, script, dt0, eps) -> userfriendly output, using the REAL solve functions"""
    from probdiffeq._ivpsolve import solvers_via_adaptive_steps as sas

    def f(params, u, save_at, script, dt0, eps):
        control = make_control(kind, params, defaults)
        if mode == "save_at":
            solve = sas.solve_adaptive_save_at(solver=SOLVER, error=ERROR, control=control, clip_dt=clip, warn=False)
            return solve(u, save_at=save_at, atol=script, rtol=0.0, dt0=dt0, eps=eps, damp=0.0)
        solve = sas.solve_adaptive_terminal_values(solver=SOLVER, error=ERROR, control=control, clip_dt=clip)
        return solve(u, t0=save_at[0], t1=save_at[1], atol=script, rtol=0.0, dt0=dt0, eps=eps, damp=0.0)

    return f


def script_arrays(case):
    bps = list(case["bps"]) + [np.inf] * (NB - len(case["bps"]))
    pad = NB + 1 - len(case["hs"])
    tab = case.get("table", [])
    if len(case["bps"]) > NB or len(tab) > NT:
        raise core.HarnessError("script too large for the padded arrays")
    tpad = NT - len(tab)
    return {
        "bps": jnp.asarray(bps, dtype=jnp.float64),
        "hs": jnp.asarray(list(case["hs"]) + [1.0] * pad, dtype=jnp.float64),
        "accs": jnp.asarray(list(case["accs"]) + [2.0] * pad, dtype=jnp.float64),
        "rejs": jnp.asarray(list(case["rejs"]) + [0.5] * pad, dtype=jnp.float64),
        "tab_t": jnp.asarray([r[0] for r in tab] + [np.nan] * tpad, dtype=jnp.float64),
        "tab_dt": jnp.asarray([r[1] for r in tab] + [np.nan] * tpad, dtype=jnp.float64),
        "tab_ep": jnp.asarray([r[2] for r in tab] + [2.0] * tpad, dtype=jnp.float64),
    }


class ImplResult(NamedTuple):
    calls: list
    sol: list  # [(t, n, tag)] including solution0 at index 0
    s1: tuple
    stalled: bool
    runaway: bool = False
    final: Any = None  # loop_seq only: (dt, interp_from, error state, controller state) of the last TimeStepState


def impl_run(case, limit=10**9) -> ImplResult:
    """Run the real code on the script; returns the recorded protocol calls and the outputs.

    `limit`: watchdog on the number of protocol calls (a callback raises, which aborts the XLA computation)."""
    _GUARD.update(limit=limit, hit=False)
    try:
        return _impl_run(case)
    except Exception:  # noqa: BLE001
        if not _GUARD["hit"]:
            raise
        try:
            jax.effects_barrier()
        except Exception:  # noqa: BLE001
            pass
        return ImplResult(list(REC), [], (), False, True)
    finally:
        _GUARD.update(limit=10**9)


def _impl_run(case) -> ImplResult:
    mode, kind, clip, defaults = case["mode"], case["ctl"], bool(case["clip"]), bool(case.get("defaults", False))
    params = jnp.asarray([case["safety"], case["fmin"], case["fmax"], case["expI"], case["expP"]], dtype=jnp.float64)
    u = jnp.asarray(case["u"], dtype=jnp.int64)
    save = jnp.asarray(case["save"], dtype=jnp.float64)
    script = script_arrays(case)
    dt0, eps = float(case["dt0"]), float(case["eps"])
    REC.clear()
    _STALL.update(on=False, last=None, n=0, hit=False)
    how = case.get("run", "jit")
    stalled = False
    if mode in ("save_at", "terminal"):
        f = _solve_fn(mode, kind, clip, defaults)
        if how == "jit":
            key = (mode, kind, clip, defaults, len(case["save"]))
            if key not in _JIT:
                _JIT[key] = jax.jit(f)
            out = _JIT[key](params, u, save, script, dt0, eps)
        elif how == "bare":
            # the way a user calls it: python-float controller parameters, no outer jit
            pf = [float(x) for x in params]
            out = f(pf, u, save, script, dt0, eps)
        elif how == "nojit":
            with jax.disable_jit():
                out = f([float(x) for x in params], u, save, script, dt0, eps)
        else:
            raise core.HarnessError(f"unknown run kind {how}")
    elif mode == "every_step":
        from probdiffeq.util import test_util

        key = ("every_step", kind, clip, defaults, tuple(float(x) for x in params))
        if key not in _JIT:
            ctl = make_control(kind, [float(x) for x in params], defaults)
            _JIT[key] = test_util.solve_adaptive_save_every_step(SOLVER, ERROR, ctl, clip_dt=clip)
        _STALL["on"] = True

        def _alarm(signum, frame):
            # the python `while` of save_every_step can spin without making any protocol call
            _GUARD["hit"] = True
            raise RunawayDetected("solve_adaptive_save_every_step did not return within 30 s")

        old_handler = signal.signal(signal.SIGALRM, _alarm)
        signal.setitimer(signal.ITIMER_REAL, 30.0)
        try:
            out = _JIT[key](u, save[0], save[1], atol=script, rtol=0.0, dt0=dt0, eps=eps)
            jax.block_until_ready(out)
            jax.effects_barrier()
        except Exception:  # noqa: BLE001  (the callback's exception arrives wrapped in a runtime error)
            if not _STALL["hit"] or _GUARD["hit"]:
                raise
            stalled = True
            out = None
            try:
                jax.effects_barrier()
            except Exception:  # noqa: BLE001
                pass
        finally:
            signal.setitimer(signal.ITIMER_REAL, 0.0)
            signal.signal(signal.SIGALRM, old_handler)
            _STALL["on"] = False
    elif mode == "loop_seq":
        # the real RejectionLoop driven directly: init, then one `loop` call per (arbitrary) target
        from probdiffeq._ivpsolve import solvers_via_adaptive_steps as sas
        from probdiffeq.backend import flow

        # values do not depend on whether the step size is excluded from differentiation: both settings of the (public)
        # flag must give the model's trace (seeded change C06-s7: clipping moved under `if self.stop_gradient_through_dt`)
        sg = bool(len(case["save"]) % 2)
        key = ("loop_seq", kind, clip, defaults, tuple(float(x) for x in params), sg)
        if key not in _JIT:
            ctl = make_control(kind, [float(x) for x in params], defaults)
            rl = sas.RejectionLoop(solver=SOLVER, clip_dt=clip, error=ERROR, control=ctl, while_loop=flow.while_loop, stop_gradient_through_dt=sg)
            _JIT[key] = (rl, jax.jit(lambda st, t1, sc, e: rl.loop(st, t1=t1, atol=sc, rtol=0.0, eps=e, damp=0.0)))
        rl, jl = _JIT[key]
        sol0 = SOLVER.init(save[0], u, damp=0.0)
        st = rl.init(sol0, dt=jnp.asarray(dt0, dtype=jnp.float64))
        if kind == "PI":
            st = sas.TimeStepState(dt=st.dt, step_from=st.step_from, interp_from=st.interp_from,
                                   control=jnp.asarray(st.control, dtype=jnp.float64), error_step_from=st.error_step_from)
        sols = [sol0]
        for t1 in case["save"][1:]:
            if how == "nojit":
                with jax.disable_jit():
                    sol, st = rl.loop(st, t1=jnp.asarray(t1), atol=script, rtol=0.0, eps=eps, damp=0.0)
            else:
                sol, st = jl(st, jnp.asarray(t1, dtype=jnp.float64), script, eps)
            sols.append(sol)
        jax.block_until_ready(st)
        jax.effects_barrier()
        tup = lambda x: (float(x.t), int(x.num_steps), int(x.tag))  # noqa: E731
        fin = {"dt": float(st.dt), "interpFrom": tup(st.interp_from), "es": int(st.error_step_from),
               "ctl": float(st.control) if kind == "PI" else 0.0}
        return ImplResult(list(REC), [tup(x) for x in sols], tup(st.step_from), False, False, fin)
    else:
        raise core.HarnessError(f"unknown mode {mode}")
    if out is not None:
        jax.block_until_ready(out)
    jax.effects_barrier()
    calls = list(REC)
    if out is None:
        return ImplResult(calls, [], (), True)
    if mode == "terminal":
        sol = [(float(out["sol"].t), int(out["sol"].num_steps), int(out["sol"].tag))]
        s1 = (float(out["s1"].t), int(out["s1"].num_steps), int(out["s1"].tag))
    else:
        ts, ns, gs = np.asarray(out["sol"].t), np.asarray(out["sol"].num_steps), np.asarray(out["sol"].tag)
        sol = [(float(a), int(b), int(c)) for a, b, c in zip(ts, ns, gs)]
        s1 = (float(out["s1"].t[0]), int(out["s1"].num_steps[0]), int(out["s1"].tag[0]))
    return ImplResult(calls, sol, s1, stalled)


# ------------------------------------------------------------------------------------------------
# model side


class ModelResult(NamedTuple):
    events: list  # dicts with key 'k' in A/I/O
    s0: tuple
    ys: list
    final: dict
    acc_count: int
    acc_sum: Fraction


def pw_table_for(case):
    """float64 powers needed by a PI controller with real exponents: every (x, e) the run can ask for."""
    vals = sorted(set(float(v) for v in list(case["accs"]) + list(case["rejs"]) + [r[2] for r in case.get("table", [])]))
    mems = sorted({1.0} | {v for v in vals if v >= 1.0})
    rows = []
    for e in (case["expI"],):
        for x in vals:
            rows.append((x, e, float(np.float64(x) ** np.float64(e))))
    for e in (case["expP"],):
        for x in vals:
            for m in mems:
                q = float(np.float64(x) / np.float64(m))
                rows.append((q, e, float(np.float64(q) ** np.float64(e))))
    out, seen = [], set()
    for r in rows:
        if (r[0], r[1]) not in seen:
            seen.add((r[0], r[1]))
            out.append(r)
    return out


_EVERY_STEP_EPS = None


def every_step_with_eps() -> bool:
    """Which loop condition does the current `solve_adaptive_save_every_step` use?  (read from its source)

    False: the shipped `while state.step_from.t < t1`; True: a condition that involves `eps`
    (the proposed repair `while state.step_from.t + eps < t1`).  The model has both (`everyStepCond`)."""
    global _EVERY_STEP_EPS
    if _EVERY_STEP_EPS is None:
        from probdiffeq.util import test_util

        tree = ast.parse(inspect.getsource(test_util.solve_adaptive_save_every_step))
        tests = [ast.unparse(n.test) for n in ast.walk(tree) if isinstance(n, ast.While)]
        if len(tests) != 1:
            raise core.HarnessError(f"solve_adaptive_save_every_step: expected one while loop, found {tests}")
        _EVERY_STEP_EPS = "eps" in tests[0]
    return _EVERY_STEP_EPS


def model_run(ctx, case) -> ModelResult | None:
    mode = {"save_at": 0, "terminal": 1, "every_step": 3 if every_step_with_eps() else 2, "loop_seq": 4}[case["mode"]]
    kind = 0 if case["ctl"] == "I" else 1
    pw_mode = int(case.get("pw_mode", 0))
    pw = pw_table_for(case) if (kind == 1 and pw_mode == 1) else []
    tab = case.get("table", [])
    args = [mode, kind, F(case["safety"]), F(case["fmin"]), F(case["fmax"]), F(case["expI"]), F(case["expP"]), pw_mode]
    args += [1 if case["clip"] else 0, 0, F(case["dt0"]), F(case["eps"]), FUEL_A, FUEL_R, int(case["u"])]
    args += [len(case["save"])] + [F(x) for x in case["save"]]
    args += [len(case["bps"])] + [F(x) for x in case["bps"]]
    args += [F(x) for x in case["hs"]] + [F(x) for x in case["accs"]] + [F(x) for x in case["rejs"]]
    args += [len(tab)] + [F(x) for r in tab for x in r]
    args += [len(pw)] + [F(x) for r in pw for x in r]
    toks = ctx.drv.call_raw("c06_run", *args)
    if toks == ["FUEL"]:
        return None
    it = iter(toks)

    def fr():
        return Fraction(next(it))

    def sol():
        return (Fraction(next(it)), int(next(it)), int(next(it)))

    events, ys, s0, final, n = [], [], None, None, None
    for k in it:
        if k == "A":
            ev = {"k": "A", "t1": fr(), "src": sol(), "dt": fr(), "prop": sol(), "ep": fr(), "dtNew": fr()}
            ev["esIn"], ev["esOut"] = int(next(it)), int(next(it))
            ev["cIn"], ev["cOut"] = fr(), fr()
            events.append(ev)
        elif k == "I":
            events.append({"k": "I", "b": int(next(it)), "t1": fr(), "from": sol(), "to": sol()})
        elif k == "O":
            events.append({"k": "O", "t1": fr(), "s": sol()})
        elif k == "S0":
            s0 = sol()
        elif k == "Y":
            ys.append(sol())
        elif k == "F":
            final = {"dt": fr(), "stepFrom": sol(), "interpFrom": sol(), "es": int(next(it)), "ctl": fr()}
        elif k == "N":
            n = (int(next(it)), fr())
        else:
            raise core.HarnessError(f"unexpected token {k!r} in driver answer")
    if s0 is None or final is None or n is None:
        raise core.HarnessError("incomplete driver answer")
    return ModelResult(events, s0, ys, final, n[0], n[1])


def expected_calls(m: ModelResult):
    """The protocol calls the model's trace predicts, in order (values are exact Fractions / ints)."""
    out = []
    for ev in m.events:
        if ev["k"] == "A":
            out.append(("step", *ev["src"], ev["dt"], *ev["prop"]))
            out.append(("est", ev["esIn"], *ev["src"], *ev["prop"], ev["dt"], ev["ep"], ev["esOut"]))
            out.append(("ctl", ev["dt"], ev["cIn"], ev["ep"], ev["dtNew"], ev["cOut"]))
        elif ev["k"] == "I" and ev["b"] == 1:
            out.append(("fwd", ev["t1"], *ev["from"], *ev["to"]))
        elif ev["k"] == "I" and ev["b"] == 2:
            out.append(("at1", ev["t1"], *ev["from"], *ev["to"]))
    return out


def is_f64(q: Fraction) -> bool:
    try:
        return Fraction(float(q)) == q
    except OverflowError:
        return False


def exactness_ok(case, m: ModelResult) -> bool:
    """Every intermediate value of the float computation is a float64 (so the float run is exact)."""
    eps = F(case["eps"])
    vals = []
    for ev in m.events:
        if ev["k"] == "A":
            t, dt, ep = ev["src"][0], ev["dt"], ev["ep"]
            vals += [t, dt, ev["prop"][0], ev["dtNew"], t + eps, ev["prop"][0] + eps, ev["t1"] - t, ev["t1"] + eps]
            s, fmin, fmax = F(case["safety"]), F(case["fmin"]), F(case["fmax"])
            if case["ctl"] == "I":
                r = s * ep
                vals += [r]
            else:
                eI, eP = int(F(case["expI"])), int(F(case["expP"]))
                q = ep / ev["cIn"]
                gI, gP = ep**eI, q**eP
                r = s * gI * gP
                vals += [q, gI, gP, s * gI, r]
            vals += [max(fmin, min(r, fmax))]
    for c in case["save"]:
        vals += [F(c) + eps]
    return all(is_f64(v) for v in vals)


def near_tie(case, m: ModelResult) -> bool:
    """Tolerant runs: is some decision of the run within TIE of flipping?"""
    eps = F(case["eps"])

    def close(a, b):
        a, b = float(a), float(b)
        return abs(a - b) <= TIE * max(1.0, abs(a), abs(b))

    times = {m.s0[0]}
    for ev in m.events:
        if ev["k"] == "A":
            t, dt = ev["src"][0], ev["dt"]
            idx = sum(1 for b in case["bps"] if F(b) <= t)
            if close(dt, case["hs"][idx]):
                return True
            if any(close(t, b) for b in case["bps"]):
                return True
            times.add(ev["prop"][0])
    for T in times:
        for c in case["save"][1:]:
            if close(T + eps, c) or close(T, F(c) + eps) or (case["mode"] == "every_step" and close(T, c)):
                return True
    return False


# ------------------------------------------------------------------------------------------------
# comparison + monitors


def _cmp_val(exact, a, b):
    """a: implementation value (float/int), b: model value (Fraction/int). Returns (ok, deviation)."""
    if isinstance(b, int) and not isinstance(b, bool):
        return (int(a) == b), 0.0
    fa = float(a)
    if not np.isfinite(fa):
        return False, float("inf")
    if exact:
        return (Fraction(fa) == b), 0.0
    fb = float(b)
    dev = abs(fa - fb) / abs(fb) if fb != 0 else abs(fa)
    return dev <= TOL, dev


def compare(ctx, case, impl: ImplResult, m: ModelResult):
    """Returns None if identical (within policy), else a short description of the first difference."""
    exact = bool(case["exact"])
    exp = expected_calls(m)
    maxdev = 0.0
    for i, (a, b) in enumerate(itertools.zip_longest(impl.calls, exp)):
        if a is None:
            return f"call #{i}: implementation made no further call, model expects {_show(b)}"
        if b is None:
            return f"call #{i}: implementation made an extra call {_show(a)}"
        if a[0] != b[0] or len(a) != len(b):
            return f"call #{i}: implementation {_show(a)} vs model {_show(b)}"
        for x, y in zip(a[1:], b[1:]):
            ok, dev = _cmp_val(exact, x, y)
            maxdev = max(maxdev, dev)
            if not ok:
                return f"call #{i}: implementation {_show(a)} vs model {_show(b)}"
    # outputs
    want = [m.s0] + list(m.ys) if case["mode"] != "terminal" else list(m.ys)
    if len(impl.sol) != len(want):
        return f"outputs: implementation returned {len(impl.sol)} solutions, model {len(want)}"
    for k, (a, b) in enumerate(zip(impl.sol, want)):
        for x, y in zip(a, b):
            ok, dev = _cmp_val(exact, x, y)
            maxdev = max(maxdev, dev)
            if not ok:
                return f"output #{k}: implementation {a} vs model {_show(b)}"
    for x, y in zip(impl.s1, m.final["stepFrom"]):
        ok, dev = _cmp_val(exact, x, y)
        maxdev = max(maxdev, dev)
        if not ok:
            return f"solution1: implementation {impl.s1} vs model {_show(m.final['stepFrom'])}"
    if impl.final is not None:
        got = (impl.final["dt"], *impl.final["interpFrom"], impl.final["es"], impl.final["ctl"])
        want_f = (m.final["dt"], *m.final["interpFrom"], m.final["es"], m.final["ctl"])
        for x, y in zip(got, want_f):
            ok, dev = _cmp_val(exact, x, y)
            maxdev = max(maxdev, dev)
            if not ok:
                return f"final TimeStepState (dt, interp_from, error state, controller state): implementation {got} vs model {_show(want_f)}"
    if impl.s1[1] != m.acc_count + m.s0[1]:
        return "num_steps of solution1 differs from the model's count of accepted attempts"
    ctx.devs["trace_exact" if exact else "trace_tolerant"] = max(ctx.devs.get("trace_exact" if exact else "trace_tolerant", 0.0), maxdev)
    return None


def _show(x):
    return "(" + ", ".join(str(v) if not isinstance(v, Fraction) else (core.fs(v)) for v in x) + ")"


def monitors(case, impl: ImplResult):
    """The eight clauses of the property, checked on the implementation's own call trace (no model involved).

    Returns a list of (name, message)."""
    bad = []
    exact = bool(case["exact"])
    tol = 0.0 if exact else 1e-11
    eps = float(case["eps"])
    save = [float(x) for x in case["save"]]
    targets = save[1:]
    mode = case["mode"]
    calls = impl.calls
    # group into attempts
    attempts, order = [], []  # order: sequence of ('A', idx) / ('I', call)
    i = 0
    while i < len(calls):
        c = calls[i]
        if c[0] == "step":
            if i + 2 >= len(calls) and impl.runaway:
                break  # truncated by the watchdog in the middle of an attempt
            if i + 2 >= len(calls) or calls[i + 1][0] != "est" or calls[i + 2][0] != "ctl":
                bad.append(("protocol", f"step call #{i} is not followed by estimate_error_norm and control.apply"))
                break
            st, es, ct = calls[i], calls[i + 1], calls[i + 2]
            a = {
                "src": st[1:4], "dt": st[4], "prop": st[5:8], "es_in": es[1], "ep": es[9], "es_out": es[10],
                "ctl_dt": ct[1], "mem_in": ct[2], "ctl_ep": ct[3], "dt_new": ct[4], "mem_out": ct[5],
                "est_prev": es[2:5], "est_prop": es[5:8], "est_dt": es[8],
            }
            attempts.append(a)
            order.append(("A", a))
            i += 3
        elif c[0] in ("fwd", "at1"):
            order.append(("I", c))
            i += 1
        else:
            bad.append(("protocol", f"unexpected call {c} at #{i}"))
            i += 1
    if mode == "every_step":
        targets = [save[1]]
    if mode == "loop_seq":
        targets = []  # arbitrary targets, some loop calls end in branch 0: the checkpoint clauses do not apply
    # walk
    n_interp = 0  # number of interpolation calls = index of the checkpoint being worked on (save_at)
    cur_src, cur_es, acc = None, None, 0
    prev = None  # previous attempt
    last_acc = None  # last accepted attempt (for interp_from checks)
    interp_since_acc = False
    out_steps = []  # accepted count at each interpolation call
    interp_calls = []
    s0 = impl.sol[0] if impl.sol and mode != "terminal" else None
    for kind, x in order:
        if kind == "A":
            a = x
            accepted_prev = prev is not None and prev["ep"] >= 1.0
            if prev is not None:
                if not accepted_prev:
                    # (2) reject_preserves_state, (3) reject_then_smaller
                    if a["src"] != prev["src"] or a["es_in"] != prev["es_in"]:
                        bad.append(("reject_preserves_state", f"after a rejected attempt from {prev['src']} the next attempt starts from {a['src']} (error state {prev['es_in']} -> {a['es_in']})"))
                    if not (a["dt"] < prev["dt"]):
                        bad.append(("reject_then_smaller", f"rejected attempt dt={prev['dt']!r} followed by dt={a['dt']!r}"))
                    if case["ctl"] == "PI" and a["mem_in"] != prev["mem_in"]:
                        bad.append(("reject_preserves_state", f"PI memory changed across a rejection: {prev['mem_in']} -> {a['mem_in']}"))
                else:
                    # (1) accepted_only: time moved exactly to the accepted proposal
                    if a["src"][:2] != prev["prop"][:2]:
                        bad.append(("accepted_only", f"after an accepted attempt ending at {prev['prop'][:2]} the next attempt starts from {a['src'][:2]}"))
                    if a["es_in"] != prev["es_out"]:
                        bad.append(("accepted_only", "error state of the accepted attempt was not promoted"))
            elif s0 is not None and a["src"][:2] != tuple(s0)[:2]:
                bad.append(("accepted_only", f"first attempt starts from {a['src']} but solution0 is {s0}"))
            # estimator / controller are asked about this very attempt
            if a["est_prev"] != a["src"] or a["est_prop"] != a["prop"] or a["est_dt"] != a["dt"] or a["ctl_dt"] != a["dt"] or a["ctl_ep"] != a["ep"]:
                bad.append(("protocol", "estimate_error_norm / control.apply were not called with the attempted step"))
            # (4) proposal_in_bounds
            fmin, fmax = float(case["fmin"]), float(case["fmax"])
            ratio = a["dt_new"] / a["dt"] if a["dt"] != 0 else float("nan")
            if not (fmin * (1 - tol) <= ratio <= fmax * (1 + tol)):
                bad.append(("proposal_in_bounds", f"dt_new/dt = {ratio!r} outside [{fmin}, {fmax}]"))
            # (4b) C06Term.ctlI_contracts / ctlPI_contracts: a rejection is answered by at most max(factor_min, safety) x dt
            # (what bounds the number of attempts of the rejection loop, C06Term.whileRej_terminates)
            if 0.0 <= a["ep"] < 1.0 and float(case["safety"]) >= 0 and a["dt"] > 0:
                rho = max(fmin, float(case["safety"]))
                if not (a["dt_new"] <= rho * a["dt"] * (1 + tol)):
                    bad.append(("reject_then_smaller", f"rejected attempt (error_power {a['ep']!r}) with dt={a['dt']!r} answered by dt_new={a['dt_new']!r} > max(factor_min, safety) x dt = {rho * a['dt']!r}"))
            # (5) clip_no_overshoot
            if case["clip"] and mode != "every_step" and n_interp < len(targets):
                if a["prop"][0] > targets[n_interp] + tol * max(1.0, abs(targets[n_interp])):
                    bad.append(("clip_no_overshoot", f"attempt ends at {a['prop'][0]!r} beyond checkpoint {targets[n_interp]!r}"))
            if case["clip"] and mode == "every_step" and a["prop"][0] > targets[0] + tol * max(1.0, abs(targets[0])):
                bad.append(("clip_no_overshoot", f"attempt ends at {a['prop'][0]!r} beyond t1 {targets[0]!r}"))
            if a["ep"] >= 1.0:
                acc += 1
                last_acc = a
                interp_since_acc = False
            prev = a
        else:
            c = x
            t, frm, to = c[1], c[2:5], c[5:8]
            if prev is not None and prev["ep"] < 1.0:
                bad.append(("accepted_only", "an interpolation follows a rejected attempt"))
            if last_acc is not None and not interp_since_acc:
                if frm != last_acc["src"] or to != last_acc["prop"]:
                    bad.append(("reject_preserves_state", f"interpolation after an accepted step uses from={frm}, to={to}; expected from={last_acc['src']} (old step_from), to={last_acc['prop']}"))
            # (7) interp_between
            if c[0] == "fwd" and mode != "loop_seq" and not (frm[0] <= t <= to[0]):
                bad.append(("interp_between", f"interpolate_fwd at t={t!r} outside [{frm[0]!r}, {to[0]!r}]"))
            if to[1] != acc + (s0[1] if s0 else 0) and s0 is not None:
                bad.append(("num_steps_eq_accepted", f"interp_to.num_steps={to[1]} but {acc} attempts were accepted"))
            interp_calls.append(c)
            out_steps.append(acc)
            n_interp += 1
            interp_since_acc = True
    if prev is not None and prev["ep"] < 1.0 and not impl.stalled:
        bad.append(("accepted_only", "the run ends on a rejected attempt"))
    # (6) reported_once_in_order, (8) num_steps_eq_accepted  -- on the returned arrays
    if mode == "save_at" and impl.sol:
        outs = impl.sol[1:]
        if len(outs) != len(targets):
            bad.append(("reported_once_in_order", f"{len(outs)} solutions for {len(targets)} checkpoints"))
        if len(interp_calls) != len(targets):
            bad.append(("reported_once_in_order", f"{len(interp_calls)} interpolation calls for {len(targets)} checkpoints"))
        for k, (y, tk) in enumerate(zip(outs, targets)):
            if not (abs(y[0] - tk) <= eps * (1 + 1e-9) + tol):
                bad.append(("reported_once_in_order", f"checkpoint {k}: reported t={y[0]!r}, requested {tk!r}, eps={eps!r}"))
            if k < len(interp_calls):
                c = interp_calls[k]
                if c[1] != tk:
                    bad.append(("reported_once_in_order", f"checkpoint {k}: interpolation was asked for t={c[1]!r}"))
                if c[0] == "fwd" and y[0] != tk:
                    bad.append(("reported_once_in_order", f"checkpoint {k}: interpolate_fwd result reported at {y[0]!r} != {tk!r}"))
                if y[1] != out_steps[k] + impl.sol[0][1]:
                    bad.append(("num_steps_eq_accepted", f"checkpoint {k}: num_steps={y[1]} but {out_steps[k]} attempts accepted before it"))
    if mode == "terminal" and impl.sol:
        y = impl.sol[0]
        if not (abs(y[0] - targets[0]) <= eps * (1 + 1e-9) + tol):
            bad.append(("reported_once_in_order", f"terminal value reported at t={y[0]!r}, requested {targets[0]!r}"))
        if y[1] != acc:
            bad.append(("num_steps_eq_accepted", f"terminal num_steps={y[1]} but {acc} attempts accepted"))
    if mode == "loop_seq" and impl.sol:
        if len(impl.sol) - 1 != len(save) - 1:
            bad.append(("reported_once_in_order", f"{len(impl.sol) - 1} solutions for {len(save) - 1} loop calls"))
    if mode == "every_step" and impl.sol:
        outs = impl.sol[1:]
        # one output per loop call: strictly increasing num_steps, last one within eps of t1
        ns = [y[1] for y in outs]
        if ns != list(range(impl.sol[0][1] + 1, impl.sol[0][1] + 1 + len(outs))):
            bad.append(("num_steps_eq_accepted", f"save_every_step reported num_steps {ns}"))
        if outs and not (abs(outs[-1][0] - targets[0]) <= eps * (1 + 1e-9) + tol):
            bad.append(("reported_once_in_order", f"last solution at t={outs[-1][0]!r}, t1={targets[0]!r}"))
    if impl.s1 and impl.sol:
        base = impl.sol[0][1] if mode != "terminal" else 0
        if impl.s1[1] != acc + base:
            bad.append(("num_steps_eq_accepted", f"solution1.num_steps={impl.s1[1]} but {acc} attempts accepted"))
    return bad


# ------------------------------------------------------------------------------------------------
# one case


def run_case(ctx, case, desc=None):
    """Model + implementation + comparison + monitors for one script. Returns 'ok' / 'skip:<why>' / 'bad'."""
    ctx.count(f"mode={case['mode']}")
    ctx.count(f"run={case.get('run', 'jit')}")
    ctx.count(f"ctl={case['ctl']}")
    ctx.count(f"clip={bool(case['clip'])}")
    ctx.count("exact" if case["exact"] else "tolerant")
    m = model_run(ctx, case)
    if m is None:
        if case["mode"] == "every_step" and predicts_stall(ctx, case):
            return run_stall_case(ctx, case)
        ctx.skip("model ran out of fuel (script does not terminate within the fuel: Zeno or too many steps)")
        return "skip:fuel"
    n_acc = m.acc_count
    if n_acc >= CAP - 1:
        ctx.skip("too many accepted steps for the scripted solver's cap")
        return "skip:cap"
    if case["exact"]:
        if not exactness_ok(case, m):
            ctx.skip("some intermediate value of the run is not a float64 (float run would not be exact)")
            return "skip:inexact"
    elif near_tie(case, m):
        ctx.skip("a decision of the run is within 1e-9 of a tie (tolerant run)")
        return "skip:tie"
    n_rej = sum(1 for e in m.events if e["k"] == "A" and e["ep"] < 1)
    branches = [e["b"] for e in m.events if e["k"] == "I"]
    ctx.count("attempts_accepted", n_acc)
    ctx.count("attempts_rejected", n_rej)
    for b in (0, 1, 2):
        ctx.count(f"branch{b}", branches.count(b))
    clipped = sum(1 for e in m.events if e["k"] == "A" and case["clip"] and e["dt"] == e["t1"] - e["src"][0])
    ctx.count("clipped_attempts", clipped)
    ctx.count("ep_exactly_one", sum(1 for e in m.events if e["k"] == "A" and e["ep"] == 1))
    within = sum(1 for e in m.events if e["k"] == "I" and e["b"] == 2 and e["to"][0] != e["t1"])
    ctx.count("branch2_offset_within_eps", within)
    impl = impl_run(case, limit=3 * (n_acc + n_rej) + 2 * len(case["save"]) + 200)
    if impl.runaway:
        mon = monitors(case, impl)
        ctx.case(desc or _key(case), nontrivial=True)
        for name, msg in mon[:3]:
            ctx.violation(f"monitor:{name}:{case['mode']}", f"{name} violated on the implementation trace: {msg} [run aborted by the watchdog]", case, theorem=f"Pdq.C06.{name}")
        ctx.violation(
            f"nontermination:{case['mode']}",
            f"the implementation made more than {len(impl.calls)} protocol calls where the model terminates after {3 * (n_acc + n_rej)}; run aborted by the watchdog",
            case,
        )
        return "bad"
    if impl.stalled:
        ctx.violation(STALL_SIG + ":unpredicted", "solve_adaptive_save_every_step stalled although the exact model terminates (float rounding put a step end into [t1-eps, t1))", case)
        return "bad"
    diff = compare(ctx, case, impl, m)
    mon = monitors(case, impl)
    ctx.case(desc or _key(case), nontrivial=(n_acc + n_rej >= 2), sample=_sample(case, m) if len(ctx.samples) < 6 else None)
    if mon:
        for name, msg in mon[:3]:
            ctx.violation(f"monitor:{name}:{case['mode']}", f"{name} violated on the implementation trace: {msg}" + (f" [model diff: {diff}]" if diff else ""), case, theorem=f"Pdq.C06.{name}")
        return "bad"
    if diff:
        kind = diff.split(":")[0].split(" ")[0]
        ctx.violation(f"model-mismatch:{case['mode']}:{kind}", f"implementation trace differs from the model but all invariant monitors pass: {diff}", case, theorem="correspondence Pdq.Model.Adaptive")
        _mark_nofail(ctx, f"model-mismatch:{case['mode']}:{kind}")
        return "bad"
    return "ok"


def _mark_nofail(ctx, sig):
    for v in ctx.violations:
        if v["sig"] == sig:
            v["nofail"] = True


def _key(case):
    return {k: case[k] for k in sorted(case) if k not in ("note",)}


def _sample(case, m):
    return {
        "mode": case["mode"], "run": case.get("run", "jit"), "ctl": case["ctl"], "clip": case["clip"], "dt0": case["dt0"], "eps": case["eps"],
        "save": case["save"], "profile": {"bps": case["bps"], "hs": case["hs"], "accs": case["accs"], "rejs": case["rejs"]},
        "table_rows": len(case.get("table", [])),
        "history": "".join(("A" if e["ep"] >= 1 else "R") if e["k"] == "A" else ("|" + str(e["b"])) if e["k"] == "I" else "" for e in m.events)[:120],
    }


def predicts_stall(ctx, case):
    """every_step: does the model predict the stall (a step ends inside [t1-eps, t1))?"""
    if every_step_with_eps():
        return False
    c2 = dict(case, mode="save_at")
    m = model_run(ctx, c2)
    if m is None:
        return False
    T = m.final["stepFrom"][0]
    t1, eps = F(case["save"][1]), F(case["eps"])
    return t1 - eps <= T < t1


def run_stall_case(ctx, case):
    impl = impl_run(case)
    ctx.case(_key(case), nontrivial=True)
    ctx.count("every_step_stall_predicted")
    if impl.stalled:
        last = [c for c in impl.calls if c[0] == "step"][-1]
        ctx.violation(
            STALL_SIG,
            "solve_adaptive_save_every_step never terminates: an accepted step ended at "
            f"t={last[5]!r} inside [t1-eps, t1) (t1={case['save'][1]!r}, eps={case['eps']!r}); `loop` neither steps nor moves step_from, "
            "so `while state.step_from.t < t1` keeps calling interpolate_fwd_at_t1 for the same state "
            "(observed >12 identical calls; model: Pdq.C06.every_step_stalls, no fuel suffices). Expected: t1 reported once.",
            case,
            theorem="Pdq.C06.every_step_stalls",
            snippet=STALL_SNIPPET,
        )
        return "bad"
    ctx.violation("model-mismatch:every_step:no-stall", "the model predicts that solve_adaptive_save_every_step stalls, the implementation returned", case)
    _mark_nofail(ctx, "model-mismatch:every_step:no-stall")
    return "bad"


STALL_SNIPPET = """# stand-alone reproduction (hangs): a scripted solver whose single step ends at t1 - eps/2
# see harness/checks/c06.py: corpus()[0]; run `/venv/bin/python run_check.py C06` to replay with a stall detector
"""


# ------------------------------------------------------------------------------------------------
# generators


def base_case(**kw):
    c = dict(
        mode="save_at", run="jit", ctl="I", safety=1.0, fmin=0.5, fmax=2.0, expI=0.0, expP=0.0, pw_mode=0, clip=False,
        dt0=0.25, eps=2.0**-20, save=[0.0, 1.0], u=7, bps=[], hs=[0.125], accs=[2.0], rejs=[0.5], table=[], exact=True, defaults=False,
    )
    c.update(kw)
    return c


def corpus():
    """Minimised known failures / boundary cases, run first on every invocation."""
    eps = 2.0**-20
    cases = [
        # D9: save_every_step stalls when a step ends inside [t1 - eps, t1)
        base_case(mode="every_step", hs=[8.0], dt0=1.0 - eps / 2, save=[0.0, 1.0], note="stall"),
        # boundaries of the three-way branch: step end == t1 - eps (not before -> branch 2), == t1 + eps (not after -> branch 2)
        base_case(hs=[8.0], dt0=0.5, save=[0.0, 0.5 + eps, 1.5 - eps, 3.5], note="t+eps==t1 and t==t1+eps"),
        base_case(hs=[8.0], dt0=0.5, save=[0.0, 0.5 + 2 * eps, 1.5 - 2 * eps, 3.5], note="just outside eps"),
        base_case(hs=[8.0], dt0=0.5, save=[0.0, 0.5 + eps / 2, 1.5 - eps / 2, 3.5], note="within eps"),
        # `loop` entered with step_from.t + eps == t1 exactly (no step, branch 2) / step_from.t == t1 + eps exactly (branch 2, not 1)
        base_case(hs=[8.0], dt0=0.5, save=[0.0, 0.25, 0.5 + eps, 3.5], note="entry t+eps==t1"),
        base_case(hs=[8.0], dt0=0.5, save=[0.0, 0.25, 0.5 - eps, 0.5 - eps / 2, 0.5, 3.5], note="entry t==t1+eps"),
        base_case(mode="every_step", hs=[8.0], dt0=1.0 + eps, save=[0.0, 1.0], note="every_step ends at t1+eps exactly"),
        # several checkpoints inside one step, repeated checkpoint
        base_case(hs=[8.0], dt0=2.0, save=[0.0, 0.25, 0.5, 0.5, 1.0, 1.75, 2.0, 2.5]),
        # PI memory: rejections between accepted steps with different error powers
        base_case(ctl="PI", expI=1.0, expP=1.0, fmin=0.25, fmax=8.0, dt0=1.0, hs=[0.125, 0.5], bps=[1.0], accs=[4.0, 2.0], rejs=[0.5, 0.25], save=[0.0, 3.0]),
        base_case(ctl="PI", expI=1.0, expP=1.0, fmin=0.25, fmax=8.0, dt0=1.0, hs=[0.125, 0.5], bps=[1.0], accs=[4.0, 2.0], rejs=[0.5, 0.25], save=[0.0, 1.0, 3.0], clip=True),
        # error_power exactly 1
        base_case(hs=[0.25], accs=[1.0], dt0=1.0, save=[0.0, 2.0], clip=True),
        base_case(mode="terminal", hs=[0.25], accs=[1.0], dt0=1.0, save=[0.0, 2.0], clip=True),
        base_case(mode="every_step", hs=[0.25], accs=[2.0], dt0=1.0, save=[0.0, 2.0], clip=False),
    ]
    return cases


def pick_pow2(rng, lo, hi):
    return float(2.0 ** int(rng.integers(lo, hi + 1)))


def gen_profile_case(ctx, it):
    rng = ctx.rng
    ctl = "PI" if rng.random() < 0.4 else "I"
    safety = gen.pick(rng, [1.0, 0.875], [3, 1])
    fmin = gen.pick(rng, [0.25, 0.5])
    fmax = gen.pick(rng, [2.0, 4.0, 8.0])
    expI, expP = (0.0, 0.0)
    if ctl == "PI":
        expI, expP = gen.pick(rng, [(1.0, 0.0), (1.0, 1.0), (0.0, 1.0), (2.0, 1.0), (1.0, 2.0)])
    clip = bool(rng.random() < 0.5)
    mode = gen.pick(rng, ["save_at", "terminal", "every_step"], [8, 1, 0.6])
    eps = gen.pick(rng, [2.0**-20, 2.0**-7, 2.0**-30], [6, 2, 1])
    t0 = gen.pick(rng, [0.0, 0.5, -1.0])
    n_save = int(gen.pick(rng, [3, 6], [1, 1])) if mode == "save_at" else 2
    # checkpoint spacing: multiples of 2^-6, mixtures of tiny and large gaps
    gaps = []
    for _ in range(n_save - 1):
        kind = gen.pick(rng, ["tiny", "mid", "large", "zero"], [2, 4, 2, 0.3])
        if kind == "tiny":
            gaps.append(int(rng.integers(1, 4)) / 64.0)
        elif kind == "mid":
            gaps.append(int(rng.integers(4, 48)) / 64.0)
        elif kind == "large":
            gaps.append(int(rng.integers(48, 160)) / 64.0)
        else:
            gaps.append(0.0)
    if mode != "save_at" and gaps[0] == 0.0:
        gaps[0] = 0.75
    save = [t0]
    for g in gaps:
        save.append(save[-1] + g)
    span = max(save[-1] - t0, 1 / 64)
    nb = int(rng.integers(0, 4))
    bps = sorted(set(t0 + int(rng.integers(1, max(2, int(span * 64)))) / 64.0 for _ in range(nb)))
    nreg = len(bps) + 1
    hs = [pick_pow2(rng, -5, 0) * gen.pick(rng, [1.0, 1.5, 0.75], [4, 1, 1]) for _ in range(nreg)]
    accs = [gen.pick(rng, [2.0, 4.0, 1.0], [5, 2, 1]) for _ in range(nreg)]
    rejs = [gen.pick(rng, [0.5, 0.25]) for _ in range(nreg)]
    dt0 = gen.pick(rng, [pick_pow2(rng, -8, -4), pick_pow2(rng, -3, 0), pick_pow2(rng, 1, 3)], [1, 2, 1])
    case = base_case(
        mode=mode, ctl=ctl, safety=safety, fmin=fmin, fmax=fmax, expI=expI, expP=expP, clip=clip, dt0=dt0, eps=eps,
        save=save, u=int(rng.integers(0, 1000)), bps=bps, hs=hs, accs=accs, rejs=rejs,
    )
    return case


def gen_loop_seq_case(ctx, it):
    """RejectionLoop driven directly with arbitrary targets (unsorted, repeated, behind the current time)."""
    rng = ctx.rng
    case = gen_profile_case(ctx, it)
    t0 = case["save"][0]
    n = int(rng.integers(2, 6))
    targets = [t0 + int(rng.integers(-32, 160)) / 64.0 for _ in range(n)]
    if rng.random() < 0.3:
        targets[int(rng.integers(0, n))] = targets[0]
    hi = max(max(targets), t0 + 0.25)
    case.update(mode="loop_seq", save=[t0] + targets, run="nojit" if rng.random() < 0.05 else "jit")
    case["bps"] = [b for b in case["bps"] if b < hi]
    k = len(case["bps"]) + 1
    case["hs"], case["accs"], case["rejs"] = case["hs"][:k], case["accs"][:k], case["rejs"][:k]
    return case


def retarget_checkpoints(ctx, case):
    """Second pass (clip off, save_at): move checkpoints onto / next to step ends (before, within eps, exactly eps, after)."""
    m = model_run(ctx, dict(case, mode="save_at"))
    if m is None:
        return case
    ends = sorted({e["prop"][0] for e in m.events if e["k"] == "A" and e["ep"] >= 1})
    if not ends:
        return case
    rng = ctx.rng
    eps = F(case["eps"])
    t0 = F(case["save"][0])
    n = len(case["save"]) - 1
    picks = sorted(rng.choice(len(ends), size=n, replace=True))  # several checkpoints may sit around the same step end
    new = []
    for i in picks:
        off = gen.pick(rng, [0, eps / 2, -eps / 2, eps, -eps, 2 * eps, -2 * eps, Fraction(1, 128), -Fraction(1, 128)], [2, 2, 2, 2, 2, 1, 1, 1, 1])
        new.append(ends[i] + off)
    new = sorted(x for x in new if x >= t0)
    while len(new) < n:
        new.append((new[-1] if new else t0) + Fraction(int(rng.integers(0, 32)), 64))
    new = sorted(new)
    if not all(is_f64(x) for x in new):
        return case
    return dict(case, save=[float(t0)] + [float(x) for x in new])


WORD_BASE = dict(ctl="I", safety=1.0, fmin=0.5, fmax=2.0, dt0=0.25, hs=[2.0**20], accs=[2.0], rejs=[0.5], bps=[])


def word_layouts(eps):
    return {
        "far": [0.0, 1.5, 3.0],
        "dense": [0.0, 0.125, 0.25, 0.375, 1.0, 3.0],
        "near_eps": [0.0, 0.25 + eps, 0.75 - eps, 0.75 + eps / 2, 1.75 - eps / 2, 3.0],
    }


def build_word_case(ctx, word, layout, clip, mode="save_at", run="jit"):
    """Realise an accept/reject word as a table script: the k-th attempt gets error_power 2 (A) or 1/2 (R);
    attempts beyond the word are accepted.  The table is grown attempt by attempt with the model."""
    eps = 2.0**-20
    save = word_layouts(eps)[layout]
    if mode != "save_at":
        save = [save[0], save[-1]]
    case = base_case(mode=mode, run=run, clip=clip, eps=eps, save=save, table=[], **WORD_BASE)
    for _ in range(len(word) + 1):
        m = model_run(ctx, case)
        if m is None:
            return None
        keys = {(F(r[0]), F(r[1])) for r in case["table"]}
        k = len(case["table"])
        if k >= len(word):
            break
        # first attempt not yet scripted
        nxt = None
        for e in m.events:
            if e["k"] == "A" and (e["src"][0], e["dt"]) not in keys:
                nxt = e
                break
        if nxt is None:
            break
        if not (is_f64(nxt["src"][0]) and is_f64(nxt["dt"])):
            return None
        case["table"] = case["table"] + [[float(nxt["src"][0]), float(nxt["dt"]), 2.0 if word[k] == "A" else 0.5]]
    case["word"] = word
    case["layout"] = layout
    return case


def gen_default_case(ctx, it):
    """Shipped defaults: controllers constructed without arguments, dt0/eps left at the solve functions' defaults."""
    from probdiffeq._ivpsolve import solvers_via_adaptive_steps as sas

    rng = ctx.rng
    C = _controllers()
    ctl = "PI" if it % 2 else "I"
    cls = C.control_integral if ctl == "I" else C.control_proportional_integral
    sig = inspect.signature(cls.__init__).parameters
    mode = gen.pick(rng, ["save_at", "terminal", "every_step"], [4, 1, 0.7])
    solve_defaults = _solve_defaults(sas, "solve_adaptive_save_at" if mode != "terminal" else "solve_adaptive_terminal_values")
    outer_defaults = inspect.signature(getattr(sas, "solve_adaptive_save_at" if mode != "terminal" else "solve_adaptive_terminal_values")).parameters
    clip = bool(outer_defaults["clip_dt"].default) if mode != "every_step" else False
    t0 = 0.0
    n_save = int(gen.pick(rng, [3, 6])) if mode == "save_at" else 2
    save = [t0]
    for _ in range(n_save - 1):
        save.append(save[-1] + float(rng.uniform(0.05, 0.8)))
    nb = int(rng.integers(0, 3))
    bps = sorted(float(rng.uniform(t0, save[-1])) for _ in range(nb))
    nreg = nb + 1
    # (the exact rational trace grows by ~53 bits per attempt: keep these runs to a few dozen attempts)
    hs = [float(rng.uniform(0.08, 0.6)) for _ in range(nreg)]
    # accepted values are powers of two so that error_power / memory is exact (the model divides exactly)
    accs = [gen.pick(rng, [2.0, 4.0, 1.0, 8.0], [4, 2, 1, 1]) for _ in range(nreg)]
    rejs = [gen.pick(rng, [0.5, 0.25, 0.75, 0.3, 0.9]) for _ in range(nreg)]
    return base_case(
        mode=mode, ctl=ctl, safety=float(sig["safety"].default), fmin=float(sig["factor_min"].default), fmax=float(sig["factor_max"].default),
        expI=float(sig["exponent_integral"].default) if ctl == "PI" else 0.0,
        expP=float(sig["exponent_proportional"].default) if ctl == "PI" else 0.0,
        pw_mode=1 if ctl == "PI" else 0, clip=clip, dt0=float(solve_defaults["dt0"]), eps=float(solve_defaults["eps"]),
        save=save, u=int(rng.integers(0, 1000)), bps=bps, hs=hs, accs=accs, rejs=rejs, exact=False, defaults=True,
    )


def _solve_defaults(sas, name):
    """defaults of the inner `solve` (dt0, eps) read from the source, as the translator does"""
    src = inspect.getsource(getattr(sas, name))
    tree = ast.parse(src)
    for node in ast.walk(tree):
        if isinstance(node, ast.FunctionDef) and node.name == "solve":
            out = {}
            args = node.args
            pos = args.posonlyargs + args.args
            for a, d in zip(pos[len(pos) - len(args.defaults):], args.defaults):
                out[a.arg] = ast.literal_eval(d)
            for a, d in zip(args.kwonlyargs, args.kw_defaults):
                if d is not None:
                    out[a.arg] = ast.literal_eval(d)
            return out
    raise core.HarnessError(f"no inner solve in {name}")


# ------------------------------------------------------------------------------------------------
# controller unit correspondence (single applications, exact)


def check_controller_apply(ctx, n):
    rng = ctx.rng
    C = _controllers()
    for _ in range(n):
        kind = "PI" if rng.random() < 0.5 else "I"
        safety = gen.pick(rng, [1.0, 0.875, 0.75, 0.5])
        fmin = gen.pick(rng, [0.125, 0.25, 0.5, 1.0])
        fmax = gen.pick(rng, [0.5, 1.0, 2.0, 4.0, 8.0])  # includes fmax < fmin (np.maximum wins) and fmax < 1
        expI, expP = gen.pick(rng, [(1.0, 0.0), (1.0, 1.0), (0.0, 1.0), (2.0, 1.0), (0.0, 0.0)])
        dt = pick_pow2(rng, -10, 3) * gen.pick(rng, [1.0, 1.5, 1.25])
        mem = gen.pick(rng, [1.0, 2.0, 4.0, 8.0])
        ep = gen.pick(rng, [0.125, 0.25, 0.5, 1.0, 2.0, 4.0, 8.0, 0.75, 1.5])
        if kind == "I":
            ctl = C.control_integral(safety=safety, factor_min=fmin, factor_max=fmax)
            st = ctl.init(dt)
            dnew, _ = ctl.apply(jnp.asarray(dt), st, error_power=jnp.asarray(ep))
            got = (float(dnew), 0.0)
        else:
            ctl = C.control_proportional_integral(safety=safety, factor_min=fmin, factor_max=fmax, exponent_integral=expI, exponent_proportional=expP)
            init = float(ctl.init(dt))
            if init != 1.0:
                ctx.violation("controller:pi-init", f"control_proportional_integral.init returned {init}", {"dt": dt})
            dnew, mnew = ctl.apply(jnp.asarray(dt), jnp.asarray(mem), error_power=jnp.asarray(ep))
            got = (float(dnew), float(mnew))
        ans = ctx.drv.call("c06_ctl_apply", 0 if kind == "I" else 1, F(safety), F(fmin), F(fmax), F(expI), F(expP), F(dt), F(mem), F(ep))
        case = {"kind": kind, "safety": safety, "fmin": fmin, "fmax": fmax, "expI": expI, "expP": expP, "dt": dt, "mem": mem, "ep": ep}
        ctx.count(f"ctl_apply={kind}")
        if not all(is_f64(a) for a in ans):
            ctx.skip("controller application not exact in float64")
            continue
        if Fraction(got[0]) != ans[0] or (kind == "PI" and Fraction(got[1]) != ans[1]):
            ctx.violation(f"controller:{kind}:apply", f"{kind} controller apply: implementation {got} vs model {[core.fs(a) for a in ans]}", case, theorem="Pdq.ctlI / Pdq.ctlPI")
        ctx.case(case, nontrivial=True)


def check_controller_vanishing_error(ctx):
    """error estimate exactly zero (error_power = +inf; a solution the prior captures exactly), also several times in a row:
    every proposal is the attempted step times a factor inside [factor_min, factor_max] - here the upper end - and never
    NaN.  The rational model has no infinity; the expected value is the limit of the model for error_power -> inf
    (every gain with a positive exponent grows without bound, so the clipped factor is max(factor_min, factor_max)).
    Found as D13: the PI controller returned inf / inf = NaN from the second such step on (repository fix 4dae887)."""
    C = _controllers()
    for kind, ctl in (("I", C.control_integral()), ("PI", C.control_proportional_integral()),
                      ("PI", C.control_proportional_integral(safety=0.5, factor_min=0.25, factor_max=4.0, exponent_integral=0.5, exponent_proportional=0.25))):
        dt, st = jnp.asarray(0.125), ctl.init(0.125)
        fmin, fmax = float(ctl.factor_min), float(ctl.factor_max)
        for k, ep in enumerate([jnp.inf, jnp.inf, jnp.inf, 2.0, jnp.inf]):
            dnew, st = ctl.apply(dt, st, error_power=jnp.asarray(ep))
            ratio = float(dnew) / float(dt)
            case = {"kind": kind, "call": k, "error_power": str(ep), "dt": float(dt), "dt_new": float(dnew), "factor_min": fmin, "factor_max": fmax}
            ctx.case(case, nontrivial=True)
            ctx.count("ctl_apply=vanishing-error")
            if not (math.isfinite(float(dnew)) and fmin <= ratio <= max(fmin, fmax)):
                ctx.violation(f"controller:{kind}:vanishing-error", f"{kind} controller, application {k} with error_power = {ep}: proposal {float(dnew)!r} for dt = {float(dt)} is not dt x factor in [factor_min, factor_max]", case)
                break
            if ep == jnp.inf and ratio != max(fmin, fmax):
                ctx.violation(f"controller:{kind}:vanishing-error:not-saturated", f"{kind} controller with a vanishing error estimate proposes factor {ratio}, expected factor_max", case)
                break
            dt = dnew


# ------------------------------------------------------------------------------------------------


def run(ctx):
    jax.config.update("jax_enable_x64", True)
    ctx.rule = (
        "scripts = (controller I/PI with dyadic parameters, clip on/off, dt0 from 2^-8 to 8, eps in {2^-20, 2^-7, 2^-30}, "
        "checkpoint lists with tiny/mid/large/zero gaps and checkpoints re-targeted onto step ends with offsets "
        "0, +-eps/2, +-eps, +-2eps, piecewise-constant error profiles with error_power in {1,2,4 | 1/2,1/4}) run through "
        "solve_adaptive_save_at (jit / un-jitted / jax.disable_jit), solve_adaptive_terminal_values, "
        "test_util.solve_adaptive_save_every_step, RejectionLoop.loop driven directly with unsorted targets; "
        "accept/reject words (all of length <= 8 in the thorough tier) realised as (t, dt) tables over 3 checkpoint "
        "layouts; shipped defaults with tolerance; single controller applications. A case is distinct/non-trivial when its "
        "full script differs and it makes >= 2 attempts."
    )
    ctx.assumptions += [
        "error estimators are pure functions of (error state, previous state, proposed state, dt) as the protocol prescribes; "
        "scripts depend on (previous.t, dt), which determines the attempt within a run",
        "exact runs: every intermediate value of the model's rational trace is checked to be a float64, otherwise the script is skipped and counted",
        "tolerant runs (shipped defaults, real PI exponents): scripts with a decision within 1e-9 of a tie are skipped and counted; "
        "real powers are computed in float64 by the harness and handed to the model as a table",
        "scripts on which the model does not terminate within the fuel (Zeno step sequences) are skipped, never run on the implementation",
    ]
    # ---- corpus
    for case in corpus():
        ctx.count("corpus")
        run_case(ctx, case)
    # ---- single controller applications
    check_controller_apply(ctx, ctx.n(60, 600))
    check_controller_vanishing_error(ctx)
    # ---- profile scripts
    n_profile = ctx.n(200, 4200)
    n_bare, n_nojit = ctx.n(14, 150), ctx.n(3, 40)
    for it in range(n_profile):
        case = gen_profile_case(ctx, it)
        if case["mode"] == "save_at" and not case["clip"] and ctx.rng.random() < 0.6:
            case = retarget_checkpoints(ctx, case)
            ctx.count("retargeted_checkpoints")
        if case["mode"] != "every_step":
            if it < n_bare:
                case["run"] = "bare"
            elif it < n_bare + n_nojit:
                case["run"] = "nojit"
        if case["run"] == "nojit" and case["dt0"] < 2.0**-4:
            case["dt0"] = 0.125  # keep the op-by-op run short
        run_case(ctx, case)
    # ---- RejectionLoop driven directly with arbitrary targets
    for it in range(ctx.n(24, 400)):
        run_case(ctx, gen_loop_seq_case(ctx, it))
    # ---- accept/reject words
    maxlen = 8
    words = ["".join(w) for n in range(1, maxlen + 1) for w in itertools.product("AR", repeat=n)]
    if ctx.quick:
        short = [w for w in words if len(w) <= 3]
        rest = [w for w in words if len(w) > 3]
        idx = ctx.rng.choice(len(rest), size=22, replace=False)
        words = short + [rest[i] for i in sorted(idx)]
    for wi, w in enumerate(words):
        for layout in ("far", "dense", "near_eps"):
            clips = (False, True) if (not ctx.quick or wi % 3 == 0) else (bool(wi % 2),)
            for clip in clips:
                case = build_word_case(ctx, w, layout, clip)
                ctx.count(f"word_layout={layout}")
                if case is None:
                    ctx.skip("word script not realisable exactly / out of fuel")
                    continue
                run_case(ctx, case)
        if wi % (4 if ctx.quick else 16) == 0:
            case = build_word_case(ctx, w, "far", False, mode="every_step")
            if case is not None:
                run_case(ctx, case)
            case = build_word_case(ctx, w, "far", True, mode="terminal")
            if case is not None:
                run_case(ctx, case)
    # ---- shipped defaults (tolerant)
    for it in range(ctx.n(30, 1000)):
        case = gen_default_case(ctx, it)
        run_case(ctx, case)
    ctx.extra["tolerances"] = {"exact_runs": 0.0, "tolerant_runs_rel": TOL, "tie_margin": TIE}
