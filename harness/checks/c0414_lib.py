"""Shared helpers of the C04 / C14 correspondence checks.

* `Stepper`: `solvermodel.ModelStepper` whose whitened-RMS normalisation is computed by the Lean model
  (`cal_rms2` -> `Calib.rms2` with `Factorisation.rmsSize`) instead of on the Python side;
* `Runner`: all real entry points of one (configuration, field), jitted once: `solve_fixed_grid`, the same scan
  without `userfriendly_output` (all un-calibrated per-step states), `solve_adaptive_save_at`.  The prior is
  constructed by the real constructor *inside* the jitted function from (Taylor coefficients, base scale), so that
  other initial values and base scales reuse the compilation (an eagerly constructed prior carries fresh closures in
  its pytree aux data and forces a re-trace; eager construction also costs 2-3 s);
* `Replica`: `solve_adaptive_save_at` re-assembled from the public pieces of `RejectionLoop`
  (`step_init_loopstate`, `step_attempt`, `step_extract_timestep_state`, `interp_*`) with native Python loops, which
  exposes every attempted / accepted step with the exact `dt` it used;
* float noise scales for comparing two float runs: `mean_noise*` (gain x residual summands), `kappa_q` (conditioning of
  the backward pass), `phi_q`.
"""

from __future__ import annotations

import dataclasses
from fractions import Fraction

import numpy as np

from harness import gen, problems
from harness import solvermodel as sm
from harness.core import F

FACT_CODE = {"dense": 0, "iso": 1, "bd": 2}


class Stepper(sm.ModelStepper):
    """ModelStepper with the RMS normalisation owned by the Lean model."""

    def rms2(self, mahas):
        fact = FACT_CODE[self.cfg.fact]
        ans = self.ctx.drv.call("cal_rms2", fact, 1, self.d, len(mahas), *mahas)
        return list(ans) if self.cfg.fact == "bd" else ans[0]


def lam_of(cfg, d):
    if cfg.base_scale is None:
        return [Fraction(1)] * d
    if cfg.fact == "iso":
        return [F(cfg.base_scale)] * d
    return [F(x) for x in cfg.base_scale]


def unstack(tree_, i):
    import jax

    return jax.tree_util.tree_map(lambda s: s[i], tree_)


def stack_len(sol):
    return int(np.asarray(sol.t).shape[0])


def finite(sol):
    import jax

    return all(bool(np.all(np.isfinite(np.asarray(x)))) for x in jax.tree_util.tree_leaves((sol.u.mean, sol.u.std, sol.output_scale)))


def build(cfg, field, constraint_init=False):
    """real solver objects of one configuration (no prior: priors are constructed inside the jitted functions of
    `Runner`, so that different initial values and base scales reuse one compilation - every eagerly constructed
    prior carries fresh closures in its pytree aux data and would force a re-trace)."""
    from probdiffeq import probdiffeq as pdq

    ssm = {"dense": pdq.state_space_model_dense, "iso": pdq.state_space_model_isotropic, "bd": pdq.state_space_model_blockdiag}[cfg.fact]()
    f = field.as_jax()
    if field.order == 1:
        vf = pdq.ode(lambda u, /, *, t: f(u, t=t), jacobian=pdq.jacobian_materialize())
    else:
        vf = pdq.ode_order_two(lambda u, du, /, *, t: f(u, du, t=t), jacobian=pdq.jacobian_materialize())
    strategy = {"filter": pdq.strategy_filter, "fixedinterval": pdq.strategy_smoother_fixedinterval, "fixedpoint": pdq.strategy_smoother_fixedpoint}[cfg.strategy]()
    constraint = ssm.constraint_ode_ts0(vf) if cfg.lin == "ts0" else ssm.constraint_ode_ts1(vf)
    kw = {"constraint_init": constraint} if constraint_init else {}
    if cfg.solver == "solver":
        solver = pdq.solver(strategy=strategy, constraint=constraint, **kw)
    elif cfg.solver == "mle":
        solver = pdq.solver_mle(strategy=strategy, constraint=constraint, **kw)
    elif cfg.solver == "mle_nocorr":
        solver = pdq.solver_mle(strategy=strategy, constraint=constraint, correct_asymptotic_underconfidence=False, **kw)
    elif cfg.solver == "dynamic":
        solver = pdq.solver_dynamic(strategy=strategy, constraint=constraint, **kw)
    elif cfg.solver == "dynamic_relin":
        solver = pdq.solver_dynamic(strategy=strategy, constraint=constraint, re_linearize_after_calibration=True, **kw)
    else:
        raise ValueError(cfg.solver)
    return {"ssm": ssm, "vf": vf, "strategy": strategy, "constraint": constraint, "solver": solver}


def tcoeffs_of(cfg, field, u0s, t0):
    """initial Taylor coefficients u, u', ..., u^(q) (exact rational differentiation along the flow, rounded once)"""
    import jax.numpy as jnp

    inits = [[Fraction(float(x)) for x in np.asarray(u, dtype=np.float64)] for u in u0s]
    tc = problems.taylor_coeffs_exact(field, inits, Fraction(float(t0)), cfg.q)
    return tuple(jnp.asarray([float(x) for x in row], dtype=jnp.float64) for row in tc)


def base_arg(cfg, base):
    import jax.numpy as jnp

    return None if base is None else jnp.asarray(base, dtype=jnp.float64)


class Runner:
    """All jitted entry points of one (configuration, field); arguments: Taylor coefficients, base scale, grid."""

    def __init__(self, cfg, field, constraint_init=False):
        import jax
        import jax.numpy as jnp
        from probdiffeq import ivpsolve
        from probdiffeq import probdiffeq as pdq

        self.cfg, self.field = cfg, field
        self.objs = build(cfg, field, constraint_init)
        ssm, solver, damp = self.objs["ssm"], self.objs["solver"], cfg.damp
        self.solver = solver

        def prior_of(tc, base):
            kw = {} if base is None else {"output_scale": base}
            if cfg.init == "exact":
                return ssm.prior_wiener_integrated(tc, **kw)
            return ssm.prior_wiener_integrated(tc, is_exact=False, inexact_eps=cfg.inexact_eps, **kw)

        self.prior_of = prior_of
        self.prior = jax.jit(prior_of)
        solve_fixed = ivpsolve.solve_fixed_grid(solver=solver)
        self.fixed = jax.jit(lambda tc, base, grid: solve_fixed(prior_of(tc, base), grid=grid, damp=damp))

        def raw(tc, base, grid):
            state0 = solver.init(t=grid[0], u=prior_of(tc, base), damp=damp)

            def body(s, dt):
                s_new = solver.step(state=s, dt=dt, damp=damp)
                return s_new, s_new

            last, states = jax.lax.scan(body, state0, jnp.diff(grid))
            return state0, states, last

        self.raw = jax.jit(raw)
        self._err = None
        self._save_at, self._replica = {}, {}
        # priors that cross jit boundaries (replica of the adaptive loop): leaves from the traced constructor, pytree
        # structure (with its concrete closures) from one eagerly constructed template
        self._template = None
        self._leaves = jax.jit(lambda tc, base: jax.tree_util.tree_leaves(prior_of(tc, base)))

    def make_prior(self, tc, base):
        import jax

        if self._template is None:
            self._template = jax.tree_util.tree_structure(self.prior_of(tc, base))
        return jax.tree_util.tree_unflatten(self._template, self._leaves(tc, base))

    @property
    def err(self):
        from probdiffeq import probdiffeq as pdq

        if self._err is None:
            self._err = pdq.error_residual_std(constraint=self.objs["constraint"])
        return self._err

    def args(self, u0s, t0, base):
        return tcoeffs_of(self.cfg, self.field, u0s, t0), base_arg(self.cfg, base)

    def solve_grid(self, u0s, t0, grid, base):
        import jax.numpy as jnp

        return self.fixed(*self.args(u0s, t0, base), jnp.asarray(grid, dtype=jnp.float64))

    def raw_grid(self, u0s, t0, grid, base):
        import jax.numpy as jnp

        return self.raw(*self.args(u0s, t0, base), jnp.asarray(grid, dtype=jnp.float64))

    def save_at(self, clip, eps=1e-8):
        import jax
        from probdiffeq import ivpsolve

        if clip not in self._save_at:
            solve = ivpsolve.solve_adaptive_save_at(solver=self.solver, error=self.err, clip_dt=clip, warn=False)
            prior_of, damp = self.prior_of, self.cfg.damp
            self._save_at[clip] = jax.jit(lambda tc, base, save_at, atol, rtol, dt0: solve(prior_of(tc, base), save_at=save_at, atol=atol, rtol=rtol, dt0=dt0, eps=eps, damp=damp))
        return self._save_at[clip]

    def replica(self, clip):
        if clip not in self._replica:
            self._replica[clip] = Replica(self.solver, self.err, clip, self.cfg.damp, make_prior=self.make_prior)
        return self._replica[clip]


_RUNNERS = {}


def runner(cfg, field, constraint_init=False):
    """memoised per (configuration without the value of the base scale, field)"""
    d = dataclasses.asdict(cfg)
    d["base_scale"] = d["base_scale"] is None
    key = (repr(sorted(d.items())), id(field), constraint_init)
    if key not in _RUNNERS:
        _RUNNERS[key] = (Runner(cfg, field, constraint_init), field)
    return _RUNNERS[key][0]


_RELEASES = [0]


def release():
    """forget the jitted entry points of finished configurations (every compiled executable keeps memory mappings;
    a thorough run would otherwise exhaust vm.max_map_count)"""
    import gc

    import jax

    _RUNNERS.clear()
    _RELEASES[0] += 1
    if _RELEASES[0] % 6 == 0:
        jax.clear_caches()
        gc.collect()


class Replica:
    """solve_adaptive_save_at with Python loops around the jitted public pieces of RejectionLoop."""

    def __init__(self, solver, error, clip, damp, eps=1e-8, control=None, max_attempts=4000, make_prior=None):
        import jax
        from probdiffeq import ivpsolve
        from probdiffeq.backend import flow

        if control is None:
            control = ivpsolve.control_integral()
        self.solver, self.clip, self.damp, self.eps, self.max_attempts = solver, clip, damp, eps, max_attempts
        self.loop = ivpsolve.RejectionLoop(solver=solver, clip_dt=clip, control=control, error=error, while_loop=flow.while_loop)
        loop = self.loop

        def init(prior, t0, dt0):
            s0 = solver.init(t=t0, u=prior, damp=damp)
            return s0, loop.init(s0, dt=dt0)

        self.make_prior = make_prior
        self.init = jax.jit(init)
        self.attempt = jax.jit(lambda rs, t1, atol, rtol: loop.step_attempt(rs, t1=t1, atol=atol, rtol=rtol, damp=damp))
        self.begin = loop.step_init_loopstate
        self.extract = loop.step_extract_timestep_state
        self.interp_beyond = jax.jit(lambda st, t1: loop.interp_beyond_t1((st, t1)))
        self.interp_at = jax.jit(lambda st, t1: loop.interp_at_t1((st, t1)))
        self.final = jax.jit(lambda s0, sols, s1: solver.userfriendly_output(solution0=s0, solution=sols, solution1=s1))

    def run(self, tc, base, save_at, atol, rtol, dt0):
        """returns (solution, accepted, margin): accepted = list of (state_before, dt_used (float), state_after);
        margin = min over attempts of |acceptance_factor - 1|"""
        import jax
        import jax.numpy as jnp

        save_at = np.asarray(save_at, dtype=np.float64)
        sol0, state = self.init(self.make_prior(tc, base), jnp.asarray(save_at[0]), jnp.asarray(dt0, dtype=jnp.float64))
        accepted, sols, margin, attempts = [], [], float("inf"), 0
        eps = self.eps
        for t_next in save_at[1:]:
            do_continue = True
            while do_continue:
                if float(state.step_from.t) + eps < t_next:
                    rs = self.begin(state)
                    dt_used = None
                    while float(rs.acceptance_factor_proposed) < 1.0:
                        dt = np.float64(rs.dt)
                        dt_used = float(np.minimum(dt, np.float64(t_next) - np.float64(rs.step_from.t))) if self.clip else float(dt)
                        rs = self.attempt(rs, jnp.asarray(t_next), atol, rtol)
                        attempts += 1
                        af = float(rs.acceptance_factor_proposed)
                        if not np.isfinite(af) or attempts > self.max_attempts:
                            return None, accepted, margin
                        margin = min(margin, abs(af - 1.0))
                    accepted.append((rs.step_from, dt_used, rs.proposed))
                    state = self.extract(rs)
                t = float(state.step_from.t)
                if t + eps < t_next:
                    solution = state.step_from
                elif t > t_next + eps:
                    solution, state = self.interp_beyond(state, jnp.asarray(t_next))
                else:
                    solution, state = self.interp_at(state, jnp.asarray(t_next))
                do_continue = float(state.step_from.t) + eps < t_next
            sols.append(solution)
        stacked = jax.tree_util.tree_map(lambda *xs: jnp.stack(xs), *sols)
        return self.final(sol0, stacked, state.step_from), accepted, margin


def phi_q(q, h):
    """float IWP transition Phi(h) and process-noise covariance Q(h) (DESIGN 1.1)"""
    import math

    n = q + 1
    Phi = np.zeros((n, n))
    Q = np.zeros((n, n))
    for i in range(n):
        for j in range(n):
            if j >= i:
                Phi[i, j] = h ** (j - i) / math.factorial(j - i)
            e = 2 * q + 1 - i - j
            Q[i, j] = h**e / (e * math.factorial(q - i) * math.factorial(q - j))
    return Phi, Q


def filtering_of(cfg, sol):
    return sol.solution_full if cfg.strategy == "filter" else sol.solution_full.filtering


def kappa_q(q):
    """conditioning of the backward (smoothing) pass of an order-q IWP: condition number of the correlation matrix of
    the process noise Q(h) (independent of h): 1.4e1, 2.9e2, 7.4e3, 2.1e5, 6.3e6, 1.9e8 for q = 1..6.  Smoothed
    moments of two float runs agree up to rounding x this factor."""
    _, Q = phi_q(q, 0.5)
    sd = np.sqrt(np.diag(Q))
    return float(np.linalg.cond(Q / np.outer(sd, sd)))


def scale_per_time(sol, T):
    """(T, k) output scales per time index: dynamic solutions carry one scale per time point (T rows), MLE /
    uncalibrated solutions one constant scale per step (T - 1 rows)"""
    o = np.asarray(sol.output_scale, dtype=np.float64)
    o = o.reshape(o.shape[0], -1)
    if o.shape[0] == T:
        return o
    return np.broadcast_to(o[-1], (T, o.shape[1])).copy()


def mean_noise_steps(cfg, field, d, steps, lam2=None):
    """per coefficient-major entry: the largest |K| (|H||m^-| + |b|) over the given steps (float), K the Kalman gain
    of the dense-equivalent problem.  Rounding of the residual enters the posterior mean with this weight (x eps), so
    two float runs are compared relative to |m| + std + this.
    steps: iterable of (m_prev (N,), C_prev (N, N), t_next, h, s2 (d,)) in the dense representation."""
    n, K = cfg.q + 1, field.order
    N = n * d
    lam2 = np.ones(d) if lam2 is None else np.asarray(lam2, dtype=np.float64)
    extra = np.zeros(N)
    for m_prev, C_prev, t_next, h, s2 in steps:
        Phi, Q = phi_q(cfg.q, h)
        A = np.kron(Phi, np.eye(d))
        mp = A @ m_prev
        Pp = A @ C_prev @ A.T + np.kron(Q, np.diag(lam2 * s2))
        if not (np.all(np.isfinite(mp)) and np.all(np.isfinite(Pp))):
            continue
        pred = [[F(float(mp[k * d + a])) for a in range(d)] for k in range(n)]
        t1 = F(float(t_next))
        fx = np.array([float(x) for x in field.eval_exact(pred, t1)])
        H = np.zeros((d, N))
        b = -fx
        for a in range(d):
            H[a, K * d + a] = 1.0
        if cfg.lin == "ts1":
            J = field.jac_exact(pred, t1)
            for a in range(d):
                for k in range(K):
                    for bb in range(d):
                        H[a, k * d + bb] -= float(J[a][k][bb])
                        b[a] += float(J[a][k][bb]) * mp[k * d + bb]
        rn = np.abs(H) @ np.abs(mp) + np.abs(b)
        S = H @ Pp @ H.T + cfg.damp**2 * np.eye(d)
        try:
            Kg = np.linalg.lstsq(S, H @ Pp, rcond=None)[0].T
        except Exception:  # noqa: BLE001
            continue
        if np.all(np.isfinite(Kg)):
            extra = np.maximum(extra, np.abs(Kg) @ rn)
    return extra


def mean_noise(cfg, field, d, sol, lam2=None):
    """`mean_noise_steps` along a returned fixed-grid solution of any factorisation (dense representation through
    to_multivariate_normal of the filtering distributions)"""
    fil = filtering_of(cfg, sol)
    mf, Cf = fil.to_multivariate_normal()
    mf, Cf = np.asarray(mf, dtype=np.float64), np.asarray(Cf, dtype=np.float64)
    ts = np.asarray(sol.t, dtype=np.float64)
    T = len(ts)
    osc = scale_per_time(sol, T)

    def s2_of(i):
        if cfg.solver == "solver":
            return np.ones(d)
        return osc[i] ** 2 if osc.shape[1] == d else np.full(d, osc[i, 0] ** 2)

    return mean_noise_steps(cfg, field, d, ((mf[i - 1], Cf[i - 1], ts[i], ts[i] - ts[i - 1], s2_of(i)) for i in range(1, T)), lam2)


def moments(normal, T):
    """(T, N) means and standard deviations of a stacked normal (std leaves broadcast to the mean leaves)"""
    ms = [np.asarray(x, dtype=np.float64).reshape(T, -1) for x in normal.mean]
    ss = [np.broadcast_to(np.asarray(x, dtype=np.float64).reshape(T, -1), m.shape) for x, m in zip(normal.std, ms)]
    return np.concatenate(ms, axis=1), np.concatenate(ss, axis=1)


def aux_of(cfg, sol):
    """MLE calibration state of an un-batched implementation state, as exact squares"""
    if cfg.solver.startswith("mle"):
        _c, running, num = sol.auxiliary
        r = np.asarray(running, dtype=np.float64)
        if cfg.fact == "bd":
            return ([F(x) ** 2 for x in r.reshape(-1)], F(float(num)))
        return (F(float(r)) ** 2, F(float(num)))
    return None


def scale2_list(cfg, x, d):
    """implementation output scale (float array, scalar or (d,)) -> list of d exact squares"""
    a = np.asarray(x, dtype=np.float64).reshape(-1)
    if cfg.fact == "bd":
        return [F(v) ** 2 for v in a]
    return [F(float(a[0])) ** 2] * d


def rel(a, b):
    a, b = np.asarray(a, dtype=np.float64), np.asarray(b, dtype=np.float64)
    den = np.maximum(np.abs(b), 1e-300)
    if not (np.all(np.isfinite(a)) and np.all(np.isfinite(b))):
        return float("inf")
    return float(np.max(np.abs(a - b) / den)) if a.size else 0.0


def tofl(x):
    if isinstance(x, (list, tuple)):
        return np.array([float(v) for v in x], dtype=np.float64)
    return np.array([float(x)], dtype=np.float64)


def case_of(cfg, field, u0s, t0, extra=None):
    c = {"config": dataclasses.asdict(cfg), "field": field.describe(), "u0": [np.asarray(u).tolist() for u in u0s], "t0": t0}
    if extra:
        c.update(extra)
    return c


def random_problem(rng, d, order, kind="general", max_degree=2):
    """kind: general | decoupled | scalarjac (f_a = a*u_a (+ b*u'_a) + g_a(t), same a, b for all components) | linear"""
    if kind == "general":
        return problems.random_field(rng, d, order, max_degree=max_degree)
    if kind == "linear":
        return problems.random_field(rng, d, order, max_degree=1, linear=True)
    if kind == "decoupled":
        return problems.random_field(rng, d, order, max_degree=max_degree, decoupled=True)
    if kind == "scalarjac":
        nv = order * d + 1
        coefs = [Fraction(int(gen.pick(rng, [-6, -4, -2, 1, 3, 5])), 8) for _ in range(order)]
        comps = []
        for a in range(d):
            comp = []
            for k in range(order):
                e = [0] * nv
                e[k * d + a] = 1
                comp.append((coefs[k], tuple(e)))
            # g_a(t): polynomial in t only, different per component
            for _ in range(int(rng.integers(1, 3))):
                e = [0] * nv
                e[-1] = int(rng.integers(0, 3))
                kk = int(rng.integers(-8, 9)) or 3
                comp.append((Fraction(kk, 8), tuple(e)))
            comps.append(comp)
        return problems.PolyField(d, order, comps)
    raise ValueError(kind)
