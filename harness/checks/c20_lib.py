"""Helpers of the C20 check: value specs, the abstraction function, outcome classification, corruptions.

A *spec* is a JSON-able description from which a concrete Python argument is rebuilt (so every case
replays exactly):

    ["A", [3], "f"]        jax array of shape (3,), dtype float (values 0.5 / 1 / True)
    ["P", "f"]             Python scalar (float 0.5 / int 1 / bool True)
    ["L", [spec, ...]]     list          ["T", [spec, ...]]   tuple
    ["D", {"a": spec}]     dict          ["N"]  None          ["F"]  a plain function

The *abstraction function* `abstract(value)` maps the concrete Python argument (not the spec) to the token
description the Lean model understands (`Pdq/Drv/Validate.lean`): shapes, dtype classes, container kinds.
"""

from __future__ import annotations

import warnings

import jax
import jax.numpy as jnp
import numpy as np

from harness import core

# ------------------------------------------------------------------------------------------------
# specs -> values


def A(shape, dt="f"):
    return ["A", [int(s) for s in shape], dt]


def P(dt="f"):
    return ["P", dt]


def L(xs):
    return ["L", list(xs)]


def T(xs):
    return ["T", list(xs)]


def D(kv):
    return ["D", dict(kv)]


NONE = ["N"]
FN = ["F"]


def _plain_function(*args, **kwargs):  # the "plain function" object of the wrong-object corruption
    return None


def build(spec):
    tag = spec[0]
    if tag == "A":
        shape, dt = tuple(spec[1]), spec[2]
        if dt == "f":
            return jnp.full(shape, 0.5, dtype=jnp.float64)
        if dt == "i":
            return jnp.ones(shape, dtype=jnp.int64)
        return jnp.ones(shape, dtype=bool)
    if tag == "P":
        return {"f": 0.5, "i": 1, "b": True}[spec[1]]
    if tag == "L":
        return [build(s) for s in spec[1]]
    if tag == "T":
        return tuple(build(s) for s in spec[1])
    if tag == "D":
        return {k: build(v) for k, v in spec[1].items()}
    if tag == "N":
        return None
    if tag == "F":
        return _plain_function
    raise core.HarnessError(f"bad spec {spec}")


# ------------------------------------------------------------------------------------------------
# the abstraction function: concrete Python argument -> model tokens

_KEYS = {}


def _key_id(k):
    """dict keys are strings; the model only needs them distinct and ordered as JAX orders them (sorted)"""
    return _KEYS.setdefault(k, len(_KEYS))


def _dt(dtype):
    if dtype == np.dtype(bool):
        return "b"
    if np.issubdtype(dtype, np.integer):
        return "i"
    if np.issubdtype(dtype, np.floating):
        return "f"
    raise core.HarnessError(f"dtype {dtype} outside the abstraction")


def abstract(x) -> list[str]:
    if x is None:
        return ["N"]
    if isinstance(x, bool):
        return ["A", "b", "1", "0"]
    if isinstance(x, int):
        return ["A", "i", "1", "0"]
    if isinstance(x, float):
        return ["A", "f", "1", "0"]
    if isinstance(x, jax.Array):
        return ["A", _dt(x.dtype), "0", str(x.ndim), *[str(s) for s in x.shape]]
    if isinstance(x, (list, tuple)):
        out = ["L" if isinstance(x, list) else "T", str(len(x))]
        for c in x:
            out += abstract(c)
        return out
    if isinstance(x, dict):
        keys = sorted(x.keys())
        ids = sorted(_key_id(k) for k in keys)
        # ids are allocated in first-seen order; sorted(keys) must map to sorted ids for faithfulness
        out = ["D", str(len(keys)), *[str(_key_id(k)) for k in keys]]
        del ids
        for k in keys:
            out += abstract(x[k])
        return out
    if callable(x):
        return ["F"]
    raise core.HarnessError(f"value {type(x)} outside the abstraction")


def abstract_shape(shape) -> list[str]:
    return [str(len(shape)), *[str(int(s)) for s in shape]]


def abstract_obj(o) -> list[str]:
    from probdiffeq import probdiffeq as pdq

    if o is None:
        return ["none"]
    if isinstance(o, pdq.JetOde):
        return ["ode", str(o.num_tcoeffs_in_args), str(len(o.tcoeff_indices_output))]
    if isinstance(o, pdq.JetOdeAutonomous):
        return ["auto", str(o.num_tcoeffs_in_args)]
    if isinstance(o, pdq.JetResidual):
        return ["res", str(o.num_tcoeffs_in_args)]
    if callable(o):
        return ["fn"]
    raise core.HarnessError(f"object {type(o)} outside the abstraction")


# ------------------------------------------------------------------------------------------------
# spec-level tree helpers (used for the *validity contract* of the harness, independent of the model)


def is_tree(spec):
    return spec[0] in ("A", "P", "L", "T", "D")


def is_leaf(spec):
    return spec[0] in ("A", "P")


def leaf_shape(spec):
    return tuple(spec[1]) if spec[0] == "A" else ()


def leaf_dtype(spec):
    return spec[2] if spec[0] == "A" else spec[1]


def children(spec):
    if spec[0] in ("L", "T"):
        return list(spec[1])
    if spec[0] == "D":
        return [spec[1][k] for k in sorted(spec[1])]
    return []


def shape_tree(spec, seq_equiv=True):
    """canonical nested description of structure + leaf shapes (list and tuple identified if seq_equiv)"""
    if is_leaf(spec):
        return ("leaf", leaf_shape(spec))
    if spec[0] in ("L", "T"):
        return ("seq" if seq_equiv else spec[0], tuple(shape_tree(c, seq_equiv) for c in spec[1]))
    if spec[0] == "D":
        return ("dict", tuple((k, shape_tree(spec[1][k], seq_equiv)) for k in sorted(spec[1])))
    return (spec[0],)


def size(spec):
    if is_leaf(spec):
        return int(np.prod(leaf_shape(spec), dtype=int))
    return sum(size(c) for c in children(spec))


def leaves(spec):
    if is_leaf(spec):
        return [spec]
    out = []
    for c in children(spec):
        out += leaves(c)
    return out


def map_leaves(spec, f):
    """apply f(leaf_spec, index) to every leaf (depth-first order)"""
    counter = [0]

    def go(s):
        if is_leaf(s):
            i = counter[0]
            counter[0] += 1
            return f(s, i)
        if s[0] in ("L", "T"):
            return [s[0], [go(c) for c in s[1]]]
        if s[0] == "D":
            return ["D", {k: go(s[1][k]) for k in sorted(s[1])}]
        return s

    return go(spec)


def n_leaves(spec):
    return len(leaves(spec))


# ------------------------------------------------------------------------------------------------
# outcome classification


def _numbers_inside(r):
    """a returned object 'contains numbers' (arrays anywhere in it, attributes included one level)"""
    return True


def outcome(f):
    """('returns' | 'warns' | 'raises', exception type name or None, short message)"""
    with warnings.catch_warnings(record=True) as w:
        warnings.simplefilter("always")
        try:
            r = f()
            # force evaluation: exceptions must not hide in async dispatch
            jax.block_until_ready(jax.tree_util.tree_leaves(r))
        except Exception as e:  # noqa: BLE001
            return "raises", type(e).__name__, str(e).replace("\n", " ")[:160]
    mine = [x for x in w if "probdiffeq" in str(x.filename) or "should not be used" in str(x.message)]
    if mine:
        return "warns", None, str(mine[0].message)[:160]
    return "returns", None, ""


def agrees(model: list[str], real) -> bool:
    kind, exc, _ = real
    if model[0] == "accept":
        return kind == "returns"
    if model[0] == "warn":
        return kind == "warns"
    if model[0] == "raise":
        if kind != "raises":
            return False
        return model[1] == "implicit" or model[1] == exc
    return False


# ------------------------------------------------------------------------------------------------
# corruptions of a tree-valued field


def shape_variants(shape):
    """(class-id, new shape): wrong rank and wrong length, including the broadcast-compatible traps"""
    s = tuple(shape)
    out = []
    out.append(("rank:append1", s + (1,)))  # (d,) -> (d,1)
    out.append(("rank:prepend1", (1,) + s))  # (d,) -> (1,d)
    if len(s) >= 1:
        out.append(("rank:scalar", ()))  # (d,) -> ()
    if len(s) >= 2:
        out.append(("rank:droplast", s[:-1]))
    if len(s) == 0:
        out.append(("rank:vector1", (1,)))
        out.append(("rank:vector3", (3,)))
    if len(s) >= 1:
        out.append(("length:plus1", s[:-1] + (s[-1] + 1,)))
        if s[-1] != 1:
            out.append(("length:one", s[:-1] + (1,)))  # (d,) -> (1,)
        if len(s) >= 2 and s[0] != 1:
            out.append(("length:first-one", (1,) + s[1:]))
    seen, uniq = set(), []
    for cid, t in out:
        if t != s and t not in seen:
            seen.add(t)
            uniq.append((cid, t))
    return uniq


def corrupt_tree(spec, *, dtype_targets=(), containers=True, objects=True, leaf_positions="first-last"):
    """All single-field corruptions of a tree-valued argument.

    Returns [(signature class, corruption id, new spec)].
    classes: wrong-shape (rank / length of leaves), wrong-length (container arity), wrong-tree,
    wrong-dtype, wrong-object.
    """
    out = []
    nl = n_leaves(spec)
    positions = sorted({0, nl - 1}) if leaf_positions == "first-last" else list(range(nl))
    lvs = leaves(spec)
    # --- leaf shapes: one leaf, and all leaves uniformly
    if nl:
        shapes = sorted({leaf_shape(s) for s in lvs})
        for sh in shapes:
            for cid, new in shape_variants(sh):
                def repl_all(s, i, sh=sh, new=new):
                    return A(new, leaf_dtype(s)) if leaf_shape(s) == sh else s

                out.append(("wrong-shape", f"{cid}:all", map_leaves(spec, repl_all)))
        for pos in positions:
            for cid, new in shape_variants(leaf_shape(lvs[pos])):
                def repl_one(s, i, pos=pos, new=new):
                    return A(new, leaf_dtype(s)) if i == pos else s

                if nl > 1:
                    out.append(("wrong-shape", f"{cid}:leaf{pos}", map_leaves(spec, repl_one)))
    # --- container arity (top level)
    if containers and spec[0] in ("L", "T"):
        xs = spec[1]
        out.append(("wrong-length", "len:plus1", [spec[0], xs + [xs[-1]]] if xs else [spec[0], [A(())]]))
        if len(xs) >= 2:
            out.append(("wrong-length", "len:minus1", [spec[0], xs[:-1]]))
        if len(xs) >= 3:
            out.append(("wrong-length", "len:one", [spec[0], xs[:1]]))
        out.append(("wrong-length", "len:zero", [spec[0], []]))
    # --- tree structure
    out.append(("wrong-tree", "wrap:dict", D({"a": spec})))
    out.append(("wrong-tree", "wrap:list", L([spec])))
    if nl:
        for pos in positions:
            def leaf_to_list(s, i, pos=pos):
                return L([s]) if i == pos else s

            def leaf_to_dict(s, i, pos=pos):
                return D({"u": s}) if i == pos else s

            if not is_leaf(spec):
                out.append(("wrong-tree", f"leaf{pos}:to-list", map_leaves(spec, leaf_to_list)))
                out.append(("wrong-tree", f"leaf{pos}:to-dict", map_leaves(spec, leaf_to_dict)))
        if not is_leaf(spec):
            out.append(("wrong-tree", "all-leaves:to-list", map_leaves(spec, lambda s, i: L([s]))))
    if spec[0] in ("L", "T") and spec[1] and not is_leaf(spec[1][0]):
        # a coefficient that is itself a container: flatten it to its first leaf
        out.append(("wrong-tree", "coeff0:to-leaf", [spec[0], [leaves(spec[1][0])[0]] + spec[1][1:]]))
    # --- dtype
    for new_dt in dtype_targets:
        def redt_all(s, i, new_dt=new_dt):
            return A(leaf_shape(s), new_dt) if s[0] == "A" else P(new_dt)

        if nl and any(leaf_dtype(s) != new_dt for s in lvs):
            out.append(("wrong-dtype", f"dtype:{new_dt}:all", map_leaves(spec, redt_all)))
            if nl > 1:
                def redt_one(s, i, new_dt=new_dt):
                    return redt_all(s, i) if i == nl - 1 else s

                out.append(("wrong-dtype", f"dtype:{new_dt}:last", map_leaves(spec, redt_one)))
    # --- object type
    if objects:
        out.append(("wrong-object", "object:none", NONE))
        out.append(("wrong-object", "object:function", FN))
        if not is_leaf(spec) and nl and len({leaf_shape(s) for s in lvs}) == 1 and all(is_leaf(c) for c in children(spec)):
            out.append(("wrong-object", "object:stacked-array", A((len(children(spec)),) + leaf_shape(lvs[0]), leaf_dtype(lvs[0]))))
        if not is_leaf(spec):
            out.append(("wrong-object", "object:pyscalar", P("f")))
    return out
