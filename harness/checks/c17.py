"""C17 — Jacobian handlers return exact or exactly-unbiased Jacobian blocks.

Correspondence: the real `jacobian_materialize`, `jacobian_monte_carlo_fwd`, `jacobian_monte_carlo_rev`
(probdiffeq/_probdiffeq/jacobians.py) are called in-process on random polynomial maps
`(n_in, d) -> (n_out, d)` (integer coefficients, degree <= 3, dyadic evaluation points, so every number
involved is an exactly representable dyadic rational).  The exact Jacobian tensor `J[n_out,d,n_in,d]` is
computed on the Python side with `Fraction`s (symbolic differentiation of the monomials) and handed to the
Lean model (`Pdq.Model.Jacobian`, executed by `pdqdrv`), whose outputs are the exact blocks / unbiased
estimators by the theorems of `Pdq/Props/C17.lean`.

`probdiffeq.backend.random.rademacher` (the attribute `jacobians.py` calls: it does
`from probdiffeq.backend import random` and `random.rademacher(...)`) is replaced *inside this process* by an
enumerator that feeds each of the 2^(n*d) sign probes, one at a time, to the handler with `num_probes=1`; each
single-probe output is compared with the model on the same probe, the mean over the full enumeration with
the exact block.  A spy around the real `rademacher` checks key handling with the real RNG.
"""

from __future__ import annotations

import contextlib
from fractions import Fraction

import numpy as np

from harness import core
from harness.core import Cut, F

PROPS_MODULES = ["Pdq.Props.C17"]
LEVEL = "proof"
EXPLANATION = (
    "Theorems: exact blocks of the materialising handler (values and layout), Rademacher second moment, "
    "sum over all sign probes of each of the four single-probe estimators = 2^k x exact block (any commutative ring, "
    "all sizes), average over all s-tuples of probes of the num_probes=s handler = exact block (any field with s, 2 "
    "invertible), decision table of _verify_fun_and_x. Correspondence: real handlers vs. the executed model on polynomial "
    "maps with exact rational Jacobians, full probe enumeration."
)

# All inputs are dyadic with few bits, so the implementation's float arithmetic is exact for the
# single-probe estimators and for means over 2^k probes: observed deviation on the clean tree is 0.0.
# Means over s in {3,5,..} probes divide by a non-power of two: one rounding (~1e-16 relative).
TOL = 1e-12  # relative to (1 + sum |J|), an upper bound of every estimator entry

KINDS = [("fwd", "trace"), ("fwd", "diag"), ("rev", "trace"), ("rev", "diag")]


# ------------------------------------------------------------------------------------------------
# polynomial maps with exact Jacobians


def gen_poly(rng, n_in, n_out, d):
    """polys[m][d'] = list of (coefficient, [flat variable indices]); variable (n, dd) has index n*d+dd."""
    nv = n_in * d
    polys = []
    for _m in range(n_out):
        row = []
        for dp in range(d):
            monos = []
            # one monomial that certainly involves a same-dimension variable (non-zero diagonal block) ...
            n_star = int(rng.integers(0, n_in))
            extra = [int(v) for v in rng.integers(0, nv, size=int(rng.integers(0, 3)))]
            monos.append((int(rng.choice([-3, -2, -1, 1, 2, 3])), [n_star * d + dp] + extra))
            # ... and up to three arbitrary ones (couplings across dimensions: off-diagonal blocks non-zero)
            for _ in range(int(rng.integers(0, 4))):
                deg = int(rng.integers(0, 4))
                monos.append(
                    (int(rng.choice([-3, -2, -1, 1, 2, 3])), [int(v) for v in rng.integers(0, nv, size=deg)])
                )
            row.append(monos)
        polys.append(row)
    return polys


def exact_eval(polys, xf, gain):
    """f(x) as nested list [n_out][d] of Fractions."""
    out = []
    for row in polys:
        r = []
        for monos in row:
            acc = Fraction(0)
            for c, vs in monos:
                t = Fraction(c)
                for v in vs:
                    t *= xf[v]
                acc += t
            r.append(gain * acc)
        out.append(r)
    return out


def exact_jac(polys, xf, gain, n_in, n_out, d):
    """J[m][d'][n][dd] (object ndarray of Fractions)."""
    J = np.empty((n_out, d, n_in, d), dtype=object)
    J[...] = Fraction(0)
    for m, row in enumerate(polys):
        for dp, monos in enumerate(row):
            for c, vs in monos:
                for pos, v in enumerate(vs):
                    t = Fraction(c)
                    for pos2, v2 in enumerate(vs):
                        if pos2 != pos:
                            t *= xf[v2]
                    J[m, dp, v // d, v % d] += gain * t
    return J


def jax_fun(polys, n_in, n_out, d):
    """The map as a jax function of an (n_in, d) array (and a keyword argument `gain`).  Vectorised so that
    tracing is cheap: monomial t = product of three entries of [x.reshape(-1), 1], f = gain * (C @ monomials)."""
    import jax.numpy as jnp

    nv = n_in * d
    idx, rows, coefs = [], [], []
    for m, row in enumerate(polys):
        for dp, monos in enumerate(row):
            for c, vs in monos:
                assert len(vs) <= 3
                idx.append(list(vs) + [nv] * (3 - len(vs)))
                rows.append(m * d + dp)
                coefs.append(float(c))
    idx = np.asarray(idx, dtype=np.int64).reshape(-1, 3)
    C = np.zeros((n_out * d, len(rows)))
    for t, (r, c) in enumerate(zip(rows, coefs)):
        C[r, t] = c

    def fun(x, *, gain=1.0):
        xe = jnp.concatenate([jnp.reshape(x, (-1,)), jnp.ones((1,), dtype=x.dtype)])
        mono = xe[idx[:, 0]] * xe[idx[:, 1]] * xe[idx[:, 2]]
        return gain * jnp.reshape(jnp.asarray(C, dtype=x.dtype) @ mono, (n_out, d))

    return fun


def fl(a):
    return np.array([float(x) for x in np.asarray(a, dtype=object).reshape(-1)], dtype=np.float64).reshape(np.shape(a))


# ------------------------------------------------------------------------------------------------
# probes


def all_probes(n, d):
    """(2^k, n, d) array of +-1; probe p has entry j (row-major) = +1 iff bit j of p is set."""
    k = n * d
    p = np.arange(2**k, dtype=np.int64)[:, None]
    bits = (p >> np.arange(k, dtype=np.int64)[None, :]) & 1
    return (2.0 * bits - 1.0).reshape(2**k, n, d)


def probe_tokens(V):
    return " ".join("1" if v > 0 else "-1" for v in np.asarray(V).reshape(-1))


@contextlib.contextmanager
def patched_rademacher(replacement):
    """Replace the attribute that jacobians.py actually calls; always restored."""
    import probdiffeq.backend.random as backend_random
    from probdiffeq._probdiffeq import jacobians

    if jacobians.random is not backend_random:
        raise core.HarnessError("jacobians.py no longer calls probdiffeq.backend.random (patch point moved)")
    original = backend_random.rademacher
    backend_random.rademacher = replacement
    try:
        yield original
    finally:
        backend_random.rademacher = original


# ------------------------------------------------------------------------------------------------
# comparison


def cmp_array(ctx, name, impl, model, shape, scale, case, sig, tol=TOL):
    """impl: array from the implementation; model: exact values (object array / list) of `shape`."""
    impl = np.asarray(impl)
    if tuple(impl.shape) != tuple(shape):
        ctx.violation(
            sig + ":layout",
            f"{name}: implementation returned shape {tuple(impl.shape)}, the exact block has layout {tuple(shape)}",
            case,
            theorem="Pdq.C17.materialize_blocks / *_unbiased (layout (n_out,n_in) resp. (d,n_out,n_in))",
        )
        return False
    mod = fl(np.asarray(model, dtype=object).reshape(shape))
    impl = impl.astype(np.float64)
    if not np.all(np.isfinite(impl)):
        ctx.violation(sig, f"{name}: implementation returned non-finite values", case)
        return False
    dev = float(np.max(np.abs(impl - mod)) / scale) if impl.size else 0.0
    return ctx.dev(
        name, dev, tol, case=case, sig=sig,
        what=f"{name}: deviation {dev:.3e} (relative to 1+sum|J|) > {tol:.0e} between implementation and exact model",
    )


def model_blocks(ctx, J, n_out, n_in, d):
    c = Cut(ctx.drv.call("jac_blocks", n_out, n_in, d, J))
    tr = c.take(n_out, n_in)
    dg = c.take(d, n_out, n_in)
    flat = c.take(n_out * d, n_in * d)
    dense = c.take(n_out, d, n_in, d)
    c.done()
    return tr, dg, flat, dense


def out_shape(what, n_out, n_in, d):
    return (n_out, n_in) if what == "trace" else (d, n_out, n_in)


def model_est(ctx, mode, what, J, V, n_out, n_in, d, each=False):
    """model estimator for probes V (s, n, d); each=True: every probe on its own with num_probes=1."""
    s = V.shape[0]
    op = f"jac_{mode}_{what}" + ("_each" if each else "")
    ans = ctx.drv.call(op, n_out, n_in, d, s, J, probe_tokens(V))
    shp = out_shape(what, n_out, n_in, d)
    c = Cut(ans)
    out = c.take(*((s,) + shp)) if each else c.take(*shp)
    c.done()
    return out


# ------------------------------------------------------------------------------------------------
# one polynomial map: all handlers


class Problem:
    def __init__(self, n_in, n_out, d, polys, x, gain):
        import jax.numpy as jnp

        self.n_in, self.n_out, self.d, self.polys, self.gain = n_in, n_out, d, polys, gain
        self.x_np = np.asarray(x, dtype=np.float64).reshape(n_in, d)
        self.x = jnp.asarray(self.x_np)
        xf = [F(v) for v in self.x_np.reshape(-1)]
        g = F(gain)
        self.fx_exact = exact_eval(polys, xf, g)
        self.J = exact_jac(polys, xf, g, n_in, n_out, d)
        self.scale = 1.0 + float(sum(abs(v) for v in self.J.reshape(-1)))
        self.fun = jax_fun(polys, n_in, n_out, d)
        self.desc = {
            "n_in": n_in, "n_out": n_out, "d": d, "gain": gain,
            "x": self.x_np.tolist(), "polys": polys,
            "how": "fun(x)[m,d'] = gain * sum_(c,vars) c * prod_v x.reshape(-1)[v]; polys[m][d'] = [(c, vars), ...] (see c17.jax_fun)",
        }

    def kwargs(self):
        return {"gain": self.gain}


def handler_of(mode, num_probes=1, seed=1):
    from probdiffeq._probdiffeq import jacobians

    if mode == "mat":
        return jacobians.jacobian_materialize()
    cls = jacobians.jacobian_monte_carlo_fwd if mode == "fwd" else jacobians.jacobian_monte_carlo_rev
    return cls(seed=seed, num_probes=num_probes)


def method_of(handler, what):
    return {
        "trace": handler.calculate_trace_along_d,
        "diag": handler.calculate_diagonal_along_d,
        "dense": handler.materialize_dense,
    }[what]


def check_fx(ctx, pb, fx, tag, sig):
    cmp_array(ctx, "fx", fx, np.array(pb.fx_exact, dtype=object), (pb.n_out, pb.d), 1.0 + float(
        max(abs(v) for r in pb.fx_exact for v in r)), {**pb.desc, **tag}, sig + ":fx")


def check_materialize(ctx, pb):
    """jacobian_materialize (all three methods), materialize_dense of the two Monte-Carlo handlers,
    and the contractions the three consumers apply to the returned blocks."""
    n_in, n_out, d = pb.n_in, pb.n_out, pb.d
    tr, dg, flat, dense = model_blocks(ctx, pb.J, n_out, n_in, d)
    # the model's dense tensor is the input (sanity of the wire format)
    if any(a != b for a, b in zip(dense.reshape(-1), pb.J.reshape(-1))):
        raise core.HarnessError("jac_blocks: dense tensor does not round-trip")
    case = pb.desc
    h = handler_of("mat")
    st0 = h.init_jacobian_handler()
    if st0 != ():
        ctx.violation("mat:state", f"jacobian_materialize.init_jacobian_handler returned {st0!r}, expected ()", case)
    fx, J_impl, st = h.materialize_dense(pb.fun, pb.x, st0, **pb.kwargs())
    check_fx(ctx, pb, fx, {"handler": "mat", "method": "dense"}, "mat:dense")
    ok = cmp_array(ctx, "mat.dense", J_impl, dense, (n_out, d, n_in, d), pb.scale, {**case, "handler": "mat", "method": "dense"}, "mat:dense")
    if ok:
        # DenseResidual.linearize: J.reshape((m*d, -1)) — row-major in both index pairs
        cmp_array(ctx, "mat.dense.reshape", np.asarray(J_impl).reshape((n_out * d, -1)), flat, (n_out * d, n_in * d), pb.scale, {**case, "handler": "mat", "method": "dense.reshape"}, "mat:dense:reshape")
    if st != st0:
        ctx.violation("mat:state", "jacobian_materialize.materialize_dense changed the state", case)
    fx, T_impl, st = h.calculate_trace_along_d(pb.fun, pb.x, st0, **pb.kwargs())
    check_fx(ctx, pb, fx, {"handler": "mat", "method": "trace"}, "mat:trace")
    ok = cmp_array(ctx, "mat.trace", T_impl, tr, (n_out, n_in), pb.scale, {**case, "handler": "mat", "method": "trace"}, "mat:trace")
    if ok:
        # IsotropicResidual.linearize: linop @ rv.mean_flat with linop = J_trace / d
        got = (np.asarray(T_impl) / d) @ pb.x_np
        xq = [[F(v) for v in r] for r in pb.x_np]
        want = [[sum(tr[m, n] * xq[n][dd] for n in range(n_in)) / d for dd in range(d)] for m in range(n_out)]
        cmp_array(ctx, "consumer.iso", got, np.array(want, dtype=object), (n_out, d), pb.scale * 4, {**case, "consumer": "isotropic"}, "consumer:iso")
    if st != st0:
        ctx.violation("mat:state", "jacobian_materialize.calculate_trace_along_d changed the state", case)
    fx, D_impl, st = h.calculate_diagonal_along_d(pb.fun, pb.x, st0, **pb.kwargs())
    check_fx(ctx, pb, fx, {"handler": "mat", "method": "diag"}, "mat:diag")
    ok = cmp_array(ctx, "mat.diag", D_impl, dg, (d, n_out, n_in), pb.scale, {**case, "handler": "mat", "method": "diag"}, "mat:diag")
    if ok:
        # BlockDiagResidual.linearize: einsum("din,dn->di", linop, rv.mean_flat) with mean_flat = x.T
        got = np.einsum("din,dn->di", np.asarray(D_impl), pb.x_np.T)
        xq = [[F(v) for v in r] for r in pb.x_np]
        want = [[sum(dg[dd, m, n] * xq[n][dd] for n in range(n_in)) for m in range(n_out)] for dd in range(d)]
        cmp_array(ctx, "consumer.blockdiag", got, np.array(want, dtype=object), (d, n_out), pb.scale * 4, {**case, "consumer": "blockdiag"}, "consumer:blockdiag")
    if st != st0:
        ctx.violation("mat:state", "jacobian_materialize.calculate_diagonal_along_d changed the state", case)
    # materialize_dense of the stochastic handlers: exact, deterministic, state passed through
    for mode in ("fwd", "rev"):
        hm = handler_of(mode)
        key = hm.init_jacobian_handler()
        fx, J_impl, key2 = hm.materialize_dense(pb.fun, pb.x, key, **pb.kwargs())
        check_fx(ctx, pb, fx, {"handler": mode, "method": "dense"}, f"{mode}:dense")
        cmp_array(ctx, f"{mode}.dense", J_impl, dense, (n_out, d, n_in, d), pb.scale, {**case, "handler": mode, "method": "dense"}, f"{mode}:dense")
        if not np.array_equal(np.asarray(key), np.asarray(key2)):
            ctx.count("note: MC materialize_dense changed its key")
    ctx.count("materialize cases")
    ctx.case({"what": "materialize+consumers", **case}, nontrivial=(n_in * n_out * d >= 2), sample={"what": "materialize", "n_in": n_in, "n_out": n_out, "d": d})
    return tr, dg


def check_enumeration(ctx, pb, mode, what, exact_block, kmax, full_each, eager):
    """Feed every sign probe, one at a time with num_probes=1, through the real handler.

    The handler code runs under `jax.jit` (one compilation per probe count, then one call per probe); with
    `eager=True` a few probes additionally go through plain eager calls, exactly as a user would call it, and
    must give bit-identical results."""
    import jax
    import jax.numpy as jnp

    n_in, n_out, d = pb.n_in, pb.n_out, pb.d
    n = n_in if mode == "fwd" else n_out
    k = n * d
    sig = f"{mode}:{what}"
    case0 = {**pb.desc, "handler": mode, "method": what}
    if k > kmax:
        ctx.skip(f"full enumeration: probe space 2^{k} above the tier limit 2^{kmax}")
        return
    shp = out_shape(what, n_out, n_in, d)
    P = all_probes(n, d)
    nP = P.shape[0]
    key = handler_of(mode).init_jacobian_handler()
    xdtype = np.dtype(pb.x_np.dtype)

    def runner(s):
        """(probes (s,n,d), key) -> handler output with num_probes = s and the given probes; jitted."""
        h = handler_of(mode, num_probes=s)
        holder = {"v": None, "requests": []}

        def fake(key_, /, shape, dtype):
            holder["requests"].append((tuple(shape), np.dtype(dtype)))
            return jnp.reshape(holder["v"], shape).astype(dtype)

        def call(v, key_):
            holder["v"] = v
            with patched_rademacher(fake):
                return method_of(h, what)(pb.fun, pb.x, key_, **pb.kwargs())

        return call, jax.jit(call), holder

    def requests_ok(holder, s):
        want = ((s, n, d), xdtype)
        if not holder["requests"] or any(r != want for r in holder["requests"]):
            ctx.violation(sig + ":probe-request", f"handler (num_probes={s}) requested probes {set(holder['requests'])}, expected shape {want[0]} dtype {want[1]}", case0)
            return False
        return True

    call1, jcall1, holder1 = runner(1)
    outs = np.empty((nP,) + shp, dtype=np.float64)
    n_loop = nP if nP <= 4096 else 1024
    for i in range(n_loop):
        fx, est, _ = jcall1(jnp.asarray(P[i : i + 1]), key)
        est = np.asarray(est)
        if est.shape != shp:
            ctx.violation(sig + ":layout", f"{mode}.{what}: implementation returned shape {est.shape}, the exact block has layout {shp}", case0,
                          theorem=f"Pdq.C17.{mode}_{what}_unbiased")
            return
        outs[i] = est
    if n_loop < nP:
        # above 2^12 probes (thorough tier): the remaining probes still go through the handler one probe per
        # call (num_probes=1, probe array of shape (1,n,d)), but the calls are batched with jax.vmap
        vcall = jax.jit(jax.vmap(call1, in_axes=(0, None)))
        for lo in range(n_loop, nP, 8192):
            _, est, _ = vcall(jnp.asarray(P[lo : lo + 8192, None]), key)
            outs[lo : lo + 8192] = np.asarray(est)
        ctx.count("probes fed through vmap-batched single-probe calls", nP - n_loop)
    if not requests_ok(holder1, 1):
        return
    check_fx(ctx, pb, fx, {"handler": mode, "method": what}, sig)
    if eager:
        for i in sorted({0, int(ctx.rng.integers(0, nP))}):
            _, est, _ = call1(jnp.asarray(P[i : i + 1]), key)
            if np.shape(est) != shp or not np.array_equal(np.asarray(est), outs[i]):
                raise core.HarnessError(f"eager and jitted handler calls disagree for probe {i} ({mode}.{what})")
        ctx.count("eager cross-checks (enumeration)")
    # model on the same probes
    idx = np.arange(nP) if (full_each or nP <= 4096) else np.unique(
        np.concatenate([[0, nP - 1], ctx.rng.integers(0, nP, size=4096)]))
    CH = 4096
    worst, worst_i = 0.0, None
    for lo in range(0, len(idx), CH):
        sub = idx[lo : lo + CH]
        mod = fl(model_est(ctx, mode, what, pb.J, P[sub], n_out, n_in, d, each=True))
        dv = np.abs(outs[sub] - mod).reshape(len(sub), -1).max(axis=1) / pb.scale
        j = int(np.argmax(dv))
        if dv[j] > worst or worst_i is None:
            worst, worst_i = float(dv[j]), int(sub[j])
    ctx.dev(
        f"{mode}.{what}.single_probe", worst, TOL,
        case={**case0, "probe": P[worst_i].tolist(), "impl": outs[worst_i].tolist()},
        sig=sig + ":single-probe",
        what=f"{mode}.{what}: single-probe output deviates from the model's estimator on the same probe by {worst:.3e} (rel. to 1+sum|J|)",
    )
    ctx.count(f"{mode}.{what}: probes compared one by one", len(idx))
    # mean over the full enumeration = exact block (Python Fractions), = model mean with s = 2^k (if affordable)
    mean_impl = outs.mean(axis=0)
    cmp_array(ctx, f"{mode}.{what}.full_mean_vs_exact_block", mean_impl, exact_block, shp, pb.scale,
              {**case0, "mean_over": f"all 2^{k} probes", "impl_mean": mean_impl.tolist()}, sig + ":full-mean")
    if nP <= 4096:
        mod_mean = model_est(ctx, mode, what, pb.J, P, n_out, n_in, d)
        if any(a != b for a, b in zip(mod_mean.reshape(-1), np.asarray(exact_block, dtype=object).reshape(-1))):
            raise core.HarnessError("model mean over all probes differs from the exact block (contradicts the theorem)")
        # the handler itself with num_probes = 2^k and all probes at once: np.mean over the s axis
        _, jcall_all, holder_all = runner(nP)
        _, est, _ = jcall_all(jnp.asarray(P), key)
        if requests_ok(holder_all, nP):
            cmp_array(ctx, f"{mode}.{what}.num_probes=2^k", est, exact_block, shp, pb.scale,
                      {**case0, "num_probes": nP, "probes": "all, in one call"}, sig + ":mean-all-at-once")
    # a few probes at once, s not a power of two (tests the denominator of the mean)
    s = int(ctx.rng.choice([2, 3, 5, 6, 7]))
    sel = ctx.rng.integers(0, nP, size=s)
    call_s, jcall_s, holder_s = runner(s)
    _, est, _ = (call_s if eager else jcall_s)(jnp.asarray(P[sel]), key)
    if requests_ok(holder_s, s):
        mod = model_est(ctx, mode, what, pb.J, P[sel], n_out, n_in, d)
        cmp_array(ctx, f"{mode}.{what}.num_probes=s", est, mod, shp, pb.scale,
                  {**case0, "num_probes": s, "probes": P[sel].tolist()}, sig + ":mean-s")
    ctx.count(f"enumerated k={k}")
    ctx.case({"what": "enumeration", "handler": mode, "method": what, **pb.desc}, nontrivial=(k >= 2),
             sample={"what": "enumeration", "handler": mode, "method": what, "n_in": n_in, "n_out": n_out, "d": d, "probes": nP})


def check_keys(ctx, pb, mode, what, eager):
    """Real RNG (a spy that delegates to the real rademacher): key advanced on every call, probes drawn from a
    fresh subkey, output = model estimator on the probes actually drawn."""
    import jax
    import jax.numpy as jnp
    import probdiffeq.backend.random as backend_random

    n_in, n_out, d = pb.n_in, pb.n_out, pb.d
    n = n_in if mode == "fwd" else n_out
    s = int(ctx.rng.choice([1, 2, 3, 4]))
    seed = int(ctx.rng.integers(0, 1000))
    h = handler_of(mode, num_probes=s, seed=seed)
    sig = f"{mode}:{what}:key"
    case = {**pb.desc, "handler": mode, "method": what, "num_probes": s, "seed": seed}
    key0 = h.init_jacobian_handler()
    if not np.array_equal(np.asarray(key0), np.asarray(jax.random.PRNGKey(seed))):
        ctx.violation(sig + ":init", "init_jacobian_handler does not return prng_key(seed)", case)
    original = backend_random.rademacher
    static = {}

    def raw(k_):
        k_ = jnp.asarray(k_)
        if jnp.issubdtype(k_.dtype, jax.dtypes.prng_key):
            k_ = jax.random.key_data(k_)
        return tuple(int(v) for v in np.asarray(k_).reshape(-1))

    def call(key_):
        rec = {}

        def spy(k_, /, shape, dtype):
            v = original(k_, shape=shape, dtype=dtype)
            rec["key"], rec["v"] = k_, v
            static["shape"] = tuple(shape)
            static["draws"] = static.get("draws", 0) + 1
            return v

        static["draws"] = 0
        with patched_rademacher(spy):
            fx, est, key_new = method_of(h, what)(pb.fun, pb.x, key_, **pb.kwargs())
        if "v" not in rec:
            return fx, est, key_new, key_new, jnp.zeros(())
        return fx, est, key_new, rec["key"], rec["v"]

    jcall = jax.jit(call)
    keys, subkeys = [raw(key0)], []
    key = key0
    ncalls = 4
    for call_no in range(ncalls):
        fx, est, key_new, subkey, V = jcall(key)
        if static.get("draws", 0) != 1 and call_no == 0:
            ctx.violation(sig + ":draws", f"{mode}.{what} drew Rademacher probes {static.get('draws', 0)} times per call, expected once", case)
            return
        if static["shape"] != (s, n, d):
            ctx.violation(sig + ":probe-request", f"probes requested with shape {static['shape']}, expected {(s, n, d)}", case)
            return
        if call_no == 0 and eager:
            # the same call, nothing patched, no jit: deterministic given the key
            fx2, est2, key_new2 = method_of(h, what)(pb.fun, pb.x, key, **pb.kwargs())
            if not (np.array_equal(np.asarray(est), np.asarray(est2)) and raw(key_new) == raw(key_new2)):
                raise core.HarnessError("spy/jit changed the behaviour of the handler")
            ctx.count("eager cross-checks (real RNG)")
        V = np.asarray(V, dtype=np.float64)
        if V.shape != (s, n, d) or not np.all(np.abs(V) == 1.0):
            raise core.HarnessError("real rademacher returned non-signs")
        mod = model_est(ctx, mode, what, pb.J, V, n_out, n_in, d)
        cmp_array(ctx, f"{mode}.{what}.real_rng", est, mod, out_shape(what, n_out, n_in, d), pb.scale,
                  {**case, "call": call_no, "probes": V.tolist()}, f"{mode}:{what}:real-rng")
        kn, ks = raw(key_new), raw(subkey)
        if kn == keys[-1]:
            ctx.violation(sig + ":not-advanced", f"{mode}.{what}: returned key equals the key passed in (call {call_no}): the next call would reuse the same probes", {**case, "call": call_no, "key": list(kn)})
            return
        if ks == keys[-1]:
            ctx.violation(sig + ":draw-from-carried-key", f"{mode}.{what}: probes drawn from the carried key itself instead of a split-off subkey", {**case, "call": call_no})
            return
        if ks == kn:
            ctx.violation(sig + ":subkey-returned", f"{mode}.{what}: the key returned is the subkey the probes were drawn from", {**case, "call": call_no})
            return
        keys.append(kn)
        subkeys.append(ks)
        key = key_new
        check_fx(ctx, pb, fx, {"handler": mode, "method": what, "real_rng": True}, f"{mode}:{what}")
    if len(set(keys)) != len(keys) or len(set(subkeys)) != len(subkeys) or set(keys) & set(subkeys):
        ctx.violation(sig + ":repeat", f"{mode}.{what}: keys repeat over {ncalls} successive calls: carried {keys}, used {subkeys}", case)
    ctx.count(f"real-RNG calls ({mode}.{what})", ncalls)
    ctx.case({"what": "keys", "handler": mode, "method": what, "seed": seed, "s": s, **pb.desc}, nontrivial=True)


# ------------------------------------------------------------------------------------------------
# _verify_fun_and_x


def shape_tokens(is_arr, shape):
    return [1 if is_arr else 0, len(shape), *[int(v) for v in shape]]


def check_verify(ctx, x_kind, x_shape, f_kind, f_shape, which=None):
    """x_kind in {'jax','numpy','list','tuple','scalar'}; f_kind in {'array','tuple','list','dict','none'}."""
    import jax
    import jax.numpy as jnp

    from probdiffeq._probdiffeq import jacobians

    x_np = (np.arange(int(np.prod(x_shape)), dtype=np.float64).reshape(x_shape) + 1.0) / 4.0
    if x_kind == "jax":
        x = jnp.asarray(x_np)
    elif x_kind == "numpy":
        x = x_np
    elif x_kind == "list":
        x = x_np.tolist()
    elif x_kind == "tuple":
        x = (jnp.asarray(x_np),)
    else:
        x = float(x_np.reshape(-1)[0]) if x_np.size else 0.0
    x_is_arr = isinstance(x, jax.Array)

    def fun(s, **_kw):
        z = jnp.zeros(f_shape)
        if f_kind == "array":
            return z
        if f_kind == "tuple":
            return (z,)
        if f_kind == "list":
            return [z]
        if f_kind == "dict":
            return {"a": z}
        return None

    f_is_arr = f_kind == "array"
    ans = ctx.drv.call_raw("jac_verify", *shape_tokens(x_is_arr, x_shape if x_is_arr else ()), *shape_tokens(f_is_arr, f_shape if f_is_arr else ()))
    expected = ans[0]
    case = {"x_kind": x_kind, "x_shape": list(x_shape), "fun_returns": f_kind, "f_shape": list(f_shape), "model": " ".join(ans)}
    handlers = [("mat", handler_of("mat")), ("fwd", handler_of("fwd", num_probes=2)), ("rev", handler_of("rev", num_probes=2))]
    methods = ["dense", "trace", "diag"]
    todo = [(hn, h, m) for hn, h in handlers for m in methods]
    if which is not None:
        todo = [todo[i % len(todo)] for i in which]
    # the decision function itself
    try:
        got = handlers[0][1]._verify_fun_and_x(fun, x)
        observed = "accept " + " ".join(str(int(v)) for v in got)
    except (TypeError, ValueError) as e:
        observed = type(e).__name__ if str(e).startswith("'fun' must map") else f"{type(e).__name__}(foreign: {str(e)[:80]})"
    if observed != " ".join(ans):
        ctx.violation(f"verify:direct:{expected}", f"_verify_fun_and_x: implementation {observed!r}, model {' '.join(ans)!r}", case,
                      theorem="Pdq.C17.verify_shapes")
    for hn, h, m in todo:
        state = h.init_jacobian_handler()
        try:
            out = method_of(h, m)(fun, x, state)
            observed = "accept"
            if expected == "accept":
                n_in, n_out, d = (int(t) for t in ans[1:])
                shp = {"dense": (n_out, d, n_in, d), "trace": (n_out, n_in), "diag": (d, n_out, n_in)}[m]
                if tuple(np.shape(out[1])) != shp:
                    ctx.violation(f"verify:{hn}:{m}:layout", f"{hn}.{m} on a constant map returned shape {np.shape(out[1])}, expected {shp}", case)
        except (TypeError, ValueError) as e:
            observed = type(e).__name__
            if not str(e).startswith("'fun' must map"):
                observed += "(foreign)"
                case = {**case, "foreign_message": str(e)[:200]}
        if observed != expected:
            ctx.violation(
                f"verify:{hn}:{m}:{expected}->{observed}",
                f"{hn}.{m}: implementation {observed}, model decision {expected} for x {x_kind}{tuple(x_shape)}, fun -> {f_kind}{tuple(f_shape)}",
                case, theorem="Pdq.C17.verify_shapes",
            )
    ctx.count(f"verify expected={expected}")
    ctx.count(f"verify x={x_kind}")
    ctx.count(f"verify f(x)={f_kind}")
    ctx.count(f"verify ranks x:{len(x_shape)} f(x):{len(f_shape)}")
    ctx.case({"what": "verify", **case}, nontrivial=True)


VERIFY_FIXED = [
    ("jax", (3, 2), "array", (4, 2)),  # accepted, non-square
    ("jax", (1, 1), "array", (1, 1)),
    ("jax", (3, 2), "array", (4, 3)),  # trailing dimension differs
    ("jax", (3, 2), "array", (2, 3)),  # transposed output
    ("jax", (3, 3), "array", (4, 2)),  # trailing dimension of x larger
    ("jax", (3, 1), "array", (4, 2)),  # trailing dimensions broadcastable, not equal
    ("jax", (3, 2), "array", (4, 1)),
    ("jax", (2, 2), "array", (2, 2)),  # accepted, square
    ("jax", (6,), "array", (4, 2)),  # x 1-d
    ("jax", (3, 2), "array", (8,)),  # f(x) 1-d
    ("jax", (), "array", (4, 2)),  # x 0-d
    ("jax", (3, 2), "array", ()),  # f(x) 0-d
    ("jax", (3, 2, 1), "array", (4, 2)),  # x 3-d
    ("jax", (3, 2), "array", (4, 2, 1)),  # f(x) 3-d
    ("jax", (2, 3, 2), "array", (2, 4, 2)),  # batched both
    ("numpy", (3, 2), "array", (4, 2)),  # numpy array is not a jax Array
    ("list", (3, 2), "array", (4, 2)),
    ("tuple", (3, 2), "array", (4, 2)),
    ("scalar", (), "array", (4, 2)),
    ("jax", (3, 2), "tuple", (4, 2)),
    ("jax", (3, 2), "list", (4, 2)),
    ("jax", (3, 2), "dict", (4, 2)),
    ("jax", (3, 2), "none", (4, 2)),
    ("list", (3,), "tuple", (4,)),  # both wrong: TypeError wins over ValueError
    ("jax", (3,), "tuple", (4, 2)),
]


# ------------------------------------------------------------------------------------------------


def guarded(ctx, sig, case, f, *args):
    """Run one sub-check; an exception raised by the implementation on a valid input is a violation
    (machinery problems are HarnessError / ModelError and propagate)."""
    try:
        return f(ctx, *args)
    except (core.HarnessError, core.ModelError):
        raise
    except Exception as e:  # noqa: BLE001
        import traceback

        tb = traceback.extract_tb(e.__traceback__)
        where = next((f"{fr.filename.split('/')[-1]}:{fr.lineno}" for fr in reversed(tb) if "jacobians.py" in fr.filename), "?")
        ctx.violation(sig + ":exception", f"{sig}: the handler raised {type(e).__name__}: {str(e)[:300]} (at {where}) on a valid input", case)
        return None


def corpus(ctx, kmax):
    """Fixed minimal cases first (no past failures of the real code are known for C17; these are the
    smallest inputs that expose each mutation of the catalogue: non-square, d >= 2, cross-dimension coupling)."""
    # f[0,0] = x00*x11 + 2*x10, f[0,1] = 3*x01*x00 - x11 ; n_in=2, n_out=1, d=2
    polys = [[[(1, [0, 3]), (2, [2])], [(3, [1, 0]), (-1, [3])]]]
    pb = Problem(2, 1, 2, polys, [[0.5, -1.0], [2.0, 0.25]], 1.0)
    run_problem(ctx, pb, kmax, lambda k: True, lambda ik: True)
    # n_in=1, n_out=3, d=2, with gain
    polys = [[[(1, [0, 1])], [(2, [1, 1])]], [[(-1, [0])], [(1, [1]), (1, [0, 0, 0])]], [[(3, [0]), (1, [1])], [(-2, [1, 0])]]]
    pb = Problem(1, 3, 2, polys, [[1.5, -0.5]], 2.0)
    run_problem(ctx, pb, kmax, lambda k: True, lambda ik: False)


def run_problem(ctx, pb, kmax, full_each, eager):
    """All handlers on one map.  full_each(k): compare every probe with the model (else a subset of 4096);
    eager(ik): additionally run kind number ik through plain eager calls."""
    blocks = guarded(ctx, "mat", pb.desc, check_materialize, pb)
    if blocks is None:
        tr, dg, _, _ = model_blocks(ctx, pb.J, pb.n_out, pb.n_in, pb.d)
    else:
        tr, dg = blocks
    for ik, (mode, what) in enumerate(KINDS):
        k = (pb.n_in if mode == "fwd" else pb.n_out) * pb.d
        case = {**pb.desc, "handler": mode, "method": what}
        guarded(ctx, f"{mode}:{what}", case, check_enumeration, pb, mode, what, tr if what == "trace" else dg, kmax, full_each(k), eager(ik))
        guarded(ctx, f"{mode}:{what}:key", case, check_keys, pb, mode, what, eager(ik))


def gen_sizes(rng, kmax, it):
    """(n_in, n_out, d) with n_in, n_out, d <= 4; non-square except every 5th case; at least one of the two
    probe spaces within the enumeration limit; the first two cases reach the limit (forward resp. reverse)."""
    if it in (0, 1):
        n, d = [(3, 4), (4, 3)][int(rng.integers(2))] if kmax < 16 else (4, 4)
        # quick tier: keep the other probe space small (time budget)
        other = int(rng.choice([v for v in (1, 2, 3, 4) if v != n and (kmax >= 16 or v * d <= 8)]))
        return (n, other, d) if it == 0 else (other, n, d)
    for _ in range(1000):
        n_in, n_out, d = (int(v) for v in rng.integers(1, 5, size=3))
        if (it % 5 == 4) != (n_in == n_out):
            continue
        if min(n_in, n_out) * d > kmax:
            continue
        if kmax < 16 and n_in == n_out and n_in * d > 8:
            continue  # quick tier: square cases stay small (time budget); thorough has no such limit
        return n_in, n_out, d
    raise core.HarnessError("size generator")


def check_ad_mode(ctx):
    """the reverse-mode handlers differentiate in reverse mode, the forward-mode handler in forward mode: a map that only
    defines a pullback (jax.custom_vjp: implicit layers, hand-written adjoints) works with every method of
    `jacobian_monte_carlo_rev`, a map that only defines a pushforward (jax.custom_jvp without transpose is still
    reverse-differentiable, so the probe is one-sided) - seeded change C17-s9"""
    import jax
    import jax.numpy as jnp
    from probdiffeq import probdiffeq as pdq

    W = jnp.asarray([[0.5, -1.0, 0.25], [1.5, 0.75, -0.5]])

    @jax.custom_vjp
    def g(x):  # x: (3, d) -> (2, d)
        return jnp.tanh(W @ x)

    def g_fwd(x):
        y = jnp.tanh(W @ x)
        return y, (y,)

    def g_bwd(res, ct):
        (y,) = res
        return (W.T @ (ct * (1 - y**2)),)

    g.defvjp(g_fwd, g_bwd)
    x = jnp.asarray([[0.25, -0.5], [1.0, 0.75], [-0.25, 0.5]])
    Jref = np.asarray(jax.jacrev(lambda z: jnp.tanh(W @ z))(x))
    h = handler_of("rev", num_probes=1, seed=3)
    key = h.init_jacobian_handler()
    case = {"map": "tanh(W x) defined with jax.custom_vjp (reverse mode only)", "handler": "jacobian_monte_carlo_rev", "x": np.asarray(x).tolist()}
    ctx.case(case, nontrivial=True)
    ctx.count("ad-mode: custom_vjp through the reverse-mode handler")
    for meth in ("materialize_dense", "calculate_trace_along_d", "calculate_diagonal_along_d"):
        try:
            out = getattr(h, meth)(g, x, key)
        except Exception as e:  # noqa: BLE001
            ctx.violation(f"rev:{meth}:ad-mode", f"jacobian_monte_carlo_rev.{meth} raised {type(e).__name__} on a map that defines a pullback only: {str(e)[:160]}", dict(case, method=meth))
            continue
        if meth == "materialize_dense":
            dev = float(np.max(np.abs(np.asarray(out[1]) - Jref)))
            ctx.dev("ad-mode.materialize_dense", dev, 1e-12, case=dict(case, method=meth), sig="rev:materialize_dense:custom_vjp:value")


def run(ctx):
    import jax

    jax.config.update("jax_enable_x64", True)
    kmax = ctx.n(12, 16)
    ctx.rule = (
        "polynomial maps (n_in,d)->(n_out,d), n_in,n_out,d<=4, integer coefficients in [-3,3], degree<=3, every output "
        "coupled to a same-dimension input and to arbitrary other inputs, evaluation points k/4 in [-2,2], optional keyword "
        "argument (gain) passed through **fun_kwargs; 4 of 5 cases non-square; per map: the materialising handler (3 methods) + "
        "consumer contractions, materialize_dense of both Monte-Carlo handlers, for each of fwd/rev x trace/diag the full "
        f"enumeration of the 2^(n*d) sign probes (n*d <= {kmax}) one at a time with num_probes=1 vs. the model on the same probe, "
        "the mean vs. the exact block, num_probes=2^k and num_probes in {2,3,5,6,7} in one call, and 4 successive calls with the real "
        "RNG (spy); _verify_fun_and_x on a fixed table plus random shapes of rank 0..3 for x and f(x) and non-array x / f(x); "
        "a case is distinct/non-trivial when (sizes, polynomial, point, handler, method) differ and the probe space has >= 4 elements"
    )
    ctx.assumptions += [
        "jax autodiff (jacfwd/jacrev/linearize/vjp/vmap) is modelled as the exact linear maps v -> J v, v -> v^T J of the Jacobian tensor (DESIGN §3); "
        "the polynomial inputs make every float operation exact, so any disagreement is a formula/layout error, not rounding",
        "'advance their random key on every call' is read as: every call that draws probes (calculate_trace_along_d, calculate_diagonal_along_d) "
        "returns a key different from the one passed in and draws from a key different from both; materialize_dense of the Monte-Carlo handlers "
        "draws nothing and passes its state through (counted, not flagged)",
        "key handling is checked against the real jax PRNG in the correspondence only; the Lean model takes the probes as an argument",
        "num_probes >= 1 (num_probes = 0 makes numpy average over an empty axis -> NaN; the model returns none there)",
    ]
    import time

    timings = ctx.extra.setdefault("section_seconds", {})
    t0 = time.time()
    corpus(ctx, kmax)
    guarded(ctx, "ad-mode", {"part": "custom_vjp"}, check_ad_mode)
    timings["corpus"] = round(time.time() - t0, 1)

    # --- _verify_fun_and_x
    t0 = time.time()
    for row in VERIFY_FIXED:
        check_verify(ctx, *row)
    kinds_x = ["jax"] * 6 + ["numpy", "list", "tuple", "scalar"]
    kinds_f = ["array"] * 6 + ["tuple", "list", "dict", "none"]
    for it in range(ctx.n(30, 300)):
        rng = ctx.rng
        xk = kinds_x[int(rng.integers(len(kinds_x)))]
        fk = kinds_f[int(rng.integers(len(kinds_f)))]
        rx = int(rng.choice([0, 1, 2, 2, 2, 3]))
        rf = int(rng.choice([0, 1, 2, 2, 2, 3]))
        xs = tuple(int(v) for v in rng.integers(1, 4, size=rx))
        fs_ = tuple(int(v) for v in rng.integers(1, 4, size=rf))
        if rx == 2 and rf == 2 and rng.random() < 0.6:
            fs_ = (fs_[0], xs[1])
        if xk == "scalar":
            xs = ()
        check_verify(ctx, xk, xs, fk, fs_, which=[int(v) for v in rng.integers(0, 9, size=3)])

    timings["verify"] = round(time.time() - t0, 1)

    # --- handlers on random polynomial maps
    t0 = time.time()
    ncases = ctx.n(5, 50)
    for it in range(ncases):
        rng = ctx.rng
        n_in, n_out, d = gen_sizes(rng, kmax, it)
        polys = gen_poly(rng, n_in, n_out, d)
        x = rng.integers(-8, 9, size=(n_in, d)) / 4.0
        gain = float(rng.choice([1.0, 1.0, 2.0, -0.5]))
        pb = Problem(n_in, n_out, d, polys, x, gain)
        ctx.count(f"sizes n_in={n_in} n_out={n_out} d={d}")
        ctx.count("square" if n_in == n_out else "non-square")
        # all probes one by one against the model; above 2^12 (thorough tier) a random subset of 4096 plus
        # the full mean, and every 6th case everything; one of the four kinds per map also runs eagerly
        t1 = time.time()
        run_problem(ctx, pb, kmax, lambda k, it=it: k <= 12 or it % 6 == 0, lambda ik, it=it: ik == it % 4)
        timings[f"map{it} ({n_in},{n_out},{d})"] = round(time.time() - t1, 1)
    timings["maps"] = round(time.time() - t0, 1)
