"""C12 — Marginal-likelihood losses equal the exact Gaussian log-density of the data.

The real `loss_lml_timeseries` / `loss_lml_terminal_values` are called on posteriors produced by real solver
runs (fixed grid + fixed-interval smoother, `solve_adaptive_save_at` + fixed-point smoother).  The stored
terminal marginal and backward conditionals are mapped through the abstraction function (exact dyadic
entries, `L -> L L^T`, `std -> std^2`) and handed to the Lean model of `evaluate_lml` (`Pdq.Model.Lml`),
which returns the exact per-time pairs `(maha_k, det S_k)`.  The harness

* forms `-1/2 (maha + k log 2 pi + log det)` per time in float, pushes the values through the model's running
  mean / sum (`lml_running`, exact on the float values) and compares with the implementation's loss;
* compares the model's exact `sum maha_k`, `prod det S_k` with the quadratic form and the determinant of the
  dense joint covariance of all observed coefficients, built independently on the Python side from the
  backward factorisation in exact `Fraction`s (the property's own oracle; theorem `lml_chain`) — exact
  equality when the problem is small, float otherwise.
"""

from __future__ import annotations

import math
from fractions import Fraction

import numpy as np

from harness import core, gen, problems
from harness import solvermodel as sm
from harness.core import Cut, F

PROPS_MODULES = ["Pdq.Props.C12"]
LEVEL = "proof"
TOL = 1e-9  # relative to the size of the loss, after division by the conditioning factor of the case
LOG2PI = math.log(2.0 * math.pi)
KE_SCALE = 1e-3  # residual cancellation below 1e3 costs nothing: eps * 1e3 << TOL
KS_SCALE = 1e-4
EXPLANATION = (
    "theorems lml_two_block / lml_chain / lml_average / terminal_lml / to_derivative_spec about the executable model of "
    "evaluate_lml; correspondence: both losses of the real code vs the model on posteriors of real solver runs, plus the "
    "independent dense joint log-density oracle"
)


# ------------------------------------------------------------------------------------------------
# real runs


def make_solution(cfg, field, u0s, t0, hs, tol=1e-2):
    """fixed grid for the fixed-interval smoother, save_at for the fixed-point smoother"""
    import jax.numpy as jnp
    from probdiffeq import ivpsolve
    from probdiffeq import probdiffeq as pdq

    objs = sm.build(cfg, field, u0s, t0)
    grid = np.concatenate([[t0], t0 + np.cumsum(hs)])
    if cfg.strategy == "fixedinterval":
        sol = ivpsolve.solve_fixed_grid(solver=objs["solver"])(objs["prior"], grid=jnp.asarray(grid), damp=cfg.damp)
    else:
        err = pdq.error_residual_std(constraint=objs["constraint"])
        solve = ivpsolve.solve_adaptive_save_at(solver=objs["solver"], error=err)
        sol = solve(objs["prior"], save_at=jnp.asarray(grid), atol=tol, rtol=tol, dt0=0.1, damp=cfg.damp)
    return sol, objs


def posterior_slices(cfg, post):
    """terminal marginal slices, and per interval (time order) the slices of the stored backward conditional"""
    import jax

    term = sm.normal_slices(cfg.fact, post.marginal)
    cnt = int(np.asarray(post.conditional.A).shape[0])
    conds = [sm.cond_slices(cfg.fact, jax.tree_util.tree_map(lambda s: s[i], post.conditional)) for i in range(cnt)]
    return term, conds


# ------------------------------------------------------------------------------------------------
# the model


def slice_views(cfg, d, data, std):
    """per slice: kind, k, data columns (N,k) floats, std columns (N,k) floats"""
    data, std = np.asarray(data, dtype=np.float64), np.asarray(std, dtype=np.float64)
    if cfg.fact == "dense":
        return [(0, d, data, std)]
    if cfg.fact == "iso":
        return [(1, 1, data[:, j : j + 1], std[:, None]) for j in range(d)]
    return [(1, 1, data[:, j : j + 1], std[:, j : j + 1]) for j in range(d)]


def model_terms(ctx, cfg, d, tci, term, conds, data, std):
    """exact (maha, det) per slice and time; result[j] = list over times, terminal first"""
    out = []
    N = len(conds) + 1
    for j, (kind, k, dat, sd) in enumerate(slice_views(cfg, d, data, std)):
        mean, cov = term[j]
        n = len(mean)
        args = [core.flat([F(x) ** 2 for x in sd[N - 1]]), sm.fvec(dat[N - 1])]
        for t in range(N - 2, -1, -1):
            args += sm.pc_args(conds[t][j])
            args += [core.flat([F(x) ** 2 for x in sd[t]]), sm.fvec(dat[t])]
        ans = ctx.drv.call("lml_terms", kind, n, d, tci, N - 1, mean, cov, *args)
        if len(ans) != 2 * N:
            raise core.HarnessError("lml_terms: unexpected answer length")
        out.append([(ans[2 * t], ans[2 * t + 1]) for t in range(N)])
    return out


def logf(q: Fraction) -> float:
    """log of a positive exact rational, safe for huge numerators / denominators"""
    return math.log(q.numerator) - math.log(q.denominator)


def term_logpdf(maha: Fraction, det: Fraction, k: int) -> float:
    return -0.5 * (float(maha) + k * LOG2PI + logf(det))


# ------------------------------------------------------------------------------------------------
# the independent oracle: dense joint law of all observed coefficients from the backward factorisation


def den_exact(c):
    """(G, b, Q) of a backward conditional with the scalings absorbed, exact"""
    A, b, Q, tl, to = c["A"], c["b"], c["Q"], c["tl"], c["to"]
    n = len(b)
    G = np.array([[to[i] * A[i, j] * tl[j] for j in range(n)] for i in range(n)], dtype=object)
    bb = np.array([to[i] * b[i] for i in range(n)], dtype=object)
    QQ = np.array([[to[i] * Q[i, j] * to[j] for j in range(n)] for i in range(n)], dtype=object)
    return G, bb, QQ


def joint_law(term, conds_j, rows, var, exact=True):
    """joint mean / covariance of y_t = x_t[rows] + e_t, t = 0..N-1 (time order), from
    x_{N-1} ~ term, x_t = G_t x_{t+1} + b_t + w_t. `var[t]`: noise variances (k,). Exact Fractions or float."""
    N = len(conds_j) + 1
    conv = (lambda a: a) if exact else sm.tofloat
    m, P = conv(term[0]), conv(term[1])
    dens = [tuple(conv(x) for x in den_exact(c)) for c in conds_j]
    means, covs = [None] * N, [None] * N
    means[N - 1], covs[N - 1] = m, P
    for t in range(N - 2, -1, -1):
        G, b, Q = dens[t]
        means[t] = G.dot(means[t + 1]) + b
        covs[t] = G.dot(covs[t + 1]).dot(G.T) + Q
    k = len(rows)
    zero = Fraction(0) if exact else 0.0
    mu = np.array([zero] * (N * k), dtype=object if exact else np.float64)
    Sig = np.array([[zero] * (N * k) for _ in range(N * k)], dtype=object if exact else np.float64)
    for t in range(N):
        mu[t * k : (t + 1) * k] = means[t][rows]
    for l in range(N):
        # Cov(x_j, x_l) for j <= l:  G_j ... G_{l-1} P_l
        C = covs[l]
        for j in range(l, -1, -1):
            if j < l:
                C = dens[j][0].dot(C)
            blk = C[np.ix_(rows, rows)]
            Sig[j * k : (j + 1) * k, l * k : (l + 1) * k] = blk
            Sig[l * k : (l + 1) * k, j * k : (j + 1) * k] = blk.T
    for t in range(N):
        for a in range(k):
            Sig[t * k + a, t * k + a] += var[t][a]
    return mu, Sig


def exact_quad_det(Sig, r):
    """(r^T Sig^-1 r, det Sig) by exact Gaussian elimination (symmetric positive definite input)"""
    M = len(r)
    A = [[Sig[i, j] for j in range(M)] + [r[i]] for i in range(M)]
    det = Fraction(1)
    for c in range(M):
        p = next((i for i in range(c, M) if A[i][c] != 0), None)
        if p is None:
            return None, Fraction(0)
        if p != c:
            A[p], A[c] = A[c], A[p]
            det = -det
        pv = A[c][c]
        det *= pv
        for i in range(c + 1, M):
            f = A[i][c] / pv
            if f:
                A[i] = [x - f * y for x, y in zip(A[i], A[c])]
    x = [Fraction(0)] * M
    for i in range(M - 1, -1, -1):
        x[i] = (A[i][M] - sum(A[i][j] * x[j] for j in range(i + 1, M))) / A[i][i]
    return sum(r[i] * x[i] for i in range(M)), det


# ------------------------------------------------------------------------------------------------
# conditioning (float replica of the backward filter; used for tolerances only, never for the verdict)


def conditioning(term, conds_j, rows, var, dat):
    """max over times of: cancellation of the residual (|u|+|yhat|)/|e| weighted by its share of the loss,
    and the condition number of S_k; float64."""
    m, P = sm.tofloat(term[0]), sm.tofloat(term[1])
    N = len(conds_j) + 1
    kap_e, kap_S, kap_G = 1.0, 1.0, 1.0
    for t in range(N - 1, -1, -1):
        if t < N - 1:
            G, b, Q = (sm.tofloat(x) for x in den_exact(conds_j[t]))
            m, P = G @ m + b, G @ P @ G.T + Q
        H = np.zeros((len(rows), len(m)))
        H[np.arange(len(rows)), rows] = 1.0
        S = H @ P @ H.T + np.diag(var[t])
        yhat = H @ m
        e = dat[t] - yhat
        with np.errstate(all="ignore"):
            Sd = np.sqrt(np.diag(S))
            w = np.abs(e) / Sd
            canc = (np.abs(dat[t]) + np.abs(yhat)) / np.maximum(np.abs(e), 1e-300)
            # only residuals that matter for the loss (|whitened| >= 1e-3) enter the cancellation factor
            canc = np.where(w >= 1e-3, canc, 1.0)
            kap_e = max(kap_e, float(np.max(canc)))
            # conditioning of S after symmetric diagonal scaling: triangular solves and the SVD of a graded, weakly
            # correlated factor lose accuracy with the correlation structure, not with the grading (measured: deviations
            # stay at 1e-14 of the loss for raw condition numbers up to 1e17); the raw condition enters with a weight
            cS = min(float(np.linalg.cond(S)), 1e4 * float(np.linalg.cond(S / np.outer(Sd, Sd))))
            kap_S = max(kap_S, cS)
            K = P @ H.T @ np.linalg.inv(S)
            # how much the state moves per unit of prior standard deviation: gain-error amplification downstream
            Pd = np.sqrt(np.maximum(np.diag(P), 1e-300))
            kap_G = max(kap_G, float(np.max(np.abs(K @ e) / Pd)))
        m, P = m + K @ e, P - K @ S @ K.T
    return kap_e, kap_S, kap_G


# ------------------------------------------------------------------------------------------------
# checks


def rows_of(cfg, d, tci):
    return np.arange(tci * d, (tci + 1) * d) if cfg.fact == "dense" else np.array([tci])


def std_container(cfg, std):
    import jax.numpy as jnp

    return jnp.asarray(std)


def make_loss(sol, tci, avg, jit=True):
    """the real loss as a function of (data, std); jitted so that several data sets share one compilation"""
    import jax
    from probdiffeq import probdiffeq as pdq

    post = sol.solution_full.posterior
    loss = pdq.loss_lml_timeseries(average_pdfs=avg, tcoeff_index=tci)

    def fn(data, std):
        return loss(data, posterior=post, std=std)

    return jax.jit(fn) if jit else fn


def check_timeseries(ctx, cfg, d, sol, tci, avg, data, std, case, exact_oracle, loss_fn=None):
    """data (N,d) floats; std (N,) [iso] or (N,d) floats"""
    import jax.numpy as jnp

    post = sol.solution_full.posterior
    if loss_fn is None:
        loss_fn = make_loss(sol, tci, avg, jit=False)
    got = float(loss_fn(jnp.asarray(data), jnp.asarray(std)))
    term, conds = posterior_slices(cfg, post)
    N = len(conds) + 1
    sigp = f"ts:{cfg.fact}:{cfg.strategy}:avg={int(avg)}"
    try:
        terms = model_terms(ctx, cfg, d, tci, term, conds, data, std)
    except core.ModelError as e:
        if "not invertible" in e.ans:
            ctx.skip("model: singular innovation covariance (outside the property: std > 0 makes S regular)")
            return
        raise
    views = slice_views(cfg, d, data, std)
    # per-time log-densities (sum over slices), terminal first, then the model's running bookkeeping on the float values
    pdfs = []
    for t in range(N):
        pdfs.append(sum(term_logpdf(terms[j][t][0], terms[j][t][1], views[j][1]) for j in range(len(views))))
    want = float(ctx.drv.call("lml_running", int(avg), F(pdfs[0]), N - 1, [F(x) for x in pdfs[1:]])[0])
    # conditioning
    kap_e = kap_S = kap_G = 1.0
    for j, (kind, k, dat, sd) in enumerate(views):
        ke, kS, kG = conditioning(term[j], [c[j] for c in conds], rows_of(cfg, d, tci), sd**2, dat)
        kap_e, kap_S, kap_G = max(kap_e, ke), max(kap_S, kS), max(kap_G, kG)
    size = sum(0.5 * float(terms[j][t][0]) + 0.5 * abs(logf(terms[j][t][1])) + 0.5 * views[j][1] * LOG2PI for j in range(len(views)) for t in range(N))
    if avg:
        size /= N
    # rounding model: the residual e = u - yhat carries a relative error eps*kap_e, the gain (lstsq through the factor of S)
    # a relative error eps*sqrt(cond S) which moves the next predicted mean by kap_G prior standard deviations
    kappa = max(1.0, KE_SCALE * kap_e, KS_SCALE * math.sqrt(kap_S) * kap_G)
    if ctx.extra.get("collect"):
        ctx.extra.setdefault("diag", []).append((abs(got - want) / size, kap_e, kap_S, kap_G))
    if not math.isfinite(got):
        ctx.violation(f"{sigp}:nonfinite", f"loss_lml_timeseries returned {got}; exact value {want}", case)
        return
    if not kappa < 1e4:
        ctx.skip("time-series loss: conditioning factor (residual cancellation / gain through an ill-conditioned S) too large for a 1e-9 comparison")
    else:
        dev = abs(got - want) / size / kappa
        ctx.dev("timeseries.loss", dev, TOL, case=case, sig=f"{sigp}:value",
                what=f"loss_lml_timeseries = {got!r}, exact model value {want!r} (relative deviation {dev:.2e} after conditioning {kappa:.1e})")
    # the property's own oracle: dense joint law of all observed coefficients
    for j, (kind, k, dat, sd) in enumerate(views):
        rows = rows_of(cfg, d, tci)
        cj = [c[j] for c in conds]
        summ = sum((terms[j][t][0] for t in range(N)), Fraction(0))
        pdet = Fraction(1)
        for t in range(N):
            pdet *= terms[j][t][1]
        if exact_oracle:
            var = [[F(x) ** 2 for x in sd[t]] for t in range(N)]
            mu, Sig = joint_law(term[j], cj, rows, var, exact=True)
            r = [F(x) - mu[i] for i, x in enumerate(dat.reshape(-1))]
            quad, det = exact_quad_det(Sig, r)
            ctx.count("oracle: exact")
            if quad != summ or det != pdet:
                ctx.violation(f"oracle:{cfg.fact}:exact", f"model sum maha / prod det ({float(summ)!r}, {float(pdet)!r}) differ from the dense joint law ({None if quad is None else float(quad)!r}, {float(det)!r})", dict(case, slice=j))
        else:
            mu, Sig = joint_law(term[j], cj, rows, sd**2, exact=False)
            r = dat.reshape(-1) - mu
            # symmetric diagonal scaling: the log-density is invariant, the conditioning is not
            dsc = np.sqrt(np.diag(Sig))
            Sn = Sig / np.outer(dsc, dsc)
            sign, logdet = np.linalg.slogdet(Sn)
            logdet += 2.0 * float(np.sum(np.log(dsc)))
            cS = float(np.linalg.cond(Sn))
            ctx.count("oracle: float")
            if not cS < 1e8 or sign <= 0:
                ctx.skip("float oracle: correlation matrix of the joint law has condition >= 1e8")
                continue
            r, Sig = r / dsc, Sn
            quad = float(r @ np.linalg.solve(Sig, r))
            want_tot = -0.5 * (float(summ) + logf(pdet))
            got_tot = -0.5 * (quad + logdet)
            dv = abs(want_tot - got_tot) / (abs(want_tot) + 0.5 * N * k * LOG2PI) / max(1.0, cS) / max(1.0, kap_e)
            ctx.dev("oracle.float", dv, 1e-10, case=dict(case, slice=j), sig=f"oracle:{cfg.fact}:float",
                    what=f"model total {want_tot!r} vs dense joint log-density (float64) {got_tot!r}")


def check_terminal(ctx, cfg, d, sol, tci, tidx, u, std, case):
    """terminal-value loss on the marginal at time index tidx"""
    import jax
    import jax.numpy as jnp
    from probdiffeq import probdiffeq as pdq

    marg = jax.tree_util.tree_map(lambda s: s[tidx], sol.u)
    loss = pdq.loss_lml_terminal_values(tcoeff_index=tci)
    got = float(loss(jnp.asarray(u), marginals=marg, std=jnp.asarray(std)))
    slices = sm.normal_slices(cfg.fact, marg)
    u2, s2 = np.asarray(u, dtype=np.float64)[None, :], (np.asarray(std, dtype=np.float64)[None] if cfg.fact == "iso" else np.asarray(std, dtype=np.float64)[None, :])
    views = slice_views(cfg, d, u2, s2)
    want, size, kap = 0.0, 0.0, 1.0
    rows = rows_of(cfg, d, tci)
    for j, (kind, k, dat, sd) in enumerate(views):
        mean, cov = slices[j]
        try:
            ans = ctx.drv.call("lml_terminal", kind, len(mean), d, tci, mean, cov, core.flat([F(x) ** 2 for x in sd[0]]), sm.fvec(dat[0]))
        except core.ModelError as e:
            if "not invertible" in e.ans:
                ctx.skip("model: singular covariance in terminal loss")
                return
            raise
        want += term_logpdf(ans[0], ans[1], k)
        size += 0.5 * float(ans[0]) + 0.5 * abs(logf(ans[1])) + 0.5 * k * LOG2PI
        # oracle: direct exact Gaussian density of N(m[rows], P[rows,rows] + diag(std^2))
        S = np.array([[cov[a, b] + (F(sd[0][ia]) ** 2 if ia == ib else 0) for ib, b in enumerate(rows)] for ia, a in enumerate(rows)], dtype=object)
        r = [F(x) - mean[a] for x, a in zip(dat[0], rows)]
        quad, det = exact_quad_det(S, r)
        if quad != ans[0] or det != ans[1]:
            ctx.violation(f"oracle:{cfg.fact}:terminal", f"model terminal (maha, det) differ from the direct Gaussian density", dict(case, slice=j))
        mf = sm.tofloat(mean)[rows]
        e = dat[0] - mf
        Sf = sm.tofloat(S)
        w = np.abs(e) / np.sqrt(np.diag(Sf))
        canc = np.where(w >= 1e-3, (np.abs(dat[0]) + np.abs(mf)) / np.maximum(np.abs(e), 1e-300), 1.0)
        kap = max(kap, KE_SCALE * float(np.max(canc)), KS_SCALE * math.sqrt(float(np.linalg.cond(Sf))))
    if not math.isfinite(got):
        ctx.violation(f"terminal:{cfg.fact}:nonfinite", f"loss_lml_terminal_values returned {got}; exact value {want}", case)
        return
    if not kap < 1e4:
        ctx.skip("terminal loss: conditioning factor too large for a 1e-9 comparison")
        return
    dev = abs(got - want) / size / kap
    ctx.dev("terminal.loss", dev, TOL, case=case, sig=f"terminal:{cfg.fact}:value",
            what=f"loss_lml_terminal_values = {got!r}, exact model value {want!r} (relative deviation {dev:.2e} after conditioning {kap:.1e})")


def check_to_derivative(ctx, cfg, d, sol, tci, case):
    """the observation matrix built by the real to_derivative vs the model's"""
    import jax
    import jax.numpy as jnp

    marg = jax.tree_util.tree_map(lambda s: s[-1], sol.u)
    std = jnp.ones(()) if cfg.fact == "iso" else jnp.ones((d,))
    c = marg.to_derivative(tci, std)
    A = np.asarray(c.A, dtype=np.float64)
    n = cfg.q + 1
    if cfg.fact == "dense":
        want = sm.tofloat(np.array(ctx.drv.call("lml_to_derivative", 0, n * d, d, tci), dtype=object)).reshape(d, n * d)
        ok = np.array_equal(A, want)
    elif cfg.fact == "iso":
        want = sm.tofloat(np.array(ctx.drv.call("lml_to_derivative", 1, n, d, tci), dtype=object)).reshape(1, n)
        ok = np.array_equal(A, want)
    else:
        want = sm.tofloat(np.array(ctx.drv.call("lml_to_derivative", 1, n, d, tci), dtype=object)).reshape(1, n)
        ok = A.shape == (d, 1, n) and all(np.array_equal(A[a], want) for a in range(d))
    ok = ok and np.all(np.asarray(c.to_latent) == 1.0) and np.all(np.asarray(c.to_observed) == 1.0) and np.all(np.asarray(c.noise.mean_flat) == 0.0)
    if not ok:
        ctx.violation(f"to_derivative:{cfg.fact}", f"to_derivative({tci}) is not the selection of coefficient {tci} with unit scalings and zero offset: A = {A.tolist()}", case)


# ------------------------------------------------------------------------------------------------
# generators


def gen_case(ctx, it, quick):
    rng = ctx.rng
    fact = ["dense", "iso", "bd"][it % 3]
    strategy = ["fixedinterval", "fixedpoint"][(it // 3) % 2]
    d = int(rng.integers(1, 4))
    order = 1
    qmax = 3 if fact == "dense" else 4
    q = int(rng.integers(1, qmax + 1))
    init = gen.pick(rng, ["exact", "inexact"], [1, 1])
    solver = gen.pick(rng, ["solver", "mle", "dynamic"], [3, 1, 1])
    lin = gen.pick(rng, ["ts0", "ts1"])
    damp = float(gen.pick(rng, [0.0, 2.0**-8], [3, 1]))
    cfg = sm.Config(fact=fact, solver=solver, strategy=strategy, lin=lin, q=q, damp=damp, init=init)
    field = problems.random_field(rng, d, order, max_degree=2)
    u0s = [gen.dyadic(rng, (d,), bits=3, scale=1.0)]
    t0 = float(gen.pick(rng, [0.0, 0.5, -1.0]))
    nmax = 12 if (fact != "dense" or q * d <= 4) else 7
    N = int(rng.integers(2, nmax + 1))
    hs = [float(2.0 ** rng.integers(-5, -1)) * float(gen.pick(rng, [1.0, 0.75, 1.5])) for _ in range(N - 1)]
    return cfg, d, field, u0s, t0, hs


def gen_data(ctx, cfg, d, sol, tci, N):
    """std in [1e-6, 1e3] per time (and per dimension where supported); data around the smoothed means"""
    rng = ctx.rng
    base = np.asarray(sol.u.mean[tci], dtype=np.float64)  # (N, d)
    sdm = np.asarray(sol.u.std[tci], dtype=np.float64)
    if sdm.ndim == 1:
        sdm = np.repeat(sdm[:, None], d, axis=1)
    mode = gen.pick(rng, ["std", "posterior", "far", "mixed"])
    stdkind = gen.pick(rng, ["full", "narrow", "tiny", "huge"], [3, 1, 1, 1])
    lo, hi = {"full": (-6, 3), "narrow": (-2, 0), "tiny": (-6, -5), "huge": (2, 3)}[stdkind]
    shape = (N,) if cfg.fact == "iso" else (N, d)
    std = 10.0 ** rng.uniform(lo, hi, size=shape)
    if cfg.fact != "iso" and rng.random() < 0.3:
        std = np.repeat(std[:, :1], d, axis=1)  # same in every dimension
    sfull = std[:, None] * np.ones((1, d)) if cfg.fact == "iso" else std
    z = rng.standard_normal((N, d))
    if mode == "std":
        data = base + z * sfull
    elif mode == "posterior":
        data = base + z * np.sqrt(sdm**2 + sfull**2)
    elif mode == "far":
        data = base + rng.uniform(-2, 2, size=(N, d))
    else:
        data = base + z * np.where(rng.random((N, d)) < 0.5, sfull, 1.0)
    return data, std, mode, stdkind


def run_case(ctx, cfg, d, field, u0s, t0, hs, quick, nvar=3):
    sol, _objs = make_solution(cfg, field, u0s, t0, hs)
    N = len(hs) + 1
    if not np.all(np.isfinite(np.asarray(sol.u.mean[0]))) or not np.all(np.isfinite(np.asarray(sol.solution_full.posterior.conditional.noise.cholesky_flat))):
        ctx.skip("solver run produced non-finite values (problem blows up)")
        return
    tci = int(ctx.rng.integers(0, cfg.q + 1))
    avg = bool(ctx.rng.integers(0, 2))
    loss_fn = make_loss(sol, tci, avg, jit=True)
    k = d if cfg.fact == "dense" else 1
    n = (cfg.q + 1) * (d if cfg.fact == "dense" else 1)
    exact_oracle = N * k <= (12 if quick else 18) and n <= 9
    for key in ("fact", "strategy", "init", "solver"):
        ctx.count(f"{key}={getattr(cfg, key)}")
    ctx.count(f"N={N}")
    ctx.count(f"tcoeff_index={tci}")
    ctx.count(f"average={avg}")
    base = {"config": cfg.key(), "field": field.describe(), "u0": [np.asarray(u).tolist() for u in u0s], "t0": t0, "steps": hs,
            "tcoeff_index": tci, "average_pdfs": avg}
    for v in range(nvar):
        data, std, mode, stdkind = gen_data(ctx, cfg, d, sol, tci, N)
        case = dict(base, data=data.tolist(), std=np.asarray(std).tolist())
        ctx.count(f"data={mode}")
        ctx.count(f"std={stdkind}")
        check_timeseries(ctx, cfg, d, sol, tci, avg, data, std, case, exact_oracle and v == 0, loss_fn=loss_fn)
        # terminal-value loss at the last or at a random time
        tidx = N - 1 if v == 0 else int(ctx.rng.integers(0, N))
        check_terminal(ctx, cfg, d, sol, tci, tidx, data[tidx], std[tidx], dict(case, time_index=tidx))
        ctx.case(dict(cfg.key(), d=d, N=N, tci=tci, avg=avg, mode=mode, stdkind=stdkind, variant=v, field=str(field.describe()["components"])[:100]))
    check_to_derivative(ctx, cfg, d, sol, tci, base)


def corpus(ctx):
    """minimised cases: (a) D1 (terminal marginal must be the filtering marginal; fixed in /repo) made the time-series
    loss on fixed grids differ from the joint density; logistic ODE on a short grid, all factorisations;
    (b) noise-free initial state with tiny std at the initial time (gain through lstsq)."""
    field = problems.PolyField(1, 1, [[(Fraction(1), (1, 0)), (Fraction(-1), (2, 0))]])
    for fact in ("dense", "iso", "bd"):
        cfg = sm.Config(fact=fact, solver="solver", strategy="fixedinterval", lin="ts0", q=2, init="exact")
        hs = [0.125, 0.125, 0.25, 0.125]
        sol, _ = make_solution(cfg, field, [np.array([0.125])], 0.0, hs)
        base = np.asarray(sol.u.mean[0], dtype=np.float64)
        data = base + np.array([[0.0], [0.01], [-0.02], [0.005], [0.03]])
        std = np.array([1e-6, 1e-2, 1e-1, 1.0, 1e-3])
        std = std if fact == "iso" else std[:, None]
        case = {"corpus": "logistic", "fact": fact, "data": data.tolist(), "std": std.tolist(), "steps": hs}
        avg = fact != "iso"
        check_timeseries(ctx, cfg, 1, sol, 0, avg, data, std, dict(case, avg=avg), True)
        check_terminal(ctx, cfg, 1, sol, 0, 4, data[4], std[4], case)
        for tci_ in (0, 1, 2):  # every coefficient index, every factorisation, in every run (a slip that is the identity for 0 and 1: C12-s11)
            check_to_derivative(ctx, cfg, 1, sol, tci_, case)
            check_terminal(ctx, cfg, 1, sol, tci_, 4, np.asarray(sol.u.mean[tci_], dtype=np.float64)[4] + 0.01, std[4], dict(case, tcoeff_index=tci_))
        ctx.case(dict(case, data=None))
    # (c) dense model, two dimensions, noise levels nine orders of magnitude apart within one time point (inside the
    # property's range [1e-6, 1e3]): the gain goes through a strongly graded innovation factor; no singular value of it
    # may be discarded (seeded change C12-s2: a fixed cut-off 1e-6 in the least-squares solve)
    lv = problems.PolyField(2, 1, [[(Fraction(1, 2), (1, 0, 0)), (Fraction(-3, 4), (1, 1, 0))], [(Fraction(-1), (0, 1, 0)), (Fraction(1, 4), (1, 1, 0))]])
    # (small steps: the posterior standard deviations (~1e-7) are below the small noise levels, so that the innovation factor
    # really is graded over nine orders of magnitude)
    cfg = sm.Config(fact="dense", solver="solver", strategy="fixedinterval", lin="ts0", q=3, init="exact")
    hs = [2.0**-6, 2.0**-5, 2.0**-6, 2.0**-5]
    sol, _ = make_solution(cfg, lv, [np.array([1.0, 0.5])], 0.0, hs)
    base = np.asarray(sol.u.mean[0], dtype=np.float64)
    std = np.array([[1e-5, 1e3], [1e-6, 1e3], [1e-5, 1e2], [1e2, 1e-6], [1e-6, 1e3]])
    # data at the scale of the noise (whitened residuals O(1): every datum, also the tightly observed ones, matters for what follows)
    data = base + std * np.array([[0.0, 0.0], [0.5, 0.25], [-0.75, -0.5], [0.25, 1.0], [1.5, 0.125]])
    for avg in (False, True):
        case = {"corpus": "graded-noise", "fact": "dense", "data": data.tolist(), "std": std.tolist(), "steps": hs, "avg": avg}
        check_timeseries(ctx, cfg, 2, sol, 0, avg, data, std, case, True)
        ctx.case(dict(case, data=None))


def run(ctx):
    import warnings

    import jax

    jax.config.update("jax_enable_x64", True)
    warnings.filterwarnings("ignore")
    ctx.rule = (
        "posteriors of real runs: {dense, iso, bd} x {fixed grid + fixed-interval, save_at + fixed-point} x {solver, mle, dynamic} x {TS0, TS1} x "
        "{exact, inexact} init, q <= 4, d <= 3, 2..12 output times; std log-uniform in [1e-6, 1e3] per time (per dimension for dense / bd), "
        "also all-tiny / all-huge; data = smoothed mean + {noise-sized, posterior-sized, O(1), mixed} perturbation; tcoeff_index 0..q; average on/off; "
        "terminal loss at the last and a random time; distinct = different (config, field, N, index, average, data mode)"
    )
    ctx.assumptions += [
        "log, and the final -1/2(maha + k log 2pi + log det) are evaluated in float64 on the harness side from the model's exact pairs",
        "comparison relative to sum_k 1/2(maha_k + |log det S_k| + k log 2pi), divided by (residual cancellation) x sqrt(cond S) x (gain amplification) computed by a float replica; cases with factor >= 1e6 are skipped and counted",
        "std >= 1e-6 > 0 makes every innovation covariance regular; std = 0 is outside the property's quantifier",
    ]
    corpus(ctx)
    n = ctx.n(7, 80)
    for it in range(n):
        core.release_jax(8)
        cfg, d, field, u0s, t0, hs = gen_case(ctx, it, ctx.quick)
        run_case(ctx, cfg, d, field, u0s, t0, hs, ctx.quick)
