"""C07 — The acceptance quantity equals the documented local error estimate.

The real `error_residual_std(...).estimate_error_norm` / `error_state_std(...).estimate_error_norm` are called
in-process on (previous, proposed) pairs produced by real solver steps; the Lean model
(`Pdq.Model.ErrorEst`, ops `ee_*`) gets the same inputs as exact rationals (means, covariances L L^T, the cached
linearisation `proposed.fun_evals`, the IWP transition of the model for the same dt and base scale, the
linearisation at the model's exact extrapolated mean evaluated exactly on the Python side) and returns the exact
`norm²` and the contraction rate.  Compared: `error_power^(−2·rate)` (float, from the implementation's output)
with `norm²`, relative, after division by the cancellation factors of the problem.

Scenarios: genuine trajectories; previous means perturbed by O(1) (the residual does not cancel: all dt are
informative); a substituted cache (`proposed.fun_evals` differs from the re-linearisation: cached vs
re-linearised is observable); base scale Λ ↦ cΛ on the real code (invariance for damp = 0); jet-lifted
constraints (the documented ValueError as a decision).
"""

from __future__ import annotations

import dataclasses
import math
from fractions import Fraction

import numpy as np

from harness import core, gen, problems
from harness import solvermodel as sm
from harness.core import Cut, F

PROPS_MODULES = ["Pdq.Props.C07"]
LEVEL = "proof"
TOL = 1e-9  # relative deviation of norm², after division by the cancellation factor kappa of the case
TOL_INV = 1e-9  # scale invariance on the real code (same division)
KAPPA_MAX = 1e6

FACT = {"dense": 0, "iso": 1, "bd": 2}
NORMS = {"scale_then_rms": 0, "rms_then_scale": 1}


@dataclasses.dataclass
class ECfg:
    est: str = "residual"  # residual | state
    norm: str = "scale_then_rms"
    relin: bool = False
    per_unit: bool = False
    idx: int = 0

    def key(self):
        return dataclasses.asdict(self)


def make_error(constraint, e: ECfg):
    from probdiffeq import probdiffeq as pdq

    norm = pdq.error_norm_scale_then_rms() if e.norm == "scale_then_rms" else pdq.error_norm_rms_then_scale()
    if e.est == "residual":
        return pdq.error_residual_std(constraint=constraint, error_norm=norm, re_linearize_before_error=e.relin, error_per_unit_step=e.per_unit)
    return pdq.error_state_std(constraint=constraint, error_norm=norm, re_linearize_before_error=e.relin, derivative_idx=e.idx, error_per_unit_step=e.per_unit)


# ------------------------------------------------------------------------------------------------
# abstraction


def cond_plain(c):
    """exact (A, b, Q) of a slice conditional with its scalings removed (linearisations carry unit scalings)"""
    A, b, Q, tl, to = c["A"], c["b"], c["Q"], c["tl"], c["to"]
    k, n = A.shape
    A2 = np.array([[to[i] * A[i, j] * tl[j] for j in range(n)] for i in range(k)], dtype=object).reshape(k, n)
    b2 = np.array([to[i] * b[i] for i in range(k)], dtype=object)
    Q2 = np.array([[to[i] * Q[i, j] * to[j] for j in range(k)] for i in range(k)], dtype=object).reshape(k, k)
    return A2, b2, Q2


def lam_of(cfg, d):
    if cfg.base_scale is None:
        return [Fraction(1)] * d
    if cfg.fact == "iso":
        return [F(cfg.base_scale)] * d
    return [F(x) for x in cfg.base_scale]


def short_float(x, bits=12):
    m, e = math.frexp(x)
    return math.ldexp(round(m * 2**bits) / 2**bits, e)


def float_dt(rng, lo=-5.0, hi=0.0, bits=12):
    """log-uniform step in [10^lo, 10^hi], rounded to `bits` mantissa bits (short exact rational)"""
    return short_float(10.0 ** rng.uniform(lo, hi), bits)


# ------------------------------------------------------------------------------------------------
# one comparison


class Pair:
    """(previous, proposed) of the real code with everything the model needs."""

    def __init__(self, cfg, d, field, objs, previous, proposed, dt, lam, scenario, case):
        self.cfg, self.d, self.field, self.objs = cfg, d, field, objs
        self.previous, self.proposed, self.dt, self.lam = previous, proposed, dt, lam
        self.scenario, self.case = scenario, case


def model_inputs(ctx, P: Pair, constraint_k=None):
    """exact per-slice inputs: tr1, previous (mean, cov), proposed (mean, cov), cached (A,b,Q), relin (A,b,Q)"""
    cfg, d = P.cfg, P.d
    stepper = sm.ModelStepper(ctx, cfg, P.field, d, P.lam)
    h = F(P.dt)
    tr1s = stepper.transitions(h, Fraction(1))
    prev = sm.normal_slices(cfg.fact, P.previous.u)
    prop = sm.normal_slices(cfg.fact, P.proposed.u)
    cached = [cond_plain(c) for c in sm.cond_slices(cfg.fact, P.proposed.fun_evals)]
    n = stepper.N
    args = [n, len(tr1s)]
    for tr, (m, _C) in zip(tr1s, prev):
        args += [*sm.pc_args(tr), m]
    ans = Cut(ctx.drv.call("ee_means", *args))
    means = [ans.take(n) for _ in tr1s]
    ans.done()
    k = cached[0][0].shape[0]
    if constraint_k is None:
        relin = stepper.linearise(means, F(float(P.proposed.t)))
    else:  # non-standard constraint: the re-linearisation is not modelled on the Python side
        relin = cached
    return stepper, tr1s, prev, prop, cached, relin, means, k, n


def kappa_of(e: ECfg, cfg, stepper, tr1s, lins, means, weights):
    """cancellation factors (float): residual r = Hm+b vs its summands; S vs |H||Q||H|^T; posterior vs prior variance"""
    rs, rns = [], []
    sfac, pfac = 1.0, 1.0
    dps = stepper.d if cfg.fact == "dense" else 1
    for tr, (H, b, R), m in zip(tr1s, lins, means):
        Hf, bf, Rf, mf = sm.tofloat(H), sm.tofloat(b), sm.tofloat(R), sm.tofloat(m)
        rs.append(Hf @ mf + bf)
        rns.append(np.abs(Hf) @ np.abs(mf) + np.abs(bf))
        _A, _b, Qd = sm.den_float(tr)
        S = Hf @ Qd @ Hf.T + Rf
        Sabs = np.abs(Hf) @ np.abs(Qd) @ np.abs(Hf).T + np.abs(Rf)
        dS = np.diag(S)
        if np.any(dS <= 0):
            return float("inf"), {}
        sfac = max(sfac, float(np.max(np.diag(Sabs) / dS)), float(np.linalg.cond(S / np.sqrt(np.outer(dS, dS)))))
        if e.est == "state":
            G = np.linalg.solve(S.T, (Qd @ Hf.T).T).T
            post = np.diag(Qd - G @ S @ G.T)
            idxs = [e.idx * dps + a for a in range(dps)]
            pr, po = np.diag(Qd)[idxs], post[idxs]
            if np.any(po <= 0):
                return float("inf"), {}
            pfac = max(pfac, float(np.max(pr / po)))
    r, rn = np.concatenate(rs), np.concatenate(rns)
    w = np.ones_like(r)
    if cfg.fact == "bd" and weights is not None and len(weights) == len(r):
        w = weights
    den = float(np.max(np.abs(r) * w))
    amp = float(np.max(rn * w)) / den if den > 0 else float("inf")
    parts = {"amp": amp, "sfac": sfac, "pfac": pfac}
    return amp + sfac + (pfac if e.est == "state" else 0.0), parts


def model_norm(ctx, P: Pair, e: ECfg, atol, rtol, MI, res_order, num_outputs=1):
    """returns (status, norm2, rate, err2list, ref, kappa, parts)"""
    cfg, d = P.cfg, P.d
    stepper, tr1s, prev, prop, cached, relin, means, k, n = MI
    dps = d if cfg.fact == "dense" else 1
    # reference and the radicand of rms(reference)
    rargs = [dps, e.idx if e.est == "state" else 0, n, len(tr1s)]
    for (m0, _), (m1, _) in zip(prev, prop):
        rargs += [m0, m1]
    ans = ctx.drv.call("ee_reference", *rargs)
    nref = int(ans[0])
    ref, B = ans[1 : 1 + nref], ans[1 + nref]
    rho = F(math.sqrt(float(B))) if B > 0 else Fraction(0)
    if B > 0 and abs(float(rho * rho / B) - 1.0) > 1e-15:
        raise core.HarnessError("float sqrt of the reference radicand is off")
    args = [0 if e.est == "residual" else 1, FACT[cfg.fact], NORMS[e.norm], e.relin, e.per_unit, res_order, dps, e.idx, k, n, len(tr1s), F(P.dt), F(atol), F(rtol), rho]
    for tr, (m0, C0), (m1, C1), (cA, cb, cQ), (H, b, R) in zip(tr1s, prev, prop, cached, relin):
        args += [*sm.pc_args(tr), m0, C0, m1, C1, cA, cb, cQ, H, b, R]
    ans = ctx.drv.call("ee_norm", *args)
    status, norm2, rate, ne = int(ans[0]), ans[1], int(ans[2]), int(ans[3])
    e2 = ans[4 : 4 + ne]
    lins = relin if e.relin else cached
    reff = np.array([float(x) for x in ref])
    weights = 1.0 / (float(atol) + float(rtol) * reff) if e.norm == "scale_then_rms" else None
    kappa, parts = kappa_of(e, cfg, stepper, tr1s, lins, means, weights)
    return status, norm2, rate, e2, ref, kappa, parts


def real_call(P: Pair, e: ECfg, atol, rtol, constraint=None):
    import jax.numpy as jnp

    err = make_error(constraint if constraint is not None else P.objs["constraint"], e)
    es = err.init_error()
    p, _ = err.estimate_error_norm(es, P.previous, P.proposed, dt=jnp.asarray(P.dt), atol=atol, rtol=rtol, damp=P.cfg.damp)
    return float(p)


def compare(ctx, P: Pair, e: ECfg, atol, rtol, MI=None):
    cfg = P.cfg
    case = dict(P.case, scenario=P.scenario, estimator=e.key(), dt=P.dt, atol=atol, rtol=rtol)
    sig = f"{e.est}:{cfg.fact}:{e.norm}"
    try:
        if MI is None:
            MI = model_inputs(ctx, P)
        status, norm2, rate, e2, ref, kappa, parts = model_norm(ctx, P, e, atol, rtol, MI, P.field.order + 1)
    except core.ModelError as ex:
        ctx.skip("model refused: " + ex.ans[:70])
        return None
    try:
        p = real_call(P, e, atol, rtol)
    except ValueError as ex:
        if status == 1:
            ctx.count("shape error on both sides")
            return None
        ctx.violation(f"{sig}:unexpected-ValueError", f"implementation raised {str(ex)[:120]} where the model returns status {status}", case)
        return None
    if status == 1:
        ctx.violation(f"{sig}:missing-ValueError", "the model decides 'shape mismatch' but the implementation returned a number", case)
        return None
    if status != 0:
        ctx.skip("model: outside the domain (status 2)")
        return None
    ctx.case(dict(cfg.key(), d=P.d, order=P.field.order, scenario=P.scenario, **e.key(), dt=P.dt, atol=atol, rtol=rtol, field=str(P.field.describe()["components"])[:100]))
    ctx.count(f"est={e.est}")
    ctx.count(f"norm={e.norm}")
    ctx.count(f"relin={e.relin}")
    ctx.count(f"per_unit={e.per_unit}")
    ctx.count(f"scenario={P.scenario}")
    if e.est == "state":
        ctx.count(f"derivative_idx={e.idx}")
    if norm2 == 0:
        # e.g. TS0, damp = 0, state estimator on the observed coefficient: the posterior variance is exactly 0 and the
        # float result is rounding noise (a discontinuity of error_power: 0 ** (-1/rate) = inf)
        ctx.skip("exact norm² = 0 (error_power = inf in exact arithmetic; float result is rounding noise)")
        return None
    if not kappa < KAPPA_MAX:
        ctx.skip("cancellation factor of the residual / posterior variance >= 1e6 (float result not determined by the data)")
        return None
    if not (math.isfinite(p) and p > 0):
        ctx.violation(f"{sig}:nonfinite", f"error_power = {p} on a well-conditioned input (exact norm² = {float(norm2):.6e})", case)
        return None
    ctx.count(f"compared: dt decade 1e{int(math.floor(math.log10(P.dt)))}")
    ctx.count(f"compared: scenario={P.scenario}")
    impl2 = p ** (-2.0 * rate)
    m2 = float(norm2)
    dev = abs(impl2 - m2) / m2
    ctx.dev(
        f"norm2.{e.est}.{cfg.fact}",
        dev / kappa,
        TOL,
        case=dict(case, kappa=parts, impl_error_power=p, impl_norm2=impl2, model_norm2=m2, rate=rate),
        sig=f"{sig}:norm2",
        what=f"error_power^(-2*{rate}) = {impl2:.12e} but the documented estimate gives norm² = {m2:.12e} (rel. dev {dev:.3e}, kappa {kappa:.2e}); theorem C07.errnorm_spec",
    )
    # the acceptance decision of the rejection loop (`error_power < 1` -> reject; theorem C07.accept_iff): norm² <= 1
    margin = abs(m2 - 1.0)
    if margin > 1e-6 * kappa:
        ctx.count("decision=accept" if m2 <= 1.0 else "decision=reject")
        if (not (p < 1.0)) != (m2 <= 1.0):
            ctx.violation(f"{sig}:decision", f"acceptance decision differs: error_power = {p!r} but exact norm² = {m2!r}; theorem C07.accept_iff", case)
    else:
        ctx.skip("acceptance decision not compared: |norm² - 1| within rounding of the case")
    return p, m2, kappa


# ------------------------------------------------------------------------------------------------
# generators


def random_config(ctx, it):
    rng = ctx.rng
    fact = ["dense", "iso", "bd"][it % 3]
    solver = ["solver", "mle", "dynamic"][(it // 3) % 3]
    if solver == "dynamic" and rng.random() < 0.3:
        solver = "dynamic_relin"
    lin = gen.pick(rng, ["ts0", "ts1"])
    order = int(gen.pick(rng, [1, 2], [3, 2]))
    q = int(rng.integers(order, 5 if ctx.quick else 6))
    d = int(rng.integers(1, 4))
    damp = float(gen.pick(rng, [0.0, 2.0**-8, 0.125], [3, 1, 1]))
    strategy = gen.pick(rng, ["filter", "fixedpoint", "fixedinterval"], [4, 1, 1])
    if rng.random() < 0.5:
        base = None
    elif fact == "iso":
        base = float(2.0 ** rng.integers(-3, 4))
    else:
        base = [float(2.0 ** rng.integers(-3, 4)) for _ in range(d)]
    cfg = sm.Config(fact=fact, solver=solver, strategy=strategy, lin=lin, q=q, damp=damp, init="exact", base_scale=base)
    return cfg, d, order


def random_ecfgs(ctx, cfg, count):
    rng = ctx.rng
    out = []
    for _ in range(count):
        est = gen.pick(rng, ["residual", "state"], [3, 2])
        out.append(
            ECfg(
                est=est,
                norm=gen.pick(rng, ["scale_then_rms", "rms_then_scale"]),
                relin=bool(rng.random() < 0.5),
                per_unit=bool(rng.random() < 0.5),
                idx=int(rng.integers(0, cfg.q + 1)) if est == "state" else 0,
            )
        )
    return out


def tolerances(rng):
    return float_dt(rng, -10, -1), float_dt(rng, -10, -1)


def perturb_state(ctx, cfg, state, scale=1.0):
    """previous state with its mean shifted by dyadic O(scale) noise (filter: u and solution_full are the same object kind)"""
    import jax.numpy as jnp

    u = state.u
    noise = gen.dyadic(ctx.rng, np.shape(u.mean_flat), bits=4, scale=scale)
    new = type(u)(u.mean_flat + jnp.asarray(noise), u.cholesky_flat, u.tree_flatten)
    return dataclasses.replace(state, u=new, solution_full=new)


def fake_cache(ctx, proposed):
    """proposed state whose cached linearisation has a different offset"""
    import jax.numpy as jnp

    fe = proposed.fun_evals
    nz = fe.noise
    shift = gen.dyadic(ctx.rng, np.shape(nz.mean_flat), bits=3, scale=1.0)
    noise = type(nz)(nz.mean_flat * 1.25 + jnp.asarray(shift), nz.cholesky_flat, nz.tree_flatten)
    return dataclasses.replace(proposed, fun_evals=type(fe)(fe.A, noise, to_latent=fe.to_latent, to_observed=fe.to_observed))


def make_pair(ctx, cfg, d, field, u0s, t0, nwarm, dt, scenario, objs=None):
    import jax.numpy as jnp

    if objs is None:
        objs = sm.build(cfg, field, u0s, t0)
    solver, prior = objs["solver"], objs["prior"]
    state = solver.init(jnp.asarray(t0), prior, damp=cfg.damp)
    warm = []
    for _ in range(nwarm):
        h = float_dt(ctx.rng, -3, -0.3)
        warm.append(h)
        state = solver.step(state, dt=jnp.asarray(h), damp=cfg.damp)
    if scenario in ("perturbed", "fake-cache+perturbed"):
        state = perturb_state(ctx, cfg, state)
    proposed = solver.step(state, dt=jnp.asarray(dt), damp=cfg.damp)
    if scenario.startswith("fake-cache"):
        proposed = fake_cache(ctx, proposed)
    case = {"config": cfg.key(), "base_scale": cfg.base_scale, "field": field.describe(), "u0": [np.asarray(u).tolist() for u in u0s], "t0": t0, "warmup_steps": warm,
            "previous_mean": np.asarray(state.u.mean_flat).tolist(), "cached_offset": np.asarray(proposed.fun_evals.noise.mean_flat).tolist()}
    return Pair(cfg, d, field, objs, state, proposed, dt, lam_of(cfg, d), scenario, case)


def finite_state(P):
    return bool(np.all(np.isfinite(np.asarray(P.proposed.u.mean_flat))) and np.all(np.isfinite(np.asarray(P.proposed.u.cholesky_flat))) and np.all(np.isfinite(np.asarray(P.proposed.fun_evals.noise.mean_flat))))


def run_pair(ctx, P, ecfgs):
    if not finite_state(P):
        ctx.skip("proposed state not finite (solver step failed: outside C07)")
        return
    try:
        MI = model_inputs(ctx, P)
    except core.ModelError as ex:
        ctx.skip("model refused: " + ex.ans[:70])
        return
    for e in ecfgs:
        atol, rtol = tolerances(ctx.rng)
        r = compare(ctx, P, e, atol, rtol, MI)
        if r is not None and ctx.rng.random() < 0.35:
            # same inputs with both tolerances rescaled so that norm² lands in [1/4, 4]: both acceptance decisions occur
            sc = math.sqrt(r[1] * float(ctx.rng.uniform(0.25, 4.0)))
            a2, r2 = short_float(atol * sc), short_float(rtol * sc)
            if 1e-10 <= a2 <= 1e-1 and 1e-10 <= r2 <= 1e-1:
                ctx.count("tolerances rescaled towards the acceptance boundary")
                compare(ctx, P, e, a2, r2, MI)


def scale_probe(ctx, cfg, d, field, u0s, t0, dt, e: ECfg):
    """Λ ↦ cΛ on the real code with everything else fixed: invariant iff damp = 0 (theorem errnorm_scale_invariant)"""
    rng = ctx.rng
    P = make_pair(ctx, cfg, d, field, u0s, t0, int(rng.integers(0, 2)), dt, "perturbed" if cfg.strategy == "filter" else "genuine")
    if not finite_state(P):
        ctx.skip("proposed state not finite (solver step failed: outside C07)")
        return
    c = float_dt(rng, -6, 6, bits=30)
    base = cfg.base_scale
    if base is None:
        base = 1.0 if cfg.fact == "iso" else [1.0] * d
    base_c = base * c if cfg.fact == "iso" else [b * c for b in base]
    cfg_c = dataclasses.replace(cfg, base_scale=base_c)
    objs_c = sm.build(cfg_c, field, u0s, t0)
    P_c = Pair(cfg_c, d, field, objs_c, dataclasses.replace(P.previous, prior=objs_c["prior"]), P.proposed, dt, lam_of(cfg_c, d), "scale-probe", dict(P.case, scale_factor=c, base_scale=base_c))
    atol, rtol = tolerances(rng)
    r1 = compare(ctx, P, e, atol, rtol)
    r2 = compare(ctx, P_c, e, atol, rtol)
    ctx.count(f"scale-probe damp={'0' if cfg.damp == 0 else '>0'}")
    if r1 is None or r2 is None:
        return
    (p1, m1, k1), (p2, m2, k2) = r1, r2
    rate = cfg.q + 1
    if cfg.damp == 0.0:
        dev = abs(p1 ** (-2.0 * rate) - p2 ** (-2.0 * rate)) / m1
        ctx.dev("scale-invariance(real code, damp=0)", dev / max(k1, k2), TOL_INV, case=dict(P_c.case, estimator=e.key(), dt=dt, atol=atol, rtol=rtol, error_power=[p1, p2]),
                sig=f"{e.est}:{cfg.fact}:scale-invariance", what=f"base scale times {c}: error_power {p1!r} -> {p2!r} although damp = 0; theorem C07.errnorm_scale_invariant")
        dm = abs(m1 - m2) / m1
        if dm > 1e-12:
            raise core.HarnessError(f"model not scale invariant for damp = 0 ({m1} vs {m2})")
    else:
        ctx.count("scale-probe: damp>0, model differs by >1%" if abs(m1 - m2) / m1 > 1e-2 else "scale-probe: damp>0, model differs by <=1%")


def shape_cases(ctx, it):
    """jet-lifted constraints: `num_outputs` output coefficients; the residual estimator must raise iff num_outputs != 1"""
    import jax.numpy as jnp
    from probdiffeq import probdiffeq as pdq

    rng = ctx.rng
    fact = ["dense", "iso", "bd"][it % 3]
    d = int(rng.integers(1, 4))
    q = int(rng.integers(2, 5))
    lift = int(rng.integers(0, min(q - 1, 2) + 1))
    field = problems.random_field(rng, d, 1, max_degree=2)
    u0s = [gen.dyadic(rng, (d,), bits=3, scale=1.0)]
    cfg = sm.Config(fact=fact, solver="solver", strategy="filter", lin="ts0", q=q, damp=0.0)
    objs = sm.build(cfg, field, u0s, 0.0)
    con = objs["ssm"].constraint_ode_ts0(objs["vf"].jet_lift(lift_by=lift))
    solver = pdq.solver(strategy=pdq.strategy_filter(), constraint=con)
    dt = float_dt(rng, -3, -0.5)
    st = solver.init(jnp.asarray(0.0), objs["prior"], damp=0.0)
    st1 = solver.step(st, dt=jnp.asarray(dt), damp=0.0)
    P = Pair(cfg, d, field, objs, st, st1, dt, lam_of(cfg, d), "jet-lift", {"config": cfg.key(), "field": field.describe(), "u0": [np.asarray(u).tolist() for u in u0s], "lift_by": lift})
    e = ECfg(est="residual", norm=gen.pick(rng, ["scale_then_rms", "rms_then_scale"]), relin=False, per_unit=False)
    case = dict(P.case, estimator=e.key(), dt=dt)
    try:
        MI = model_inputs(ctx, P, constraint_k=True)
        status = model_norm(ctx, P, e, 1e-3, 1e-3, MI, con.residual_order)[0]
    except core.ModelError as ex:
        ctx.skip("model refused: " + ex.ans[:70])
        return
    try:
        real_call(P, e, 1e-3, 1e-3, constraint=con)
        raised = False
    except ValueError as ex:
        raised = "different shapes" in str(ex)
        if not raised:
            raise
    dps = d if fact == "dense" else 1
    k = MI[7]
    exp = ctx.drv.call("ee_shape_ok", k // dps, {"dense": k, "iso": k, "bd": k * d}[fact], d)[0] == 1
    ctx.count(f"shape decision: num_outputs={lift + 1} raised={raised}")
    ctx.case(dict(kind="shape", fact=fact, d=d, q=q, lift=lift), nontrivial=True)
    if (status == 1) != raised or exp == raised:
        ctx.violation(f"shape:{fact}:decision", f"num_outputs={lift + 1}: implementation raised={raised}, model status={status}, shapeOk={exp}", case)


def pytree_cases(ctx, it):
    """pytree-valued ODE states: the acceptance quantity of a problem whose state is a dict of two arrays equals the one
    of the same problem with a flat state (whose value is compared with the model elsewhere): the contraction rate is the
    number of Taylor coefficients - not of array leaves - and the reference is a Taylor coefficient - not an array leaf."""
    import jax.numpy as jnp
    from probdiffeq import probdiffeq as pdq

    rng = ctx.rng
    fact = ["iso", "bd", "dense"][it % 3]
    d, q = 3, int(rng.integers(2, 4))
    field = problems.random_field(rng, d, 1, max_degree=2)
    f = field.as_jax()
    u0 = 0.25 + 0.5 * np.abs(gen.dyadic(rng, (d,), bits=3, scale=1.0)) * np.array([1.0, 8.0, 0.125])  # components of different magnitude
    ssm = {"dense": pdq.state_space_model_dense, "iso": pdq.state_space_model_isotropic, "bd": pdq.state_space_model_blockdiag}[fact]()

    def to_tree(x):
        return {"a": x[:1], "b": x[1:]}

    def from_tree(tr):
        return jnp.concatenate([tr["a"], tr["b"]])

    dt = float_dt(rng, -3, -1)
    atol, rtol = tolerances(rng)
    out = {}
    for kind in ("flat", "tree"):
        if kind == "flat":
            vf = pdq.ode(lambda u, /, *, t: f(u, t=t), jacobian=pdq.jacobian_materialize())
            init = jnp.asarray(u0)
        else:
            vf = pdq.ode(lambda u, /, *, t: to_tree(f(from_tree(u), t=t)), jacobian=pdq.jacobian_materialize())
            init = to_tree(jnp.asarray(u0))
        tcoeffs, _ = pdq.jetexpand_ode_padded_scan(num=q)(vf, (init,), t=jnp.asarray(0.0))
        prior = ssm.prior_wiener_integrated(tcoeffs)
        lin = gen.pick(rng, ["ts0", "ts1"]) if kind == "flat" else lin
        con = ssm.constraint_ode_ts0(vf) if lin == "ts0" else ssm.constraint_ode_ts1(vf)
        solver = pdq.solver(strategy=pdq.strategy_filter(), constraint=con)
        st0 = solver.init(jnp.asarray(0.0), prior, damp=0.0)
        st1 = solver.step(st0, dt=jnp.asarray(dt), damp=0.0)
        st2 = solver.step(st1, dt=jnp.asarray(dt), damp=0.0)
        vals = []
        for e in (ECfg(est="residual", norm="scale_then_rms", relin=False, per_unit=False), ECfg(est="residual", norm="rms_then_scale", relin=True, per_unit=True),
                  ECfg(est="state", norm="scale_then_rms", relin=False, per_unit=False, idx=0), ECfg(est="state", norm="rms_then_scale", relin=False, per_unit=True, idx=1)):
            err = make_error(con, e)
            pw, _ = err.estimate_error_norm(err.init_error(), st1, st2, dt=jnp.asarray(dt), atol=atol, rtol=rtol, damp=0.0)
            vals.append((e.key(), float(pw)))
        out[kind] = vals
    case = {"kind": "pytree-vs-flat", "fact": fact, "q": q, "lin": lin, "field": field.describe(), "u0": u0.tolist(), "dt": dt, "atol": atol, "rtol": rtol, "structure": "{'a': (1,), 'b': (2,)}"}
    for (k, a), (_, b) in zip(out["flat"], out["tree"]):
        # (both +inf: an error estimate that vanishes exactly - equal, not NaN)
        dev = 0.0 if a == b else abs(a - b) / max(abs(a), 1e-300)
        ctx.dev("pytree.error_power", dev, 1e-12, case=dict(case, estimator=k), sig=f"pytree:{fact}:{k['est']}",
                what=f"error_power for a dict-valued state ({b!r}) differs from the flat-state value ({a!r}) by {dev:.2e}")
    ctx.count("pytree-vs-flat estimator calls")
    ctx.case(dict(kind="pytree", fact=fact, q=q, lin=lin, dt=dt), nontrivial=True)


def error_state_cases(ctx, it):
    """the error state returned by a re-linearising estimator is the state returned by the linearisation it performed (with a
    Monte-Carlo Jacobian handler: the advanced PRNG key), so that successive estimates draw fresh probes; a cached estimator
    passes its state through (seeded change C07-s9)"""
    import jax
    import jax.numpy as jnp
    from probdiffeq import probdiffeq as pdq

    rng = ctx.rng
    fact = ["iso", "bd"][it % 2]
    ssm = {"iso": pdq.state_space_model_isotropic, "bd": pdq.state_space_model_blockdiag}[fact]()
    vf = pdq.ode(lambda u, /, *, t: 0.5 * u * (1 - u) + 0.25 * jnp.flip(u), jacobian=pdq.jacobian_monte_carlo_rev(num_probes=2, seed=int(rng.integers(1, 100))))
    tcoeffs, _ = pdq.jetexpand_ode_padded_scan(num=2)(vf, (jnp.asarray([0.25, 0.5, 0.75]),), t=0.0)
    prior = ssm.prior_wiener_integrated(tcoeffs)
    con = ssm.constraint_ode_ts1(vf)
    solver = pdq.solver(strategy=pdq.strategy_filter(), constraint=con)
    st0 = solver.init(jnp.asarray(0.0), prior, damp=0.0)
    st1 = solver.step(st0, dt=jnp.asarray(0.125), damp=0.0)
    for est in ("residual", "state"):
        for relin in (True, False):
            err = make_error(con, ECfg(est=est, norm="scale_then_rms", relin=relin, per_unit=False))
            es0 = con.init_linearization()
            _, es1 = err.estimate_error_norm(es0, st0, st1, dt=jnp.asarray(0.125), atol=1e-3, rtol=1e-3, damp=0.0)
            # what the linearisation itself returns as its next state, on the same prediction
            tr = st0.prior.transition(dt=jnp.asarray(0.125), output_scale=jnp.ones_like(st1.u.prototype_output_scale_calibrated()))
            rv = tr.apply_flat(st0.u.mean_flat)
            _, want = con.linearize(rv, es0, damp=0.0, t=st1.t)
            same_in = bool(jax.tree_util.tree_all(jax.tree_util.tree_map(lambda a, b: bool(jnp.array_equal(a, b)), es1, es0)))
            same_want = bool(jax.tree_util.tree_all(jax.tree_util.tree_map(lambda a, b: bool(jnp.array_equal(a, b)), es1, want)))
            case = {"kind": "error-state", "fact": fact, "estimator": est, "re_linearize_before_error": relin, "jacobian": "jacobian_monte_carlo_rev(num_probes=2)"}
            ctx.case(case, nontrivial=True)
            ctx.count("error-state bookkeeping")
            if relin and not same_want:
                ctx.violation(f"error-state:{est}:relinearised", "the re-linearising estimator does not return the state of the linearisation it performed (stale PRNG key: successive estimates reuse their probes)"
                              if same_in else "the re-linearising estimator returns a state different from the one of its linearisation", case)
            if not relin and not same_in:
                ctx.violation(f"error-state:{est}:cached", "the cached estimator changed the error state although it did not linearise", case)


def corpus():
    """fixed minimal cases (one per estimator x factorisation), replayed first"""
    out = []
    for i, fact in enumerate(["dense", "iso", "bd"]):
        for j, est in enumerate(["residual", "state"]):
            out.append((fact, est, ["scale_then_rms", "rms_then_scale"][(i + j) % 2], bool((i + j) % 2), bool(i % 2), j))
    return out


def run_corpus(ctx):
    for fact, est, norm, relin, per_unit, idx in corpus():
        d = 2
        field = problems.PolyField(d, 1, [[(Fraction(1, 2), (1, 1, 0)), (Fraction(-1, 4), (0, 0, 1))], [(Fraction(-3, 8), (2, 0, 0)), (Fraction(1), (0, 1, 0))]])
        cfg = sm.Config(fact=fact, solver="solver", strategy="filter", lin="ts1", q=2, damp=0.0)
        u0s = [np.array([0.5, -0.75])]
        P = make_pair(ctx, cfg, d, field, u0s, 0.0, 1, 0.125, "genuine")
        compare(ctx, P, ECfg(est=est, norm=norm, relin=relin, per_unit=per_unit, idx=idx), 1e-4, 1e-2)


def run(ctx):
    import jax

    jax.config.update("jax_enable_x64", True)
    ctx.rule = (
        "random solver configurations {dense,iso,bd} x {solver, mle, dynamic(+/- relinearise)} x {TS0,TS1} x {filter, fixed-point, fixed-interval} x damp in {0,>0} x base scales; "
        "random polynomial fields (degree <= 2, d <= 3, order 1-2); q <= 5; previous = state after 0-2 real steps (optionally with an O(1) perturbation of the mean), proposed = real step of size dt; "
        "dt log-uniform in [1e-5, 1], atol/rtol log-uniform in [1e-10, 1e-1]; estimators residual/state x both norms x cached/re-linearised x per-unit-step x derivative index; "
        "substituted caches, base-scale probes c log-uniform in [1e-6, 1e6], jet-lifted constraints; distinct = different (config, field, estimator, dt, tolerances)"
    )
    ctx.assumptions += [
        "linearisation (value/Jacobian of the polynomial field at the model's exact extrapolated mean) is evaluated on the Python side in exact arithmetic; the model of `linearize` itself is C11",
        "IWP prior; the unit-scale transition handed to the model is the Lean IWP model (Pdq.Model.Iwp) for the same dt and base scale, not the implementation's transition",
        "the last root (rms of the reference in rms_then_scale) and the power error_power^(-2 rate) are taken in float64 by the harness (DESIGN §0 item 2)",
        "cases whose float result is not determined by the data (cancellation factor >= 1e6: residual much smaller than its summands, posterior variance much smaller than the prior variance) are skipped and counted",
    ]
    run_corpus(ctx)
    for it in range(ctx.n(3, 30)):
        pytree_cases(ctx, it)
    for it in range(ctx.n(2, 8)):
        error_state_cases(ctx, it)
    n = ctx.n(12, 300)
    per = ctx.n(6, 8)
    reps = ctx.n(2, 3)
    for it in range(n):
        core.release_jax(8)
        cfg, d, order = random_config(ctx, it)
        rng = ctx.rng
        field = problems.random_field(rng, d, order, max_degree=2)
        u0s = [gen.dyadic(rng, (d,), bits=3, scale=1.0) for _ in range(order)]
        t0 = float(gen.pick(rng, [0.0, 0.5, -1.0]))
        for kk in ("fact", "solver", "lin", "strategy"):
            ctx.count(f"{kk}={getattr(cfg, kk)}")
        ctx.count(f"q={cfg.q}")
        ctx.count(f"order={order}")
        ctx.count(f"damp={'0' if cfg.damp == 0 else '>0'}")
        objs = sm.build(cfg, field, u0s, t0)
        for _rep in range(reps):
            dt = float_dt(rng)
            scen = gen.pick(rng, ["genuine", "perturbed", "fake-cache", "fake-cache+perturbed"], [3, 4, 1, 2])
            if cfg.strategy != "filter" and "perturbed" in scen:
                scen = "genuine" if scen == "perturbed" else "fake-cache"
            ctx.count(f"dt decade 1e{int(math.floor(math.log10(dt)))}")
            P = make_pair(ctx, cfg, d, field, u0s, t0, int(rng.integers(0, 3)), dt, scen, objs=objs)
            run_pair(ctx, P, random_ecfgs(ctx, cfg, per))
        if it % 3 == 0:
            cfg0 = dataclasses.replace(cfg, damp=0.0 if rng.random() < 0.8 else cfg.damp)
            e = random_ecfgs(ctx, cfg0, 1)[0]
            scale_probe(ctx, cfg0, d, field, u0s, t0, float_dt(rng), e)
        if it % 4 == 0:
            shape_cases(ctx, it // 4)
