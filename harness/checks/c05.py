"""C05 — Checkpoint values do not depend on the checkpoint set; they interpolate exactly.

(a) per-call refinement of `solver.interpolate_fwd` / `interpolate_fwd_at_t1` / `offgrid_marginals` against the
    Lean model (`Pdq.Model.Interp`) on states reached by real steps, all strategies x factorisations x modes;
(b) superset invariance on real adaptive runs: checkpoint sets A subset B with equal end points (checkpoints that
    coincide with step ends, several inside one step, separated by less than eps), no clipping: means,
    covariances, num_steps and output scales at the common checkpoints must coincide;
(c) terminal-value routine = last entry of the checkpointed routine; off-grid marginals of a save-every-step
    run = checkpoint values.
The loop-level theorem (the accepted step sequence does not depend on the checkpoints) is C05Loop, on top of
the adaptive-loop model shared with C06.
"""

from __future__ import annotations

import dataclasses
from fractions import Fraction

import numpy as np

from harness import core, gen, problems
from harness import solvermodel as sm
from harness.checks import c02
from harness.core import Cut, F

PROPS_MODULES = ["Pdq.Props.C05", "Pdq.Props.C05Loop", "Pdq.Props.C05Scan"]
LEVEL = "proof"
TOL = 1e-9


def read_state(cut, n):
    return {"mean": cut.take(n), "cov": cut.take(n, n), "bw": sm.read_pcond(cut, n, n)}


def interp_refine(ctx, cfg, d, field, u0s, t0, hs):
    import jax.numpy as jnp

    objs = sm.build(cfg, field, u0s, t0)
    solver, prior = objs["solver"], objs["prior"]
    stepper = sm.ModelStepper(ctx, cfg, field, d, c02.lam_of(cfg, d), prior=prior)
    st0 = solver.init(jnp.asarray(t0), prior, damp=cfg.damp)
    case0 = c02.case_of(cfg, field, u0s, t0, hs)
    for h in [*hs[:-1], None]:
        hh = hs[-1] if h is None else h
        nxt = solver.step(st0, dt=jnp.asarray(hh), damp=cfg.damp)
        if not sm.state_is_finite(nxt):
            sig, why = sm.nonfinite_signature(ctx, cfg, stepper, sm.state_slices(cfg, st0), F(float(st0.t)), F(hh))
            ctx.violation(sig, why, case0)
            return
        if h is None:
            st1 = nxt
        else:
            st0 = nxt
    ta, tb = float(st0.t), float(st1.t)
    frac = float(gen.pick(ctx.rng, [0.5, 0.25, 0.875, 2.0**-10, 1 - 2.0**-10]))
    t = ta + (tb - ta) * frac
    if not (ta < t < tb):
        return
    case = dict(c02.case_of(cfg, field, u0s, t0, hs), t=t)
    sigp = f"interp:{cfg.fact}:{cfg.strategy}:{cfg.solver}"
    interpolated, res = solver.interpolate_fwd(t=jnp.asarray(t), interp_from=st0, interp_to=st1)
    # bookkeeping of times / counters as documented
    ok = float(interpolated.t) == t and float(res.step_from.t) == tb and float(res.interp_from.t) == t
    ok &= int(res.step_from.num_steps) == int(st1.num_steps) and int(interpolated.num_steps) == int(st1.num_steps)
    if not ok:
        ctx.violation(f"{sigp}:bookkeeping", "times / num_steps of the interpolation result are not (t, t1, t) / those of interp_to", case)
    # the domain of a step is (t0, t1]: the interpolated solution and step_from carry the output scale of interp_to
    # (the scale the two transitions were built with), interp_from keeps the one of the left end point
    os_to, os_from = np.asarray(st1.output_scale), np.asarray(st0.output_scale)
    if not (np.array_equal(np.asarray(interpolated.output_scale), os_to) and np.array_equal(np.asarray(res.step_from.output_scale), os_to)
            and np.array_equal(np.asarray(res.interp_from.output_scale), os_from)):
        ctx.violation(f"{sigp}:bookkeeping:output_scale", "interpolate_fwd: output scales of (interpolated, step_from, interp_from) are not those of (interp_to, interp_to, interp_from)", case)
    # model: transitions with the output scale of interp_to
    if cfg.solver.startswith("dynamic"):
        osq = np.atleast_1d(np.asarray(st1.output_scale, dtype=np.float64))
        s2 = [F(x) ** 2 for x in osq] if cfg.fact == "bd" else F(float(osq[0])) ** 2
    else:
        s2 = Fraction(1)
    dt0 = F(float(jnp.asarray(t) - st0.t))
    dt1 = F(float(st1.t - jnp.asarray(t)))
    tr0, tr1 = stepper.transitions(dt0, s2), stepper.transitions(dt1, s2)
    p0s, p1s = sm.state_slices(cfg, st0), sm.state_slices(cfg, st1)
    outs = [sm.state_slices(cfg, interpolated), sm.state_slices(cfg, res.step_from), sm.state_slices(cfg, res.interp_from)]
    n = stepper.N
    strat = sm.STRATS[cfg.strategy]
    for j in range(len(p0s)):
        try:
            ans = Cut(ctx.drv.call("sv_interpolate", strat, n, *sm.st_args(p0s[j]), *sm.st_args(p1s[j]), *sm.pc_args(tr0[j]), *sm.pc_args(tr1[j])))
        except core.ModelError as e:
            ctx.skip("model refused interpolation: " + e.ans[:60])
            return
        mods = [read_state(ans, n), read_state(ans, n), read_state(ans, n)]
        # predicted variances at t as the scale
        pm = Cut(ctx.drv.call("pc_marg", n, n, *sm.pc_args(tr0[j]), p0s[j]["mean"], p0s[j]["cov"]))
        pm_mean = pm.take(n)
        Pt = pm.take(n, n)
        pv_t = np.array([Pt[a, a] for a in range(n)], dtype=object)
        pv_1 = np.array([p1s[j]["cov"][a, a] for a in range(n)], dtype=object)
        kp = sm.corr_cond(Pt)
        pm1 = Cut(ctx.drv.call("pc_marg", n, n, *sm.pc_args(tr1[j]), pm_mean, Pt))
        pm1.take(n)
        P1pred = pm1.take(n, n)
        kp = max(kp, sm.corr_cond(P1pred))
        for name, impl, mod, pv in zip(("interpolated", "step_from", "interp_from"), outs, mods, (pv_t, pv_1, pv_t)):
            sv = np.array([pv[a] + (mod["mean"][a] * Fraction(1, 10**10)) ** 2 + Fraction(1, 10**80) for a in range(n)], dtype=object)
            dm = sm._dev_vec(impl[j]["mean"], mod["mean"], np.abs(sm.tofloat(mod["mean"])) + np.sqrt(sm.tofloat(sv)))
            dc = sm._dev_cov(impl[j]["cov"], mod["cov"], sv)
            ctx.dev(f"interp.{name}.mean", dm, TOL, case=case, sig=f"{sigp}:{name}:mean", what=f"{name} mean deviates {dm:.2e} from the model of interpolate_fwd")
            ctx.dev(f"interp.{name}.cov", dc, 1e-8, case=case, sig=f"{sigp}:{name}:cov", what=f"{name} covariance deviates {dc:.2e} from the model of interpolate_fwd")
            at_floor = False
            if cfg.solver.startswith("dynamic"):
                # a dimension whose residual vanishes identically (polynomial solution) has its local scale on the positivity
                # floor (machine epsilon, repository fix 4b386e0): process noise ~1e-32 next to the prior covariance; the
                # backward gains of such a slice are not determined by the float data (thorough-tier false alarm)
                osf = np.atleast_1d(np.asarray(st1.output_scale, dtype=np.float64))
                at_floor = bool((osf[j] if cfg.fact == "bd" else osf[0]) <= 1e3 * 2.220446049250313e-16)
                if at_floor:
                    ctx.skip("interpolation: dynamic scale of this slice at the positivity floor: backward conditional not compared")
            if cfg.strategy != "filter" and kp < 1e6 and not at_floor:
                Am, bm, Qm = sm.den_float(mod["bw"])
                # scale for the conditional's noise: variance of the state it maps *to*, written as
                # (its own noise) + (gain * covariance of the later state * gain^T)
                # (variance of the earlier state) + (gain * predicted covariance of the later state * gain^T): the two
                # terms whose difference is the backward noise
                if name == "step_from":
                    C_from, earlier = sm.tofloat(P1pred), sm.tofloat(pv_t)
                else:
                    C_from, earlier = sm.tofloat(Pt), np.maximum(np.diag(Qm), 0)
                prior_var = earlier + np.diag(Am @ C_from @ Am.T) + 1e-300
                sm.compare_bw(ctx, f"interp.{name}", impl[j]["bw"], mod["bw"], 1e-8, case, f"{sigp}:{name}", kappa=max(1.0, kp), prior_var=prior_var)
    ctx.case(dict(cfg.key(), d=d, mode="interpolate_fwd", frac=frac))
    # at t1
    # the checkpoint handed to the at-step-end branch lies within eps of the step end but need not be bit-identical to it:
    # all three states are reported at the step end (interp_to.t), not at the requested time
    t_req = st1.t + float(gen.pick(ctx.rng, [0.0, 3e-9, -3e-9]))
    sol, res = solver.interpolate_fwd_at_t1(t=t_req, interp_from=st0, interp_to=st1)
    outs = [sm.state_slices(cfg, sol), sm.state_slices(cfg, res.step_from), sm.state_slices(cfg, res.interp_from)]
    for j in range(len(p1s)):
        ans = Cut(ctx.drv.call("sv_interpolate_at_t1", strat, n, *sm.st_args(p1s[j])))
        mods = [read_state(ans, n), read_state(ans, n), read_state(ans, n)]
        for name, impl, mod in zip(("interpolated", "step_from", "interp_from"), outs, mods):
            same = all(np.array_equal(sm.tofloat(impl[j][k]), sm.tofloat(mod[k])) for k in ("mean", "cov"))
            if cfg.strategy != "filter":
                same &= all(np.array_equal(sm.tofloat(impl[j]["bw"][k]), sm.tofloat(mod["bw"][k])) for k in ("A", "b", "Q", "tl", "to"))
            if not same:
                ctx.violation(f"{sigp}:at_t1:{name}", f"interpolate_fwd_at_t1: {name} differs from the model (must be an exact copy / identity conditional)", case)
    if not (float(sol.t) == tb and float(res.step_from.t) == tb and float(res.interp_from.t) == tb):
        ctx.violation(f"{sigp}:at_t1:bookkeeping", "interpolate_fwd_at_t1 must report all three states at interp_to.t", case)
    ctx.case(dict(cfg.key(), d=d, mode="interpolate_fwd_at_t1"))


def solve_save_at(objs, save_at, tol, dt0, clip=False, eps=1e-8, damp=0.0, control=None):
    import jax.numpy as jnp
    from probdiffeq import ivpsolve
    from probdiffeq import probdiffeq as pdq

    err = pdq.error_residual_std(constraint=objs["constraint"])
    ctl = {} if control is None else {"control": ivpsolve.control_proportional_integral()}
    solve = ivpsolve.solve_adaptive_save_at(solver=objs["solver"], error=err, clip_dt=clip, **ctl)
    return solve(objs["prior"], save_at=jnp.asarray(save_at), atol=tol, rtol=tol, dt0=dt0, eps=eps, damp=damp)


def superset(ctx, cfg, d, field, u0s, t0, t1, tol, dt0):
    """A subset B, equal end points: values at the common checkpoints coincide."""
    import jax

    objs = sm.build(cfg, field, u0s, t0)
    rng = ctx.rng
    nA = int(rng.integers(1, 4))
    A = sorted(set(float(x) for x in t0 + (t1 - t0) * rng.uniform(0.05, 0.95, size=nA)))
    # the stateful proportional-integral controller in every third case: its memory belongs to the stepper projection and
    # must survive interpolations (seeded change C05-s10)
    objs["control"] = "PI" if rng.random() < 0.34 else None
    ctx.count(f"superset control={'PI' if objs['control'] else 'I'}")
    solA = solve_save_at(objs, [t0, *A, t1], tol, dt0, control=objs["control"])
    if not np.all(np.isfinite(np.asarray(solA.u.mean[0]))):
        ctx.skip("adaptive run produced non-finite means (problem blows up)")
        return
    # extra checkpoints: random, plus some at/near step ends of a save-every-step run and clustered within < eps
    extra = [float(x) for x in t0 + (t1 - t0) * rng.uniform(0.02, 0.98, size=int(rng.integers(1, 5)))]
    from probdiffeq import probdiffeq as pdq
    from probdiffeq.util import test_util

    cfe = dataclasses.replace(cfg, strategy="filter")
    oe = sm.build(cfe, field, u0s, t0)
    err = pdq.error_residual_std(constraint=oe["constraint"])
    from probdiffeq import ivpsolve

    ctl_e = ivpsolve.control_proportional_integral() if objs.get("control") else None
    ste = test_util.solve_adaptive_save_every_step(oe["solver"], err, control=ctl_e, clip_dt=False)(oe["prior"], t0, t1, atol=tol, rtol=tol, dt0=dt0)
    ends = [float(x) for x in np.asarray(ste.t)[1:-1] if t0 < x < t1]
    if ends:
        e = float(gen.pick(rng, ends))
        extra += [e]  # exactly a step end
        if rng.random() < 0.5:
            extra += [e + 3e-9]  # within eps after it
        extra += [float(x) for x in (e + (t1 - e) * 1e-3 * rng.uniform(0.1, 1.0, size=2))]  # several inside one step
    if rng.random() < 0.5:
        x = float(t0 + (t1 - t0) * rng.uniform(0.1, 0.9))
        extra += [x, x + 5e-10]  # separated by less than eps
    B = sorted(set(A + [x for x in extra if t0 + 1e-7 < x < t1 - 1e-7]))
    _superset_compare(ctx, cfg, d, field, u0s, t0, t1, tol, dt0, objs, A, B, solA, [t0, *ends, t1])


def tiny_offset_bound(cfg, A, B, grid, eps_arg=1e-8):
    """D11 (known finding): a smoother's interpolation over a sub-interval that is a tiny fraction r of its step (but longer
    than eps) un-preconditions a backward gain with T(r h): rounding errors of its lower triangle are amplified by r^-(i-j).
    Returns an upper estimate 100 eps r^-(q+1) of the relative perturbation of *earlier* smoothed checkpoints, for the
    smallest r in (1e-8, 1) among the extra checkpoints of B (distance to the interpolation origin = previous step end or
    previous checkpoint, and to the next step end), and that r."""
    if cfg.strategy == "filter":
        return 0.0, None
    worst, rmin = 0.0, None
    grid = sorted(grid)
    for x in B:
        if x in A:
            continue
        lo = max(g for g in grid if g <= x)
        hi = min(g for g in grid if g > x) if any(g > x for g in grid) else x
        h = hi - lo
        if h <= 0:
            continue
        prev = max([lo] + [b for b in B if b < x])
        for dist in (x - prev, hi - x):
            if dist <= eps_arg:
                continue  # the at-step-end branch (no interpolation) / beyond the window
            r = dist / h
            if 1e-8 < r < 1.0:
                bnd = 100 * 2.2e-16 * r ** -(cfg.q + 1)
                if bnd > worst:
                    worst, rmin = bnd, r
    return worst, rmin


def _superset_compare(ctx, cfg, d, field, u0s, t0, t1, tol, dt0, objs, A, B, solA, grid, corpus=False):
    import jax

    solB = solve_save_at(objs, [t0, *B, t1], tol, dt0, control=objs.get("control"))
    d11, rmin = tiny_offset_bound(cfg, A, B, grid)
    # (no cap: the thorough tier met a 29 % change of a smoothed mean at q = 4, r ~ 1e-4 - D11 is not a small effect)
    case = {"config": cfg.key(), "field": field.describe(), "u0": [np.asarray(u).tolist() for u in u0s], "t0": t0, "t1": t1, "tol": tol, "dt0": dt0, "A": A, "B": B}
    sigp = f"superset:{cfg.fact}:{cfg.strategy}:{cfg.solver}:{cfg.lin}"
    idxA = [0] + [1 + i for i in range(len(A))] + [len(A) + 1]
    idxB = [0] + [1 + B.index(a) for a in A] + [len(B) + 1]
    for ia, ib in zip(idxA, idxB):
        ua = jax.tree_util.tree_map(lambda s: s[ia], solA.u)
        ub = jax.tree_util.tree_map(lambda s: s[ib], solB.u)
        for (ma, Ca), (mb, Cb) in zip(sm.normal_slices(cfg.fact, ua), sm.normal_slices(cfg.fact, ub)):
            n = len(ma)
            sv = np.array([Ca[i, i] + (ma[i] * Fraction(1, 10**9)) ** 2 + Fraction(1, 10**80) for i in range(n)], dtype=object)
            dm = sm._dev_vec(mb, ma, np.abs(sm.tofloat(ma)) + np.sqrt(sm.tofloat(sv)) + 1e-6 * np.max(np.abs(sm.tofloat(ma)), initial=0.0))
            dc = sm._dev_cov(Cb, Ca, sv)
            c = dict(case, index_in_A=ia)
            # smoothers propagate information backwards through gains whose conditioning grows like the Hilbert matrix of
            # order q (kappa up to ~1e9 for q = 4 with small steps): implementation-vs-implementation noise reaches 1e-7
            tm, tc_ = (1e-7, 1e-6) if cfg.strategy == "filter" else (1e-5, 1e-4)
            if d11 > tm and (tm < dm <= d11 or tc_ < dc <= 10 * d11):
                # explained by D11 (known finding; DESIGN 9.5): filed under its own signature, never under the generic one
                ctx.devs["superset.tiny-offset.mean"] = max(ctx.devs.get("superset.tiny-offset.mean", 0.0), dm)
                ctx.violation(
                    "superset:smoother:tiny-offset-interpolation",
                    f"smoothed mean / covariance at an earlier common checkpoint changes by {dm:.2e} / {dc:.2e} (relative to |m| + sd) when a checkpoint is added "
                    f"at a fraction r = {rmin:.1e} of a step from its interpolation origin or step end (q = {cfg.q}; rounding amplified by r^-(q+1))",
                    c,
                )
                continue
            ctx.dev("superset.mean", dm, tm, case=c, sig=f"{sigp}:mean", what=f"mean at a common checkpoint changes by {dm:.2e} when more checkpoints are requested")
            ctx.dev("superset.cov", dc, tc_, case=c, sig=f"{sigp}:cov", what=f"covariance at a common checkpoint changes by {dc:.2e} when more checkpoints are requested")
        nsa, nsb = int(np.asarray(solA.num_steps)[ia - 1] if ia > 0 else 0), int(np.asarray(solB.num_steps)[ib - 1] if ib > 0 else 0)
        if nsa != nsb:
            ctx.violation(f"{sigp}:num_steps", f"num_steps at a common checkpoint differs: {nsa} vs {nsb}", dict(case, index_in_A=ia))
        if ia > 0:
            oa, ob = np.asarray(solA.output_scale), np.asarray(solB.output_scale)
            # output_scale has N-1 entries for solver / solver_mle and N for solver_dynamic (t has N entries)
            offa = 0 if oa.shape[0] == np.asarray(solA.t).shape[0] else 1
            osa, osb = oa[ia - offa], ob[ib - offa]
            dev = float(np.max(np.abs(osa - osb) / np.maximum(np.abs(osa), 1e-300)))
            ctx.dev("superset.output_scale", dev, 1e-7, case=dict(case, index_in_A=ia), sig=f"{sigp}:output_scale", what=f"output scale at a common checkpoint changes by {dev:.2e}")
    ctx.count(f"superset |A|={len(A)} |B|={len(B)}")
    ctx.case(dict(cfg.key(), d=d, mode="superset", nA=len(A), nB=len(B)))
    if corpus:
        return
    rng = ctx.rng
    # terminal values = last entry
    import jax.numpy as jnp
    from probdiffeq import ivpsolve
    from probdiffeq import probdiffeq as pdq

    err2 = pdq.error_residual_std(constraint=objs["constraint"])
    for clip in (False, True):
        # every argument of the terminal-value routine must reach the checkpointed routine: use a non-zero damping and a
        # non-default eps as well
        dmp, eps_ = float(gen.pick(rng, [0.0, 2.0**-6, 0.125])), float(gen.pick(rng, [1e-8, 1e-6]))
        term = ivpsolve.solve_adaptive_terminal_values(objs["solver"], err2, clip_dt=clip)(objs["prior"], t0=jnp.asarray(t0), t1=jnp.asarray(t1), atol=tol, rtol=tol, dt0=dt0, damp=dmp, eps=eps_)
        ref = solve_save_at(objs, [t0, t1], tol, dt0, clip=clip, damp=dmp, eps=eps_)
        last = jax.tree_util.tree_map(lambda s: s[-1], ref.u)
        for (ma, Ca), (mb, Cb) in zip(sm.normal_slices(cfg.fact, last), sm.normal_slices(cfg.fact, term.u)):
            same = np.array_equal(sm.tofloat(ma), sm.tofloat(mb)) and np.array_equal(sm.tofloat(Ca), sm.tofloat(Cb))
            if not same:
                ctx.violation(f"terminal:{cfg.fact}:{cfg.strategy}:{cfg.solver}", "solve_adaptive_terminal_values differs from the last entry of solve_adaptive_save_at([t0,t1])", dict(case, clip=clip, damp=dmp, eps=eps_))
        if int(np.asarray(term.num_steps)) != int(np.asarray(ref.num_steps)[-1]) or not np.array_equal(np.asarray(term.output_scale), np.asarray(ref.output_scale)[-1]):
            ctx.violation(f"terminal:{cfg.fact}:{cfg.strategy}:{cfg.solver}:bookkeeping", "solve_adaptive_terminal_values: num_steps / output_scale differ from the last entry of the checkpointed routine", dict(case, clip=clip, damp=dmp, eps=eps_))
    ctx.case(dict(cfg.key(), d=d, mode="terminal-values"))


def offgrid(ctx, cfg, d, field, u0s, t0, t1, tol, dt0):
    """off-grid marginals of a save-every-step run = checkpoint values (filter; fixed-interval vs fixed-point is C03)"""
    import jax
    import jax.numpy as jnp
    from probdiffeq import probdiffeq as pdq
    from probdiffeq.util import test_util

    objs = sm.build(cfg, field, u0s, t0)
    err = pdq.error_residual_std(constraint=objs["constraint"])
    sol = test_util.solve_adaptive_save_every_step(objs["solver"], err, clip_dt=False)(objs["prior"], t0, t1, atol=tol, rtol=tol, dt0=dt0)
    ts = np.asarray(sol.t)
    if len(ts) < 3 or not np.all(np.isfinite(np.asarray(sol.u.mean[0]))):
        return
    # the first interval (its left end is the *initial* marginal, calibrated separately) and a random one
    for k in sorted({0, int(ctx.rng.integers(0, len(ts) - 2))}):
        tc = float(ts[k] + (ts[k + 1] - ts[k]) * ctx.rng.uniform(0.2, 0.8))
        _offgrid_at(ctx, cfg, d, field, u0s, t0, t1, tol, dt0, objs, sol, tc)


def _offgrid_at(ctx, cfg, d, field, u0s, t0, t1, tol, dt0, objs, sol, tc):
    import jax
    import jax.numpy as jnp

    off = objs["solver"].offgrid_marginals(jnp.asarray(tc), solution=sol)
    ref = solve_save_at(objs, [t0, tc, t1], tol, dt0)
    got = jax.tree_util.tree_map(lambda s: s[1], ref.u)
    case = {"config": cfg.key(), "field": field.describe(), "u0": [np.asarray(u).tolist() for u in u0s], "t0": t0, "t1": t1, "tol": tol, "dt0": dt0, "t": tc}
    for (ma, Ca), (mb, Cb) in zip(sm.normal_slices(cfg.fact, off), sm.normal_slices(cfg.fact, got)):
        n = len(ma)
        sv = np.array([Ca[i, i] + (ma[i] * Fraction(1, 10**9)) ** 2 + Fraction(1, 10**80) for i in range(n)], dtype=object)
        dm = sm._dev_vec(mb, ma, np.abs(sm.tofloat(ma)) + np.sqrt(sm.tofloat(sv)) + 1e-6 * np.max(np.abs(sm.tofloat(ma)), initial=0.0))
        dc = sm._dev_cov(Cb, Ca, sv)
        ctx.dev("offgrid.mean", dm, 1e-7, case=case, sig=f"offgrid:{cfg.fact}:{cfg.strategy}:{cfg.solver}:mean", what=f"off-grid marginal mean differs from the checkpoint value by {dm:.2e}")
        ctx.dev("offgrid.cov", dc, 1e-6, case=case, sig=f"offgrid:{cfg.fact}:{cfg.strategy}:{cfg.solver}:cov", what=f"off-grid marginal covariance differs from the checkpoint value by {dc:.2e}")
    ctx.case(dict(cfg.key(), d=d, mode="offgrid-vs-checkpoint"))


def corpus_tiny_offset(ctx):
    """Deterministic instance of D11 (found by seed 4 of the multi-seed sweep): isotropic fixed-point smoother, q = 4, TS1,
    solver_mle; adding one checkpoint 1e-5 after the step end at t ~ 1.6953 changes the smoothed mean at t = 1.2645."""
    from probdiffeq import probdiffeq as pdq
    from probdiffeq.util import test_util

    cfg = sm.Config(fact="iso", solver="mle", strategy="fixedpoint", lin="ts1", q=4, damp=0.0, init="exact", base_scale=None)
    comps = [[(Fraction(5, 4), (1, 0, 0))], [(Fraction(-1), (0, 1, 0)), (Fraction(-3, 8), (1, 0, 0))]]
    field = problems.PolyField(2, 1, comps)
    u0s, t0, t1, tol, dt0 = [np.array([-0.75, 1.0])], 0.0, 2.0, 0.0005922485175331622, 0.7
    objs = sm.build(cfg, field, u0s, t0)
    oe = sm.build(dataclasses.replace(cfg, strategy="filter"), field, u0s, t0)
    err = pdq.error_residual_std(constraint=oe["constraint"])
    ste = test_util.solve_adaptive_save_every_step(oe["solver"], err, clip_dt=False)(oe["prior"], t0, t1, atol=tol, rtol=tol, dt0=dt0)
    ends = [float(x) for x in np.asarray(ste.t)[1:-1] if t0 < x < t1]
    A = [1.264504871050074]
    later = [e for e in ends if e > 1.5]
    if not later:
        ctx.skip("corpus D11: step history changed (no step end after 1.5)")
        return
    B = sorted(A + [later[0] + 1e-5])
    solA = solve_save_at(objs, [t0, *A, t1], tol, dt0)
    _superset_compare(ctx, cfg, 2, field, u0s, t0, t1, tol, dt0, objs, A, B, solA, [t0, *ends, t1], corpus=True)


def corpus_pi_controller(ctx):
    """deterministic superset comparison with the stateful proportional-integral controller (filter, checkpoints strictly
    inside steps): the controller's memory is part of what stepping continues from (C05Loop.proj) and survives interpolation"""
    cfg = sm.Config(fact="iso", solver="solver", strategy="filter", lin="ts0", q=2, damp=0.0, init="exact", base_scale=None)
    comps = [[(Fraction(5, 4), (1, 0, 0)), (Fraction(-1), (2, 0, 0))], [(Fraction(-1), (0, 1, 0)), (Fraction(3, 8), (1, 0, 0))]]
    field = problems.PolyField(2, 1, comps)
    u0s, t0, t1, tol, dt0 = [np.array([0.25, 1.0])], 0.0, 3.0, 1e-4, 0.05
    objs = sm.build(cfg, field, u0s, t0)
    objs["control"] = "PI"
    A = [1.75]
    B = [0.3, 0.55, 0.9, 1.2, 1.75, 2.1, 2.6]
    solA = solve_save_at(objs, [t0, *A, t1], tol, dt0, control="PI")
    _superset_compare(ctx, cfg, 2, field, u0s, t0, t1, tol, dt0, objs, A, B, solA, [t0, t1], corpus=True)


def run(ctx):
    import warnings

    import jax

    jax.config.update("jax_enable_x64", True)
    warnings.filterwarnings("ignore")
    ctx.rule = (
        "per-call refinement of interpolate_fwd / interpolate_fwd_at_t1 on states reached by 1-2 real steps, interpolation points at 1/2, 1/4, 7/8 and "
        "2^-10 from either end; adaptive runs with random checkpoint sets A subset B (extra checkpoints random, exactly at / within eps after a step end, "
        "several inside one step, pairs closer than eps); terminal-value routine; off-grid marginals; all strategies x factorisations x calibration modes"
    )
    ctx.assumptions += ["as C02; clipping off for the superset comparison (the property's premise)"]
    corpus_tiny_offset(ctx)
    corpus_pi_controller(ctx)
    n = ctx.n(12, 160)
    for it in range(n):
        strat = ["filter", "fixedpoint", "fixedinterval"][it % 3]
        core.release_jax(6)
        cfg, d, order = c02.random_config(ctx, strat, it // 3)
        field, u0s, t0 = c02.make_problem(ctx, cfg, d, order)
        for k in ("fact", "solver", "strategy"):
            ctx.count(f"{k}={getattr(cfg, k)}")
        hs = [float(2.0 ** ctx.rng.integers(-7, 0)) * float(gen.pick(ctx.rng, [1.0, 0.75, 1.5])) for _ in range(int(ctx.rng.integers(1, 3)))]
        interp_refine(ctx, cfg, d, field, u0s, t0, hs)
        if it % 2 == 0 and strat != "fixedinterval":
            # (inexact initial states included: the value stored at t0 and the first interval depend on the calibration of
            # the *initial* marginal - seeded change C05-s6)
            cfa = dataclasses.replace(cfg, q=min(cfg.q, 4), init=str(gen.pick(ctx.rng, ["exact", "inexact"])), damp=0.0, constraint_init=False, diffuse=0, prior="iwp")
            fld = problems.random_field(ctx.rng, d, order, max_degree=1, linear=True)
            tol = float(10.0 ** ctx.rng.uniform(-6, -2))
            t1 = t0 + float(gen.pick(ctx.rng, [0.5, 1.0, 2.0]))
            dt0 = float(gen.pick(ctx.rng, [0.1, 1e-3, 0.7]))
            superset(ctx, cfa, d, fld, u0s, t0, t1, tol, dt0)
            if strat == "filter":
                offgrid(ctx, cfa, d, fld, u0s, t0, t1, tol, dt0)
