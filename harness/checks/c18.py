"""C18 — Initial step-size proposals are positive, finite and follow the heuristics.

Correspondence: the real `ivpsolve.dt0` and `ivpsolve.dt0_adaptive` are called in-process on generated
(initial value, vector field, tolerances, rate) tuples.  The vector field handed to the helpers records
every evaluation (argument, time, value), so the helper is checked *closed loop*: the model
(`Pdq.Model.StepInit`, executed by `pdqdrv`) receives the helper's own inputs and oracle answers as
exact dyadic rationals; Euclidean norms enter the model as (200-bit) rational square roots of the exact
squared norms; the final real power of `dt0_adaptive` is taken here in float64 from the model's exact
radicand.  The only tolerance is the rounding of the helper's own handful of float operations.

Which model of `dt0` applies is decided by probing the real function at `u0 = 0`:
 * it returns 0 there  -> defect D6 is present: violation "dt0:zero-initial-value" (replay = that input),
   remaining cases are compared with `dt0Current` (theorem `dt0_pos_iff`);
 * otherwise           -> compared with `dt0Fixed` (theorem `dt0_fixed_pos`).
Non-finite / non-positive outputs are violations under their own signatures
("dt0:underflow-1e-300", "dt0:overflow-1e300", "dt0_adaptive:overflow-1e300", ...): float64
overflow/underflow is behaviour the exact model cannot exhibit, but the property quantifies over those
magnitudes.  "Lets an adaptive solve start and finish" is exercised by actually solving.
"""

from __future__ import annotations

import ast
import math
from fractions import Fraction

import numpy as np

from harness import core, gen
from harness.core import F

PROPS_MODULES = ["Pdq.Props.C18", "Pdq.Props.C18Start"]
LEVEL = "proof"

TOL = 1e-12  # relative; observed max on the clean tree ~5e-16 (dt0), ~3e-15 (dt0_adaptive)
TOL_ARG = 1e-14  # the trial point y0 + h0 f0 handed to the vector field (relative, per entry)
NEAR = 1e-9  # relative distance to a branch threshold below which a case is skipped

EXPLANATION = (
    "Lean: positivity of every branch of dt0_adaptive for all norms/vector fields/rates, equality with an independently "
    "written HNW II.4 algorithm, the source's literals are the book's constants; dt0: positive iff ||u0|| > 0 on the "
    "unchanged tree (witness u0 = 0 -> 0), unconditional positivity of the repaired formula. Finite-ness under float64 "
    "overflow/underflow (1e+-300) cannot be exhibited by the exact model; the correspondence probes it on the real code."
)


# ------------------------------------------------------------------------------------------------
# literals, read from the source under check


def read_literals():
    src = (core.REPO / "probdiffeq" / "_ivpsolve" / "stepsize_initialisers.py").read_text()
    tree = ast.parse(src)
    out = {"dt0": {}, "adaptive": None, "dt0_uses_maximum": False}
    for node in ast.walk(tree):
        if isinstance(node, ast.FunctionDef) and node.name == "dt0":
            args = node.args
            pos = args.posonlyargs + args.args
            for a, d in zip(pos[len(pos) - len(args.defaults):], args.defaults):
                out["dt0"][a.arg] = ast.literal_eval(d)
            out["dt0_uses_maximum"] = any(
                isinstance(n, ast.Attribute) and n.attr == "maximum" for n in ast.walk(node)
            )
        if isinstance(node, ast.FunctionDef) and node.name == "dt0_adaptive":
            consts = []
            for n in ast.walk(node):
                if isinstance(n, ast.Constant) and isinstance(n.value, (int, float)) and not isinstance(n.value, bool):
                    consts.append((n.lineno, n.col_offset, n.value))
            consts.sort()
            vals = [c[2] for c in consts]
            if len(vals) == 14:
                out["adaptive"] = [float(v) for v in vals[2:11] + vals[13:14]]
    return out


# ------------------------------------------------------------------------------------------------
# exact helpers


def sqrt_q(q: Fraction, bits: int = 200) -> Fraction:
    """rational approximation of sqrt(q) with relative error < 2^-bits"""
    if q < 0:
        raise ValueError
    if q == 0:
        return Fraction(0)
    n, d = q.numerator, q.denominator
    nd = n * d
    s = max(0, bits - nd.bit_length() // 2 + 1)
    return Fraction(math.isqrt(nd << (2 * s)), d << s)


def norm_q(xs) -> Fraction:
    return sqrt_q(sum((F(x) * F(x) for x in xs), Fraction(0)))


def to_float(q: Fraction) -> float:
    try:
        return float(q)
    except OverflowError:
        return math.inf


# ------------------------------------------------------------------------------------------------
# generated inputs

TREES = ["flat", "dict", "tuple", "matrix", "scalar"]
MAGS = ["zero", "tiny", "small", "ordinary", "large", "huge", "badly", "badly-extreme", "partly-zero"]
VFS = ["zero", "const", "linear", "equilibrium", "quadratic", "timedep"]


def gen_state(rng, tree_kind, mag):
    """returns (pytree of numpy arrays, flat list of floats in *some* order)"""
    d = {"flat": int(rng.integers(1, 6)), "dict": 3, "tuple": int(rng.integers(2, 5)), "matrix": 4, "scalar": 1}[tree_kind]
    base = gen.dyadic(rng, (d,), bits=5, scale=4.0)
    base = np.where(base == 0.0, 1.0, base)
    if mag == "zero":
        v = np.zeros(d)
    elif mag == "tiny":
        v = base * 1e-300
    elif mag == "small":
        v = base * 10.0 ** float(rng.integers(-12, -6))
    elif mag == "ordinary":
        v = base * float(rng.choice([0.25, 1.0, 8.0]))
    elif mag == "large":
        v = base * 10.0 ** float(rng.integers(3, 13))
    elif mag == "huge":
        v = base * 1e300
    elif mag == "badly":
        v = base * 10.0 ** rng.integers(-12, 13, size=d).astype(float)
    elif mag == "badly-extreme":
        v = base * 10.0 ** rng.choice([-300.0, -150.0, 0.0, 150.0, 300.0], size=d)
    elif mag == "partly-zero":
        v = base * float(rng.choice([1.0, 1e-300, 1e300, 1e6]))
        v[rng.integers(d)] = 0.0
    else:
        raise ValueError(mag)
    return v


def build_tree(tree_kind, v):
    import jax.numpy as jnp

    v = jnp.asarray(v)
    if tree_kind == "flat":
        return v
    if tree_kind == "dict":
        return {"a": v[:2], "b": v[2]}
    if tree_kind == "tuple":
        return (v[:1], v[1:])
    if tree_kind == "matrix":
        return v.reshape(2, 2)
    if tree_kind == "scalar":
        return v.reshape(())
    raise ValueError(tree_kind)


class RecordingField:
    """first-order ODE right-hand side on a pytree state; records (flat y, t, flat f) of every call"""

    def __init__(self, kind, d, rng, u_flat, unravel):
        self.kind, self.d, self.unravel = kind, d, unravel
        self.A = gen.dyadic(rng, (d, d), bits=2, scale=2.0)
        self.c = gen.dyadic(rng, (d,), bits=3, scale=2.0)
        self.c = np.where(self.c == 0.0, 0.5, self.c)
        self.b = gen.dyadic(rng, (d,), bits=2, scale=1.0)
        self.u = np.asarray(u_flat, dtype=np.float64)
        self.calls = []

    def params(self):
        return {"kind": self.kind, "A": self.A.tolist(), "c": self.c.tolist(), "b": self.b.tolist()}

    def flat_fun(self, y, t):
        import jax.numpy as jnp

        A, c, b = jnp.asarray(self.A), jnp.asarray(self.c), jnp.asarray(self.b)
        k = self.kind
        if k == "zero":
            return 0.0 * y
        if k == "const":
            return c + 0.0 * y
        if k == "linear":
            return A @ y + c
        if k == "equilibrium":  # f(u0) = 0 exactly, f non-trivial elsewhere
            return A @ (y - jnp.asarray(self.u))
        if k == "quadratic":
            return A @ y + b * y * jnp.roll(y, 1) + c
        if k == "timedep":
            return A @ y + c * (1.0 + t) + b * t * t
        raise ValueError(k)

    def __call__(self, y, *, t):
        from jax.flatten_util import ravel_pytree

        yf, _ = ravel_pytree(y)
        ff = self.flat_fun(yf, t)
        try:
            self.calls.append((np.asarray(yf, dtype=np.float64), float(t), np.asarray(ff, dtype=np.float64)))
        except Exception:  # noqa: BLE001  (traced call: not recorded)
            pass
        return self.unravel(ff)


def make_case(ctx, tree_kind, mag, vf_kind):
    from jax.flatten_util import ravel_pytree

    rng = ctx.rng
    v = gen_state(rng, tree_kind, mag)
    u0 = build_tree(tree_kind, v)
    u_flat, unravel = ravel_pytree(u0)
    d = int(u_flat.size)
    field = RecordingField(vf_kind, d, rng, np.asarray(u_flat), unravel)
    return u0, np.asarray(u_flat, dtype=np.float64), field


def extreme(mag, u_flat):
    a = np.abs(u_flat[u_flat != 0.0])
    if a.size == 0:
        return "zero"
    if a.max() >= 1e150:
        return "1e300"
    if a.max() <= 1e-150:
        return "1e-300"
    return "ordinary"


# ------------------------------------------------------------------------------------------------
# dt0


def probe_variant(ctx, lits):
    """which `dt0` is in the tree? probe the real function at u0 = 0 (f0 = 1)."""
    import jax.numpy as jnp
    from probdiffeq import ivpsolve, probdiffeq

    vf = probdiffeq.ode(lambda y, *, t: jnp.ones_like(y))
    u0 = jnp.zeros((2,))
    r = float(ivpsolve.dt0(vf, (u0,), t=0.0))
    case = {"helper": "dt0", "u0": [0.0, 0.0], "vector_field": "f(y,t) = (1,1)", "t0": 0.0, "returned": r}
    ctx.case(case)
    if r == 0.0:
        ctx.violation(
            "dt0:zero-initial-value",
            "ivpsolve.dt0 returns exactly 0.0 for the zero initial value (f0 = (1,1)); the property demands a strictly "
            "positive step. Model of the current code: dt0Current, theorem dt0_pos_iff / dt0_zero_witness.",
            case,
            theorem="Pdq.C18.dt0_zero_witness",
            snippet="from probdiffeq import ivpsolve, probdiffeq; import jax.numpy as jnp\n"
            "print(ivpsolve.dt0(probdiffeq.ode(lambda y, *, t: jnp.ones_like(y)), (jnp.zeros(2),), t=0.0))  # 0.0",
        )
        return "current"
    if not (math.isfinite(r) and r > 0):
        ctx.violation("dt0:zero-initial-value", f"ivpsolve.dt0 returns {r!r} for the zero initial value", case)
        return "current"
    return "fixed"


def check_dt0(ctx, variant, lits, tree_kind, mag, vf_kind, custom):
    import jax.numpy as jnp
    from probdiffeq import ivpsolve, probdiffeq

    rng = ctx.rng
    u0, u_flat, field = make_case(ctx, tree_kind, mag, vf_kind)
    t0 = float(gen.dyadic(rng, (), bits=3, scale=2.0))
    kwargs = {}
    scale, nugget = lits["dt0"].get("scale", 0.01), lits["dt0"].get("nugget", 1e-5)
    if custom:
        scale = float(rng.choice([0.5, 0.01, 1e-3]))
        nugget = float(rng.choice([1e-5, 1e-8, 0.125]))
        kwargs = {"scale": scale, "nugget": nugget}
    vf = probdiffeq.ode(field)
    r = float(ivpsolve.dt0(vf, (u0,), t=t0, **kwargs))
    case = {"helper": "dt0", "tree": tree_kind, "magnitude": mag, "u0_flat": u_flat.tolist(), "t0": t0,
            "vector_field": field.params(), "scale": scale, "nugget": nugget, "returned": r}
    ctx.case(case)
    ctx.count(f"dt0.mag={mag}")
    if len(field.calls) != 1:
        ctx.violation("dt0:vector-field-calls", f"dt0 evaluated the vector field {len(field.calls)} times (expected once, at (u0, t))", case)
        return None
    y_arg, t_arg, f0 = field.calls[0]
    if not (np.array_equal(np.sort(y_arg), np.sort(u_flat)) and t_arg == t0):
        ctx.violation("dt0:vector-field-argument", "dt0 did not evaluate the vector field at (u0, t)", case)
        return None
    if not np.all(np.isfinite(f0)):
        ctx.skip("vector field itself overflows at u0 (outside the property)")
        return None
    ctx.count("dt0.f0=zero" if not f0.any() else "dt0.f0=nonzero")
    n0, n1 = norm_q(u_flat), norm_q(f0)
    op = "dt0_current" if variant == "current" else "dt0_fixed"
    (exact,) = ctx.drv.call(op, F(scale), F(nugget), n0, n1)
    expected = to_float(exact)
    case["model"] = {"op": op, "expected": expected}
    if not math.isfinite(expected) or (exact > 0 and expected < 1e-300):
        ctx.skip("dt0: exact proposal outside the normal float64 range")
        return None
    ext = extreme(mag, u_flat)
    if not (math.isfinite(r) and r > 0.0):
        if not u_flat.any():
            sig = "dt0:zero-initial-value"
        elif ext == "1e300":
            sig = "dt0:overflow-1e300"
        elif ext == "1e-300":
            sig = "dt0:underflow-1e-300"
        else:
            sig = "dt0:nonpositive-or-nonfinite"
        ctx.violation(sig, f"ivpsolve.dt0 returned {r!r}; the exact value of its own formula is {expected!r} (must be finite and > 0)", case)
        return None
    dev = abs(r - expected) / expected
    ctx.dev("dt0.value", dev, TOL, case=case, sig="dt0:value",
            what=f"dt0 returned {r!r}, model ({op}) gives {expected!r}: relative deviation {dev:.3e}")
    return r


def check_dt0_order2(ctx, variant, lits, it):
    """second-order problems: `initial_values = (u0, du0)`; the proposal is scale * max(||u0||, nugget) / (||f(u0, du0, t)|| + nugget)
    - the norm of the *state* u0, not of all initial values (seeded change C18-s5)"""
    import jax.numpy as jnp
    from probdiffeq import ivpsolve, probdiffeq

    rng = ctx.rng
    d = int(rng.integers(1, 4))
    u0 = gen.dyadic(rng, (d,), bits=4, scale=2.0) * (0.0 if it % 4 == 3 else 1.0)  # every fourth case: u0 = 0 (nugget branch)
    du0 = gen.dyadic(rng, (d,), bits=4, scale=8.0) + 3.0
    t0 = float(gen.dyadic(rng, (), bits=3, scale=2.0))
    a, b, c = -2.0, 0.5, 0.25
    vf = probdiffeq.ode_order_two(lambda u, du, /, *, t: a * u + b * du + c * t)
    scale, nugget = lits["dt0"].get("scale", 0.01), lits["dt0"].get("nugget", 1e-5)
    r = float(ivpsolve.dt0(vf, (jnp.asarray(u0), jnp.asarray(du0)), t=t0))
    f0 = a * u0 + b * du0 + c * t0
    case = {"helper": "dt0", "order": 2, "u0": u0.tolist(), "du0": du0.tolist(), "t0": t0, "vector_field": f"{a} u + {b} du + {c} t", "returned": r}
    ctx.case(case)
    ctx.count("dt0.order=2")
    op = "dt0_current" if variant == "current" else "dt0_fixed"
    (exact,) = ctx.drv.call(op, F(scale), F(nugget), norm_q(u0), norm_q(f0))
    expected = to_float(exact)
    if not (math.isfinite(r) and r > 0.0):
        ctx.violation("dt0:order2:nonpositive-or-nonfinite", f"ivpsolve.dt0 returned {r!r} for a second-order problem", case)
        return
    dev = abs(r - expected) / expected
    ctx.dev("dt0.value.order2", dev, TOL, case=dict(case, expected=expected), sig="dt0:order2:value",
            what=f"dt0 of a second-order problem returned {r!r}, model ({op}) gives {expected!r}: relative deviation {dev:.3e}")


def check_under_jit_vmap(ctx):
    """both helpers traced (jit) and batched over an ensemble of initial values (vmap) return what the eager calls return
    (seeded change C18-s8: a Python builtin inside the traced branch)"""
    import jax
    import jax.numpy as jnp
    from probdiffeq import ivpsolve, probdiffeq

    vf = probdiffeq.ode(lambda y, /, *, t: -0.5 * y + t)
    U = jnp.asarray([[0.5, -1.0], [2.0, 0.25], [0.0, 0.0], [1e-9, 3.0]])
    f_a = lambda u: ivpsolve.dt0_adaptive(vf, (u,), 0.25, error_contraction_rate=3, rtol=1e-3, atol=1e-5)  # noqa: E731
    f_0 = lambda u: ivpsolve.dt0(vf, (u,), t=0.25)  # noqa: E731
    for name, f in (("dt0_adaptive", f_a), ("dt0", f_0)):
        eager = np.array([float(f(u)) for u in U])
        case = {"helper": name, "mode": "jit / vmap vs eager", "u0": np.asarray(U).tolist(), "eager": eager.tolist()}
        ctx.case(case)
        ctx.count("jit/vmap")
        for mode, g in (("jit", lambda: np.array([float(jax.jit(f)(u)) for u in U])), ("vmap", lambda: np.asarray(jax.vmap(f)(U), dtype=np.float64))):
            try:
                got = g()
            except Exception as e:  # noqa: BLE001
                ctx.violation(f"{name}:{mode}:raised", f"{name} under {mode} raised {type(e).__name__}: {str(e)[:200]}", dict(case, mode=mode))
                continue
            dev = float(np.max(np.abs(got - eager) / np.abs(eager)))
            ctx.dev(f"{name}.{mode}-vs-eager", dev, 1e-12, case=dict(case, mode=mode, got=got.tolist()), sig=f"{name}:{mode}:value", what=f"{name} under {mode} differs from the eager call by {dev:.2e}")


# ------------------------------------------------------------------------------------------------
# dt0_adaptive


def check_dt0_adaptive(ctx, lits, tree_kind, mag, vf_kind):
    from probdiffeq import ivpsolve, probdiffeq

    rng = ctx.rng
    L = lits["adaptive"]
    u0, u_flat, field = make_case(ctx, tree_kind, mag, vf_kind)
    t0 = float(gen.dyadic(rng, (), bits=3, scale=2.0))
    atol = float(10.0 ** rng.uniform(-12, 0)) if rng.random() < 0.7 else float(rng.choice([1e-12, 1.0]))
    rtol = float(10.0 ** rng.uniform(-12, 0)) if rng.random() < 0.7 else float(rng.choice([1e-12, 1.0]))
    rate = int(rng.integers(1, 13))
    vf = probdiffeq.ode(field)
    r = float(ivpsolve.dt0_adaptive(vf, (u0,), t0, error_contraction_rate=rate, rtol=rtol, atol=atol))
    case = {"helper": "dt0_adaptive", "tree": tree_kind, "magnitude": mag, "u0_flat": u_flat.tolist(), "t0": t0,
            "vector_field": field.params(), "atol": atol, "rtol": rtol, "error_contraction_rate": rate, "returned": r}
    ctx.case(case)
    ctx.count(f"adaptive.mag={mag}")
    ctx.count(f"adaptive.vf={vf_kind}")
    if len(field.calls) != 2:
        ctx.violation("dt0_adaptive:vector-field-calls", f"dt0_adaptive evaluated the vector field {len(field.calls)} times (expected twice)", case)
        return None
    (y_a, t_a, f0), (y_b, t_b, f1) = field.calls
    if not (np.array_equal(y_a, u_flat) and t_a == t0):
        # ravel order of the helper equals the one of the recording field (both jax ravel_pytree)
        ctx.violation("dt0_adaptive:first-evaluation", "first vector-field evaluation is not at (y0, t0)", case)
        return None
    if not np.all(np.isfinite(f0)):
        ctx.skip("vector field itself overflows at u0 (outside the property)")
        return None
    ext = extreme(mag, u_flat)
    d0, d1 = norm_q(u_flat), norm_q(f0)
    # --- stage 1
    for dd, thr, nm in ((d0, L[0], "d0"), (d1, L[1], "d1")):
        if thr > 0 and abs(dd / F(thr) - 1) < Fraction(NEAR):
            ctx.skip(f"dt0_adaptive: {nm} within 1e-9 of its threshold")
            return None
    h0, fb = ctx.drv.call("dt0ad_stage1", *[F(x) for x in L], d0, d1)
    ctx.count("adaptive.stage1=" + ("fallback" if fb == 1 else "ratio"))
    bad = lambda x: not (math.isfinite(x) and x > 0.0)  # noqa: E731
    sig_ext = {"1e300": "dt0_adaptive:overflow-1e300", "1e-300": "dt0_adaptive:underflow-1e-300"}.get(ext, "dt0_adaptive:nonpositive-or-nonfinite")
    h0f = to_float(h0)
    if not (1e-300 < h0f < 1e300):
        ctx.skip("dt0_adaptive: exact first-stage step outside the float64 range")
        return None
    # the trial point the helper handed to the vector field
    y1_exact = [F(y) + h0 * F(f) for y, f in zip(u_flat, f0)]
    t1_exact = F(t0) + h0
    arg_ok = np.all(np.isfinite(y_b)) and math.isfinite(t_b)
    if arg_ok:
        dev_arg = 0.0
        for yb, ye, y, f in zip(y_b, y1_exact, u_flat, f0):
            sc = abs(F(y)) + abs(h0 * F(f))
            if sc == 0:
                dev_arg = max(dev_arg, 0.0 if yb == 0.0 else math.inf)
            else:
                dev_arg = max(dev_arg, float(abs(F(yb) - ye) / sc))
        sc_t = abs(F(t0)) + h0
        dev_arg = max(dev_arg, float(abs(F(t_b) - t1_exact) / sc_t))
        if not ctx.dev("adaptive.trial_point", dev_arg, TOL_ARG, case=case, sig="dt0_adaptive:trial-point",
                       what=f"second vector-field evaluation is not at (y0 + h0 f0, t0 + h0) with h0 = {h0f!r}: deviation {dev_arg:.3e}"):
            return None
    else:
        ctx.violation(sig_ext, f"dt0_adaptive evaluated the vector field at a non-finite trial point (exact h0 = {h0f!r}); returned {r!r}", case)
        return None
    if not np.all(np.isfinite(f1)):
        ctx.skip("vector field itself overflows at the trial point (outside the property)")
        return None
    # --- stage 2, from the helper's own oracle answers
    scale = [F(atol) + abs(F(y)) * F(rtol) for y in u_flat]
    ratios = [(F(a) - F(b)) / s for a, b, s in zip(f1, f0, scale)]
    if any(abs(q) > Fraction(10) ** 300 for q in ratios):
        ctx.skip("dt0_adaptive: exact scaled difference (f1 - f0)/scale outside the float64 range")
        return None
    n2 = sqrt_q(sum((q * q for q in ratios), Fraction(0)))
    tag, val, cap, d2 = ctx.drv.call("dt0ad_stage2", *[F(x) for x in L], d1, n2, h0)
    for dd, thr, nm in ((d1, L[4], "d1"), (d2, L[5], "d2")):
        if thr > 0 and abs(dd / F(thr) - 1) < Fraction(NEAR):
            ctx.skip(f"dt0_adaptive: {nm} within 1e-9 of its second-stage threshold")
            return None
    ctx.count("adaptive.stage2=" + ("guard" if tag == 0 else "root"))
    ctx.count("adaptive.f0=zero" if not f0.any() else "adaptive.f0=nonzero")
    capf, valf = to_float(cap), to_float(val)
    if tag == 0:
        cand = valf
    else:
        if not (1e-305 < valf < 1e305):
            ctx.skip("dt0_adaptive: exact radicand outside the float64 range")
            return None
        cand = valf ** (1.0 / (rate + 1.0))
    expected = min(capf, cand)
    ctx.count("adaptive.min=" + ("cap" if capf <= cand else "second-stage"))
    case["model"] = {"h0": h0f, "d2": to_float(d2), "stage2": "guard" if tag == 0 else "root", "second_stage_value": cand,
                     "cap": capf, "expected": expected}
    if bad(r):
        ctx.violation(sig_ext, f"ivpsolve.dt0_adaptive returned {r!r}; the exact value of its own formula is {expected!r} (must be finite and > 0)", case)
        return None
    dev = abs(r - expected) / expected
    ctx.dev("adaptive.value", dev, TOL, case=case, sig="dt0_adaptive:value",
            what=f"dt0_adaptive returned {r!r}, the model (two-stage HNW on the helper's own oracle answers) gives {expected!r}: relative deviation {dev:.3e}")
    return r


# ------------------------------------------------------------------------------------------------
# "a proposal lets an adaptive solve start and finish"


class Solves:
    """two small polynomial ODEs, dense filter/TS0, compiled once each"""

    def __init__(self):
        import jax
        import jax.numpy as jnp
        from probdiffeq import ivpsolve, probdiffeq

        self.jnp, self.ivpsolve, self.probdiffeq = jnp, ivpsolve, probdiffeq
        self.fields = {
            "relaxation": lambda y, *, t: jnp.asarray([1.0, -0.5]) - y,  # u0 = 0 is not an equilibrium
            "logistic": lambda y, *, t: y * (1.0 - y),  # u0 = 0 is an equilibrium: f(u0) = 0; only started from u0 >= 0
        }
        self.solvers = {}
        for name, f in self.fields.items():
            vf = probdiffeq.ode(f)
            ssm = probdiffeq.state_space_model_dense()
            ts0 = ssm.constraint_ode_ts0(vf)
            solver = probdiffeq.solver_mle(strategy=probdiffeq.strategy_filter(), constraint=ts0)
            error = probdiffeq.error_residual_std(constraint=ts0)
            solve = ivpsolve.solve_adaptive_terminal_values(solver=solver, error=error)
            self.solvers[name] = (vf, ssm, jax.jit(lambda iwp, dt0, solve=solve: solve(iwp, t0=0.0, t1=1.0, dt0=dt0, atol=1e-3, rtol=1e-3)))

    def run(self, ctx, name, u0, helper, variant_note):
        jnp, ivpsolve, probdiffeq = self.jnp, self.ivpsolve, self.probdiffeq
        vf, ssm, solve = self.solvers[name]
        u = jnp.asarray(u0)
        if helper == "dt0":
            dt0 = ivpsolve.dt0(vf, (u,), t=0.0)
        else:
            dt0 = ivpsolve.dt0_adaptive(vf, (u,), 0.0, error_contraction_rate=3, rtol=1e-3, atol=1e-3)
        dt0f = float(dt0)
        case = {"solve": name, "u0": [float(x) for x in u0], "helper": helper, "dt0": dt0f, "t_span": [0.0, 1.0], "atol": 1e-3, "rtol": 1e-3,
                "solver": "solver_mle/filter/ts0/dense, num_derivatives=2"}
        ctx.case(case)
        ctx.count(f"solve.{helper}")
        if not (math.isfinite(dt0f) and dt0f > 0):
            # already reported by the helper checks under its own signature; here: the consequence
            sol_note = "not attempted (a solve from dt0 = 0 does not terminate or returns NaN)"
            ext = extreme("", np.asarray(u0, dtype=np.float64))
            sig = {"zero": f"{helper}:zero-initial-value", "1e300": f"{helper}:overflow-1e300", "1e-300": f"{helper}:underflow-1e-300"}.get(ext, f"{helper}:nonpositive-or-nonfinite")
            ctx.violation(sig,
                          f"{helper} proposed {dt0f!r}; an adaptive solve started from it: {sol_note}", case)
            return
        tc, _ = probdiffeq.jetexpand_ode_padded_scan(num=2)(vf, (u,), t=0.0)
        sol = solve(ssm.prior_wiener_integrated(tc), dt0)
        mean = np.asarray(sol.u.mean[0])
        std = np.asarray(sol.u.std[0])
        ok = bool(np.all(np.isfinite(mean)) and np.all(np.isfinite(std)) and float(sol.t) == 1.0)
        if not ok:
            ctx.violation(f"{helper}:solve-does-not-finish", f"adaptive solve from the proposed dt0 = {dt0f!r} returned mean {mean.tolist()}, std {std.tolist()}, t = {float(sol.t)!r}", case)


# ------------------------------------------------------------------------------------------------


def corpus(ctx, variant, lits):
    """minimised known failures first: D6 (zero initial value), norm underflow / overflow"""
    fixed = [
        ("flat", "zero", "const"),
        ("flat", "zero", "zero"),
        ("flat", "tiny", "zero"),
        ("flat", "tiny", "const"),
        ("flat", "huge", "zero"),
        ("flat", "huge", "linear"),
    ]
    rng = ctx.rng
    ctx.rng = np.random.Generator(np.random.PCG64(18))  # the corpus is fixed data: identical for every VERIF_SEED
    try:
        for tk, mg, vk in fixed:
            check_dt0(ctx, variant, lits, tk, mg, vk, custom=False)
            check_dt0_adaptive(ctx, lits, tk, mg, vk)
    finally:
        ctx.rng = rng


def run(ctx):
    import jax

    jax.config.update("jax_enable_x64", True)
    ctx.rule = (
        "initial values: pytrees (flat/dict/tuple/matrix/scalar) x magnitudes (zero, 1e-300, <1e-5, ordinary, 1e3..1e12, 1e300, "
        "badly scaled 1e-12..1e12, 1e-300..1e300, partly zero) x vector fields (zero, constant, linear, equilibrium at u0, quadratic, "
        "time-dependent); atol, rtol in [1e-12, 1]; rates 1..12; default and custom scale/nugget; the helper's own vector-field "
        "evaluations are recorded and handed to the exact model; a sample of proposals is used to run a real adaptive solve. "
        "A case is distinct when its drawn numbers differ."
    )
    ctx.assumptions += [
        "the vector field returns finite values at u0 and at the trial point (quadratic fields are not paired with 1e300 states)",
        "cases whose exact intermediate quantities ((f1-f0)/scale, h0, radicand) leave the float64 range are skipped and counted",
        "cases within 1e-9 (relative) of a branch threshold of dt0_adaptive are skipped and counted",
        "sample solves: two polynomial ODEs, dense filter, TS0, MLE calibration, t in [0,1], tolerances 1e-3",
    ]
    lits = read_literals()
    if lits["adaptive"] is None:
        ctx.notes.append("the literals of dt0_adaptive could not be located (source changed shape); using the documented ones")
        lits["adaptive"] = [1e-5, 1e-5, 1e-6, 0.01, 1e-15, 1e-15, 1e-6, 1e-3, 0.01, 100.0]
    ctx.extra["literals_read_from_source"] = lits
    variant = probe_variant(ctx, lits)
    ctx.extra["dt0_variant"] = variant
    ctx.notes.append(f"dt0 probed at u0 = 0: model variant '{variant}' ({'dt0_pos_iff + witness' if variant == 'current' else 'dt0_fixed_pos'})")
    ctx.notes.append(
        "observation (not counted as a violation): dt0_adaptive takes d0 = ||y0|| and d1 = ||f0|| as plain Euclidean norms and only d2 in the "
        "tolerance-scaled norm ||(f1-f0)/(atol+|y0| rtol)||; Hairer-Norsett-Wanner (and jax.experimental.ode, from which the code says it is "
        "'mostly copied') scale all three, HNW with an RMS norm. The theorem dt0_adaptive_is_hnw is about the two-stage algorithm with the norms as inputs."
    )
    corpus(ctx, variant, lits)
    check_under_jit_vmap(ctx)

    rng = ctx.rng
    n = ctx.n(260, 4000)
    for it in range(n):
        tree_kind = TREES[it % len(TREES)]
        mag = gen.pick(rng, MAGS, [2, 2, 2, 4, 2, 2, 2, 1, 2])
        vf_kind = gen.pick(rng, VFS, [2, 2, 3, 2, 2, 2])
        if vf_kind == "quadratic" and mag in ("huge", "badly-extreme", "partly-zero"):
            vf_kind = "linear"
        check_dt0(ctx, variant, lits, tree_kind, mag, vf_kind, custom=(it % 4 == 3))
        if it % 8 == 0:
            check_dt0_order2(ctx, variant, lits, it // 8)
        check_dt0_adaptive(ctx, lits, tree_kind, mag, vf_kind)

    # solves
    solves = Solves()
    starts = [[0.0, 0.0], [1e-300, -1e-300], [1e-7, 2e-7], [0.5, 0.25], [3.0, -2.0], [0.0, 0.75]]
    extra = ctx.n(2, 12)
    for _ in range(extra):
        starts.append((gen.dyadic(rng, (2,), bits=4, scale=2.0)).tolist())
    for name in ("relaxation", "logistic"):
        for u0 in starts:
            if name == "logistic":  # negative starts blow up in finite time: not a defect of any step-size proposal
                u0 = [abs(x) for x in u0]
            for helper in ("dt0", "dt0_adaptive"):
                solves.run(ctx, name, u0, helper, variant)
