"""C01 — Adaptive solves meet the tolerance; fixed-step solves converge at order q+1.   (level: other, partial)

THEOREM PART (Pdq.Props.C01) and its correspondence:
(a) exactness: polynomial quadrature problems u^(K) = g(t) whose solution is a polynomial of degree <= q, exact
    initial state, random grids / checkpoints, all configurations: the posterior means returned by the real
    `solve_fixed_grid` / `solve_adaptive_save_at` must equal the polynomial to 1e-12 (q <= 3; 1e-8 for q >= 4; x100 adaptive; sup-norm relative); the Lean
    model run open-loop in exact rationals must return the polynomial *exactly* (the theorem, executed); the
    implementation's steps are compared with the model closed-loop (`c02.refine_steps`).
EXPLORED PART (always run; cases, not proof):
(b) accuracy vs tolerance: adaptive solves of problems with closed-form solutions; error at every requested time
    <= C_ACC * (atol + rtol |u|);
(c) observed order under grid refinement on fixed grids: slope of log(error) vs log(h) in
    [q + 2 - K - lo(q), q + 1 + 1.5] (K = order of the ODE; lo = 0.9 for q <= 4, 1.6 for q = 5; q = 6: average order >= 2 only), or error at
    roundoff level.
"""

from __future__ import annotations

import math
import warnings
from fractions import Fraction

import numpy as np

from harness import core, gen, problems
from harness import solvermodel as sm
from harness.checks import c02
from harness.core import F

PROPS_MODULES = ["Pdq.Props.C01", "Pdq.Lemmas.IwpDen"]
LEVEL = "other"
EXPLANATION = (
    "PARTIAL BY DESIGN. Theorem (Lean, all orders q, all grids, all step counts, every strategy, every calibration mode, every damping, "
    "every initial covariance, every gain): the de-preconditioned IWP transition of the model is the Taylor shift "
    "(predictor_polynomial_exact: Phi(h) jet_q(p,t) = jet_q(p,t+h) for deg p <= q), hence on polynomial quadrature problems "
    "u^(K) = g(t) with solution of degree <= q all posterior means of filter, fixed-interval and fixed-point smoother are exact "
    "(filter_exact_on_polynomial_quadrature, smoother_exact_on_polynomial_quadrature, run_fixedPoint_bw_exact: residual zero => update "
    "zero, induction over the grid) - degree of precision q, i.e. local order q+1; the dynamic local scale is exactly 0 there "
    "(dynamic_scale_zero; the real solver_dynamic returned NaN on that input - finding D8, repaired in /repo by flooring the local scale; "
    "a regression is reported under the signature dynamic:zero-residual:nan); and the "
    "variance behind the TS0 local error estimate has the closed form s2 h^(2(q-K)+1)/((2(q-K)+1)((q-K)!)^2) (estimate_order). The "
    "correspondence (a) ties these to the real code: exactness to 1e-12 on random quadrature problems in all configurations, the model "
    "executed in exact rationals returns the polynomial exactly, per-step agreement of implementation and model. "
    "NOT a theorem, explored cases only (b, c): the global statements of the property - 'error <= modest multiple of atol + rtol|u| at "
    "every requested time for every smooth IVP' and 'global error O(h^(q+1)) on fixed grids' - are statements of numerical analysis about "
    "the extended Kalman recursion in floating point and are not provable with this technique. They are sampled on problems with "
    "closed-form solutions (linear, logistic, harmonic oscillator as second-order problem and as first-order system, forced linear, "
    "quadrature) over tolerances 1e-9..1e-2, checkpoint layouts (uniform, random, clustered, exact hits of natural steps, final times "
    "leaving a remainder of 1e-12..0.5 of the last step), clip on/off, dt0 from 1e-4 to beyond the horizon, 3 factorisations x 3 "
    "calibration modes x 3 strategies x TS0/TS1 x orders 1..6, with the fixed constant C_ACC and the slope window recorded in the "
    "evidence. Observed on the clean tree: second-order problems solved in second-order form converge with exponent q (= number of Taylor "
    "coefficients - 1), first-order problems with q+1; the window is centred accordingly; for q = 6 the levels above roundoff are pre-asymptotic "
    "(plateaus, then a drop to roundoff) and only an average order >= 2 is asserted. Two known findings of the explored part are triggered by "
    "fixed corpus cases: D9 (solver_dynamic on fixed grids does not converge at high order; signature order:dynamic:fixed-grid) and D10 (clip_dt=True "
    "with a remainder / checkpoint gap far below the natural step: error ~ tol x step / remainder; signature accuracy:clip:tiny-step); both are "
    "reproduced by high-precision reference implementations of the recursion, i.e. they are properties of the algorithm, not of its implementation. "
    "A bounded probe of the rejection loop checks on the real code that accepted step times increase and that every accepted step has error_power >= 1. "
    "The acceptance invariant "
    "'accepted => scaled estimate <= 1' is a theorem of the loop model (C06) and is not restated here."
)

# ---------------------------------------------------------------------------------------------
# constants (calibrated on the clean tree; see evidence max_deviation_by_quantity)
TOL_EXACT = 1e-12  # (a): sup-norm relative deviation of the means from the polynomial solution, orders q <= 3 (fixed grids)


def tol_exact(q, adaptive=False):
    """rounding of the predictor grows with the order (h^q scalings, Pascal matrix) and, in adaptive runs with a zero error estimate, with the
    tenfold growing steps that overshoot the checkpoints; observed maxima (clean tree): fixed grid 2e-14 (q <= 3), 4e-11 (q >= 4); adaptive 2.4e-10"""
    t = TOL_EXACT if q <= 3 else 1e-8
    return 100 * t if adaptive else t
C_ACC = 5000.0  # (b): error <= C_ACC * (atol + rtol |u|); largest ratio observed on the clean tree outside finding D10: 368 (q = ODE order = 2, block-diagonal)
SLOPE_HI = 1.5  # (c): upper end of the slope window: q + 1 + SLOPE_HI
ROUNDOFF = 2e-12  # (c): errors below ROUNDOFF * (1 + max|u|) are "at roundoff level" and not used for slopes
D9_SIG = "order:dynamic:fixed-grid"
D10_SIG = "accuracy:clip:tiny-step"
LOOP_EPS = 1e-8  # default `eps` of the adaptive loop: |t - t1| <= eps counts as a hit of t1


def slope_lo(q):
    """(c): lower end of the slope window is e - slope_lo(q); wider for q >= 5 where only pre-asymptotic levels lie above roundoff"""
    return 0.9 if q <= 4 else 1.6  # q = 6 is not asserted against the window at all (see run_group_order)
FACTS = ["dense", "iso", "bd"]
SOLVERS = ["solver", "mle", "dynamic"]
C_ACC_LOWEST = 50000.0  # same for q = order of the ODE (no spare derivative; error control is weakest): largest ratio observed 759
D8_SIG = "dynamic:zero-residual:nan"


def c_acc(g):
    return C_ACC if g.q > g.fam.order else C_ACC_LOWEST


# ---------------------------------------------------------------------------------------------
# (a) exactness on polynomial quadrature problems


class PolySolution:
    """u_a(t) = sum_j c[a][j] t^j  (dyadic coefficients), the solution of u^(K) = g(t) with g = u^(K)."""

    def __init__(self, coeffs):
        self.c = [[Fraction(x) for x in row] for row in coeffs]
        self.d = len(coeffs)

    def deriv(self, k):
        out = []
        for row in self.c:
            r = list(row)
            for _ in range(k):
                r = [j * r[j] for j in range(1, len(r))] or [Fraction(0)]
            out.append(r)
        return out

    def eval(self, t, k=0):
        t = F(t)
        return [sum(cj * t**j for j, cj in enumerate(row)) for row in self.deriv(k)]

    def field(self, order):
        g = self.deriv(order)
        d = self.d
        comps = []
        for a in range(d):
            comp = []
            for j, c in enumerate(g[a]):
                if c != 0:
                    exps = [0] * (order * d + 1)
                    exps[-1] = j
                    comp.append((Fraction(c), tuple(exps)))
            if not comp:
                comp = [(Fraction(0), tuple([0] * (order * d + 1)))]
            comps.append(comp)
        return problems.PolyField(d, order, comps)


def random_polysolution(rng, d, deg):
    co = []
    for _ in range(d):
        row = [Fraction(int(rng.integers(-8, 9)), 8) for _ in range(deg + 1)]
        if deg > 0 and row[-1] == 0:
            row[-1] = Fraction(3, 8)
        co.append(row)
    return PolySolution(co)


def random_grid(rng, t0, n, dyadic):
    if dyadic:
        hs = [float(2.0 ** rng.integers(-6, 0)) * float(gen.pick(rng, [1.0, 0.75, 1.5])) for _ in range(n)]
    else:
        hs = [float(10.0 ** rng.uniform(-2.5, -0.3)) for _ in range(n)]
    return np.concatenate([[t0], t0 + np.cumsum(hs)]), hs


def exact_case_desc(cfg, d, order, ps, t0, grid, mode, extra=None):
    c = {"config": cfg.key(), "d": d, "ode_order": order, "solution_coeffs": [[str(x) for x in r] for r in ps.c], "t0": t0,
         "grid_or_save_at": [float(x) for x in grid], "mode": mode}
    if extra:
        c.update(extra)
    return c


def nan_report(ctx, cfg, means, case, zero_residual):
    """non-finite means: D8 if the dynamic solver saw an exactly-zero residual without damping, else a different violation."""
    if cfg.solver.startswith("dynamic") and zero_residual and (cfg.damp == 0.0 or cfg.strategy != "filter"):
        # damp = 0: the update divides by S = 0; smoothers (any damp): the reversal of the noise-free transition divides by Phi P Phi^T = 0
        ctx.count("D8 hit (dynamic, zero residual)")
        ctx.violation(
            D8_SIG,
            "solver_dynamic returns non-finite posterior means when the whitened residual is exactly zero (solution is a polynomial of "
            "degree <= q, exact initial state, damp = 0): local scale 0 => zero process noise => S = 0 => solve_triu divides 0/0. "
            "The exact posterior mean exists (Pdq.C01.d8_every_gain_certified / filter_exact_on_polynomial_quadrature); solver and "
            "solver_mle return it. means=" + str(np.asarray(means).reshape(-1)[:8].tolist()),
            case,
            theorem="Pdq.C01.filter_exact_on_polynomial_quadrature",
            snippet=D8_SNIPPET,
        )
    else:
        ctx.violation(f"exact:nonfinite:{cfg.fact}:{cfg.solver}:{cfg.strategy}:{cfg.lin}", "non-finite posterior means", case)


D8_SNIPPET = """import jax, jax.numpy as jnp
jax.config.update("jax_enable_x64", True)
from probdiffeq import probdiffeq as pdq, ivpsolve
ssm = pdq.state_space_model_dense()
vf = pdq.ode(lambda u, /, *, t: 1 + 2 * t + 0 * u, jacobian=pdq.jacobian_materialize())
tc, _ = pdq.jetexpand_ode_padded_scan(num=2)(vf, (jnp.asarray([0.5]),), t=jnp.asarray(0.0))
solver = pdq.solver_dynamic(strategy=pdq.strategy_filter(), constraint=ssm.constraint_ode_ts0(vf))
sol = ivpsolve.solve_fixed_grid(solver=solver)(ssm.prior_wiener_integrated(tc), grid=jnp.asarray([0., .25, .75, 1.]), damp=0.0)
print(sol.u.mean[0])   # [0.5 nan nan nan]; exact: [0.5 0.8125 1.8125 2.5]
"""


def exact_fixed_grid(ctx, cfg, d, order, ps, t0, grid):
    """solve_fixed_grid on the quadrature problem: all means (all derivatives) must be the polynomial's jets."""
    import jax.numpy as jnp
    from probdiffeq import ivpsolve

    field = ps.field(order)
    u0s = [np.array([float(x) for x in ps.eval(t0, k)]) for k in range(order)]
    objs = sm.build(cfg, field, u0s, t0)
    sol = ivpsolve.solve_fixed_grid(solver=objs["solver"])(objs["prior"], grid=jnp.asarray(grid), damp=cfg.damp)
    case = exact_case_desc(cfg, d, order, ps, t0, grid, "fixed_grid")
    ok = True
    for k in range(cfg.q + 1):
        got = np.asarray(sol.u.mean[k], dtype=np.float64).reshape(len(grid), d)
        if not np.all(np.isfinite(got)):
            nan_report(ctx, cfg, got, case, zero_residual=True)
            return False
        if k > 1:
            continue  # higher derivatives carry h^-(k-K) amplified rounding; the property is about u (and u')
        want = np.array([[float(x) for x in ps.eval(t, k)] for t in grid])
        scale = np.max(np.abs(want), axis=0) + np.max(np.abs(np.array([[float(x) for x in ps.eval(t, 0)] for t in grid])), axis=0) + 1e-300
        dev = float(np.max(np.abs(got - want) / scale[None, :]))
        ok &= ctx.dev(f"exact.fixed_grid.mean[{k}][{'q<=3' if cfg.q <= 3 else 'q>=4'}]", dev, tol_exact(cfg.q) * (1 if k == 0 else 1e3), case=dict(case, derivative=k),
                      sig=f"exact:{cfg.fact}:{cfg.solver}:{cfg.strategy}:{cfg.lin}",
                      what=f"posterior mean of u^({k}) deviates by {dev:.2e} (sup-norm relative) from the polynomial solution on a problem where the theorem says it is exact")
    ctx.case(dict(cfg.key(), d=d, mode="exact-fixed-grid", n=len(grid) - 1, coeffs=str(ps.c)[:80], t0=t0))
    return ok


def exact_adaptive(ctx, cfg, d, order, ps, t0, save_at, tol, dt0, clip):
    """adaptive solve on the quadrature problem: error estimate is 0, every step is accepted, checkpoints are exact."""
    import jax.numpy as jnp
    from probdiffeq import ivpsolve
    from probdiffeq import probdiffeq as pdq

    field = ps.field(order)
    u0s = [np.array([float(x) for x in ps.eval(t0, k)]) for k in range(order)]
    objs = sm.build(cfg, field, u0s, t0)
    err = pdq.error_residual_std(constraint=objs["constraint"])
    solve = ivpsolve.solve_adaptive_save_at(solver=objs["solver"], error=err, clip_dt=clip, warn=False)
    sol = solve(objs["prior"], save_at=jnp.asarray(save_at), atol=tol, rtol=tol, dt0=dt0, damp=cfg.damp)
    case = exact_case_desc(cfg, d, order, ps, t0, save_at, "adaptive_save_at", {"tol": tol, "dt0": dt0, "clip_dt": clip})
    got = np.asarray(sol.u.mean[0], dtype=np.float64).reshape(len(save_at), d)
    if not np.all(np.isfinite(got)):
        nan_report(ctx, cfg, got, case, zero_residual=True)
        return False
    want = np.array([[float(x) for x in ps.eval(t, 0)] for t in save_at])
    scale = np.max(np.abs(want), axis=0) + 1e-300
    dev = float(np.max(np.abs(got - want) / scale[None, :]))
    ok = ctx.dev(f"exact.adaptive.mean[0][{'q<=3' if cfg.q <= 3 else 'q>=4'}]", dev, tol_exact(cfg.q, adaptive=True), case=case, sig=f"exact-adaptive:{cfg.fact}:{cfg.solver}:{cfg.strategy}:{cfg.lin}",
                 what=f"checkpoint means deviate by {dev:.2e} (sup-norm relative) from the polynomial solution (adaptive, zero error estimate)")
    ctx.case(dict(cfg.key(), d=d, mode="exact-adaptive", coeffs=str(ps.c)[:80], t0=t0, tol=tol, clip=clip))
    return ok


def model_open_loop_exact(ctx, cfg, d, order, ps, t0, hs):
    """The theorem, executed: the model started from the exact state returns the exact jets - exactly (rationals).
    Sizes are guarded (q <= 2, <= 3 steps). A failure here contradicts a checked theorem => harness error."""
    field = ps.field(order)
    stepper = sm.ModelStepper(ctx, cfg, field, d, c02.lam_of(cfg, d))
    n = cfg.q + 1
    jets = lambda t: [ps.eval(t, k) for k in range(n)]  # noqa: E731  [k][a]
    def slices_at(t):
        j = jets(t)
        if cfg.fact == "dense":
            return [np.array([j[k][a] for k in range(n) for a in range(d)], dtype=object)]
        return [np.array([j[k][a] for k in range(n)], dtype=object) for a in range(d)]
    N = len(slices_at(t0)[0])
    zero = np.array([[Fraction(0)] * N for _ in range(N)], dtype=object)
    states = [{"mean": m, "cov": zero.copy(), "bw": sm.ident_pcond(N)} for m in slices_at(t0)]
    aux = (([Fraction(0)] * d if cfg.fact == "bd" else Fraction(0)), Fraction(0)) if cfg.solver.startswith("mle") else None
    t = F(t0)
    for h in hs:
        h = F(h)
        try:
            states, aux, info = stepper.step(states, t, h, aux)
        except core.ModelError as e:
            ctx.skip("model open-loop: " + e.ans[:60])
            return
        t = t + h
        for sl, want in zip(states, slices_at(t)):
            if any(x != y for x, y in zip(sl["mean"], want)):
                raise core.HarnessError(f"model mean differs from the exact jet at t={t} although Pdq.C01.filter_exact_on_polynomial_quadrature is checked: {sl['mean']} vs {want}")
        if cfg.solver.startswith("dynamic"):
            s2 = info["scale2"]
            if any(x != 0 for x in (s2 if isinstance(s2, list) else [s2])):
                raise core.HarnessError("model dynamic scale nonzero on exact data although Pdq.C01.dynamic_scale_zero is checked")
        if cfg.solver.startswith("mle"):
            nt = info["new_term2"]
            if any(x != 0 for x in (nt if isinstance(nt, list) else [nt])):
                raise core.HarnessError("model MLE term nonzero on exact data although Pdq.C01.mleTerm_zero is checked")
    ctx.count("model open-loop exact runs (rational equality)")
    ctx.case(dict(cfg.key(), d=d, mode="model-open-loop-exact", n=len(hs), coeffs=str(ps.c)[:80], t0=t0))


def estimate_order_check(ctx, q, K, h):
    """closed form of H Q(h) H^T against the driver's transition (the theorem estimate_order, executed)"""
    ans = core.Cut(ctx.drv.call("iwp_transition1", q, F(h), Fraction(1)))
    c = sm.read_pcond(ans, q + 1, q + 1)
    got = c["to"][K] * c["Q"][K, K] * c["to"][K]
    m = q - K
    want = F(h) ** (2 * m + 1) / ((2 * m + 1) * math.factorial(m) ** 2)
    if got != want:
        raise core.HarnessError(f"estimate_order closed form differs from the model: {got} vs {want} (q={q}, K={K}, h={h})")
    # Phi entries
    for i in range(q + 1):
        for j in range(q + 1):
            phi = c["to"][i] * c["A"][i, j] * c["tl"][j]
            w = F(h) ** (j - i) / math.factorial(j - i) if j >= i else Fraction(0)
            if phi != w:
                raise core.HarnessError(f"Phi closed form differs from the model at ({i},{j})")
    ctx.count("closed-form Phi/Q entries vs driver (exact)")


def random_exact_config(ctx, it, strategies):
    rng = ctx.rng
    fact = FACTS[it % 3]
    solver = gen.pick(rng, ["solver", "mle", "mle_nocorr", "dynamic", "dynamic_relin"], [3, 2, 1, 2, 1])
    lin = gen.pick(rng, ["ts0", "ts1"])
    order = int(gen.pick(rng, [1, 2], [3, 1]))
    q = int(rng.integers(max(1, order), 7))
    d = int(rng.integers(1, 4))
    damp = float(gen.pick(rng, [0.0, 2.0**-8, 0.125], [3, 1, 1]))
    strategy = gen.pick(rng, strategies)
    if rng.random() < 0.5:
        base = None
    elif fact == "iso":
        base = float(2.0 ** rng.integers(-3, 4))
    else:
        base = [float(2.0 ** rng.integers(-3, 4)) for _ in range(d)]
    cfg = sm.Config(fact=fact, solver=solver, strategy=strategy, lin=lin, q=q, damp=damp, init="exact", base_scale=base)
    return cfg, d, order


def part_a(ctx):
    rng = ctx.rng
    # (a1) fixed grids: filter and fixed-interval smoother
    for it in range(ctx.n(5, 45)):
        cfg, d, order = random_exact_config(ctx, it, ["filter", "fixedinterval"])
        deg = int(rng.integers(max(order, cfg.q - 1), cfg.q + 1))
        ps = random_polysolution(rng, d, deg)
        t0 = float(gen.pick(rng, [0.0, 0.5, -1.0]))
        grid, _hs = random_grid(rng, t0, int(rng.integers(2, 7)), dyadic=bool(rng.random() < 0.5))
        for k in ("fact", "solver", "lin", "strategy"):
            ctx.count(f"a:{k}={getattr(cfg, k)}")
        ctx.count(f"a:q={cfg.q}")
        ctx.count(f"a:damp={'0' if cfg.damp == 0 else '>0'}")
        exact_fixed_grid(ctx, cfg, d, order, ps, t0, grid)
    # (a2) adaptive with checkpoints: filter and fixed-point smoother
    for it in range(ctx.n(2, 30)):
        if not ctx.extra.get("adaptive_loop_ok", True):
            ctx.skip("adaptive solve skipped: the bounded loop probe found the rejection loop broken (it might not terminate)")
            continue
        cfg, d, order = random_exact_config(ctx, it, ["filter", "fixedpoint"])
        deg = int(rng.integers(max(order, cfg.q - 1), cfg.q + 1))
        ps = random_polysolution(rng, d, deg)
        t0 = float(gen.pick(rng, [0.0, 0.5, -1.0]))
        save_at = t0 + np.concatenate([[0.0], np.sort(rng.uniform(0.05, 2.0, size=4))])
        tol = float(10.0 ** rng.uniform(-9, -2))
        dt0 = float(gen.pick(rng, [1e-3, 0.1, 1.0]))
        for k in ("fact", "solver", "lin", "strategy"):
            ctx.count(f"a:{k}={getattr(cfg, k)}")
        exact_adaptive(ctx, cfg, d, order, ps, t0, save_at, tol, dt0, clip=bool(rng.random() < 0.5))
    # (a3) the theorem executed in exact rationals (small sizes only)
    for it in range(ctx.n(4, 40)):
        fact = FACTS[it % 3]
        solver = gen.pick(rng, ["solver", "mle", "dynamic"])
        strategy = gen.pick(rng, ["filter", "fixedinterval", "fixedpoint"])
        order = int(gen.pick(rng, [1, 2], [3, 1]))
        q = int(rng.integers(order, 3))
        # dynamic on exact data has local scale 0: with damp = 0 the innovation, and for the smoothers the reversal of the noise-free transition,
        # are singular (every gain is certified, Pdq.C01.d8_every_gain_certified) but the driver's gain finder inverts: filter with damp > 0 only
        damp = float(gen.pick(rng, [0.0, 0.125])) if solver != "dynamic" else 0.125
        if solver == "dynamic":
            strategy = "filter"
        cfg = sm.Config(fact=fact, solver=solver, strategy=strategy, lin=gen.pick(rng, ["ts0", "ts1"]), q=q, damp=damp)
        d = int(rng.integers(1, 3))
        ps = random_polysolution(rng, d, q)
        hs = [Fraction(int(rng.integers(1, 9)), 8) for _ in range(int(rng.integers(1, 4)))]
        model_open_loop_exact(ctx, cfg, d, order, ps, float(gen.pick(rng, [0.0, 0.5])), hs)
    for _ in range(ctx.n(4, 30)):
        q = int(rng.integers(1, 9))
        estimate_order_check(ctx, q, int(rng.integers(0, q + 1)), Fraction(int(rng.integers(1, 64)), 32))
    # (a4) closed-loop: implementation steps vs model steps along the implementation trajectory (as C02, on these problems)
    for it in range(ctx.n(1, 16)):
        cfg, d, order = random_exact_config(ctx, it, ["filter"])
        if ctx.quick:
            cfg.q = min(cfg.q, 4)
        ps = random_polysolution(rng, d, cfg.q)
        t0 = float(gen.pick(rng, [0.0, 0.5]))
        hs = [float(2.0 ** rng.integers(-6, 0)) for _ in range(2)]
        u0s = [np.array([float(x) for x in ps.eval(t0, k)]) for k in range(order)]
        c02.refine_steps(ctx, cfg, d, ps.field(order), u0s, t0, hs, sigp="exact-step")


# ---------------------------------------------------------------------------------------------
# (b), (c) explored cases: families with closed-form solutions


class Family:
    """theta: parameter vector (traced). u0s: tuple of `order` arrays (d,)."""

    name = ""
    order = 1
    d = 2

    def vf(self, theta):
        raise NotImplementedError

    def truth(self, theta, u0s, t0, t):
        raise NotImplementedError

    def sample(self, rng):
        raise NotImplementedError


class Linear(Family):
    name, order, d = "linear", 1, 2

    def vf(self, theta):
        return lambda u, /, *, t: theta[:2] * u

    def truth(self, theta, u0s, t0, t):
        return u0s[0][None, :] * np.exp(theta[None, :2] * (t - t0)[:, None])

    def sample(self, rng):
        return rng.uniform(-2.0, 0.5, size=2), (rng.uniform(0.2, 1.5, size=2) * rng.choice([-1, 1], size=2),)


class Logistic(Family):
    name, order, d = "logistic", 1, 2

    def vf(self, theta):
        return lambda u, /, *, t: theta[0] * u * (1 - u)

    def truth(self, theta, u0s, t0, t):
        u0 = u0s[0][None, :]
        e = np.exp(theta[0] * (t - t0))[:, None]
        return u0 * e / (1 - u0 + u0 * e)

    def sample(self, rng):
        return np.array([rng.uniform(0.5, 3.0), 0.0]), (rng.uniform(0.1, 0.9, size=2),)


class Oscillator2(Family):
    name, order, d = "oscillator-2nd-order", 2, 2

    def vf(self, theta):
        return lambda u, du, /, *, t: -(theta[0] ** 2) * u

    def truth(self, theta, u0s, t0, t):
        w, s = theta[0], (t - t0)[:, None]
        return u0s[0][None, :] * np.cos(w * s) + u0s[1][None, :] / w * np.sin(w * s)

    def sample(self, rng):
        return np.array([rng.uniform(0.5, 3.0), 0.0]), (rng.uniform(-1, 1, size=2), rng.uniform(-1, 1, size=2))


class Oscillator1(Family):
    name, order, d = "oscillator-1st-order-system", 1, 2

    def vf(self, theta):
        import jax.numpy as jnp

        return lambda u, /, *, t: jnp.stack([u[1], -(theta[0] ** 2) * u[0]])

    def truth(self, theta, u0s, t0, t):
        w, s = theta[0], (t - t0)
        x0, v0 = u0s[0]
        return np.stack([x0 * np.cos(w * s) + v0 / w * np.sin(w * s), -x0 * w * np.sin(w * s) + v0 * np.cos(w * s)], axis=1)

    def sample(self, rng):
        return np.array([rng.uniform(0.5, 3.0), 0.0]), (rng.uniform(-1, 1, size=2),)


class Forced(Family):
    """u' = -lam u + c0 + c1 t + c2 t^2 (non-autonomous linear), both components share lam, c; closed form."""

    name, order, d = "forced-linear-nonautonomous", 1, 2

    def vf(self, theta):
        return lambda u, /, *, t: -theta[0] * u + theta[1] + theta[2] * t + theta[3] * t * t

    def truth(self, theta, u0s, t0, t):
        lam, c0, c1, c2 = theta
        a2 = c2 / lam
        a1 = (c1 - 2 * a2) / lam
        a0 = (c0 - a1) / lam
        up = lambda s: a2 * s * s + a1 * s + a0  # noqa: E731
        return up(t)[:, None] + (u0s[0][None, :] - up(t0)) * np.exp(-lam * (t - t0))[:, None]

    def sample(self, rng):
        return np.array([rng.uniform(0.3, 2.5), rng.uniform(-1, 1), rng.uniform(-1, 1), rng.uniform(-1, 1)]), (rng.uniform(-1.5, 1.5, size=2),)


class Quadrature(Family):
    """u' = c0 + c1 t + c2 t^2 + c3 t^3 (exact for q >= 4: errors at roundoff)."""

    name, order, d = "quadrature", 1, 1

    def vf(self, theta):
        return lambda u, /, *, t: theta[0] + theta[1] * t + theta[2] * t**2 + theta[3] * t**3 + 0 * u

    def truth(self, theta, u0s, t0, t):
        P = lambda s: theta[0] * s + theta[1] * s**2 / 2 + theta[2] * s**3 / 3 + theta[3] * s**4 / 4  # noqa: E731
        return u0s[0][None, :] + (P(t) - P(t0))[:, None]

    def sample(self, rng):
        return rng.uniform(-1, 1, size=4), (rng.uniform(-1, 1, size=1),)


FAMILIES = [Linear(), Logistic(), Oscillator2(), Oscillator1(), Forced(), Quadrature()]
NSAVE = 5
NNAT = 6


class Group:
    """One configuration (family x factorisation x calibration x strategy x linearisation x q x clip): jit-compiled once."""

    def __init__(self, fam, fact, solver, strategy, lin, q, clip):
        self.fam, self.fact, self.solver, self.strategy, self.lin, self.q, self.clip = fam, fact, solver, strategy, lin, q, clip
        self._adaptive = self._natural = None
        self._fixed = {}

    def key(self):
        return {"family": self.fam.name, "fact": self.fact, "solver": self.solver, "strategy": self.strategy, "lin": self.lin, "q": self.q, "clip_dt": self.clip}

    def sig(self):
        return f"{self.fact}:{self.solver}:{self.strategy}:{self.lin}"

    def _objs(self, theta, u0s, t0):
        from probdiffeq import probdiffeq as pdq

        ssm = {"dense": pdq.state_space_model_dense, "iso": pdq.state_space_model_isotropic, "bd": pdq.state_space_model_blockdiag}[self.fact]()
        f = self.fam.vf(theta)
        vf = pdq.ode(f, jacobian=pdq.jacobian_materialize()) if self.fam.order == 1 else pdq.ode_order_two(f, jacobian=pdq.jacobian_materialize())
        tc, _ = pdq.jetexpand_ode_padded_scan(num=self.q + 1 - self.fam.order)(vf, u0s, t=t0)
        prior = ssm.prior_wiener_integrated(tc)
        strategy = {"filter": pdq.strategy_filter, "fixedinterval": pdq.strategy_smoother_fixedinterval, "fixedpoint": pdq.strategy_smoother_fixedpoint}[self.strategy]()
        cons = ssm.constraint_ode_ts0(vf) if self.lin == "ts0" else ssm.constraint_ode_ts1(vf)
        solver = {"solver": pdq.solver, "mle": pdq.solver_mle, "dynamic": pdq.solver_dynamic}[self.solver](strategy=strategy, constraint=cons)
        return prior, solver, pdq.error_residual_std(constraint=cons)

    def adaptive(self, theta, u0s, save_at, atol, rtol, dt0):
        import jax
        import jax.numpy as jnp
        from probdiffeq import ivpsolve

        if self._adaptive is None:
            terminal = self.strategy == "fixedinterval"

            def run(theta, u0s, save_at, atol, rtol, dt0):
                prior, solver, err = self._objs(theta, u0s, save_at[0])
                if terminal:
                    sol = ivpsolve.solve_adaptive_terminal_values(solver=solver, error=err, clip_dt=self.clip)(
                        prior, t0=save_at[0], t1=save_at[-1], atol=atol, rtol=rtol, dt0=dt0)
                    return sol.u.mean[0][None], sol.num_steps, sol.output_scale
                sol = ivpsolve.solve_adaptive_save_at(solver=solver, error=err, clip_dt=self.clip, warn=False)(
                    prior, save_at=save_at, atol=atol, rtol=rtol, dt0=dt0)
                return sol.u.mean[0], sol.num_steps[-1], sol.output_scale

            self._adaptive = jax.jit(run)
        m, ns, osc = self._adaptive(jnp.asarray(theta), tuple(jnp.asarray(u) for u in u0s), jnp.asarray(save_at), atol, rtol, dt0)
        return np.asarray(m, dtype=np.float64), int(ns), np.asarray(osc, dtype=np.float64)

    def natural(self, theta, u0s, t0, atol, rtol, dt0):
        """times of the first NNAT accepted steps of the unclipped loop (no checkpoints)"""
        import jax
        import jax.numpy as jnp
        from probdiffeq import ivpsolve

        if self._natural is None:

            def run(theta, u0s, t0, atol, rtol, dt0):
                prior, solver, err = self._objs(theta, u0s, t0)
                loop = ivpsolve.RejectionLoop(solver=solver, clip_dt=False, control=ivpsolve.control_integral(), error=err, while_loop=jax.lax.while_loop)
                st = loop.init(solver.init(t=t0, u=prior, damp=0.0), dt=dt0)

                def body(st, _):
                    # the horizon is never reached (steps grow at most tenfold), so the loop never interpolates in this probe
                    _sol, st = loop.loop(st, t1=t0 + 1e30, atol=atol, rtol=rtol, eps=1e-8, damp=0.0)
                    # the acceptance quantity of the accepted step, recomputed from the two states the loop kept
                    power, _ = err.estimate_error_norm(st.error_step_from, previous=st.interp_from, proposed=st.step_from,
                                                       dt=st.step_from.t - st.interp_from.t, atol=atol, rtol=rtol, damp=0.0)
                    return st, (st.step_from.t, st.step_from.output_scale, power)

                _, (ts, scales, powers) = jax.lax.scan(body, st, None, length=NNAT)
                return ts, scales, powers

            self._natural = jax.jit(run)
        ts, scales, powers = self._natural(jnp.asarray(theta), tuple(jnp.asarray(u) for u in u0s), jnp.asarray(t0), atol, rtol, dt0)
        self.last_natural_scales = np.asarray(scales, dtype=np.float64)
        self.last_natural_powers = np.asarray(powers, dtype=np.float64)
        return np.asarray(ts, dtype=np.float64)

    def fixed(self, theta, u0s, grid):
        import jax
        import jax.numpy as jnp
        from probdiffeq import ivpsolve

        n = len(grid)
        if n not in self._fixed:

            def run(theta, u0s, grid):
                prior, solver, _err = self._objs(theta, u0s, grid[0])
                sol = ivpsolve.solve_fixed_grid(solver=solver)(prior, grid=grid)
                return sol.u.mean[0], sol.output_scale

            self._fixed[n] = jax.jit(run)
        m, osc = self._fixed[n](jnp.asarray(theta), tuple(jnp.asarray(u) for u in u0s), jnp.asarray(grid))
        self.last_output_scale = np.asarray(osc, dtype=np.float64)
        return np.asarray(m, dtype=np.float64)


def tol_min(q):
    return {1: 1e-6, 2: 1e-8}.get(q, 1e-9)


def random_group(ctx, it, mode):
    rng = ctx.rng
    fam = FAMILIES[int(rng.integers(len(FAMILIES)))]
    fact = FACTS[it % 3]
    solver = SOLVERS[(it // 3) % 3] if rng.random() < 0.7 else gen.pick(rng, SOLVERS)
    lin = gen.pick(rng, ["ts0", "ts1"])
    q = int(rng.integers(fam.order, 7))
    if mode == "adaptive":
        strategy = gen.pick(rng, ["filter", "fixedpoint", "fixedinterval"], [3, 3, 1])
    else:
        strategy = gen.pick(rng, ["filter", "fixedinterval"])
    clip = bool(rng.random() < 0.5)
    if mode == "fixed" and solver == "dynamic":
        q = max(fam.order, min(q, 3))  # higher orders: known finding D9 (corpus case)
    return Group(fam, fact, solver, strategy, lin, q, clip)


def probe_loop(ctx, g, theta, u0s, t0, atol, rtol, dt0):
    """Bounded probe of the rejection loop (NNAT accepted steps, no checkpoints): accepted step times strictly increase and every
    accepted step has error_power >= 1, i.e. scaled local error estimate <= 1 (the invariant `accepted_steps_meet_estimate`).
    Returns (ts, ok). A broken loop is reported and the unbounded adaptive solves are skipped (they might not terminate)."""
    ts = g.natural(theta, u0s, t0, atol, rtol, dt0)
    powers = g.last_natural_powers
    case = dict(g.key(), theta=np.asarray(theta).tolist(), u0=[np.asarray(u).tolist() for u in u0s], t0=t0, atol=atol, rtol=rtol, dt0=dt0,
                accepted_times=ts.tolist(), error_power_of_accepted_steps=powers.tolist())
    ctx.count("loop probes (accepted => estimate <= 1)")
    ok = True
    if not (np.all(np.isfinite(ts)) and ts[0] > t0 and np.all(np.diff(ts) > 0)):
        if g.solver == "dynamic" and np.any(g.last_natural_scales == 0.0):
            ctx.violation(D8_SIG, "solver_dynamic: local output scale exactly 0 in the first steps; later states non-finite", case, snippet=D8_SNIPPET)
            return ts, True  # the loop itself is not broken
        ctx.violation("accept:loop-broken", f"rejection loop: accepted step times {ts.tolist()} are not finite and strictly increasing from t0 = {t0}", case)
        ok = False
    elif g.fam.name == "quadrature" and g.q >= 4:
        ctx.skip("loop probe: estimate is pure rounding noise (exact problem), recomputed acceptance quantity not compared")
    elif not np.all(powers >= 1.0 - 1e-6):
        ctx.violation("accept:estimate-above-one", f"an accepted step has error_power {float(np.min(powers)):.6g} < 1, i.e. a scaled local error estimate > 1 "
                      f"(powers {powers.tolist()})", case)
        ok = False
    if not ok:
        ctx.extra["adaptive_loop_ok"] = False
    return ts, ok


def layout(ctx, g, theta, u0s, t0, atol, rtol, dt0):
    """checkpoint layout: (name, save_at, info)"""
    rng = ctx.rng
    T = float(rng.uniform(0.5, 3.0))
    # clip_dt = True: checkpoints at (or just beyond) the accepted step times of the unclipped loop make the clipped run land just short of
    # them (near-identical step sequences) - that is the known finding D10 and is exercised by its corpus case only
    kind = gen.pick(rng, ["uniform", "random", "cluster", "remainder"], [2, 2, 1, 0 if g.clip else 4])
    if kind == "uniform":
        return kind, np.linspace(t0, t0 + T, NSAVE), {}
    if kind == "random":
        return kind, np.concatenate([[t0], t0 + np.sort(rng.uniform(0.02, 1.0, size=NSAVE - 1)) * T]), {}
    if kind == "cluster":
        a = float(rng.uniform(0.2, 0.8)) * T
        # with clip_dt = True a gap above the loop's eps forces a tiny step (known finding D10, corpus case): only gaps that count as hits
        gap = float(10.0 ** rng.integers(-11, -8)) if g.clip else float(10.0 ** rng.integers(-11, -5))
        return kind, t0 + np.array([0.0, a, a + gap, a + gap + float(rng.uniform(0.05, 0.3)) * T, T]), {"gap": gap}
    ts, ok = probe_loop(ctx, g, theta, u0s, t0, atol, rtol, dt0)
    if not ok:
        return "broken", None, {}
    if not (np.all(np.isfinite(ts)) and np.all(np.diff(ts) > 0) and ts[0] > t0):
        return "uniform", np.linspace(t0, t0 + T, NSAVE), {"natural-steps": "not increasing/finite"}
    k = int(rng.integers(NSAVE - 2, NNAT))  # index of the last natural step before the final time
    r = float(gen.pick(rng, [0.0, 1e-12, 1e-10, 1e-9, 1e-7, 1e-6, 1e-3, 0.05, 0.5]))
    last = ts[k] - ts[k - 1]
    t_end = ts[k] + r * last
    if not t_end > ts[k] and r > 0.0:
        t_end = np.nextafter(ts[k], np.inf)
    inner = ts[k - (NSAVE - 2) : k]  # exact hits of earlier natural steps
    return kind, np.concatenate([[t0], inner, [t_end]]), {"remainder_fraction": r, "last_natural_step": float(last), "remainder": float(t_end - ts[k])}


def part_b(ctx, calib=None):
    """accuracy vs tolerance (explored cases)"""
    rng = ctx.rng
    for it in range(ctx.n(6, 80)):
        g = random_group(ctx, it, "adaptive")
        try:
            run_group_accuracy(ctx, g, calib)
        except NotImplementedError as e:
            ctx.skip(f"configuration not implemented by probdiffeq: {g.fact}/{g.lin}: {str(e)[:60]}")


def run_group_accuracy(ctx, g, calib):
    rng = ctx.rng
    for k, v in g.key().items():
        ctx.count(f"b:{k}={v}")
    for _ in range(ctx.n(4, 6)):
        theta, u0s = g.fam.sample(rng)
        t0 = float(gen.pick(rng, [0.0, 0.5, -1.0]))
        rtol = float(10.0 ** rng.uniform(math.log10(tol_min(g.q)), -2))
        atol = rtol * float(gen.pick(rng, [1.0, 1.0, 1e-1, 1e-2, 1e-3]))
        dt0 = float(gen.pick(rng, [1e-4, 1e-2, 0.1, 1.0, 30.0]))
        if not ctx.extra.get("adaptive_loop_ok", True):
            ctx.skip("adaptive solve skipped: the bounded loop probe found the rejection loop broken (it might not terminate)")
            return
        kind, save_at, info = layout(ctx, g, theta, u0s, t0, atol, rtol, dt0)
        if kind == "broken":
            return
        ctx.count(f"b:layout={kind}")
        accuracy_case(ctx, g, theta, u0s, t0, atol, rtol, dt0, kind, save_at, info, calib)


def diagnose_forced_tiny_step(g, theta, u0s, t0, save_at, atol, rtol, dt0, max_steps=4000):
    """Only called for a *failing* clip_dt = True case: replays the clipped loop accepted step by accepted step (python loop around the
    jitted `RejectionLoop.loop`) and returns the smallest ratio (clipped step that ends at a checkpoint) / (previous accepted step), or None.
    A ratio well below 1 is the known finding D10 (clipping made a step much shorter than its predecessor; observed on the clean tree: ratio 1e-4 at
    q = 5 and ratios 0.08 / 0.19 at q = 6 both end in an exponential blow-up of the mean that the local error estimate does not see)."""
    import jax
    import jax.numpy as jnp
    from probdiffeq import ivpsolve

    prior, solver, err = g._objs(jnp.asarray(theta), tuple(jnp.asarray(u) for u in u0s), jnp.asarray(save_at[0]))
    loop = ivpsolve.RejectionLoop(solver=solver, clip_dt=True, control=ivpsolve.control_integral(), error=err, while_loop=jax.lax.while_loop)
    st = loop.init(solver.init(t=jnp.asarray(save_at[0]), u=prior, damp=0.0), dt=dt0)
    step = jax.jit(lambda st, t1: loop.loop(st, t1=t1, atol=atol, rtol=rtol, eps=LOOP_EPS, damp=0.0)[1])
    worst, prev, n = None, None, 0
    for t1 in save_at[1:]:
        while float(st.step_from.t) + LOOP_EPS < t1 and n < max_steps:
            tp = float(st.step_from.t)
            st = step(st, jnp.asarray(t1))
            tn = float(st.step_from.t)
            n += 1
            if not np.isfinite(tn):
                return worst
            h = tn - tp
            if prev is not None and abs(tn - t1) <= LOOP_EPS and h > 0 and prev > 0:
                worst = h / prev if worst is None else min(worst, h / prev)
            if h > 0:
                prev = h
    return worst


def accuracy_case(ctx, g, theta, u0s, t0, atol, rtol, dt0, kind, save_at, info, calib=None):
    if True:
        means, nsteps, oscale = g.adaptive(theta, u0s, save_at, atol, rtol, dt0)
        ts = save_at if means.shape[0] == len(save_at) else save_at[-1:]
        truth = g.fam.truth(theta, [np.asarray(u) for u in u0s], t0, np.asarray(ts))
        case = dict(g.key(), theta=theta.tolist(), u0=[np.asarray(u).tolist() for u in u0s], t0=t0, save_at=[float(x) for x in save_at], atol=atol,
                    rtol=rtol, dt0=dt0, layout=kind, layout_info=info, num_steps=nsteps)
        ctx.case(case, sample={k: case[k] for k in ("family", "fact", "solver", "strategy", "lin", "q", "rtol", "layout")})
        # a step much smaller than the natural one that clip_dt = True forces: remainder after the last natural step, or a cluster gap
        forced = None
        if g.clip and kind == "remainder" and info.get("remainder_fraction", 1.0) < 0.02 and info.get("remainder", 1.0) > LOOP_EPS:
            forced = info["remainder"]
        if g.clip and kind == "cluster" and info["gap"] > LOOP_EPS:
            forced = info["gap"]
        failing = (not np.all(np.isfinite(means))) or float(np.max(np.abs(means - truth) / (atol + rtol * np.abs(truth)))) > c_acc(g)
        if failing and g.clip and forced is None:
            # a near-hit of a checkpoint can arise by itself (step sequence landing just short of it): replay the loop to find out
            ratio_tiny = diagnose_forced_tiny_step(g, theta, u0s, t0, save_at, atol, rtol, dt0)
            case["smallest_clipped_step_over_previous_step"] = ratio_tiny
            if ratio_tiny is not None and ratio_tiny < 0.3:
                forced = ratio_tiny
                ctx.count("b:near-hit of a checkpoint arose by itself with clip_dt=True (D10)")
        if not np.all(np.isfinite(means)):
            zero_scale = False
            if g.solver == "dynamic":
                # the zero may occur at a step between checkpoints: look at the scales of the first accepted steps
                g.natural(theta, u0s, t0, atol, rtol, dt0)
                zero_scale = bool(np.any(oscale == 0.0) or np.any(g.last_natural_scales == 0.0))
            if zero_scale:
                ctx.count("D8 hit (dynamic, zero residual)")
                ctx.violation(D8_SIG, f"solver_dynamic: a local output scale of exactly 0 (residual exactly zero in floating point; {g.fam.name}, q={g.q}, dt0={dt0}) "
                              "makes all later means non-finite (adaptive solve)", case, snippet=D8_SNIPPET)
            elif forced is not None:
                ctx.count("D10 hit (clip_dt forces a tiny step)")
                ctx.violation(D10_SIG, f"clip_dt=True forces a tiny step ({forced:.1e}); means non-finite ({g.fam.name}, {g.sig()}, q={g.q})", case)
            else:
                ctx.violation(f"accuracy:nonfinite:{g.sig()}", f"non-finite means in an adaptive solve ({g.fam.name})", case)
            return
        ratio = float(np.max(np.abs(means - truth) / (atol + rtol * np.abs(truth))))
        if calib is not None:
            calib.append(("acc", ratio, g.key(), rtol, kind, info.get("remainder_fraction"), forced))
        case["max_error"] = float(np.max(np.abs(means - truth)))
        case["ratio_to_tolerance"] = ratio
        if forced is not None:
            ctx.devs["accuracy.ratio[clip forces tiny step] (finding D10, not asserted against C_ACC)"] = max(
                ctx.devs.get("accuracy.ratio[clip forces tiny step] (finding D10, not asserted against C_ACC)", 0.0), ratio)
            if ratio > c_acc(g):
                ctx.count("D10 hit (clip_dt forces a tiny step)")
                ctx.violation(D10_SIG, f"clip_dt=True forces a tiny step ({forced:.1e}, << natural step); the error at the requested time is {ratio:.3g} x (atol + rtol|u|) "
                              f"({g.fam.name}, {g.sig()}, q={g.q}, tol {rtol:.1e}); the filter's correction scales like 1/dt (the exact algorithm does the same)", case)
            return
        if ratio > ctx.extra.get("worst_accuracy_case", {}).get("ratio_to_tolerance", 0.0):
            ctx.extra["worst_accuracy_case"] = case
        ctx.dev("accuracy.ratio[q > ODE order]" if g.q > g.fam.order else "accuracy.ratio[q = ODE order]", ratio, c_acc(g), case=case, sig=f"accuracy:{g.sig()}",
                what=f"{g.fam.name}: error at a requested time is {ratio:.3g} x (atol + rtol|u|) > C = {c_acc(g):g} (tol {rtol:.1e}, {nsteps} steps, layout {kind})")


def part_c(ctx, calib=None):
    """observed order under grid refinement (explored cases)"""
    rng = ctx.rng
    for it in range(ctx.n(4, 45)):
        g = random_group(ctx, it, "fixed")
        for k, v in g.key().items():
            if k != "clip_dt":
                ctx.count(f"c:{k}={v}")
        try:
            run_group_order(ctx, g, calib)
        except NotImplementedError as e:
            ctx.skip(f"configuration not implemented by probdiffeq: {g.fact}/{g.lin}: {str(e)[:60]}")


def run_group_order(ctx, g, calib, problem=None):
    rng = ctx.rng
    if problem is None:
        theta, u0s = g.fam.sample(rng)
        t0 = float(gen.pick(rng, [0.0, 0.5, -1.0]))
        T = float(rng.uniform(0.5, 1.5))
        warp = float(gen.pick(rng, [0.0, 0.3, -0.3]))  # smooth non-uniform grids: t = t0 + T (s + warp s (1-s))
        # start fine enough to be in the asymptotic regime, coarse enough to stay above roundoff
        n0 = {1: 32, 2: 16, 3: 12, 4: 8, 5: 6, 6: 6}[g.q]
        levels = [n0 * 2**i for i in range(ctx.n(3, 4))]
    else:
        theta, u0s, t0, T, warp, levels = problem
    errs, hs = [], []
    umax = 0.0
    for n in levels:
        s = np.linspace(0.0, 1.0, n + 1)
        grid = t0 + T * (s + warp * s * (1 - s))
        means = g.fixed(theta, u0s, grid)
        truth = g.fam.truth(theta, [np.asarray(u) for u in u0s], t0, grid)
        if not np.all(np.isfinite(means)):
            case = dict(g.key(), theta=np.asarray(theta).tolist(), u0=[np.asarray(u).tolist() for u in u0s], t0=t0, T=T, warp=warp, n=n)
            if g.solver == "dynamic" and np.any(g.last_output_scale == 0.0):
                ctx.count("D8 hit (dynamic, zero residual)")
                ctx.violation(D8_SIG, "solver_dynamic: a local output scale of exactly 0 makes all later means non-finite (fixed grid)", case, snippet=D8_SNIPPET)
            else:
                ctx.violation(f"order:nonfinite:{g.sig()}", f"non-finite means on a fixed grid ({g.fam.name})", case)
            return
        errs.append(float(np.max(np.abs(means - truth))))
        hs.append(T / n)
        umax = max(umax, float(np.max(np.abs(truth))))
    # expected exponent: q + 1 for first-order problems; second-order problems in second-order form: between q and q + 1 (observed)
    e_lo = g.q + 2 - g.fam.order
    e_hi = g.q + 1
    lo, hi = e_lo - slope_lo(g.q), e_hi + SLOPE_HI
    floor = ROUNDOFF * (1.0 + umax)
    case = dict(g.key(), theta=np.asarray(theta).tolist(), u0=[np.asarray(u).tolist() for u in u0s], t0=t0, T=T, warp=warp, levels=levels, errors=errs,
                slope_window=[lo, hi])
    ctx.case(case, sample={k: case[k] for k in ("family", "fact", "solver", "strategy", "lin", "q", "levels", "errors")})
    sig = D9_SIG if g.solver == "dynamic" else f"order:{g.sig()}"
    used = [(h, e) for h, e in zip(hs, errs) if e > floor]
    if len(used) < 2 or (g.fam.name == "quadrature" and g.q >= 4):
        ctx.count("c:error at roundoff level (no slope)")
        # roundoff level must really be small: the finest grid must not be worse than 1e3 floors
        ctx.dev("order.roundoff_level_error", errs[-1] / (1.0 + umax), 1e3 * ROUNDOFF, case=case, sig=sig,
                what=f"{g.fam.name}: errors {errs} at n = {levels} are neither at roundoff level nor give a slope")
        return
    lh, le = np.log([h for h, _ in used]), np.log([e for _, e in used])
    fit = float(np.polyfit(lh, le, 1)[0])
    last = float((le[-1] - le[-2]) / (lh[-1] - lh[-2]))
    s_lo, s_hi = max(fit, last), min(fit, last)  # the finest pair is closest to the asymptotic regime
    case["slope_fit"], case["slope_finest_pair"] = fit, last
    if calib is not None:
        calib.append(("slope", s_lo - e_lo, g.key(), errs, s_hi - e_hi))
    if g.solver != "dynamic" and g.q <= 5:
        cls = "q<=4" if g.q <= 4 else "q=5"
        ctx.devs[f"order.slope_minus_expected.min[{cls}]"] = min(ctx.devs.get(f"order.slope_minus_expected.min[{cls}]", 0.0), s_lo - e_lo)
        ctx.devs[f"order.slope_minus_expected.max[{cls}]"] = max(ctx.devs.get(f"order.slope_minus_expected.max[{cls}]", 0.0), s_hi - e_hi)
    if g.q >= 6:
        # q = 6: long pre-asymptotic regime on the levels that stay above roundoff (observed on the clean tree: plateaus between n = 12 and 48
        # before the error drops to roundoff, TS0): only an average order >= 2 over the usable levels is asserted, the slopes are recorded
        avg = float((le[0] - le[-1]) / (lh[0] - lh[-1]))
        case["average_order"] = avg
        if g.solver != "dynamic":
            ctx.devs["order.q6.average_order.min"] = min(ctx.devs.get("order.q6.average_order.min", 99.0), avg)
        if not avg >= 2.0:
            ctx.violation(sig, f"{g.fam.name}: q = 6: average observed order {avg:.2f} < 2 under grid refinement; errors {['%.2e' % e for e in errs]} at n = {levels}", case)
        return
    if not (lo <= s_lo and s_hi <= hi):
        what = (f"{g.fam.name}: observed order (fit {fit:.2f}, finest pair {last:.2f}) under grid refinement outside [{lo:.1f}, {hi:.1f}] "
                f"(q = {g.q}, ODE order {g.fam.order}); errors {['%.2e' % e for e in errs]} at n = {levels}")
        if g.solver == "dynamic":
            what = "solver_dynamic on a fixed grid does not converge at the prior's order (errors can grow under refinement; the exact algorithm does the same, see report): " + what
        ctx.violation(sig, what, case)


# ---------------------------------------------------------------------------------------------


def corpus(ctx):
    """D8 (repaired in /repo, kept as regression case): u' = 1 + 2t, u(0) = 1/2, q = 2, grid [0, .25, .75, 1], damp = 0: solver, solver_mle and
    solver_dynamic must all return 0.8125, 1.8125, 2.5 (filter and fixed-interval smoother)."""
    ps = PolySolution([[Fraction(1, 2), Fraction(1), Fraction(1)]])
    grid = np.array([0.0, 0.25, 0.75, 1.0])
    for fact, solver, strategy in [("dense", "solver", "filter"), ("dense", "mle", "filter"), ("dense", "dynamic", "filter"), ("dense", "dynamic", "fixedinterval"),
                                   ("iso", "dynamic", "filter"), ("bd", "dynamic", "fixedinterval")]:
        exact_fixed_grid(ctx, sm.Config(fact=fact, solver=solver, strategy=strategy, lin="ts0", q=2, damp=0.0), 1, 1, ps, 0.0, grid)
    # D9: solver_dynamic on a fixed grid, oscillator as first-order system, q = 6: errors 4e-2, 5e-1, 7e+3 at n = 6, 12, 24
    g = Group(FAMILIES[3], "bd", "dynamic", "filter", "ts0", 6, False)
    run_group_order(ctx, g, None, problem=(np.array([2.5, 0.0]), (np.array([0.625, 0.03125]),), 0.0, 1.0, 0.0, [6, 12, 24]))
    # D10: clip_dt = True and a final time 1e-7 of a step beyond a natural step: error 2e4 x tolerance (1/dt amplification)
    g = Group(FAMILIES[1], "dense", "solver", "filter", "ts0", 3, True)
    theta, u0s, tol = np.array([2.0, 0.0]), (np.array([0.25, 0.5]),), 1e-4
    ts, ok = probe_loop(ctx, g, theta, u0s, 0.0, tol, tol, 0.1)
    if ok:
        rem = 1e-7 * (ts[4] - ts[3])
        accuracy_case(ctx, g, theta, u0s, 0.0, tol, tol, 0.1, "remainder", np.concatenate([[0.0], ts[1:4], [ts[4] + rem]]),
                      {"remainder_fraction": 1e-7, "last_natural_step": float(ts[4] - ts[3]), "remainder": float(rem)})
    # the same probe with a dt0 far too large (rejections first) and with the PI-free default controller at a tight tolerance
    probe_loop(ctx, g, theta, u0s, 0.0, 1e-7, 1e-7, 30.0)
    # the theorem executed on the same instance
    model_open_loop_exact(ctx, sm.Config(fact="dense", solver="solver", strategy="fixedinterval", lin="ts0", q=2), 1, 1, ps, 0.0,
                          [Fraction(1, 4), Fraction(1, 2), Fraction(1, 4)])


def run(ctx, calib=None):
    import jax

    jax.config.update("jax_enable_x64", True)
    warnings.filterwarnings("ignore")
    ctx.rule = (
        "(a) theorem correspondence: random polynomial quadrature problems u^(K)=g(t), K in {1,2}, solution degree in {q-1,q}, d<=3, q=1..6, "
        "{dense,iso,bd} x {solver,mle(+/-corr),dynamic(+/-relin)} x {filter,fixed-interval (fixed grids),fixed-point (adaptive)} x {TS0,TS1} x damp {0,>0} x base scales; "
        "dyadic and non-dyadic grids of 2-6 steps; adaptive with 5 random checkpoints, tol 1e-9..1e-2, clip on/off; model open-loop in exact rationals (q<=2, <=3 steps); "
        "closed-loop per-step comparison as C02. (b) explored: 6 closed-form families x sampled configurations (jit-compiled once per configuration), "
        "4-6 solves each: tolerance log-uniform in [tol_min(q),1e-2] (1e-6 for q=1, 1e-8 for q=2, 1e-9 otherwise), atol/rtol in {1,.1,.01,.001}, dt0 in {1e-4..30}, layouts "
        "uniform/random/clustered(gap 1e-11..1e-6)/exact hits + final time leaving a remainder of {1e-12..0.5} x last natural step. (c) explored: fixed grids, 3-4 refinement levels, "
        "uniform and smoothly warped grids, slope of log error vs log h. distinct = different (configuration, problem parameters, tolerance/layout)."
    )
    ctx.assumptions += [
        "theorem part: exact arithmetic model; floating-point agreement of u to 1e-12 (q <= 3) / 1e-8 (q >= 4) sup-norm relative on fixed grids, 100x that in adaptive runs, 1000x for u'",
        "explored part: C_ACC = %g (%g for q = ODE order) and the slope window [q+2-K - (0.9 if q<=4 else 1.6), q+1+%.1f] (q <= 5; q = 6 has a long pre-asymptotic regime on the levels above roundoff: only an average order >= 2 is asserted) are empirical constants calibrated on the clean tree; they are not implied by any theorem" % (C_ACC, C_ACC_LOWEST, SLOPE_HI),
        "fixed-point smoother is not used on fixed grids and the fixed-interval smoother only through solve_adaptive_terminal_values / fixed grids (the library warns otherwise)",
        "tolerances below tol_min(q) are not sampled for q <= 2 (step counts beyond 1e5)",
        "known findings D9 / D10 are triggered by fixed corpus cases only: random fixed-grid order sweeps use q <= 3 for solver_dynamic; with clip_dt = True random final times "
        "are not placed at / just beyond accepted step times of the unclipped loop and clustered checkpoints are closer than the loop's eps (hits); a failing clip_dt = True case is "
        "replayed step by step and filed under D10 when a clipped step is < 30% of its predecessor (short clipped steps also arise by themselves)",
        "the acceptance invariant (accepted => scaled estimate <= 1) is a theorem of the loop model (C06), not restated here",
    ]
    ctx.extra["constants"] = {"TOL_EXACT": TOL_EXACT, "C_ACC": C_ACC, "C_ACC_LOWEST": C_ACC_LOWEST, "slope_window": "[q+2-K - (0.9 if q<=4 else 1.6), q+1+%.1f]" % SLOPE_HI, "ROUNDOFF": ROUNDOFF}
    ctx.extra["theorem_part"] = "(a): exactness on polynomial quadrature problems, closed forms of Phi/Q, zero calibration terms"
    ctx.extra["explored_part"] = "(b) accuracy vs tolerance, (c) observed order: cases, not proof"
    import time

    timing = {}
    for name, fn in (("corpus", lambda: corpus(ctx)), ("a", lambda: part_a(ctx)), ("b", lambda: part_b(ctx, calib)), ("c", lambda: part_c(ctx, calib))):
        t_ = time.time()
        fn()
        timing[name] = round(time.time() - t_, 1)
    ctx.extra["wall_s_by_part"] = timing
