"""C20 — Malformed inputs are rejected loudly instead of being broadcast silently.

Correspondence: every public entry point that validates an argument is called on the REAL public API
(`from probdiffeq import probdiffeq, ivpsolve`) with a valid argument set and with every single-field
corruption of it (wrong rank, wrong length, wrong tree structure, wrong dtype, wrong object type), for the
dense / isotropic / block-diagonal factorisations (matrix-free where it delegates).  The outcome class
{returns numbers, raises <ExceptionType>, warns} is compared with the decision of the Lean model
(`Pdq.Model.Validate`, executed by `pdqdrv`) for the abstract description of the *same* concrete arguments
(`c20_lib.abstract` is the abstraction function).  Independently of the model, ANY call that returns
numbers for an argument outside the documented contract is a violation (signature
"<entry>:<field>:<corruption class>:<factorisation>"), with the call as replay.

The model has code variants (current tree / proposed fixes); the check probes the real code with a
handful of inputs to select the variant, and still reports every accepted corruption.
"""

from __future__ import annotations

import json

import jax
import jax.numpy as jnp
import numpy as np

from harness import core
from harness.checks import c20_lib as lib
from harness.checks.c20_lib import A, D, FN, L, NONE, P, T, abstract, abstract_obj, abstract_shape, build

PROPS_MODULES = ["Pdq.Props.C20"]
LEVEL = "proof"
EXPLANATION = (
    "Lean model of the validation decisions of every public entry point (Pdq/Model/Validate.lean), theorems "
    "validate_sound / validate_complete per entry point for all shapes and trees (Pdq/Props/C20.lean; negations with "
    "witnesses where the code has no check), correspondence = full single-corruption matrix on the real API."
)

FACTS = ["dense", "isotropic", "blockdiag"]


def pdq():
    from probdiffeq import probdiffeq

    return probdiffeq


def ivp():
    from probdiffeq import ivpsolve

    return ivpsolve


def make_ssm(fact):
    p = pdq()
    if fact == "dense":
        return p.state_space_model_dense()
    if fact == "isotropic":
        return p.state_space_model_isotropic()
    if fact == "blockdiag":
        return p.state_space_model_blockdiag()
    if fact == "matfree":
        return p.state_space_model_matfree(key=jax.random.PRNGKey(1), num_ensembles=5)
    raise core.HarnessError(fact)


# ------------------------------------------------------------------------------------------------
# bases: valid argument sets

BASES = {
    "vec3x3": dict(n=3, coeff=A((3,))),
    "vec3x1": dict(n=1, coeff=A((3,))),
    "vec1x2": dict(n=2, coeff=A((1,))),
    "col2x2": dict(n=2, coeff=A((2, 1))),
    "scalarx3": dict(n=3, coeff=A(())),
    "dictx2": dict(n=2, coeff=D({"a": A((2,)), "b": A((1,))})),
    "tuple2x2": dict(n=2, coeff=A((2,)), seq="T"),
}
QUICK_BASES = ["vec3x3", "vec3x1"]
THOROUGH_BASES = ["vec3x3", "vec3x1", "vec1x2", "col2x2", "scalarx3", "dictx2", "tuple2x2"]


class Base:
    def __init__(self, name):
        self.name = name
        b = BASES[name]
        self.n, self.coeff = b["n"], b["coeff"]
        self.d = lib.size(self.coeff)
        self.seq = L if b.get("seq", "L") == "L" else T
        self.mean = self.seq([self.coeff] * self.n)

    def std(self, fact):
        if fact == "isotropic":
            return self.seq([A(())] * self.n)
        return self.seq([self.coeff] * self.n)

    def is_exact(self, fact):
        if fact == "isotropic":
            return self.seq([P("b")] * self.n)
        return lib.map_leaves(self.mean, lambda s, i: A(lib.leaf_shape(s), "b"))

    def output_scale(self, fact):
        if fact == "isotropic":
            return A(())
        return self.coeff

    def calibrated(self, fact):
        if fact == "blockdiag":
            return A((self.d,))
        return A(())


# ------------------------------------------------------------------------------------------------
# the documented contract (harness side; independent of the model): which values are valid


def _array_tree(spec):
    return lib.is_tree(spec) and all(lib.is_leaf(s) for s in lib.leaves(spec)) and (lib.is_leaf(spec) or lib.n_leaves(spec) > 0)


def valid_tcoeffs(spec):
    if spec[0] not in ("L", "T") or not spec[1]:
        return False
    if not all(_array_tree(c) for c in spec[1]):
        return False
    st = lib.shape_tree(spec[1][0])
    return all(lib.shape_tree(c) == st for c in spec[1])


def valid_std(fact, mean, spec):
    if spec[0] not in ("L", "T"):
        return False
    if fact == "isotropic":
        return len(spec[1]) == len(mean[1]) and all(lib.is_leaf(c) and lib.leaf_shape(c) == () for c in spec[1])
    return valid_tcoeffs(spec) and lib.shape_tree(spec) == lib.shape_tree(mean)


def valid_is_exact(fact, mean, spec):
    if spec == P("b"):
        return True
    if not lib.is_tree(spec):
        return False
    if fact == "isotropic":
        return (
            spec[0] == mean[0]
            and len(spec[1]) == len(mean[1])
            and all(lib.is_leaf(c) and lib.leaf_shape(c) == () and lib.leaf_dtype(c) == "b" for c in spec[1])
        )
    if lib.shape_tree(lib.map_leaves(spec, lambda s, i: A(())), False) != lib.shape_tree(lib.map_leaves(mean, lambda s, i: A(())), False):
        return False
    for a, b in zip(lib.leaves(spec), lib.leaves(mean)):
        if lib.leaf_dtype(a) != "b" or lib.leaf_shape(a) not in ((), lib.leaf_shape(b)):
            return False
    return True


def valid_output_scale(fact, coeff, spec):
    if spec == NONE:
        return True
    if not lib.is_tree(spec):
        return False
    if fact == "isotropic":
        return lib.is_leaf(spec) and lib.leaf_shape(spec) == ()
    return lib.shape_tree(spec, False) == lib.shape_tree(coeff, False)


def asarray_shape(spec):
    if lib.is_leaf(spec):
        return lib.leaf_shape(spec)
    if spec[0] in ("L", "T"):
        shapes = [asarray_shape(c) for c in spec[1]]
        if not shapes:
            return (0,)
        if any(s is None or s != shapes[0] for s in shapes):
            return None
        return (len(shapes),) + shapes[0]
    return None


def valid_calibrated(fact, d, spec):
    if not lib.is_tree(spec):
        return False
    return asarray_shape(spec) == ((d,) if fact == "blockdiag" else ())


# ------------------------------------------------------------------------------------------------
# bookkeeping of one explored call


class Runner:
    def __init__(self, ctx, variant):
        self.ctx = ctx
        self.variant = variant  # tokens of the model's code variant
        self.mismatches = 0

    def run(self, *, entry, field, cls, cid, fact, base, specs, call, op, tokens, valid, warn_expected=False, ref=None, new=None):
        ctx = self.ctx
        # a corrupted tree with the same number of entries in the same flattening order is *re-shaped*, not
        # broadcast, by code that ravels its input: reported under its own (lower-severity) class
        tolerated = ref is not None and new is not None and lib.is_tree(new) and lib.is_tree(ref) and lib.size(new) == lib.size(ref) and lib.n_leaves(new) > 0
        real = lib.outcome(call)
        model = ctx.drv.call_raw(op, *tokens) if op is not None else ["unmodelled"]
        desc = {
            "entry": entry,
            "field": field,
            "corruption": cid,
            "class": cls,
            "factorisation": fact,
            "base": base,
            "args": specs,
            "model_request": " ".join([op, *tokens]),
            "model": " ".join(model),
            "real": list(real),
        }
        ctx.case({k: desc[k] for k in ("entry", "field", "corruption", "factorisation", "base", "args")}, sample=desc)
        ctx.count(f"entry:{entry}")
        ctx.count(f"class:{cls}")
        ctx.count(f"fact:{fact}")
        ctx.count("real:" + (real[0] if real[0] != "raises" else "raises " + real[1]))
        ctx.count("model:" + " ".join(model))
        ok = lib.agrees(model, real) if op is not None else True
        ctx.dev("model-vs-code", 0.0 if ok else 1.0, 0.5, case=desc, sig=f"corr:{entry}:{field}:{cls}:{fact}",
                what=f"model decides '{' '.join(model)}' but the real call {real[0]} {real[1] or ''} ({real[2]}) for {entry}({field}={cid}) [{fact}, {base}]")
        if valid is None:
            return real, model
        if not valid and real[0] != "raises" and not (warn_expected and real[0] == "warns"):
            vcls = "reshape-tolerated" if tolerated else cls
            ctx.count(f"accepted:{entry}:{field}:{vcls}:{fact}")
            ctx.violation(
                f"{entry}:{field}:{vcls}:{fact}",
                f"{entry} [{fact}] accepted a corrupted '{field}' ({cls} {cid}; base {base}): the call {real[0]} instead of raising"
                + (" (same number of entries: re-shaped, not broadcast)" if tolerated else ""),
                case=desc,
                theorem="Pdq.C20: validate_complete (see the `not_complete` witnesses for the known gaps)",
                snippet=f"see harness/checks/c20.py::replay({json.dumps({k: desc[k] for k in ('entry', 'field', 'factorisation', 'args')})})",
            )
        if valid and real[0] == "raises":
            ctx.violation(
                f"valid-rejected:{entry}:{field}:{fact}",
                f"{entry} [{fact}] rejected an argument set the contract declares valid ({cid}; base {base}): {real[1]}: {real[2]}",
                case=desc,
            )
        return real, model


def tok(*parts):
    out = []
    for p in parts:
        if isinstance(p, (list, tuple)):
            out += [str(x) for x in p]
        else:
            out.append(str(p))
    return out


# ------------------------------------------------------------------------------------------------
# priors


def prior_entries(R: Runner, base: Base, fact, thorough):
    ssm = make_ssm(fact)
    v = R.variant
    mean0, std0, ie0, os0 = base.mean, base.std(fact), base.is_exact(fact), base.output_scale(fact)

    # ---- prior_wiener_integrated(tcoeffs, is_exact=, output_scale=)
    contexts = [("defaults", dict(tcoeffs=mean0, is_exact=P("b"), output_scale=NONE))]
    contexts.append(("explicit", dict(tcoeffs=mean0, is_exact=ie0, output_scale=os0)))
    for cname, valid_specs in contexts:
        fields = {
            "tcoeffs": lib.corrupt_tree(mean0),
            "is_exact": lib.corrupt_tree(ie0, dtype_targets=("f", "i")) + [("wrong-dtype", "pyscalar:float", P("f")), ("wrong-dtype", "pyscalar:int", P("i"))],
            "output_scale": lib.corrupt_tree(os0, containers=False),
        }
        # two checks violated at once: pins down the ORDER of the checks (ValueError for the shape before TypeError for the dtype)
        both = lib.map_leaves(ie0, lambda s_, i: A(lib.leaf_shape(s_) + (2,), "f") if s_[0] == "A" else A((2,), "f"))
        fields["is_exact"].append(("check-order", "shape+dtype", both))
        if cname == "explicit" and not thorough:
            fields = {"tcoeffs": [c for c in fields["tcoeffs"] if c[0] in ("wrong-length", "wrong-shape")][:6]}
        todo = [("-", "valid", "valid", None, None)]
        for f, cs in fields.items():
            todo += [(f, cls, cid, f, new) for cls, cid, new in cs]
        for field, cls, cid, f, new in todo:
            specs = dict(valid_specs)
            if f is not None:
                specs[f] = new
            ok = (
                valid_tcoeffs(specs["tcoeffs"])
                and valid_is_exact(fact, specs["tcoeffs"], specs["is_exact"])
                and valid_output_scale(fact, specs["tcoeffs"][1][0], specs["output_scale"])
            )
            if f is not None and ok:
                R.ctx.skip("corruption yields a valid argument set")
                continue
            vals = {k: build(s) for k, s in specs.items()}
            R.run(
                entry="prior_wiener_integrated", field=field, cls=cls, cid=f"{cid}@{cname}", fact=fact, base=base.name,
                specs=specs, call=lambda vals=vals: ssm.prior_wiener_integrated(vals["tcoeffs"], is_exact=vals["is_exact"], output_scale=vals["output_scale"]),
                op="c20_prior", tokens=tok(v, fact, abstract(vals["tcoeffs"]), abstract(vals["is_exact"]), abstract(vals["output_scale"])),
                valid=ok, ref=valid_specs.get(f), new=new,
            )

    # ---- prior_wiener_integrated_diffuse(mean, std, output_scale=)
    valid_specs = dict(tcoeffs_mean=mean0, tcoeffs_std=std0, output_scale=NONE)
    fields = {"tcoeffs_std": lib.corrupt_tree(std0), "tcoeffs_mean": lib.corrupt_tree(mean0)}
    if not thorough:
        fields["tcoeffs_mean"] = [c for c in fields["tcoeffs_mean"] if c[0] != "wrong-tree"]
    todo = [("-", "valid", "valid", None, None)]
    for f, cs in fields.items():
        todo += [(f, cls, cid, f, new) for cls, cid, new in cs]
    for field, cls, cid, f, new in todo:
        specs = dict(valid_specs)
        if f is not None:
            specs[f] = new
        ok = valid_tcoeffs(specs["tcoeffs_mean"]) and valid_std(fact, specs["tcoeffs_mean"], specs["tcoeffs_std"])
        if f is not None and ok:
            R.ctx.skip("corruption yields a valid argument set")
            continue
        vals = {k: build(s) for k, s in specs.items()}
        R.run(
            entry="prior_wiener_integrated_diffuse", field=field, cls=cls, cid=cid, fact=fact, base=base.name, specs=specs,
            call=lambda vals=vals: ssm.prior_wiener_integrated_diffuse(vals["tcoeffs_mean"], vals["tcoeffs_std"], output_scale=vals["output_scale"]),
            op="c20_prior_diffuse", tokens=tok(v, fact, abstract(vals["tcoeffs_mean"]), abstract(vals["tcoeffs_std"]), abstract(vals["output_scale"])),
            valid=ok, ref=valid_specs.get(f), new=new,
        )

    # ---- prior.transition(dt=, output_scale=)
    prior = ssm.prior_wiener_integrated(build(mean0))
    cal0 = base.calibrated(fact)
    todo = [("-", "valid", "valid", cal0)] + [("output_scale", cls, cid, new) for cls, cid, new in lib.corrupt_tree(cal0, containers=False)]
    todo += [("output_scale", "wrong-tree", "pylist", L([P("f")] * base.d)), ("output_scale", "wrong-object", "pyscalar", P("f"))]
    for field, cls, cid, spec in todo:
        ok = valid_calibrated(fact, base.d, spec)
        if field != "-" and ok:
            R.ctx.skip("corruption yields a valid argument set")
            continue
        val = build(spec)
        R.run(
            entry="prior.transition", field=field, cls=cls, cid=cid, fact=fact, base=base.name, specs=dict(output_scale=spec),
            call=lambda val=val: prior.transition(dt=0.5, output_scale=val),
            op="c20_transition", tokens=tok(fact, base.d, abstract(val)), valid=ok, ref=cal0, new=spec,
        )


def ode_objects(n):
    """objects passed as the `ode` of exponential priors: (id, builder)"""
    p = pdq()

    def neg_last(*a):
        return jax.tree_util.tree_map(lambda s: -s, a[-1])

    def neg_last_t(*a, t):
        return jax.tree_util.tree_map(lambda s: -s, a[-1])

    out = {
        "autonomous:order-n": p.ode_autonomous_order_arbitrary(neg_last, num_tcoeffs_in_args=n),
        "autonomous:order-n-plus-1": p.ode_autonomous_order_arbitrary(neg_last, num_tcoeffs_in_args=n + 1),
        "jetode:order-n": p.ode_order_arbitrary(neg_last_t, num_tcoeffs_in_args=n),
        "residual:order-n": p.JetResidual(lambda *, jet_coords, t: [jet_coords[-1]], jacobian=p.jacobian_materialize(), num_tcoeffs_in_args=n),
        "function": lib._plain_function,
        "none": None,
    }
    if n > 1:
        out["autonomous:order-n-minus-1"] = p.ode_autonomous_order_arbitrary(neg_last, num_tcoeffs_in_args=n - 1)
    return out


def exponential_entries(R: Runner, base: Base, fact, thorough):
    ssm = make_ssm(fact)
    v = R.variant
    mean0, std0, ie0, os0 = base.mean, base.std(fact if fact != "matfree" else "blockdiag"), P("b"), NONE
    objs = ode_objects(base.n)
    mfact = fact if fact != "matfree" else "blockdiag"  # the model: everything but dense raises NotImplementedError

    for oid, o in objs.items():
        okk = oid == "autonomous:order-n" and fact == "dense"
        cls = "valid" if oid == "autonomous:order-n" else ("wrong-length" if oid.startswith("autonomous") else "wrong-object")
        vals = dict(mean=build(mean0), std=build(std0))
        R.run(
            entry="prior_exponential", field="ode", cls=cls, cid=oid, fact=fact, base=base.name, specs=dict(ode=oid, tcoeffs=mean0),
            call=lambda o=o, vals=vals: ssm.prior_exponential(o, vals["mean"]),
            op="c20_prior_exp", tokens=tok(v, mfact, abstract_obj(o), abstract(vals["mean"]), abstract(True), "N"),
            valid=(okk if fact == "dense" else None),
        )
        R.run(
            entry="prior_exponential_diffuse", field="ode", cls=cls, cid=oid, fact=fact, base=base.name, specs=dict(ode=oid, tcoeffs_mean=mean0, tcoeffs_std=std0),
            call=lambda o=o, vals=vals: ssm.prior_exponential_diffuse(o, vals["mean"], vals["std"]),
            op="c20_prior_exp_diffuse", tokens=tok(v, mfact, abstract_obj(o), abstract(vals["mean"]), abstract(vals["std"]), "N"),
            valid=(okk if fact == "dense" else None),
        )
    if fact != "dense":
        return
    o = objs["autonomous:order-n"]
    fields = {"tcoeffs": lib.corrupt_tree(mean0), "is_exact": lib.corrupt_tree(base.is_exact(fact), dtype_targets=("f",)), "output_scale": lib.corrupt_tree(base.output_scale(fact), containers=False)}
    if not thorough:
        fields = {k: [c for c in cs if c[0] != "wrong-tree"][:10] for k, cs in fields.items()}
    for f, cs in fields.items():
        for cls, cid, new in cs:
            specs = dict(tcoeffs=mean0, is_exact=ie0, output_scale=os0)
            specs[f] = new
            ok = valid_tcoeffs(specs["tcoeffs"]) and len(specs["tcoeffs"][1]) == base.n and valid_is_exact(fact, specs["tcoeffs"], specs["is_exact"]) and valid_output_scale(fact, specs["tcoeffs"][1][0], specs["output_scale"])
            if ok:
                R.ctx.skip("corruption yields a valid argument set")
                continue
            vals = {k: build(s) for k, s in specs.items()}
            R.run(
                entry="prior_exponential", field=f, cls=cls, cid=cid, fact=fact, base=base.name, specs=specs,
                call=lambda vals=vals: ssm.prior_exponential(o, vals["tcoeffs"], is_exact=vals["is_exact"], output_scale=vals["output_scale"]),
                op="c20_prior_exp", tokens=tok(v, fact, abstract_obj(o), abstract(vals["tcoeffs"]), abstract(vals["is_exact"]), abstract(vals["output_scale"])),
                valid=False,
            )
    # Ornstein-Uhlenbeck / Matern: the ODE is built from len(tcoeffs)
    def linop(s):
        return jax.tree_util.tree_map(lambda x: -x, s)

    cs = [("valid", "valid", mean0)] + [c for c in lib.corrupt_tree(mean0) if thorough or c[0] != "wrong-tree"]
    for cls, cid, new in cs:
        ok = valid_tcoeffs(new)
        if cls != "valid" and ok:
            R.ctx.skip("corruption yields a valid argument set")
            continue
        val = build(new)
        for name, call in (
            ("prior_ornstein_uhlenbeck_integrated", lambda val=val: ssm.prior_ornstein_uhlenbeck_integrated(linop, val)),
            ("prior_matern", lambda val=val: ssm.prior_matern(1.0, val)),
        ):
            if name == "prior_matern" and not lib.is_leaf(base.coeff):
                continue  # the Matern drift does arithmetic on the coefficients: array-valued coefficients only
            R.run(
                entry=name, field="tcoeffs" if cls != "valid" else "-", cls=cls, cid=cid, fact=fact, base=base.name, specs=dict(tcoeffs=new),
                call=call, op="c20_prior_ou", tokens=tok(v, fact, abstract(val), abstract(True), "N"), valid=ok,
            )


# ------------------------------------------------------------------------------------------------
# linearisation constructors, jet lifting, Taylor-coefficient routines, step-size proposals


def neg(x):
    return jax.tree_util.tree_map(lambda s: -s, x)


def problem_objects():
    p = pdq()
    vf1 = p.ode(lambda y, *, t: neg(y))
    vf2 = p.ode_order_two(lambda y, dy, *, t: neg(y))
    return {
        "JetOde:order1": vf1,
        "JetOde:order2": vf2,
        "JetOde:order3": p.ode_order_arbitrary(lambda y, dy, ddy, *, t: neg(y), num_tcoeffs_in_args=3),
        "JetOde:lifted": vf1.jet_lift(lift_by=1),
        "JetOdeAutonomous": p.ode_autonomous(lambda y: neg(y)),
        "JetResidual": p.residual_velocity(lambda y, dy, *, t: jax.tree_util.tree_map(lambda a, b: a + b, y, dy)),
        "function": lib._plain_function,
        "none": None,
    }


def constraint_entries(R: Runner):
    p = pdq()
    objs = problem_objects()
    for fact in FACTS + ["matfree"]:
        ssm = make_ssm(fact)
        for oid, o in objs.items():
            if oid in ("JetOde:order2", "JetOde:order3"):
                continue
            for which, tp in (("ts0", False), ("ts1", False), ("ts1", True), ("residual", False), ("residual", True)):
                tpo = p.taylor_point_prior() if tp else None
                if which == "ts0":
                    call = lambda o=o: ssm.constraint_ode_ts0(o)
                    good = oid.startswith("JetOde:")
                elif which == "ts1":
                    call = lambda o=o, tpo=tpo: ssm.constraint_ode_ts1(o, taylor_point=tpo)
                    good = oid.startswith("JetOde:")
                else:
                    call = lambda o=o, tpo=tpo: ssm.constraint_residual(o, taylor_point=tpo)
                    good = oid == "JetResidual"
                unsupported = (which == "ts0" and fact == "matfree") or (tp and fact != "dense")
                R.run(
                    entry=f"constraint_{'ode_' if which != 'residual' else ''}{which}", field="ode" if which != "residual" else "residual",
                    cls="valid" if good else "wrong-object", cid=f"{oid}{'+taylor_point' if tp else ''}", fact=fact, base="-",
                    specs=dict(obj=oid, taylor_point=tp), call=call,
                    op="c20_constraint", tokens=tok(which, fact, abstract_obj(o), int(tp)),
                    valid=None if unsupported else good,
                )


def lift_entries(R: Runner, thorough):
    objs = problem_objects()
    lifts = {"0": 0, "1": 1, "2": 2, "-1": -1, "True": True, "1.0": 1.0, "None": None, "'1'": "1", "jnp(1)": jnp.asarray(1)}
    for oid in ("JetOde:order1", "JetOde:order2", "JetOde:lifted", "JetOdeAutonomous", "JetResidual"):
        o = objs[oid]
        for lid, lb in lifts.items():
            is_int = isinstance(lb, int)
            ltok = str(int(lb)) if is_int else "other"
            good = is_int and not isinstance(lb, bool)
            R.run(
                entry="jet_lift", field="lift_by", cls="valid" if good else "wrong-dtype", cid=f"{oid}:lift_by={lid}", fact="-", base="-",
                specs=dict(obj=oid, lift_by=lid), call=lambda o=o, lb=lb: o.jet_lift(lift_by=lb),
                op="c20_jet_lift", tokens=tok(abstract_obj(o), ltok),
                # a Python bool is an int (documented Python semantics): not counted as a corruption;
                # out-of-range integers are checked lazily at the first call (next block)
                valid=None if (isinstance(lb, bool) or oid in ("JetOde:lifted", "JetOdeAutonomous")) else (True if is_int else False),
            )
    # lazily checked range: call the lifted function
    d = 2
    for oid in ("JetOde:order1", "JetOde:order2", "JetResidual"):
        o = objs[oid]
        nin = o.num_tcoeffs_in_args
        for lb in (-2, -1, 0, 1, 2, 3):
            lifted = o.jet_lift(lift_by=lb)
            for K in range(1, 6 if thorough else 5):
                jc = [jnp.full((d,), 0.5)] * K
                if oid == "JetResidual":
                    call = lambda lifted=lifted, jc=jc: lifted.residual_function(jet_coords=jc, t=0.0)
                else:
                    call = lambda lifted=lifted, jc=jc: lifted.vector_field(jet_coords=jc, t=0.0)
                good = 0 <= lb <= K - nin
                R.run(
                    entry="jet_lift.call", field="lift_by", cls="valid" if good else "wrong-length", cid=f"{oid}:lift_by={lb}:K={K}", fact="-", base="-",
                    specs=dict(obj=oid, lift_by=lb, num_jet_coords=K), call=call,
                    op="c20_lifted_call", tokens=tok(nin, lb, K), valid=good,
                )
    for oid in ("JetOde:order1", "JetOde:lifted"):
        o = objs[oid]
        k = o.num_tcoeffs_in_args
        R.run(
            entry="JetOde.__call__", field="self", cls="valid" if oid != "JetOde:lifted" else "wrong-object", cid=oid, fact="-", base="-", specs=dict(obj=oid),
            call=lambda o=o, k=k: o(*([jnp.full((2,), 0.5)] * k), t=0.0),
            op="c20_ode_call", tokens=tok(abstract_obj(o)), valid=oid != "JetOde:lifted",
        )


def jetexpand_entries(R: Runner, thorough):
    p = pdq()
    objs = problem_objects()
    algs = {"padded_scan": p.jetexpand_ode_padded_scan, "unroll": p.jetexpand_ode_unroll, "via_jvp": p.jetexpand_ode_via_jvp}
    arr = jnp.full((2,), 0.5)
    ptree = {"a": jnp.full((2,), 0.5), "b": jnp.full((1,), 0.25)}
    for an, alg in algs.items():
        for num in (0, 2):
            for oid, o in objs.items():
                nin = getattr(o, "num_tcoeffs_in_args", 1)
                for pytree in (False, True):
                    for m in (sorted({nin, 1, nin + 1}) if ((thorough or an == "unroll") and oid != "JetOde:order3") else [nin]):
                        inits = [ptree if pytree else arr] * m
                        is_ode = isinstance(o, p.JetOde)
                        good = is_ode and len(o.tcoeff_indices_output) == 1 and m == nin and (not pytree or nin <= 2)
                        if num == 0 and is_ode:
                            oracle = None  # num=0 returns the initial values untouched: nothing is computed
                        else:
                            oracle = good
                        cls = "valid" if good else ("wrong-object" if not is_ode or oid == "JetOde:lifted" else "wrong-length")
                        R.run(
                            entry=f"jetexpand_ode_{an}", field="vf" if cls != "wrong-length" else "inits", cls=cls,
                            cid=f"{oid}:num={num}:{'pytree' if pytree else 'arrays'}:m={m}", fact="-", base="-",
                            specs=dict(obj=oid, num=num, pytree=pytree, m=m),
                            call=lambda alg=alg, num=num, o=o, inits=inits: alg(num=num)(o, inits, t=0.0),
                            op="c20_jetexpand", tokens=tok(an, num, abstract_obj(o), int(pytree), m), valid=oracle,
                        )
    for nd in (0, 2):
        for oid, o in objs.items():
            if oid == "JetOdeAutonomous":
                continue  # duck-typed by the (experimental) doubling routine; outside the modelled domain
            nin = getattr(o, "num_tcoeffs_in_args", 1)
            for m in sorted({nin, 1}):
                inits = [arr] * m
                is_ode = isinstance(o, p.JetOde)
                good = is_ode and len(o.tcoeff_indices_output) == 1 and nin == 1 and m == 1
                R.run(
                    entry="jetexpand_ode_doubling_unroll", field="vf", cls="valid" if good else "wrong-object", cid=f"{oid}:num_doublings={nd}:m={m}", fact="-", base="-",
                    specs=dict(obj=oid, num_doublings=nd, m=m),
                    call=lambda nd=nd, o=o, inits=inits: p.jetexpand_ode_doubling_unroll(num_doublings=nd)(o, inits, t=0.0),
                    op="c20_doubling", tokens=tok(nd, abstract_obj(o), m), valid=None if (nd == 0 and is_ode) else good,
                )
    iv = ivp()
    for oid, o in objs.items():
        nin = getattr(o, "num_tcoeffs_in_args", 1)
        for m in (sorted({nin, 1, 2}) if oid != "JetOde:order3" else [nin]):
            inits = [arr] * m
            is_ode = isinstance(o, p.JetOde)
            good = is_ode and len(o.tcoeff_indices_output) == 1 and m == nin
            cls = "valid" if good else ("wrong-object" if not is_ode or oid == "JetOde:lifted" else "wrong-length")
            R.run(
                entry="dt0", field="vf" if cls != "wrong-length" else "initial_values", cls=cls, cid=f"{oid}:m={m}", fact="-", base="-", specs=dict(obj=oid, m=m),
                call=lambda o=o, inits=inits: iv.dt0(o, inits, t=0.0), op="c20_dt0", tokens=tok(abstract_obj(o), m), valid=good,
            )
            R.run(
                entry="dt0_adaptive", field="vf" if cls != "wrong-length" else "initial_values", cls=cls, cid=f"{oid}:m={m}", fact="-", base="-", specs=dict(obj=oid, m=m),
                call=lambda o=o, inits=inits: iv.dt0_adaptive(o, inits, 0.0, error_contraction_rate=3, rtol=1e-3, atol=1e-3),
                op="c20_dt0_adaptive", tokens=tok(abstract_obj(o), m), valid=good and m == 1,
            )
    o = objs["JetOde:order1"]
    R.run(entry="dt0_adaptive", field="initial_values", cls="wrong-object", cid="None", fact="-", base="-", specs=dict(obj="JetOde:order1", initial_values=None),
          call=lambda: iv.dt0_adaptive(o, None, 0.0, error_contraction_rate=3, rtol=1e-3, atol=1e-3), op="c20_dt0_adaptive", tokens=tok(abstract_obj(o), "-"), valid=False)


# ------------------------------------------------------------------------------------------------
# losses, error estimate, suitability warnings: need (small) solves, built once per factorisation


class Solved:
    def __init__(self, fact, d=2):
        p, iv = pdq(), ivp()
        self.fact, self.d = fact, d
        ssm = make_ssm(fact)
        vf = p.ode(lambda y, *, t: -y)
        u0 = jnp.asarray([1.0, 0.5, 0.25][:d])
        tcoeffs, _ = p.jetexpand_ode_unroll(num=2)(vf, [u0], t=0.0)
        self.prior = ssm.prior_wiener_integrated(tcoeffs)
        self.ts0 = ssm.constraint_ode_ts0(vf)
        self.grid = jnp.linspace(0.0, 1.0, 4)
        import warnings

        with warnings.catch_warnings():
            warnings.simplefilter("ignore")
            self.sol = {}
            for sname, strat in (("filter", p.strategy_filter), ("fixedinterval", p.strategy_smoother_fixedinterval), ("fixedpoint", p.strategy_smoother_fixedpoint)):
                solver = p.solver(strategy=strat(), constraint=self.ts0)
                self.sol[sname] = (solver, iv.solve_fixed_grid(solver=solver)(self.prior, grid=self.grid))
        self.N = int(self.grid.shape[0])


def loss_entries(R: Runner, S: Solved, thorough):
    p = pdq()
    fact, d, N, v = S.fact, S.d, S.N, R.variant
    sol_f = S.sol["filter"][1]
    sol_s = S.sol["fixedinterval"][1]
    terminal = jax.tree_util.tree_map(lambda s: s[-1], sol_f)
    marg = terminal.u
    std_exp, u_exp = marg.std[0], marg.mean[0]
    loss = p.loss_lml_terminal_values()
    std0 = A(()) if fact == "isotropic" else A((d,))
    u0 = A((d,))

    def valid_like(spec, ref):
        return lib.is_tree(spec) and lib.shape_tree(spec, False) == lib.shape_tree(ref, False)

    fields = {"std": lib.corrupt_tree(std0, containers=False) + [("wrong-tree", "pylist", L([P("f")] * d))], "u": lib.corrupt_tree(u0, containers=False) + [("wrong-object", "pyscalar", P("f"))]}
    todo = [("-", "valid", "valid", None, None)]
    for f, cs in fields.items():
        todo += [(f, cls, cid, f, new) for cls, cid, new in cs]
    for field, cls, cid, f, new in todo:
        specs = dict(u=u0, std=std0)
        if f is not None:
            specs[f] = new
        ok = valid_like(specs["u"], u0) and valid_like(specs["std"], std0)
        if f is not None and ok:
            R.ctx.skip("corruption yields a valid argument set")
            continue
        vals = {k: build(s) for k, s in specs.items()}
        R.run(
            entry="loss_lml_terminal_values", field=field, cls=cls, cid=cid, fact=fact, base=f"d={d}", specs=specs,
            call=lambda vals=vals: loss(vals["u"], std=vals["std"], marginals=marg),
            op="c20_loss_terminal", tokens=tok(v, fact, 1, abstract(std_exp), abstract(u_exp), abstract(vals["u"]), abstract(vals["std"])), valid=ok,
            ref=dict(u=u0, std=std0).get(f), new=new,
        )
    for mid, m in {"solution-object": terminal, "none": None, "function": lib._plain_function}.items():
        vals = dict(u=build(u0), std=build(std0))
        R.run(
            entry="loss_lml_terminal_values", field="marginals", cls="wrong-object", cid=mid, fact=fact, base=f"d={d}", specs=dict(marginals=mid),
            call=lambda m=m, vals=vals: loss(vals["u"], std=vals["std"], marginals=m),
            op="c20_loss_terminal", tokens=tok(v, fact, 0, abstract(std_exp), abstract(u_exp), abstract(vals["u"]), abstract(vals["std"])), valid=False,
        )
    # ---- time series
    post = sol_s.solution_full.posterior
    s1 = tuple(np.shape(post.marginal.std[0]))
    su1 = tuple(np.shape(post.marginal.mean[0]))
    lts = p.loss_lml_timeseries()
    stdN = A((N,)) if fact == "isotropic" else A((N, d))
    uN = A((N, d))
    u_extra = [("wrong-length", "time:minus1", A((N - 1, d))), ("wrong-length", "time:plus1", A((N + 1, d))), ("wrong-shape", "rank:drop-state", A((N,))),
               ("wrong-shape", "length:state-one", A((N, 1))), ("wrong-shape", "length:time-one", A((1, d))), ("wrong-shape", "rank:drop-time", A((d,)))]
    s_extra = [("wrong-length", "time:minus1", A((N - 1,) + tuple(stdN[1][1:]))), ("wrong-length", "time:plus1", A((N + 1,) + tuple(stdN[1][1:]))),
               ("wrong-shape", "rank:drop-time", A(tuple(stdN[1][1:])))]
    fields = {"std": lib.corrupt_tree(stdN, containers=False) + s_extra, "u": lib.corrupt_tree(uN, containers=False) + u_extra}
    todo = [("-", "valid", "valid", None, None)]
    for f, cs in fields.items():
        todo += [(f, cls, cid, f, new) for cls, cid, new in cs]
    seen = set()
    for field, cls, cid, f, new in todo:
        specs = dict(u=uN, std=stdN)
        if f is not None:
            specs[f] = new
        key = json.dumps(specs)
        if key in seen:
            continue
        seen.add(key)
        ok = valid_like(specs["u"], uN) and valid_like(specs["std"], stdN)
        if f is not None and ok:
            R.ctx.skip("corruption yields a valid argument set")
            continue
        vals = {k: build(s) for k, s in specs.items()}
        R.run(
            entry="loss_lml_timeseries", field=field, cls=cls, cid=cid, fact=fact, base=f"d={d},N={N}", specs=specs,
            call=lambda vals=vals: lts(vals["u"], std=vals["std"], posterior=post),
            op="c20_loss_timeseries", tokens=tok(v, fact, 1, abstract_shape(s1), abstract_shape(su1), N, abstract(vals["u"]), abstract(vals["std"])), valid=ok,
            ref=dict(u=uN, std=stdN).get(f), new=new,
        )
    for pid, po in {"marginals": sol_s.u, "solution-object": sol_s, "none": None, "function": lib._plain_function}.items():
        vals = dict(u=build(uN), std=build(stdN))
        R.run(
            entry="loss_lml_timeseries", field="posterior", cls="wrong-object", cid=pid, fact=fact, base=f"d={d},N={N}", specs=dict(posterior=pid),
            call=lambda po=po, vals=vals: lts(vals["u"], std=vals["std"], posterior=po),
            op="c20_loss_timeseries", tokens=tok(v, fact, 0, abstract_shape(s1), abstract_shape(su1), N, abstract(vals["u"]), abstract(vals["std"])), valid=False,
        )


def error_entries(R: Runner, fact, thorough):
    """error_residual_std.estimate_error_norm with a constraint that outputs m = 1 + lift_by coefficients"""
    p = pdq()
    ssm = make_ssm(fact)
    for d in (2, 3):
        vf = p.ode(lambda y, *, t: -y)
        u0 = jnp.asarray([1.0, 0.5, 0.25][:d])
        tcoeffs, _ = p.jetexpand_ode_unroll(num=3)(vf, [u0], t=0.0)
        prior = ssm.prior_wiener_integrated(tcoeffs)
        for lift_by in ((0, 1, 2) if (thorough or d == 2) else (0, 2)):
            cons = ssm.constraint_ode_ts0(vf.jet_lift(lift_by=lift_by) if lift_by else vf)
            solver = p.solver(strategy=p.strategy_filter(), constraint=cons)
            err = p.error_residual_std(constraint=cons)

            def call(solver=solver, err=err, prior=prior):
                s0 = solver.init(t=0.0, u=prior, damp=0.0)
                s1 = solver.step(state=s0, dt=0.125, damp=0.0)
                return err.estimate_error_norm(err.init_error(), previous=s0, proposed=s1, dt=0.125, atol=1e-2, rtol=1e-2, damp=0.0)

            R.run(
                entry="error_residual_std", field="constraint", cls="valid" if lift_by == 0 else "wrong-length", cid=f"d={d}:outputs={lift_by + 1}", fact=fact, base=f"d={d}",
                specs=dict(d=d, lift_by=lift_by), call=call, op="c20_error_shape", tokens=tok(R.variant, fact, d, lift_by + 1), valid=lift_by == 0,
            )


def routine_entries(R: Runner, S: Solved):
    p, iv = pdq(), ivp()
    from probdiffeq.util import test_util

    fact = S.fact
    err = p.error_residual_std(constraint=S.ts0)
    flags = {"filter": p.strategy_filter(), "fixedinterval": p.strategy_smoother_fixedinterval(), "fixedpoint": p.strategy_smoother_fixedpoint()}
    for sname, strat in flags.items():
        got = [int(bool(strat.is_suitable_for_save_at)), int(bool(strat.is_suitable_for_save_every_step)), int(bool(strat.is_suitable_for_offgrid_marginals))]
        model = [int(x) for x in R.ctx.drv.call_raw("c20_suitable", sname)]
        R.ctx.dev("suitability-flags", 0.0 if got == model else 1.0, 0.5, case=dict(strategy=sname, real=got, model=model), sig=f"corr:suitability:{sname}")
        solver, solution = S.sol[sname]
        calls = {
            ("save_at", 1): lambda solver=solver: iv.solve_adaptive_save_at(solver=solver, error=err),
            ("save_at", 0): lambda solver=solver: iv.solve_adaptive_save_at(solver=solver, error=err, warn=False),
            ("fixed_grid", 1): lambda solver=solver: iv.solve_fixed_grid(solver=solver),
            ("save_every_step", 1): lambda solver=solver: test_util.solve_adaptive_save_every_step(solver=solver, error=err),
            ("terminal_values", 1): lambda solver=solver: iv.solve_adaptive_terminal_values(solver=solver, error=err),
            ("offgrid_marginals", 1): lambda solver=solver, solution=solution: solver.offgrid_marginals(jnp.asarray(0.5), solution=solution),
        }
        for (rname, w), call in calls.items():
            R.run(
                entry=rname, field="strategy", cls="pairing", cid=f"{sname}:warn={w}", fact=fact, base="-", specs=dict(strategy=sname, warn=w),
                call=call, op="c20_routine", tokens=tok(rname, sname, w), valid=None,
            )


# ------------------------------------------------------------------------------------------------
# Jacobian handlers, matrix-free ensembles, revert_conditional (no factorisation dimension)


def jacobian_entries(R: Runner, thorough):
    p = pdq()
    n_in, n_out, d = 3, 2, 2

    def base_fun(s):
        s = jnp.asarray(jax.tree_util.tree_leaves(s)[0]) if not isinstance(s, jax.Array) else s
        m = jnp.sum(s) * jnp.ones((n_out, d))
        return m

    funs = {
        "valid": base_fun,
        "out:list": lambda s: [base_fun(s)],
        "out:tuple": lambda s: (base_fun(s), base_fun(s)),
        "out:rank1": lambda s: base_fun(s).reshape(-1),
        "out:rank3": lambda s: base_fun(s)[..., None],
        "out:d-plus-1": lambda s: jnp.concatenate([base_fun(s), base_fun(s)[:, :1]], axis=1),
        "out:d-one": lambda s: base_fun(s)[:, :1],
        "out:scalar": lambda s: jnp.sum(base_fun(s)),
    }
    xs = {
        "valid": A((n_in, d)),
        "x:list-of-rows": L([A((d,))] * n_in),
        "x:rank1": A((n_in * d,)),
        "x:rank3": A((n_in, d, 1)),
        "x:rank0": A(()),
        "x:d-plus-1": A((n_in, d + 1)),
        "x:d-one": A((n_in, 1)),
        "x:pyscalar": P("f"),
    }
    handlers = {"jacobian_materialize": p.jacobian_materialize(), "jacobian_monte_carlo_fwd": p.jacobian_monte_carlo_fwd(), "jacobian_monte_carlo_rev": p.jacobian_monte_carlo_rev()}
    methods = ["materialize_dense", "calculate_trace_along_d", "calculate_diagonal_along_d"]
    for hn, h in handlers.items():
        state = h.init_jacobian_handler()
        for mn in methods:
            meth = getattr(h, mn)
            combos = [("valid", "valid")] + [(fid, "valid") for fid in funs if fid != "valid"] + [("valid", xid) for xid in xs if xid != "valid"]
            for fid, xid in combos:
                fun, xspec = funs[fid], xs[xid]
                x = build(xspec)
                fx = jax.eval_shape(fun, x)
                fx_arr = isinstance(fx, jax.ShapeDtypeStruct)
                fs = tuple(fx.shape) if fx_arr else ()
                x_arr = isinstance(x, jax.Array)
                xsh = tuple(x.shape) if x_arr else ()
                good = x_arr and fx_arr and len(xsh) == 2 and len(fs) == 2 and xsh[1] == fs[1]
                cid = fid if fid != "valid" else xid
                cls = "valid" if good else ("wrong-object" if (not x_arr or not fx_arr) else "wrong-shape")
                if cid != "valid" and good:
                    R.ctx.skip("corruption yields a valid argument set")
                    continue
                R.run(
                    entry=f"{hn}.{mn}", field="x" if fid == "valid" else "fun", cls=cls, cid=cid, fact="-", base="-", specs=dict(fun=fid, x=xspec),
                    call=lambda meth=meth, fun=fun, x=x, state=state: meth(fun, x, state),
                    op="c20_verify_fun_x", tokens=tok(int(x_arr), abstract_shape(xsh), int(fx_arr), abstract_shape(fs)), valid=good,
                )


def misc_entries(R: Runner):
    from probdiffeq._probdiffeq import ssm_impl_matfree as mf
    from probdiffeq.backend import linalg
    from probdiffeq.util import cholesky_util

    rng = R.ctx.rng
    for shape in [(5, 3, 2), (3, 3, 2), (2, 3, 2), (1, 3, 2), (1, 1, 2), (4, 5, 1), (5, 3), (5, 3, 2, 1)]:
        x = jnp.asarray(rng.integers(-8, 9, size=shape) / 8.0)
        good = len(shape) == 3 and shape[0] >= shape[1]
        R.run(
            entry="blockdiag_cholesky_from_ensembles", field="ensembles", cls="valid" if good else ("wrong-length" if len(shape) == 3 else "wrong-shape"), cid=str(shape), fact="matfree", base="-",
            specs=dict(shape=list(shape)), call=lambda x=x: mf.blockdiag_cholesky_from_ensembles(x, bias=False),
            op="c20_ensembles", tokens=tok(abstract_shape(shape)), valid=good,
        )
    n, k = 3, 2
    shapes = {
        "valid": ((n, n), (n, k), (k, k)), "R_X:rank1": ((n,), (n, k), (k, k)), "R_X_F:rank1": ((n, n), (n,), (k, k)), "R_YX:rank1": ((n, n), (n, k), (k,)),
        "R_X:rank3": ((1, n, n), (n, k), (k, k)), "R_YX:rank0": ((n, n), (n, k), ()), "R_X_F:rows-plus-1": ((n, n), (n + 1, k), (k, k)), "R_YX:cols-plus-1": ((n, n), (n, k), (k, k + 1)),
    }
    for cid, (sx, sxf, syx) in shapes.items():
        mk = lambda s: jnp.asarray(np.triu(rng.integers(1, 9, size=s) / 8.0) if len(s) == 2 else rng.integers(1, 9, size=s) / 8.0)
        RX, RXF, RYX = mk(sx), mk(sxf), mk(syx)
        good = cid == "valid"
        R.run(
            entry="revert_conditional", field=cid.split(":")[0] if not good else "-", cls="valid" if good else "wrong-shape", cid=cid, fact="-", base="-",
            specs=dict(R_X=list(sx), R_X_F=list(sxf), R_YX=list(syx)),
            call=lambda RX=RX, RXF=RXF, RYX=RYX: cholesky_util.revert_conditional(R_X_F=RXF, R_X=RX, R_YX=RYX, solve_triu=linalg.solve_triu),
            op="c20_revert", tokens=tok(abstract_shape(sx), abstract_shape(sxf), abstract_shape(syx)), valid=good,
        )


# ------------------------------------------------------------------------------------------------
# code variant (current tree / proposed fixes): selected by probing the real code


def probe_variant(ctx, solved_dense):
    p = pdq()
    notes = {}
    mean = [jnp.full((3,), 0.5)] * 3

    def probe(ssm, leaf_shape):
        std = [jnp.full(leaf_shape, 0.5)] * 3
        return lib.outcome(lambda: ssm.prior_wiener_integrated_diffuse(mean, std))

    def classify(fact, none_allowed):
        ssm = make_ssm(fact)
        a, b = probe(ssm, ()), probe(ssm, (3, 1))
        notes[fact] = dict(std_scalar_leaves=list(a[:2]), std_same_size_leaves=list(b[:2]))
        if a[0] == "returns":
            return "none" if none_allowed else None
        if a[1] == "AssertionError" and b[0] == "returns":
            return "flatAssert"
        if a[1] == "ValueError" and b[0] == "returns":
            return "flatValue"
        if a[1] == "ValueError" and b[1] == "ValueError":
            return "leafwise"
        return None

    dense = classify("dense", False)
    bd = classify("blockdiag", True)
    # losses: does the data shape get checked?
    S = solved_dense
    term = jax.tree_util.tree_map(lambda s: s[-1], S.sol["filter"][1])
    o = lib.outcome(lambda: p.loss_lml_terminal_values()(jnp.full((1,), 0.5), std=jnp.full((S.d,), 0.5), marginals=term.u))
    notes["loss_data"] = list(o[:2])
    loss_chk = 1 if (o[0] == "raises" and o[1] == "ValueError") else 0
    # error estimate: isotropic, d = 2 outputs = 2
    ssm = make_ssm("isotropic")
    vf = p.ode(lambda y, *, t: -y)
    tcoeffs, _ = p.jetexpand_ode_unroll(num=3)(vf, [jnp.asarray([1.0, 0.5])], t=0.0)
    prior = ssm.prior_wiener_integrated(tcoeffs)
    cons = ssm.constraint_ode_ts0(vf.jet_lift(lift_by=1))
    solver = p.solver(strategy=p.strategy_filter(), constraint=cons)
    err = p.error_residual_std(constraint=cons)

    def call():
        s0 = solver.init(t=0.0, u=prior, damp=0.0)
        s1 = solver.step(state=s0, dt=0.125, damp=0.0)
        return err.estimate_error_norm(err.init_error(), previous=s0, proposed=s1, dt=0.125, atol=1e-2, rtol=1e-2, damp=0.0)

    o = lib.outcome(call)
    notes["error_outputs"] = list(o[:2])
    err_chk = 1 if (o[0] == "raises" and o[1] == "ValueError") else 0
    unknown = [k for k, val in (("dense", dense), ("blockdiag", bd)) if val is None]
    variant = [dense or "flatAssert", bd or "none", str(loss_chk), str(err_chk)]
    return variant, notes, unknown


# ------------------------------------------------------------------------------------------------


def corpus(R: Runner):
    """minimised known failures (run first, in every tier)"""
    v = R.variant
    bd = make_ssm("blockdiag")
    mean = L([A((3,))] * 3)
    for cid, std in (("rank:scalar:all", L([A(())] * 3)), ("length:one:all", L([A((1,))] * 3)), ("len:one", L([A((3,))]))):
        vals = dict(mean=build(mean), std=build(std))
        cls = "wrong-length" if cid == "len:one" else "wrong-shape"
        R.run(
            entry="prior_wiener_integrated_diffuse", field="tcoeffs_std", cls=cls, cid=f"corpus-D7:{cid}", fact="blockdiag", base="vec3x3",
            specs=dict(tcoeffs_mean=mean, tcoeffs_std=std, output_scale=NONE),
            call=lambda vals=vals: bd.prior_wiener_integrated_diffuse(vals["mean"], vals["std"]),
            op="c20_prior_diffuse", tokens=tok(v, "blockdiag", abstract(vals["mean"]), abstract(vals["std"]), "N"), valid=False,
        )


def replay(case):
    """Re-run one recorded case on the real code: returns the outcome triple."""
    entry, fact, args = case["entry"], case["factorisation"], case["args"]
    ssm = make_ssm(fact) if fact in FACTS + ["matfree"] else None
    vals = {k: build(s) for k, s in args.items() if isinstance(s, list)}
    if entry == "prior_wiener_integrated":
        return lib.outcome(lambda: ssm.prior_wiener_integrated(vals["tcoeffs"], is_exact=vals["is_exact"], output_scale=vals["output_scale"]))
    if entry == "prior_wiener_integrated_diffuse":
        return lib.outcome(lambda: ssm.prior_wiener_integrated_diffuse(vals["tcoeffs_mean"], vals["tcoeffs_std"], output_scale=vals["output_scale"]))
    raise core.HarnessError(f"replay of {entry}: re-run the check (all cases are deterministic)")


def run(ctx):
    jax.config.update("jax_enable_x64", True)
    thorough = not ctx.quick
    ctx.rule = (
        "for every entry point x field x single-field corruption {wrong rank, wrong length, wrong tree structure, wrong dtype, "
        "wrong object type} x factorisation: outcome class of the real call == decision of the Lean model for the abstract "
        "description of the same concrete arguments (explicit exception kinds must match exactly; 'implicit' = any exception); "
        "and: no call returns numbers for an argument outside the documented contract"
    )
    ctx.assumptions += [
        "dtype corruptions are applied to the fields whose dtype the contract constrains (is_exact: bool, lift_by: int); an int array where a float array is expected is not malformed",
        "list and tuple containers are interchangeable for Taylor coefficients (the code iterates); a Python bool is accepted as lift_by (it is an int)",
        "inner containers are non-empty, dict keys are strings, arrays are jax arrays (numpy arrays are iterated like sequences by the code and are outside the abstraction)",
        "a call counts as 'returns numbers' when it returns without raising (constructors return objects holding arrays); lazily checked arguments (lift_by range, output scale of transition(), error/reference shapes) are observed at the first call that uses them",
        "exceptions raised by JAX/Python on the way (not by an explicit check) are modelled as 'implicit': the model pins down that the call raises, not the class",
    ]
    import time

    timings = {}

    def timed(name, f, *a):
        t0 = time.time()
        out = f(*a)
        timings[name] = round(timings.get(name, 0.0) + time.time() - t0, 2)
        return out

    solved = {}
    for fact in FACTS:
        solved[fact] = timed("solves", Solved, fact)
    variant, notes, unknown = timed("variant-probe", probe_variant, ctx, solved["dense"])
    ctx.extra["code_variant"] = dict(dense_std_check=variant[0], blockdiag_std_check=variant[1], loss_data_check=variant[2], error_outputs_check=variant[3], probes=notes)
    for u in unknown:
        ctx.violation(f"variant-probe:{u}", f"the std check of the {u} from_mean_and_std matches none of the modelled variants: {notes[u]}", case=notes)
    R = Runner(ctx, variant)
    corpus(R)
    bases = [Base(b) for b in (THOROUGH_BASES if thorough else QUICK_BASES)]
    for fact in FACTS:
        for i, base in enumerate(bases):
            timed("priors", prior_entries, R, base, fact, thorough or i == 0)
        timed("exponential", exponential_entries, R, bases[0], fact, thorough)
        if thorough:
            timed("exponential", exponential_entries, R, Base("dictx2"), fact, False)
        timed("losses", loss_entries, R, solved[fact], thorough)
        timed("error-estimate", error_entries, R, fact, thorough)
        timed("routines", routine_entries, R, solved[fact])
    timed("exponential", exponential_entries, R, bases[0], "matfree", thorough)
    timed("constraints", constraint_entries, R)
    timed("jet-lift", lift_entries, R, thorough)
    timed("jetexpand+dt0", jetexpand_entries, R, thorough)
    timed("jacobians", jacobian_entries, R, thorough)
    timed("misc", misc_entries, R)
    ctx.extra["wall_by_section_s"] = timings
    ctx.extra["accepted_corruptions"] = sorted(v["sig"] for v in ctx.violations if not v["sig"].startswith(("corr:", "valid-rejected", "variant-probe")))
