"""C02 — Filter posterior equals the exact Gaussian posterior of the linearised model.

(a) per-step refinement: `solver.init/step` of the real code; after each step the implementation state is
    mapped through the abstraction function and compared with the Lean model step applied to the *previous
    implementation state* (exact dyadic input);
(b) end-to-end: `solve_fixed_grid(...)` on short grids vs the model run open-loop in exact rationals from the
    implementation's initial state, including `userfriendly_output` (calibration of the covariances).
"""

from __future__ import annotations

from fractions import Fraction

import numpy as np

from harness import core, gen, problems
from harness import solvermodel as sm
from harness.core import F

PROPS_MODULES = ["Pdq.Props.C02", "Pdq.Props.SqrtRefine"]
LEVEL = "proof"
TOL = 1e-9  # relative in the preconditioned metric, after division by the conditioning factor of the step


def random_config(ctx, strategy="filter", it=0):
    rng = ctx.rng
    fact = ["dense", "iso", "bd"][it % 3]
    solver = gen.pick(rng, ["solver", "mle", "mle_nocorr", "dynamic", "dynamic_relin"], [3, 2, 1, 2, 1])
    lin = gen.pick(rng, ["ts0", "ts1"])
    order = int(gen.pick(rng, [1, 2], [3, 1]))
    qmax = 8 if not ctx.quick else 5
    q = int(rng.integers(max(1, order), qmax + 1))
    d = int(rng.integers(1, 4))
    damp = float(gen.pick(rng, [0.0, 2.0**-8, 0.125], [3, 1, 1]))
    init = gen.pick(rng, ["exact", "inexact"], [2, 1])
    if rng.random() < 0.5:
        base = None
    elif fact == "iso":
        base = float(2.0 ** rng.integers(-3, 4))
    else:
        base = [float(2.0 ** rng.integers(-3, 4)) for _ in range(d)]
    prior, diffuse, cinit = "iwp", 0, False
    r = rng.random()
    if r < 0.25 and q - order >= 1:
        diffuse = int(rng.integers(1, min(2, q - order) + 1))
        cinit = bool(rng.random() < 0.7)
    elif r < 0.4 and fact == "dense" and solver in ("solver", "mle", "mle_nocorr"):
        prior = gen.pick(rng, ["ou", "matern"])
        q = min(q, 4)
    elif r < 0.5:
        cinit = True
    regular_S0 = (init != "exact") or damp > 0.0 or (order >= q + 1 - diffuse)
    if cinit and solver.startswith("mle") and not regular_S0:
        # the MLE init term whitens the residual with solve_tril: for a singular innovation covariance the real code returns
        # NaN (0/0) -- same class as finding D8 (zero residual variance); not generated here, recorded in DESIGN 9.5
        cinit = False
    cfg = sm.Config(fact=fact, solver=solver, strategy=strategy, lin=lin, q=q, damp=damp, init=init, base_scale=base,
                    prior=prior, diffuse=diffuse, constraint_init=cinit)
    return cfg, d, order


def lam_of(cfg, d):
    if cfg.base_scale is None:
        return [Fraction(1)] * d
    if cfg.fact == "iso":
        return [F(cfg.base_scale)] * d
    return [F(x) for x in cfg.base_scale]


def make_problem(ctx, cfg, d, order):
    rng = ctx.rng
    field = problems.random_field(rng, d, order, max_degree=2)
    u0s = [gen.dyadic(rng, (d,), bits=3, scale=1.0) for _ in range(order)]
    t0 = float(gen.pick(rng, [0.0, 0.5, -1.0]))
    return field, u0s, t0


def aux_of(cfg, sol):
    """calibration state of the implementation as exact squared quantities"""
    if cfg.solver.startswith("mle"):
        _c, running, num = sol.auxiliary
        r = np.asarray(running, dtype=np.float64)
        if cfg.fact == "bd":
            return ([F(x) ** 2 for x in r.reshape(-1)], F(float(num)))
        return (F(float(r)) ** 2, F(float(num)))
    return None


def step_cond_number(stepper, states, info):
    return 1.0


def case_of(cfg, field, u0s, t0, hs):
    return {"config": cfg.key(), "field": field.describe(), "u0": [np.asarray(u).tolist() for u in u0s], "t0": t0, "steps": [float(h) for h in hs]}


def refine_steps(ctx, cfg, d, field, u0s, t0, hs, sigp="step", with_bw=False):
    """per-step refinement along the implementation's own trajectory"""
    import jax.numpy as jnp

    objs = sm.build(cfg, field, u0s, t0)
    solver, prior = objs["solver"], objs["prior"]
    stepper = sm.ModelStepper(ctx, cfg, field, d, lam_of(cfg, d), prior=prior)
    state = solver.init(jnp.asarray(t0), prior, damp=cfg.damp)
    t = F(t0)
    case = case_of(cfg, field, u0s, t0, hs)
    if check_init(ctx, cfg, stepper, prior, state, t, case, sigp) is False:
        return objs
    for i, h in enumerate(hs):
        new = solver.step(state, dt=jnp.asarray(h), damp=cfg.damp)
        s0 = sm.state_slices(cfg, state)
        if not sm.state_is_finite(new):
            sig, why = sm.nonfinite_signature(ctx, cfg, stepper, s0, t, F(h))
            ctx.violation(sig, why, dict(case, step=i))
            return objs if "objs" in dir() else None
        try:
            ms, aux, info = stepper.step(s0, t, F(h), aux_of(cfg, state))
        except core.ModelError as e:
            ctx.skip("model refused step: " + e.ans[:60])
            return objs
        s1 = sm.state_slices(cfg, new)
        # scale: predicted variances are not returned separately -> use prior-step variances propagated: take model posterior+impl?
        # we use the *filter variances of the previous state pushed through the transition*: cheap proxy = max(model cov diag, impl cov diag)
        scale_vars = [np.array([max(mm["cov"][j, j], ss["cov"][j, j]) for j in range(len(mm["mean"]))], dtype=object) for mm, ss in zip(ms, s1)]
        pv = predicted_vars(ctx, stepper, s0, F(h), info)
        c = dict(case, step=i)
        amp = info.get("amp", 1.0)
        if not amp < 1e6:
            ctx.skip("calibration residual cancels to < 1e-6 of its summands (scale not determined by float data)")
        kap = amp if (cfg.solver.startswith("dynamic") and amp < 1e6) else 1.0
        if cfg.solver.startswith("dynamic") and not amp < 1e6:
            # the local scale is not determined by the float data: check predict/update *given* the implementation's scale
            osq = np.atleast_1d(np.asarray(new.output_scale, dtype=np.float64))
            ov = [F(x) ** 2 for x in osq] if cfg.fact == "bd" else F(float(osq[0])) ** 2
            ms, aux, info = stepper.step(s0, t, F(h), aux_of(cfg, state), s2_override=ov)
            info["scale2"] = ov
            pv = predicted_vars(ctx, stepper, s0, F(h), info)
            ctx.count("dynamic: scale taken from implementation (cancellation)")
        extra = stepper.gain_noise_scale(info["lins"], info["pred_means"], info["pred_covs"])
        sm.compare_state(ctx, f"{cfg.strategy}.step", s1, ms, TOL, c, f"{sigp}:{cfg.fact}:{cfg.solver}:{cfg.lin}", scale_vars=pv, kappa=kap, mean_extra=extra)
        if with_bw and cfg.strategy != "filter":
            for si, mi, p0 in zip(s1, ms, s0):
                kap = sm.corr_cond(mi["cov"] + 0) if False else 1.0
                # conditioning of the reversal: correlation matrix of the predicted covariance
                kp = sm.corr_cond(predicted_cov_float(ctx, stepper, p0, F(h), info))
                if not kp < 1e6:
                    ctx.skip("backward conditional comparison: predicted covariance correlation condition >= 1e6")
                    continue
                prior_var = np.array([p0["cov"][j, j] for j in range(len(p0["mean"]))], dtype=object)
                sm.compare_bw(ctx, f"{cfg.strategy}.step", si["bw"], mi["bw"], TOL, c, f"{sigp}:{cfg.fact}:{cfg.solver}:{cfg.lin}", kappa=max(1.0, kp), prior_var=prior_var) if cfg.strategy == "fixedinterval" else None
        # calibration bookkeeping
        if cfg.solver.startswith("mle") and not amp < 1e6:
            pass
        elif cfg.solver.startswith("mle"):
            r2_impl, num_impl = aux_of(cfg, new)
            r2_mod, num_mod = aux
            if num_impl != num_mod:
                ctx.violation(f"{sigp}:mle:num_data", f"num_data {num_impl} != {num_mod}", c)
            a = np.atleast_1d(sm.tofloat(np.array(r2_impl if isinstance(r2_impl, list) else [r2_impl], dtype=object)))
            b = np.atleast_1d(sm.tofloat(np.array(r2_mod if isinstance(r2_mod, list) else [r2_mod], dtype=object)))
            dev = float(np.max(np.abs(a - b) / np.maximum(np.max(np.abs(b)), 1e-300)))
            ctx.dev("mle.running_scale2", dev / min(amp, 1e6), 1e-9, case=c, sig=f"{sigp}:{cfg.fact}:mle:running-scale", what=f"running MLE scale^2 {a} vs model {b}")
        if cfg.solver.startswith("dynamic") and amp < 1e6:
            os_ = np.atleast_1d(np.asarray(new.output_scale, dtype=np.float64)) ** 2
            s2 = info["scale2"]
            b = np.atleast_1d(sm.tofloat(np.array(s2 if isinstance(s2, list) else [s2], dtype=object)))
            dev = float(np.max(np.abs(os_ - b) / np.maximum(np.abs(b), 1e-300)))
            ctx.dev("dynamic.scale2", dev / min(amp, 1e6), 1e-9, case=c, sig=f"{sigp}:{cfg.fact}:dynamic:scale", what=f"dynamic output scale^2 {os_} vs model {b}")
        if int(new.num_steps) != int(state.num_steps) + 1 or float(new.t) != float(state.t) + float(h):
            ctx.violation(f"{sigp}:bookkeeping", "t / num_steps not advanced by (dt, 1)", c)
        ctx.case(dict(cfg.key(), d=d, order=field.order, h=float(h), step=i, field=str(field.describe()["components"])[:120]))
        state = new
        t = t + F(h)
    return objs


def check_init(ctx, cfg, stepper, prior, state, t, case, sigp):
    """`solver.init`: the state is the prior's initial Gaussian, conditioned on the constraint when `constraint_init` is set
    (lstsq / minimum-norm gain), with an identity backward model; MLE bookkeeping starts at (rms of that residual, 1) or (0, 0)."""
    n = stepper.N
    ns = sm.normal_slices(cfg.fact, prior.init)
    ms = [{"mean": m, "cov": C, "bw": sm.ident_pcond(n)} for m, C in ns]
    mahas = None
    import jax

    aux_leaves = [np.asarray(x, dtype=np.float64) for x in jax.tree_util.tree_leaves(state.auxiliary) if np.asarray(x).dtype.kind == "f"]
    if not sm.state_is_finite(state) or not all(np.all(np.isfinite(a)) for a in aux_leaves):
        ctx.violation(f"{sigp}:init:nonfinite:{cfg.fact}:{cfg.solver}", "solver.init returned non-finite numbers (state or calibration bookkeeping) for a configuration whose exact result is finite", dict(case, step="init"))
        return False
    if cfg.constraint_init:
        pv = [np.array([st["cov"][a, a] for a in range(n)], dtype=object) for st in ms]
        try:
            ms2, mahas, lins = stepper.init_update(ms, t)
        except core.ModelError as e:
            ctx.skip("model refused the initial-constraint update: " + e.ans[:60])
            return
        extra = stepper.gain_noise_scale(lins, [st["mean"] for st in ms], [st["cov"] for st in ms])
        ms = ms2
        ctx.count("constraint_init=True")
    else:
        pv, extra = None, None
    s0 = sm.state_slices(cfg, state)
    sm.compare_state(ctx, "init", s0, ms, TOL, dict(case, step="init"), f"{sigp}:init:{cfg.fact}:{cfg.solver}", scale_vars=pv, mean_extra=extra)
    if cfg.solver.startswith("mle"):
        r2, num = aux_of(cfg, state)
        if cfg.constraint_init and mahas is not None and all(m_ >= 0 for m_ in mahas):
            exp = stepper.rms2(mahas)
            a = np.atleast_1d(sm.tofloat(np.array(r2 if isinstance(r2, list) else [r2], dtype=object)))
            b = np.atleast_1d(sm.tofloat(np.array(exp if isinstance(exp, list) else [exp], dtype=object)))
            dev = float(np.max(np.abs(a - b) / np.maximum(np.max(np.abs(b)), 1e-300)))
            ctx.dev("init.mle.running_scale2", dev, 1e-8, case=dict(case, step="init"), sig=f"{sigp}:init:{cfg.fact}:mle:running-scale", what=f"initial MLE running scale^2 {a} vs model {b}")
            if num != 1:
                ctx.violation(f"{sigp}:init:mle:num_data", f"num_data after the initial update is {num}, expected 1", case)
        elif not cfg.constraint_init and num != 0:
            ctx.violation(f"{sigp}:init:mle:num_data", f"num_data without initial update is {num}, expected 0", case)
    if int(state.num_steps) != 0:
        ctx.violation(f"{sigp}:init:num_steps", "num_steps after init is not 0", case)


def predicted_cov_float(ctx, stepper, st, h, info):
    """float predicted covariance of one slice (for conditioning only)"""
    s2 = info.get("scale2", Fraction(1))
    s2v = s2 if not isinstance(s2, list) else s2[0]
    trs = stepper.transitions(h, s2v if stepper.cfg.fact != "bd" else (s2 if isinstance(s2, list) else s2))
    tr = trs[0]
    n = len(st["mean"])
    ans = core.Cut(ctx.drv.call("pc_marg", n, n, *sm.pc_args(tr), st["mean"], st["cov"]))
    ans.take(n)
    return ans.take(n, n)


def predicted_vars(ctx, stepper, s0, h, info):
    """exact predicted variances per slice: the scale against which posterior moments are judged.
    Also stores the full predicted covariances in info["pred_covs"]."""
    s2 = info.get("scale2", Fraction(1))
    trs = stepper.transitions(h, s2)
    out, covs = [], []
    for tr, st in zip(trs, s0):
        n = len(st["mean"])
        ans = core.Cut(ctx.drv.call("pc_marg", n, n, *sm.pc_args(tr), st["mean"], st["cov"]))
        ans.take(n)
        C = ans.take(n, n)
        covs.append(C)
        out.append(np.array([C[j, j] for j in range(n)], dtype=object))
    info["pred_covs"] = covs
    return out


def end_to_end(ctx, cfg, d, field, u0s, t0, hs, sigp="grid"):
    """solve_fixed_grid vs the model run open-loop in exact arithmetic; includes finalisation (filter)."""
    import jax
    import jax.numpy as jnp
    from probdiffeq import ivpsolve

    objs = sm.build(cfg, field, u0s, t0)
    solver, prior = objs["solver"], objs["prior"]
    grid = np.concatenate([[t0], t0 + np.cumsum(hs)])
    sol = ivpsolve.solve_fixed_grid(solver=solver)(prior, grid=jnp.asarray(grid), damp=cfg.damp)
    stepper = sm.ModelStepper(ctx, cfg, field, d, lam_of(cfg, d), prior=prior)
    state0 = solver.init(jnp.asarray(t0), prior, damp=cfg.damp)
    ms = sm.state_slices(cfg, state0)
    # calibration bookkeeping starts from the implementation's initial state (it contains the initial-constraint term, which
    # `check_init` compares with the model separately)
    aux = aux_of(cfg, state0) if cfg.solver.startswith("mle") else None
    t = F(t0)
    traj, scales, amps = [ms], [], []
    pvs = [[np.array([m_["cov"][a, a] for a in range(len(m_["mean"]))], dtype=object) for m_ in ms]]
    case = case_of(cfg, field, u0s, t0, hs)
    try:
        for i in range(len(hs)):
            h = F(float(grid[i + 1])) - F(float(grid[i]))  # the dt the code sees: np.diff(grid) in float
            h = F(float(np.diff(grid)[i]))
            prev = ms
            ms, aux, info = stepper.step(ms, t, h, aux)
            pvs.append(predicted_vars(ctx, stepper, prev, h, info))
            amps.append(info.get("amp", 1.0))
            t = t + h
            traj.append(ms)
            scales.append(info.get("scale2"))
    except core.ModelError as e:
        ctx.skip("model refused grid run: " + e.ans[:60])
        return
    if amps and not max(amps) < 1e6:
        # a calibration residual cancels completely somewhere along the run: scales and calibrated covariances are
        # rounding noise in the implementation (per-step refinement handles these steps individually)
        ctx.skip("end-to-end run: a calibration residual cancels to < 1e-6 of its summands")
        return sol, traj, None, aux
    # calibrated scale^2 per factorisation
    nsteps = len(hs)
    if cfg.solver.startswith("mle"):
        r2 = aux[0]
        corr = Fraction(nsteps) if cfg.solver == "mle" else Fraction(1)
        scale2 = [x / corr for x in r2] if isinstance(r2, list) else r2 / corr
        got = np.asarray(sol.output_scale, dtype=np.float64)
        exp = sm.tofloat(np.array(scale2 if isinstance(scale2, list) else [scale2], dtype=object))
        g2 = (got.reshape(got.shape[0], -1) ** 2)
        dev = float(np.max(np.abs(g2 - exp[None, :]) / np.maximum(np.abs(exp[None, :]), 1e-300)))
        ctx.dev("grid.mle.scale2", dev, 1e-8, case=case, sig=f"{sigp}:{cfg.fact}:{cfg.solver}:output_scale", what=f"reported MLE scale^2 {g2[-1]} vs model {exp}")
    else:
        scale2 = Fraction(1)
    if cfg.solver.startswith("dynamic"):
        got = np.asarray(sol.output_scale, dtype=np.float64)
        for i, s2 in enumerate(scales):
            exp = sm.tofloat(np.array(s2 if isinstance(s2, list) else [s2], dtype=object))
            g2 = np.atleast_1d(got[i + 1]) ** 2
            dev = float(np.max(np.abs(g2 - exp) / np.maximum(np.abs(exp), 1e-300)))
            ctx.dev("grid.dynamic.scale2", dev, 1e-7, case=dict(case, step=i), sig=f"{sigp}:{cfg.fact}:{cfg.solver}:output_scale", what=f"dynamic scale^2 {g2} vs model {exp} at step {i}")
    if cfg.strategy == "filter":
        # solution.u[i] = filtering marginal i with covariance * scale2
        for i, msl in enumerate(traj):
            ui = jax.tree_util.tree_map(lambda s: s[i], sol.u)
            isl = sm.normal_slices(cfg.fact, ui)
            for j, ((mi, Ci), mm) in enumerate(zip(isl, msl)):
                sc2 = scale2[j] if isinstance(scale2, list) else scale2
                Cm = mm["cov"] * sc2
                sv = np.array([(pvs[i][j][a] * sc2) + (mm["mean"][a] * Fraction(1, 10**10)) ** 2 + Fraction(1, 10**40) for a in range(len(mi))], dtype=object)
                dm = sm._dev_vec(mi, mm["mean"], np.abs(sm.tofloat(mm["mean"])) + np.sqrt(np.maximum(sm.tofloat(sv), 0)))
                dc = sm._dev_cov(Ci, Cm, sv)
                c = dict(case, grid_index=i)
                ctx.dev("grid.u.mean", dm, 1e-7, case=c, sig=f"{sigp}:{cfg.fact}:{cfg.solver}:{cfg.lin}:mean", what=f"solve_fixed_grid mean at index {i} deviates {dm:.2e}")
                ctx.dev("grid.u.cov", dc, 1e-7, case=c, sig=f"{sigp}:{cfg.fact}:{cfg.solver}:{cfg.lin}:cov", what=f"solve_fixed_grid covariance at index {i} deviates {dc:.2e}")
    ctx.case(dict(cfg.key(), d=d, mode="end-to-end", n=len(hs), field=str(field.describe()["components"])[:120]))
    return sol, traj, scale2, aux


def probe_mle_init_singular(ctx, field):
    """solver_mle with an initial-constraint update on an *exact* initial state (innovation covariance exactly zero, residual
    exactly zero because the Taylor coefficients are consistent): the exact posterior is the unchanged state; the
    quasi-MLE term is 0/0.  The real code whitens with solve_tril and returns NaN, which poisons every later output scale."""
    import jax.numpy as jnp

    for fact in ("dense", "iso", "bd"):
        cfg = sm.Config(fact=fact, solver="mle", lin="ts0", q=2, init="exact", constraint_init=True)
        objs = sm.build(cfg, field, [np.array([0.5, -0.25])], 0.25)
        st = objs["solver"].init(jnp.asarray(0.25), objs["prior"], damp=0.0)
        _c, running, num = st.auxiliary
        ok_state = bool(np.all(np.isfinite(np.asarray(st.u.mean_flat)))) and bool(np.all(np.isfinite(np.asarray(st.u.cholesky_flat))))
        if not ok_state:
            ctx.violation(f"mle:init-constraint:exact-state:nan-state:{fact}", "solver_mle.init returns a non-finite state for an exact initial state with constraint_init", {"config": cfg.key()})
        if not np.all(np.isfinite(np.asarray(running))):
            ctx.violation("mle:init-constraint:singular-innovation:nan", "solver_mle.init with constraint_init on an exact (zero-covariance) initial state: the initial quasi-MLE term is 0/0 and the running output scale becomes NaN",
                          {"config": cfg.key(), "field": field.describe(), "running": str(np.asarray(running))})
        ctx.case({"probe": "mle-init-singular", "fact": fact})


def prior_constructor_reuse(ctx):
    """prior constructors do not change their arguments: the same Python list of Taylor coefficients handed to a constructor
    twice (with appended diffuse derivatives) gives the same prior twice and keeps its length (seeded change C02-s12: the
    diffuse derivatives were appended to the caller's list in place)"""
    import jax.numpy as jnp
    from probdiffeq import probdiffeq as pdq

    for fact, mk in (("dense", pdq.state_space_model_dense), ("iso", pdq.state_space_model_isotropic), ("bd", pdq.state_space_model_blockdiag)):
        ssm = mk()
        tcoeffs = [jnp.asarray([0.5, -0.25]), jnp.asarray([1.0, 0.125]), jnp.asarray([0.0, 2.0])]
        shapes = []
        for _ in range(2):
            prior = ssm.prior_wiener_integrated(tcoeffs, diffuse_derivatives=2)
            shapes.append((len(tcoeffs), tuple(np.asarray(prior.init.mean_flat).shape)))
        case = {"fact": fact, "constructor": "prior_wiener_integrated(list, diffuse_derivatives=2) called twice with the same list", "observed (len(list), mean shape)": shapes}
        ctx.case(case)
        ctx.count("constructor-reuse")
        if shapes[0] != shapes[1] or shapes[0][0] != 3:
            ctx.violation(f"prior-constructor:mutates-argument:{fact}", f"the prior constructor changed the caller's coefficient list or gives a different prior on the second call: {shapes}", case)


def run(ctx):
    import jax

    jax.config.update("jax_enable_x64", True)
    ctx.rule = (
        "random solver configurations {dense,iso,bd} x {solver, mle(+/- correction), dynamic(+/- relinearise)} x {TS0,TS1} x damp in {0,>0} x "
        "{exact, inexact} init x base scales; random polynomial fields (degree <= 2, d <= 3, order 1-2, (non-)autonomous); orders q <= 8; "
        "steps in [1e-3, 1]; per-step refinement along the implementation trajectory + end-to-end fixed grids (<= 4 steps); distinct = different (config, field, step)"
    )
    ctx.assumptions += [
        "linearisation (value/Jacobian of the polynomial field at the model's exact predicted mean) is evaluated on the Python side in exact arithmetic; the model of `linearize` itself is C11",
        "IWP prior with taylor_point_prior; exponential priors and MAP Taylor points are covered by C09/C19, not here",
    ]
    # deterministic corpus first: rare conjunctions of options that random sampling may miss in a quick run
    # (each: one non-autonomous polynomial field, two steps)
    corpus_cfgs = [
        sm.Config(fact="bd", solver="solver", lin="ts1", q=2, damp=0.125),
        sm.Config(fact="iso", solver="solver", lin="ts1", q=2, damp=0.125, init="inexact"),
        sm.Config(fact="dense", solver="dynamic_relin", lin="ts1", q=2),
        sm.Config(fact="bd", solver="dynamic_relin", lin="ts0", q=3, init="inexact"),
        sm.Config(fact="dense", solver="mle", lin="ts0", q=3, diffuse=3, constraint_init=True),
        sm.Config(fact="iso", solver="mle_nocorr", lin="ts0", q=2, init="inexact", constraint_init=True),
        sm.Config(fact="bd", solver="mle", lin="ts1", q=2, damp=0.125, constraint_init=True, base_scale=[0.5, 2.0]),
        sm.Config(fact="dense", solver="solver", lin="ts1", q=3, prior="ou"),
        sm.Config(fact="dense", solver="mle", lin="ts0", q=2, prior="matern", init="inexact"),
        sm.Config(fact="iso", solver="dynamic", lin="ts1", q=4, damp=0.125, base_scale=4.0),
        sm.Config(fact="dense", solver="solver", lin="ts0", q=3, diffuse=1, constraint_init=True, base_scale=[0.25, 4.0]),
    ]
    cf = problems.PolyField(2, 1, [[(Fraction(1, 2), (1, 1, 0)), (Fraction(-3, 4), (0, 0, 2))], [(Fraction(5, 8), (2, 0, 1)), (Fraction(1, 4), (0, 1, 0))]])
    for cfg in corpus_cfgs:
        refine_steps(ctx, cfg, 2, cf, [np.array([0.5, -0.25])], 0.25, [0.125, 0.046875], sigp="step")
        ctx.count("corpus-config")
    probe_mle_init_singular(ctx, cf)
    prior_constructor_reuse(ctx)
    n = ctx.n(14, 240)
    for it in range(n):
        core.release_jax(8)
        cfg, d, order = random_config(ctx, "filter", it)
        field, u0s, t0 = make_problem(ctx, cfg, d, order)
        nst = int(ctx.rng.integers(2, 4))
        hs = [float(2.0 ** ctx.rng.integers(-10, 1)) * float(gen.pick(ctx.rng, [1.0, 0.75, 1.5])) for _ in range(nst)]
        for k in ("fact", "solver", "lin", "init", "prior", "diffuse"):
            ctx.count(f"{k}={getattr(cfg, k)}")
        ctx.count(f"q={cfg.q}")
        ctx.count(f"damp={'0' if cfg.damp == 0 else '>0'}")
        refine_steps(ctx, cfg, d, field, u0s, t0, hs)
        if it % 2 == 0 and cfg.q <= 2 and d <= 2 and not (cfg.solver.startswith("dynamic") and cfg.q > 1):
            nst2 = 2 if cfg.solver.startswith("dynamic") else int(ctx.rng.integers(2, 4))
            hs2 = [float(2.0 ** ctx.rng.integers(-3, 0)) for _ in range(nst2)]
            end_to_end(ctx, cfg, d, field, u0s, t0, hs2)
