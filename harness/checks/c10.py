"""C10 — Taylor-coefficient initialisation returns the exact solution derivatives.

Correspondence: polynomial vector fields are generated as `Expr` trees (`harness/exprs.py`); the SAME tree
is compiled to a JAX function for the real routines (`jetexpand_ode_padded_scan`, `jetexpand_ode_unroll`,
`jetexpand_ode_via_jvp`, `jetexpand_ode_doubling_unroll`, `jetexpand_residual`) and serialised to the Lean
driver, which runs the transcriptions of `Pdq/Model/Jet.lean` over exact rationals.  By the theorems of
`Pdq/Props/C10.lean` the padded-scan / unroll models equal `taylorCoeffs`, which is the list of derivatives of
the formal power-series solution (`taylorCoeffs_exact`).

Known defect D4 (`jetexpand_ode_via_jvp`, `jetexpand_ode_doubling_unroll` close over `t`): the check probes the
real code on the witness `f = t*u + t^2`; while the code is unfixed it reports the stable signatures
`jetexpand_ode_via_jvp:nonautonomous` / `jetexpand_ode_doubling_unroll:nonautonomous` and compares the
generated cases with the model of the *current* code (`jvpVariant`, `doubling`: exact for the frozen-time ODE,
`C10.jvp_variant_spec`), so that any other deviation is still found; once repaired
(`fixes/C10-jvp-time.diff`, `fixes/C10-doubling-time.diff`) it compares with the exact coefficients.
"""

from __future__ import annotations

import time
from fractions import Fraction

import os
import sys
import json
import numpy as np

from harness import core, exprs
from harness.core import F
from harness.exprs import C, T, V, add, mul

PROPS_MODULES = ["Pdq.Props.C10", "Pdq.Props.C11"]  # C11: models of jet_lift / residual_from_ode used by the residual route
LEVEL = "proof"

TOL = 1e-11  # relative to the majorant scale (sum of |terms| of the exact recursion); clean tree: <= ~2e-14
TOL_RESIDUAL = 1e-8  # Gauss-Newton route (iterative; run with tol=1e-14): clean tree <= ~1e-12

EXPLANATION = (
    "padded-scan / unroll / (repaired) recursive-JVP / (repaired) Newton-doubling models are proved equal to "
    "taylorCoeffs, the derivatives of the formal power-series solution (taylorCoeffs_exact); the current recursive-JVP "
    "and doubling routines are proved to return the coefficients of the frozen-time ODE (jvp_variant_spec, "
    "doubling_spec: defect D4); jetexpand_residual is compared with taylorCoeffs on lifted ODE residuals "
    "(C11.residual_route_determines: the constraints determine the coefficients), run with a tightened "
    "Gauss-Newton tolerance (its iteration itself is property C19)."
)

WITNESS = add(mul(T, V(0, 0)), mul(T, T))  # f = t*u + t^2
WITNESS_FROZEN = [1.0, 0.75, 0.375, 0.1875, 0.09375, 0.046875, 0.0234375]
WITNESS_TRUTH = [1.0, 0.75, 2.375, 4.6875, 9.46875, 23.484375, 59.0859375]


# ------------------------------------------------------------------------------------------------
# pytrees


def tree_kinds(d):
    kinds = ["flat"]
    if d >= 2:
        kinds += ["dict", "nested"]
    return kinds


def to_tree(kind, flat):
    """flat (d,) array -> pytree of the requested kind (ravel order = index order)."""
    import jax.numpy as jnp

    flat = jnp.asarray(flat)
    d = flat.shape[0]
    if kind == "flat":
        return flat
    if kind == "dict":
        return {"a": flat[:1], "b": flat[1:]}
    if kind == "nested":
        if d == 2:
            return (flat[0], {"x": flat[1:]})
        return (flat[0], {"x": flat[1:2], "y": [flat[2:]]})
    raise ValueError(kind)


def from_tree(x):
    from jax.flatten_util import ravel_pytree

    return np.asarray(ravel_pytree(x)[0], dtype=np.float64)


# ------------------------------------------------------------------------------------------------
# the real routines


def make_ode(es, K, d, kind):
    import jax.numpy as jnp
    from jax.flatten_util import ravel_pytree
    from probdiffeq import probdiffeq

    fns = [exprs.compile_expr(e) for e in es]

    def flat_field(us, t):
        return jnp.stack([jnp.asarray(fn(us, t), dtype=jnp.float64) for fn in fns])

    if kind == "flat":

        def wrap(*us, t):
            return flat_field(list(us), t)
    else:
        _, unravel = ravel_pytree(to_tree(kind, np.zeros(d)))

        def wrap(*us, t):
            return unravel(flat_field([ravel_pytree(u)[0] for u in us], t))

    if K == 1:
        return probdiffeq.ode(lambda u, /, *, t: wrap(u, t=t))
    if K == 2:
        return probdiffeq.ode_order_two(lambda u, du, /, *, t: wrap(u, du, t=t))
    return probdiffeq.ode_order_arbitrary(lambda *us, t: wrap(*us, t=t), num_tcoeffs_in_args=K)


def run_routine(name, ode, inits, t, num):
    from probdiffeq import probdiffeq

    if name == "padded_scan":
        alg = probdiffeq.jetexpand_ode_padded_scan(num=num)
    elif name == "unroll":
        alg = probdiffeq.jetexpand_ode_unroll(num=num)
    elif name == "via_jvp":
        alg = probdiffeq.jetexpand_ode_via_jvp(num=num)
    elif name == "doubling":
        alg = probdiffeq.jetexpand_ode_doubling_unroll(num_doublings=num)
    else:
        raise ValueError(name)
    out, _ = alg(ode, inits, t=t)
    return np.stack([from_tree(x) for x in out])


def try_routine(ctx, name, ode, inits, t, num, case):
    """a crash of a routine on a valid problem is a violation, not a harness error"""
    try:
        return run_routine(name, ode, inits, t, num)
    except Exception as e:  # noqa: BLE001
        ctx.violation(f"{name}:raised", f"{name} crashed on a valid problem: {type(e).__name__}: {str(e)[:300]}", case)
        return None


def run_residual_route(ode, inits, t, num):
    """jetexpand_residual on the lifted ODE residual u^(K) - f = 0 (constraints determine the coefficients)."""
    from probdiffeq import probdiffeq
    from probdiffeq._probdiffeq import problems, taylor_points

    res = problems.residual_from_ode(ode)
    if num >= 1:
        res = res.jet_lift(lift_by=num - 1)
    nl = taylor_points.lstsq_constrained_gauss_newton(maxiter=60, tol=1e-14)
    out, info = probdiffeq.jetexpand_residual(num=num, nlstsq=nl)(res, inits, t=t)
    return np.stack([from_tree(x) for x in out]), info


# ------------------------------------------------------------------------------------------------
# the model


def model(ctx, op, K, d, num, t, inits, es):
    ans = ctx.drv.call(op, K, d, num, F(t), exprs.frac_list(inits), exprs.tokens_list(es))
    return np.array(ans, dtype=object).reshape(-1, d)


def fl(a):
    return np.array([[float(x) for x in row] for row in a], dtype=np.float64)


def majorant_scale(ctx, K, d, n_out, t, inits, es):
    """upper bound for the sum of |terms| of every exact coefficient (same recursion, all signs positive)"""
    mes = [exprs.majorant(e) for e in es]
    M = model(ctx, "jet_scan", K, d, n_out - K, abs(float(t)), np.abs(inits), mes)
    return np.maximum(fl(M), np.finfo(float).tiny)


def compare(ctx, quantity, sig, impl, exact, scale, case, tol=TOL):
    exact_f = fl(exact)
    if impl.shape != exact_f.shape:
        ctx.violation(sig + ":shape", f"{quantity}: implementation returned shape {impl.shape}, model {exact_f.shape}", case)
        return False
    if not np.all(np.isfinite(impl)):
        ctx.violation(sig, f"{quantity}: implementation returned non-finite values", case)
        return False
    dev = float(np.max(np.abs(impl - exact_f) / scale)) if impl.size else 0.0
    worst = np.unravel_index(int(np.argmax(np.abs(impl - exact_f) / scale)), impl.shape) if impl.size else None
    return ctx.dev(
        quantity,
        dev,
        tol,
        case=case,
        sig=sig,
        what=f"{quantity}: deviation {dev:.3e} (relative to the majorant scale) > {tol:.0e} at coefficient {worst}: "
        f"implementation {impl[worst] if worst else None!r}, exact {float(exact[worst]) if worst else None!r}",
    )


# ------------------------------------------------------------------------------------------------
# D4 probe / corpus


SNIPPET = """import jax; jax.config.update("jax_enable_x64", True)
import jax.numpy as jnp
from probdiffeq import probdiffeq
vf = probdiffeq.ode(lambda u, /, *, t: t * u + t**2)
print(probdiffeq.{routine}(vf, [jnp.array([1.0])], t=0.5)[0])
# expected (derivatives of the solution of u' = t u + t^2, u(1/2) = 1): [1, 0.75, 2.375, 4.6875, 9.46875, 23.484375, 59.0859375]
"""


def probe(ctx):
    """Decide, on the witness f = t*u + t^2, whether the two routines of D4 are the current or the repaired code."""
    import jax.numpy as jnp

    ode = make_ode([WITNESS], 1, 1, "flat")
    u0 = [jnp.array([1.0])]
    modes = {}
    # the driver must reproduce the theorems C10.jvp_variant_wrong_nonautonomous / doubling_wrong_nonautonomous
    drv_truth = fl(model(ctx, "jet_taylor", 1, 1, 6, 0.5, [1.0], [WITNESS]))[:, 0]
    drv_jvp = fl(model(ctx, "jet_jvp", 1, 1, 4, 0.5, [1.0], [WITNESS]))[:, 0]
    drv_dbl = fl(model(ctx, "jet_doubling", 1, 1, 2, 0.5, [1.0], [WITNESS]))[:, 0]
    drv_dbl_aug = fl(model(ctx, "jet_doubling_aug", 1, 1, 2, 0.5, [1.0], [WITNESS]))[:, 0]
    if not (
        np.array_equal(drv_truth, WITNESS_TRUTH)
        and np.array_equal(drv_jvp, WITNESS_FROZEN[:5])
        and np.array_equal(drv_dbl, WITNESS_FROZEN)
        and np.array_equal(drv_dbl_aug, WITNESS_TRUTH)
    ):
        raise core.HarnessError("driver does not reproduce the D4 witness values of Props/C10.lean")
    for name, num, n_out, routine in [
        ("via_jvp", 4, 5, "jetexpand_ode_via_jvp(num=4)"),
        ("doubling", 2, 7, "jetexpand_ode_doubling_unroll(num_doublings=2)"),
    ]:
        full = {"via_jvp": "jetexpand_ode_via_jvp", "doubling": "jetexpand_ode_doubling_unroll"}[name]
        out = try_routine(ctx, name, ode, u0, 0.5, num, {"corpus": "D4", "routine": full})
        if out is None:
            modes[name] = "exact"
            continue
        out = out[:, 0]
        case = {
            "routine": full,
            "vector_field": "f(u, t) = t*u + t**2",
            "expr": exprs.tokens(WITNESS),
            "u0": [1.0],
            "t0": 0.5,
            "num": num,
            "observed": out.tolist(),
            "expected": WITNESS_TRUTH[:n_out],
        }
        ctx.case({"corpus": "D4", "routine": name}, sample=case)
        ctx.count(f"corpus:D4:{name}")
        if np.allclose(out, WITNESS_TRUTH[:n_out], rtol=1e-12, atol=0):
            modes[name] = "exact"
        elif np.allclose(out, WITNESS_FROZEN[:n_out], rtol=1e-12, atol=0):
            modes[name] = "frozen"
            ctx.violation(
                f"{full}:nonautonomous",
                f"{full} closes over t and drops the explicit time derivative: for f = t*u + t^2, u(0.5) = 1 it returns "
                f"{out.tolist()}, the solution derivatives are {WITNESS_TRUTH[:n_out]} "
                f"(theorems C10.jvp_variant_spec / C10.jvp_variant_wrong_nonautonomous / C10.doubling_wrong_nonautonomous; "
                f"repair: fixes/C10-{'jvp' if name == 'via_jvp' else 'doubling'}-time.diff)",
                case,
                theorem="Pdq.C10.jvp_variant_wrong_nonautonomous" if name == "via_jvp" else "Pdq.C10.doubling_wrong_nonautonomous",
                snippet=SNIPPET.format(routine=routine),
            )
        else:
            modes[name] = "exact"  # compare with the truth; the generated cases will report the deviation
            ctx.violation(
                f"{full}:witness",
                f"{full} on the D4 witness returns {out.tolist()}: neither the frozen-time values nor the exact ones",
                case,
            )
    ctx.extra["d4_modes"] = modes
    ctx.notes.append(f"D4 probe: {modes} ('frozen' = current code closes over t; 'exact' = repaired)")
    return modes


# ------------------------------------------------------------------------------------------------
# generated cases


def gen_problem(ctx, thorough_sizes):
    rng = ctx.rng
    K = int(rng.choice([1, 1, 1, 2, 2, 3]))
    d = int(rng.choice([1, 2, 3]))
    time_dep = bool(rng.random() < 0.6)
    max_deg = int(rng.choice([1, 2, 3, 3]))
    es = exprs.gen_field(rng, K, d, time_dep=time_dep, max_deg=max_deg)
    inits = exprs.small_rationals(rng, (K, d))
    t = float(exprs.small_rationals(rng, (), scale=1))
    kinds = tree_kinds(d) if K <= 2 else ["flat"]
    kind = kinds[int(rng.integers(len(kinds)))]
    hi = 10 if thorough_sizes else 6
    num = int(rng.choice([0, 1, 2, 3, 4, 5, 6] + ([7, 8, 9, 10] if hi == 10 else [])))
    return K, d, es, inits, t, kind, num, time_dep


def one_case(ctx, modes, K, d, es, inits, t, kind, num, time_dep, tag="gen"):
    import jax.numpy as jnp

    desc = {
        "K": K,
        "d": d,
        "num": num,
        "t0": t,
        "inits": np.asarray(inits).tolist(),
        "exprs": [exprs.tokens(e) for e in es],
        "pytree": kind,
        "time_dependent": time_dep,
        "tag": tag,
    }
    ctx.case(desc)
    ctx.count(f"K={K}")
    ctx.count(f"d={d}")
    ctx.count(f"num={num}")
    ctx.count(f"pytree={kind}")
    ctx.count("time_dependent" if time_dep else "autonomous")

    ode = make_ode(es, K, d, kind)
    inits_tree = [to_tree(kind, jnp.asarray(inits[k])) for k in range(K)]

    exact = model(ctx, "jet_scan", K, d, num, t, inits, es)
    # model-internal cross-checks (all proved equal; a difference is a harness/driver error)
    if num <= 6:
        for op in ("jet_unroll", "jet_taylor"):
            other = model(ctx, op, K, d, num, t, inits, es)
            if not np.array_equal(other, exact):
                raise core.HarnessError(f"driver: {op} != jet_scan on {desc}")
    scale = majorant_scale(ctx, K, d, K + num, t, inits, es)

    for name in ("padded_scan", "unroll"):
        out = try_routine(ctx, name, ode, inits_tree, t, num, dict(desc, routine=name))
        if out is not None:
            compare(ctx, f"{name}.coeffs", f"{name}:coeffs", out, exact, scale, dict(desc, routine=name))

    # recursive JVP (exponential cost: bounded num)
    out = try_routine(ctx, "via_jvp", ode, inits_tree, t, num, dict(desc, routine="via_jvp")) if num <= ctx.n(6, 9) else None
    if num > ctx.n(6, 9):
        ctx.skip("via_jvp: num too large for the exponential-cost routine")
    elif out is not None:
        if modes["via_jvp"] == "frozen":
            small = num <= (4 if d >= 2 else 5)
            ref = model(ctx, "jet_jvp" if small else "jet_jvp_frozen", K, d, num, t, inits, es)
            if small:
                fast = model(ctx, "jet_jvp_frozen", K, d, num, t, inits, es)
                if not np.array_equal(fast, ref):
                    raise core.HarnessError(f"driver: jet_jvp != jet_jvp_frozen on {desc}")
            compare(ctx, "via_jvp.coeffs(current-code model)", "via_jvp:coeffs", out, ref, scale, dict(desc, routine="via_jvp"))
            if time_dep and num >= 2 and not np.array_equal(ref, exact):
                ctx.count("via_jvp:frozen-time value differs from the solution derivatives (D4)")
        else:
            if num <= (4 if d >= 2 else 5):
                aug = model(ctx, "jet_jvp_aug", K, d, num, t, inits, es)
                if not np.array_equal(aug, exact):
                    raise core.HarnessError(f"driver: jet_jvp_aug != jet_scan on {desc}")
            compare(ctx, "via_jvp.coeffs", "via_jvp:coeffs", out, exact, scale, dict(desc, routine="via_jvp"))

    # Newton doubling: first-order problems only
    if K == 1:
        nd = {0: 0, 1: 1, 2: 1, 3: 2, 4: 2, 5: 2, 6: 2}.get(num, 3 if not ctx.quick else 2)
        n_out = 2 ** (nd + 1) - 1
        out = try_routine(ctx, "doubling", ode, inits_tree, t, nd, dict(desc, routine="doubling", num_doublings=nd))
        if out is None:
            return
        op = "jet_doubling" if modes["doubling"] == "frozen" else "jet_doubling_aug"
        ref = model(ctx, op, K, d, nd, t, inits, es)
        truth = model(ctx, "jet_scan", K, d, n_out - 1, t, inits, es)
        dscale = majorant_scale(ctx, K, d, n_out, t, inits, es)
        if op == "jet_doubling_aug" and not np.array_equal(ref, truth):
            # C10.doublingAug_exact
            raise core.HarnessError(f"driver: doublingAug != taylorCoeffs on {desc}")
        if op == "jet_doubling":
            frozen = model(ctx, "jet_jvp_frozen", K, d, n_out - 1, t, inits, es)
            if not np.array_equal(ref, frozen):
                raise core.HarnessError(f"driver: doubling != frozen-time taylorCoeffs on {desc}")  # C10.doubling_spec
            if time_dep and not np.array_equal(ref, truth):
                ctx.count("doubling:frozen-time value differs from the solution derivatives (D4)")
        ctx.count(f"doubling:num_doublings={nd}")
        compare(ctx, "doubling.coeffs" + ("(current-code model)" if op == "jet_doubling" else ""), "doubling:coeffs", out, ref, dscale, dict(desc, routine="doubling", num_doublings=nd))


def residual_case(ctx, K, d, es, inits, t, num, time_dep):
    import jax.numpy as jnp

    desc = {
        "K": K,
        "d": d,
        "num": num,
        "t0": t,
        "inits": np.asarray(inits).tolist(),
        "exprs": [exprs.tokens(e) for e in es],
        "routine": "jetexpand_residual(residual_from_ode(ode).jet_lift(num-1))",
        "time_dependent": time_dep,
    }
    ctx.case(desc)
    ctx.count("residual_route")
    ode = make_ode(es, K, d, "flat")
    try:
        out, info = run_residual_route(ode, [jnp.asarray(inits[k]) for k in range(K)], t, num)
    except Exception as e:  # noqa: BLE001
        ctx.violation("residual:raised", f"jetexpand_residual crashed on a valid problem: {type(e).__name__}: {str(e)[:300]}", desc)
        return
    exact = model(ctx, "jet_scan", K, d, num, t, inits, es)
    # the Gauss-Newton / lstsq solve couples all unknowns: structural zeros are not preserved, so the scale is
    # the largest majorant entry (norm-wise comparison), not the entry-wise majorant
    scale = np.full((K + num, d), float(np.max(majorant_scale(ctx, K, d, K + num, t, inits, es))))
    if int(info.get("iters", 0)) >= 60 if isinstance(info, dict) and "iters" in info else False:
        ctx.skip("residual route: Gauss-Newton hit maxiter (outside the 'constraints determine them' regime)")
        return
    compare(ctx, "residual_route.coeffs", "residual:coeffs", out, exact, scale, desc, tol=TOL_RESIDUAL)


def shared_jit_case(ctx):
    """One routine compiled once with the problem as a *static* jit argument (as in the repository's examples) and applied
    to two different problems of the same signature one after the other: the second call must return the coefficients
    of the second problem (seeded change C10-s7: problems that compare / hash equal by their printed signature share
    a jit cache entry)."""
    import jax
    import jax.numpy as jnp
    from probdiffeq import probdiffeq

    u0 = jnp.asarray([0.5, -0.25])
    t0 = 0.25
    fields = [lambda u, /, *, t: 0.5 * u * (1 - u) + t, lambda u, /, *, t: -1.5 * u + 0.25 * u**2 - 2.0 * t]
    for name, make in (("padded_scan", lambda: probdiffeq.jetexpand_ode_padded_scan(num=3)), ("unroll", lambda: probdiffeq.jetexpand_ode_unroll(num=3)),
                       ("via_jvp", lambda: probdiffeq.jetexpand_ode_via_jvp(num=3))):
        alg = make()
        jitted = jax.jit(lambda ode, inits, t: alg(ode, inits, t=t)[0], static_argnums=(0,))
        outs = []
        for f in fields:
            ode = probdiffeq.ode(f)
            got = np.stack([np.asarray(x) for x in jitted(ode, (u0,), t0)])
            ref = np.stack([np.asarray(x) for x in make()(probdiffeq.ode(f), (u0,), t=t0)[0]])
            outs.append((got, ref))
        case = {"routine": name, "mode": "one jitted callable (problem as static argument), two problems in a row", "u0": [0.5, -0.25], "t0": t0,
                "fields": ["0.5 u (1-u) + t", "-1.5 u + 0.25 u^2 - 2 t"]}
        ctx.case(case)
        ctx.count("shared-jit")
        for k, (got, ref) in enumerate(outs):
            dev = float(np.max(np.abs(got - ref) / (np.abs(ref) + 1e-3 * np.max(np.abs(ref)))))
            ctx.dev("shared-jit.coeffs", dev, 1e-12, case=dict(case, problem=k), sig=f"{name}:shared-jit:problem-{k}",
                    what=f"{name} compiled once and applied to problem {k}: coefficients deviate by {dev:.2e} from the eager call on the same problem")


X64_LATE_SCRIPT = r"""
import os, sys, json
os.environ["JAX_PLATFORMS"] = "cpu"
os.environ.pop("JAX_ENABLE_X64", None)
from probdiffeq import probdiffeq          # import first ...
import jax
jax.config.update("jax_enable_x64", True)  # ... enable double precision afterwards (the order of the repository's examples)
import jax.numpy as jnp
vf = probdiffeq.ode(lambda u, /, *, t: 0.5 * u * (1 - u) + t)
u0 = jnp.asarray([0.5, -0.25]); t0 = 0.25
out = {}
for name, alg in (("padded_scan", probdiffeq.jetexpand_ode_padded_scan(num=7)), ("unroll", probdiffeq.jetexpand_ode_unroll(num=7)),
                  ("via_jvp", probdiffeq.jetexpand_ode_via_jvp(num=7)), ("doubling", probdiffeq.jetexpand_ode_doubling_unroll(num_doublings=3))):
    tc = alg(vf, (u0,), t=t0)[0]
    out[name] = [[float(x) for x in jnp.asarray(c).reshape(-1)] for c in tc[:8]]
    out[name + ":dtype"] = str(jnp.asarray(tc[-1]).dtype)
print(json.dumps(out))
"""


def x64_enabled_late_case(ctx):
    """double precision switched on *after* `import probdiffeq` (as in the repository's examples and benchmarks): nothing
    may have been frozen in single precision at import time; all routines return float64 coefficients that agree with one
    another to double precision (seeded change C10-s9: a factorial table built at import)"""
    import subprocess

    env = dict(os.environ)
    env.pop("JAX_ENABLE_X64", None)
    p = subprocess.run([sys.executable, "-c", X64_LATE_SCRIPT], capture_output=True, text=True, env=env, timeout=600)
    case = {"mode": "x64 enabled after import (fresh interpreter)", "field": "0.5 u (1-u) + t", "u0": [0.5, -0.25], "t0": 0.25}
    ctx.case(case)
    ctx.count("x64-enabled-late")
    if p.returncode != 0:
        ctx.violation("x64-late:raised", "Taylor routines raised when double precision is enabled after the import: " + p.stderr[-300:], case)
        return
    out = json.loads(p.stdout.strip().splitlines()[-1])
    ref = np.asarray(out["via_jvp"], dtype=np.float64)
    for name in ("padded_scan", "unroll", "doubling"):
        if out[name + ":dtype"] != "float64":
            ctx.violation(f"x64-late:{name}:dtype", f"{name} returns {out[name + ':dtype']} coefficients in a double-precision session", dict(case, routine=name))
            continue
        got = np.asarray(out[name], dtype=np.float64)
        dev = float(np.max(np.abs(got - ref) / (np.abs(ref) + 1e-3 * np.max(np.abs(ref), axis=1, keepdims=True))))
        ctx.dev("x64-late.agreement", dev, 1e-11, case=dict(case, routine=name), sig=f"x64-late:{name}:value",
                what=f"{name} deviates from via_jvp by {dev:.2e} when double precision is enabled after the import")


def routine_object_reuse_case(ctx):
    """one routine object called twice with different initial values (same shapes): the second call returns the
    coefficients of the second initial value (seeded change C10-s12: a prior memoised per shape inside the routine object)"""
    import jax.numpy as jnp
    from probdiffeq import probdiffeq

    f = lambda u, /, *, t: 0.5 * u * (1 - u) + t  # noqa: E731
    ode = probdiffeq.ode(f)
    res = probdiffeq.residual_from_ode(ode).jet_lift(lift_by=2)
    makers = {
        "padded_scan": (lambda: probdiffeq.jetexpand_ode_padded_scan(num=3), ode),
        "unroll": (lambda: probdiffeq.jetexpand_ode_unroll(num=3), ode),
        "via_jvp": (lambda: probdiffeq.jetexpand_ode_via_jvp(num=3), ode),
        "doubling": (lambda: probdiffeq.jetexpand_ode_doubling_unroll(num_doublings=2), ode),
        "residual": (lambda: probdiffeq.jetexpand_residual(num=3), res),
    }
    ua, ub = jnp.asarray([0.5, -0.25]), jnp.asarray([1.5, 0.75])
    for name, (make, problem) in makers.items():
        alg = make()
        first = alg(problem, (ua,), t=0.25)[0]
        second = np.stack([np.asarray(x) for x in alg(problem, (ub,), t=0.25)[0]])
        fresh = np.stack([np.asarray(x) for x in make()(problem, (ub,), t=0.25)[0]])
        case = {"routine": name, "mode": "one routine object, two calls with different initial values", "u0 first": [0.5, -0.25], "u0 second": [1.5, 0.75], "t0": 0.25}
        ctx.case(case)
        ctx.count("routine-object-reuse")
        dev = float(np.max(np.abs(second - fresh) / (np.abs(fresh) + 1e-3 * np.max(np.abs(fresh)))))
        ctx.dev("routine-reuse.coeffs", dev, 1e-9, case=case, sig=f"{name}:routine-object-reuse",
                what=f"{name}: second call on the same routine object deviates by {dev:.2e} from a fresh routine object on the same input")
        del first


def implicit_series(a, b, c, e, u0, v0_unused, t0, n):
    """exact Taylor coefficients (unnormalised derivatives u, u', ..., u^(n)) of the solution of the implicit problem
    u' + a u'^3 = b u + c t + e, u(t0) = u0, on the branch u'(t0) = r (e is chosen by the caller such that r is rational);
    Fractions throughout: normalised series A_k of u, V_k = (k+1) A_{k+1} of u'."""
    r = v0_unused
    A, V = [Fraction(u0)], [Fraction(r)]
    lead = 1 + 3 * a * r * r
    for k in range(1, n):
        A.append(V[k - 1] / k)
        # coefficient k of v^3 without the terms containing V_k:  sum over i+j+l = k with all indices < k
        cube = Fraction(0)
        for i in range(k + 1):
            for j in range(k + 1 - i):
                l = k - i - j
                if k in (i, j, l):
                    continue
                cube += V[i] * V[j] * V[l]
        rhs = b * A[k] + (c if k == 1 else 0)
        V.append((rhs - a * cube) / lead)
    A.append(V[n - 1] / n) if n >= 1 else None
    fact = 1
    out = []
    for k, x in enumerate(A):
        fact = fact * k if k > 0 else 1
        out.append(x * fact)
    return out


def implicit_residual_corpus(ctx):
    """`jetexpand_residual` on a genuinely implicit problem (nonlinear in the highest derivative, strictly monotone in it,
    so the constraints determine all coefficients): u' + a u'^3 = b u + c t + e.  Every residual derived from an explicit
    ODE is linear in the highest derivative, for which a Gauss-Newton iteration with a frozen Jacobian is still exact
    (seeded change C10-s4); here the iteration has to re-linearise at the current iterate."""
    import jax.numpy as jnp
    from probdiffeq import probdiffeq
    from probdiffeq._probdiffeq import taylor_points

    for a, r, b, c, u0, t0, num in ((Fraction(1, 20), Fraction(5, 2), Fraction(3, 4), Fraction(1, 2), Fraction(3, 2), Fraction(1, 4), 3),
                                    (Fraction(1, 2), Fraction(2), Fraction(-1), Fraction(1, 4), Fraction(1, 2), Fraction(0), 4)):
        e = r + a * r**3 - b * u0 - c * t0  # makes u'(t0) = r
        af, bf, cf, ef = float(a), float(b), float(c), float(e)
        res = probdiffeq.residual_velocity(lambda u, du, /, *, t: du + af * du**3 - (bf * u + cf * t + ef))
        if num >= 1:
            res = res.jet_lift(lift_by=num - 1)
        nl = taylor_points.lstsq_constrained_gauss_newton(maxiter=14, tol=1e-13)
        desc = {"routine": "jetexpand_residual(residual_velocity(u' + a u'^3 - (b u + c t + e)).jet_lift(num-1))", "a": str(a), "b": str(b), "c": str(c), "e": str(e),
                "u0": str(u0), "t0": str(t0), "num": num, "branch u'(t0)": str(r)}
        ctx.case(desc)
        ctx.count("residual_route.implicit")
        try:
            out, info = probdiffeq.jetexpand_residual(num=num, nlstsq=nl)(res, [jnp.asarray([float(u0)])], t=float(t0))
        except Exception as ex:  # noqa: BLE001
            ctx.violation("residual:implicit:raised", f"jetexpand_residual crashed on a valid implicit problem: {type(ex).__name__}: {str(ex)[:300]}", desc)
            continue
        got = np.array([float(np.asarray(x).reshape(-1)[0]) for x in out])
        exact = implicit_series(a, b, c, e, u0, r, t0, num)
        ex_f = np.array([float(x) for x in exact])
        if len(got) != len(ex_f):
            ctx.violation("residual:implicit:length", f"{len(got)} coefficients returned, {len(ex_f)} expected", desc)
            continue
        dev = float(np.max(np.abs(got - ex_f) / (np.abs(ex_f) + 1e-3 * np.max(np.abs(ex_f)))))
        ctx.dev("residual_route.implicit", dev, 1e-9, case=dict(desc, got=got.tolist(), exact=[str(x) for x in exact]), sig="residual:implicit:coeffs",
                what=f"coefficients of the implicit problem deviate by {dev:.2e} from the exact (rational) values")
        # the same with the routine's own default least-squares solver (tolerance 1e-6: compared to 1e-5)
        try:
            out_d, _ = probdiffeq.jetexpand_residual(num=num)(res, [jnp.asarray([float(u0)])], t=float(t0))
            got_d = np.array([float(np.asarray(x).reshape(-1)[0]) for x in out_d])
            dev_d = float(np.max(np.abs(got_d - ex_f) / (np.abs(ex_f) + 1e-3 * np.max(np.abs(ex_f))))) if len(got_d) == len(ex_f) else float("inf")
            ctx.dev("residual_route.implicit.default-solver", dev_d, 1e-5, case=dict(desc, nlstsq="default", got=got_d.tolist(), exact=[str(x) for x in exact]),
                    sig="residual:implicit:coeffs:default-solver", what=f"coefficients of the implicit problem (default least-squares solver) deviate by {dev_d:.2e} from the exact values")
        except Exception as ex:  # noqa: BLE001
            ctx.violation("residual:implicit:raised", f"jetexpand_residual (default solver) crashed on a valid implicit problem: {type(ex).__name__}: {str(ex)[:300]}", desc)


def run(ctx):
    import jax

    jax.config.update("jax_enable_x64", True)
    ctx.rule = (
        "all routines of jet_expansion_algorithms on generated polynomial vector fields (degree<=3, d<=3, order 1-3, "
        "time-dependent and autonomous, flat and nested pytrees) vs the exact rationals of the Lean model"
    )
    ctx.assumptions = [
        "vector fields are polynomial programs (Expr); jax.experimental.jet / jax.jvp / jax.linearize compute the exact "
        "truncated-series / derivative of a polynomial program up to rounding",
        "tolerance 1e-11 relative to the majorant scale (same recursion with all signs positive)",
        "jetexpand_residual is run with lstsq_constrained_gauss_newton(maxiter=60, tol=1e-14) on lifted ODE residuals",
    ]
    modes = probe(ctx)

    # fixed small corpus (beyond the D4 witness): second-order time-dependent, nested pytree, num = 0/1 edge cases
    vdp = [V(0, 1), add(mul(mul(C(0.5), add(C(1.0), exprs.neg(mul(V(0, 0), V(0, 0))))), V(0, 1)), exprs.neg(V(0, 0)))]
    corpus_cases = [
        (1, 1, [WITNESS], np.array([[1.0]]), 0.5, "flat", 6, True),
        (1, 2, [add(mul(T, V(0, 1)), C(1.0)), mul(mul(T, T), V(0, 0))], np.array([[0.5, -1.0]]), 0.25, "dict", 5, True),
        (2, 1, [add(mul(T, V(1, 0)), mul(V(0, 0), V(0, 0)))], np.array([[1.0], [-0.5]]), -0.5, "flat", 5, True),
        (1, 2, vdp, np.array([[2.0, 0.0]]), 0.0, "nested", 4, False),
        (1, 3, [mul(V(0, 1), V(0, 2)), mul(T, V(0, 0)), C(1.0)], np.array([[1.0, 2.0, 0.5]]), 1.0, "nested", 0, True),
        (2, 2, [mul(V(1, 1), T), V(0, 0)], np.array([[1.0, 2.0], [0.5, 0.25]]), 0.75, "dict", 1, True),
    ]
    for K, d, es, inits, t, kind, num, td in corpus_cases:
        one_case(ctx, modes, K, d, es, inits, t, kind, num, td, tag="corpus")

    n_cases = ctx.n(40, 520)
    t_start = time.time()
    budget = 50 if ctx.quick else 660
    done = 0
    for i in range(n_cases):
        if time.time() - t_start > budget:
            ctx.notes.append(f"time budget reached after {done}/{n_cases} generated cases")
            break
        K, d, es, inits, t, kind, num, td = gen_problem(ctx, thorough_sizes=not ctx.quick)
        one_case(ctx, modes, K, d, es, inits, t, kind, num, td)
        done += 1

    implicit_residual_corpus(ctx)
    shared_jit_case(ctx)
    routine_object_reuse_case(ctx)
    x64_enabled_late_case(ctx)
    # residual route (Gauss-Newton on a diffuse prior)
    n_res = ctx.n(4, 30)
    for i in range(n_res):
        if time.time() - t_start > budget + (15 if ctx.quick else 120):
            break
        rng = ctx.rng
        K = int(rng.choice([1, 1, 2]))
        d = int(rng.choice([1, 2]))
        td = bool(rng.random() < 0.6)
        es = exprs.gen_field(rng, K, d, time_dep=td, max_deg=int(rng.choice([1, 2])))
        inits = exprs.small_rationals(rng, (K, d), scale=1)
        t = float(exprs.small_rationals(rng, (), scale=1))
        num = int(rng.choice([0, 1, 2, 3] + ([4, 5] if not ctx.quick else [])))
        residual_case(ctx, K, d, es, inits, t, num, td)
