"""Helpers of the C16 check (automatic derivatives).

* `DualQ`: dual numbers over exact Fractions (Python side of the derivative oracle: linearisation and
  Taylor coefficients of a parametrised polynomial vector field, evaluated generically);
* `ParamField`: first-order autonomous polynomial vector field  u' = f(u; theta)  with dyadic
  coefficients; one description, three semantics (JAX, Fraction, DualQ);
* three differentiation rules for the triangularisation `qr_r` (the shipped one is *not* touched):
  `qr_r_model_rule` re-implements the rule that `Pdq.Props.C16.qr_rule_gram_correct` /
  `qr_rule_block_incorrect` are about (R_dot = Q^T M_dot); `qr_r_triangular_rule` is the tangent that
  keeps R_dot upper triangular wherever the pivots are non-zero (exact for every consumer, see
  `Pdq.Props.C16.triangular_tangent_blocks_correct`).  They are patched into
  `probdiffeq.backend.linalg` *inside this process only*, to attribute a wrong derivative to its cause;
* central differences with Richardson extrapolation and an error estimate.
"""

from __future__ import annotations

import contextlib
from fractions import Fraction

import numpy as np


# ------------------------------------------------------------------------------------------------
# dual numbers over Q


class DualQ:
    __slots__ = ("re", "eps")

    def __init__(self, re, eps=0):
        self.re = Fraction(re)
        self.eps = Fraction(eps)

    @staticmethod
    def lift(x):
        return x if isinstance(x, DualQ) else DualQ(x)

    def __add__(self, o):
        o = DualQ.lift(o)
        return DualQ(self.re + o.re, self.eps + o.eps)

    __radd__ = __add__

    def __neg__(self):
        return DualQ(-self.re, -self.eps)

    def __sub__(self, o):
        o = DualQ.lift(o)
        return DualQ(self.re - o.re, self.eps - o.eps)

    def __rsub__(self, o):
        return DualQ.lift(o) - self

    def __mul__(self, o):
        o = DualQ.lift(o)
        return DualQ(self.re * o.re, self.re * o.eps + self.eps * o.re)

    __rmul__ = __mul__

    def __truediv__(self, o):
        o = DualQ.lift(o)
        return DualQ(self.re / o.re, (self.eps * o.re - self.re * o.eps) / (o.re * o.re))

    def __rtruediv__(self, o):
        return DualQ.lift(o) / self

    def __pow__(self, k):
        out = DualQ(1)
        for _ in range(int(k)):
            out = out * self
        return out

    def __eq__(self, o):
        o = DualQ.lift(o)
        return self.re == o.re and self.eps == o.eps

    def __hash__(self):
        return hash((self.re, self.eps))

    def __repr__(self):
        return f"({self.re} + {self.eps} eps)"


def dq_flat(a):
    """row-major list [re, eps, re, eps, …] of Fractions from a nested container of DualQ / Fraction"""
    out = []
    if isinstance(a, DualQ):
        return [a.re, a.eps]
    if isinstance(a, (Fraction, int)):
        return [Fraction(a), Fraction(0)]
    for x in (a.reshape(-1) if isinstance(a, np.ndarray) else a):
        out.extend(dq_flat(x))
    return out


class DCut:
    """reader of a driver answer that lists dual numbers as (re, eps) pairs"""

    def __init__(self, xs):
        self.xs, self.i = xs, 0

    def take(self, *shape):
        n = int(np.prod(shape)) if shape else 1
        out = [DualQ(self.xs[self.i + 2 * k], self.xs[self.i + 2 * k + 1]) for k in range(n)]
        self.i += 2 * n
        if not shape:
            return out[0]
        return np.array(out, dtype=object).reshape(shape)

    def done(self):
        assert self.i == len(self.xs), "driver answer has unread entries"


# ------------------------------------------------------------------------------------------------
# parametrised polynomial vector fields


class ParamField:
    """u' = f(u; theta);  comps[a] = [(coef: Fraction, eu: tuple(d), eth: tuple(p)), …]"""

    def __init__(self, d, p, comps, name="poly"):
        self.d, self.p, self.comps, self.name = d, p, comps, name

    def eval(self, u, th):
        """generic over the number type (Fraction, DualQ, float)"""
        out = []
        for comp in self.comps:
            s = 0
            for coef, eu, eth in comp:
                term = coef
                for v, e in zip(u, eu):
                    if e:
                        term = term * v**e
                for v, e in zip(th, eth):
                    if e:
                        term = term * v**e
                s = s + term
            out.append(s)
        return out

    def jac(self, u, th):
        """J[a][b] = d f_a / d u_b, generic over the number type"""
        J = [[0 for _ in range(self.d)] for _ in range(self.d)]
        for a, comp in enumerate(self.comps):
            for coef, eu, eth in comp:
                for b in range(self.d):
                    if eu[b] == 0:
                        continue
                    term = coef * eu[b]
                    for j, (v, e) in enumerate(zip(u, eu)):
                        e2 = e - 1 if j == b else e
                        if e2:
                            term = term * v**e2
                    for v, e in zip(th, eth):
                        if e:
                            term = term * v**e
                    J[a][b] = J[a][b] + term
        return J

    def taylor(self, u0, th, q):
        """[u, u', …, u^(q)] at the initial point (unnormalised derivatives) by power-series recursion;
        generic over the number type"""
        d = self.d
        c = [[x] for x in u0]  # c[a][k] = k-th normalised coefficient of u_a

        def smul(x, y, upto):
            return [sum((x[i] * y[k - i] for i in range(k + 1) if i < len(x) and k - i < len(y)), 0 * x[0]) for k in range(upto + 1)]

        def spow(x, e, upto):
            out = [x[0] * 0 + 1] + [x[0] * 0] * upto
            for _ in range(e):
                out = smul(out, x, upto)
            return out

        for k in range(q):
            # k-th coefficient of f(u(t))
            nxt = []
            for comp in self.comps:
                s = c[0][0] * 0
                for coef, eu, eth in comp:
                    term = [c[0][0] * 0 + 1] + [c[0][0] * 0] * k
                    for a in range(d):
                        if eu[a]:
                            term = smul(term, spow(c[a], eu[a], k), k)
                    fac = coef
                    for v, e in zip(th, eth):
                        if e:
                            fac = fac * v**e
                    s = s + term[k] * fac
                nxt.append(s / (k + 1))
            for a in range(d):
                c[a].append(nxt[a])
        fact = 1
        out = []
        for k in range(q + 1):
            if k:
                fact *= k
            out.append([c[a][k] * fact for a in range(d)])
        return out

    def as_jax(self):
        import jax.numpy as jnp

        comps = [[(float(c), eu, eth) for c, eu, eth in comp] for comp in self.comps]

        def f(u, th):
            out = []
            for comp in comps:
                s = 0.0 * u[0]
                for coef, eu, eth in comp:
                    term = coef
                    for a, e in enumerate(eu):
                        if e:
                            term = term * u[a] ** e
                    for a, e in enumerate(eth):
                        if e:
                            term = term * th[a] ** e
                    s = s + term
                out.append(s)
            return jnp.stack(out)

        return f

    def describe(self):
        return {"name": self.name, "d": self.d, "p": self.p, "components": [[(str(c), list(eu), list(eth)) for c, eu, eth in comp] for comp in self.comps]}

    @staticmethod
    def from_description(desc):
        comps = [[(Fraction(c), tuple(eu), tuple(eth)) for c, eu, eth in comp] for comp in desc["components"]]
        return ParamField(desc["d"], desc["p"], comps, desc.get("name", "poly"))


def logistic():
    """u' = theta u (1 - u)"""
    one = Fraction(1)
    return ParamField(1, 1, [[(one, (1,), (1,)), (-one, (2,), (1,))]], "logistic")


def lotka_volterra():
    """u1' = th1 u1 - th2 u1 u2,  u2' = -th3 u2 + th4 u1 u2 (4 parameters)"""
    one = Fraction(1)
    return ParamField(
        2,
        4,
        [
            [(one, (1, 0), (1, 0, 0, 0)), (-one, (1, 1), (0, 1, 0, 0))],
            [(-one, (0, 1), (0, 0, 1, 0)), (one, (1, 1), (0, 0, 0, 1))],
        ],
        "lotka-volterra",
    )


def random_param_field(rng, d, p):
    """random polynomial field of degree <= 2 in u, every term carries at most one parameter (degree 1 or 2)"""
    comps = []
    used = set()
    for a in range(d):
        comp = []
        for _ in range(int(rng.integers(1, 4))):
            deg = int(rng.integers(0, 3))
            eu = [0] * d
            for _ in range(deg):
                eu[int(rng.integers(0, d))] += 1
            eth = [0] * p
            if rng.random() < 0.75:
                k = int(rng.integers(0, p))
                eth[k] = int(rng.integers(1, 3))
                used.add(k)
            k = int(rng.integers(-8, 9)) or 3
            comp.append((Fraction(k, 8), tuple(eu), tuple(eth)))
        if all(sum(eu) == 0 for _, eu, _ in comp):  # u' = const has a polynomial solution: every residual cancels to rounding level
            eu = [0] * d
            eu[a] = 1
            comp.append((Fraction(-1, 2), tuple(eu), tuple([0] * p)))
        comps.append(comp)
    # make sure every parameter enters somewhere
    for k in range(p):
        if k not in used:
            a = int(rng.integers(0, d))
            eu = [0] * d
            eu[int(rng.integers(0, d))] = 1
            eth = [0] * p
            eth[k] = 1
            comps[a].append((Fraction(1, 2), tuple(eu), tuple(eth)))
    return ParamField(d, p, comps, "random")


# ------------------------------------------------------------------------------------------------
# differentiation rules of the triangularisation (harness-side; used only through `patched_qr`)


def _make_rules():
    import jax
    import jax.numpy as jnp

    @jax.custom_jvp
    def qr_r_model_rule(arr, /):
        return jnp.linalg.qr(arr, mode="r")

    @qr_r_model_rule.defjvp
    def _jvp_model(primals, tangents):
        (M,), (Md,) = primals, tangents
        Q, R = jnp.linalg.qr(M, mode="reduced")
        return R, Q.T @ Md

    @jax.custom_jvp
    def qr_r_triangular_rule(arr, /):
        return jnp.linalg.qr(arr, mode="r")

    @qr_r_triangular_rule.defjvp
    def _jvp_tri(primals, tangents):
        (M,), (Md,) = primals, tangents
        Q, R = jnp.linalg.qr(M, mode="reduced")
        return R, triangular_tangent(Q, R, Md)

    return qr_r_model_rule, qr_r_triangular_rule


def triangular_tangent(Q, R, Md):
    """R_dot = Q^T M_dot - Omega R with the antisymmetric Omega that makes R_dot upper triangular in
    every column whose pivot is non-zero; columns with a (numerically) zero pivot keep Q^T M_dot."""
    import jax
    import jax.numpy as jnp

    X = Q.T @ Md
    k = min(R.shape)  # R is upper trapezoidal if M has more columns than rows
    R1, X1 = R[:, :k], X[:, :k]
    diag = jnp.abs(jnp.diagonal(R1))
    ok = diag > k * jnp.finfo(R.dtype).eps * jnp.max(diag)
    R_safe = jnp.where(ok[:, None] & ok[None, :], R1, jnp.eye(k, dtype=R.dtype))
    X_ok = jnp.where(ok[None, :], X1, 0.0)
    Y = jax.scipy.linalg.solve_triangular(R_safe, X_ok.T, trans=1, lower=False).T
    Lo = jnp.where(ok[None, :], jnp.tril(Y, -1), 0.0)
    return X - (Lo - Lo.T) @ R


_RULES = None


def rules():
    global _RULES
    if _RULES is None:
        _RULES = _make_rules()
    return {"model": _RULES[0], "triangular": _RULES[1]}


@contextlib.contextmanager
def patched_qr(which):
    """run the real code with another differentiation rule of `qr_r` (same primal function)"""
    from probdiffeq.backend import linalg

    old = linalg.qr_r
    linalg.qr_r = rules()[which]
    try:
        yield
    finally:
        linalg.qr_r = old


# ------------------------------------------------------------------------------------------------
# finite differences


def richardson_jacobian(f, x, scales, h0=2.0**-6):
    """Central differences of f: R^n -> R^m at x along every coordinate, steps h0*scale, h0*scale/2, h0*scale/4,
    two Richardson levels.  Returns (J, err) with err an estimate of the remaining error per entry."""
    x = np.asarray(x, dtype=np.float64)
    n = x.size
    cols, errs = [], []
    for j in range(n):
        D = []
        for lev in range(3):
            h = h0 * scales[j] / 2.0**lev
            e = np.zeros(n)
            e[j] = h
            xp, xm = x + e, x - e
            hh = (xp[j] - xm[j]) / 2.0
            D.append((np.asarray(f(xp), dtype=np.float64) - np.asarray(f(xm), dtype=np.float64)) / (2.0 * hh))
        r1 = (4.0 * D[1] - D[0]) / 3.0
        r2 = (4.0 * D[2] - D[1]) / 3.0
        r3 = (16.0 * r2 - r1) / 15.0
        cols.append(r3)
        errs.append(np.abs(r3 - r2))
    return np.stack(cols, axis=1), np.stack(errs, axis=1)
