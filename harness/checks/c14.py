"""C14 — State-space factorisations agree wherever theory says they must.

Cross-factory comparison of the implementation with itself (`solution.u.to_multivariate_normal()`, `output_scale`,
`num_steps`) exactly as far as the property (and the theorems of `Pdq.Props.C14`) say:

(a) TS0, default scales, arbitrary nonlinear polynomial fields, orders 1..6, fixed grids, filter / fixed-interval,
    uncalibrated / MLE (+/- correction) / dynamic: means of all three factorisations agree in the uncalibrated and MLE
    modes, covariances in the uncalibrated mode, dense = isotropic in every mode (means, covariances, scales), the
    block-diagonal MLE scales² average to the dense scale²;
(b) adaptive `solve_adaptive_save_at` for the dense / isotropic pair: identical numbers of steps and accepted times;
(c) componentwise-decoupled fields: block-diagonal TS1 = independent scalar dense TS1 solves (every mode);
(d) fields with Jacobian a·I (f_a = a u_a (+ b u'_a) + g_a(t)): isotropic TS1 = dense TS1 (every mode);
(e) against the model: the dense implementation step vs the Lean dense `Solver.step` on the *embedding* of the isotropic
    implementation state (`fac_step_dense_embedded`, which also re-checks `C14.embed_step` on that data), and the
    model's `Factor.linDense` / `Factor.linSlice` vs the linearisation used by the C02 correspondence.

Deviations are measured in the predicted-variance metric of the dense run, divided by the cancellation factor of the
ODE residual wherever an estimated scale enters.
"""

from __future__ import annotations

import dataclasses
from fractions import Fraction

import numpy as np

from harness import core, gen, problems
from harness import solvermodel as sm
from harness.checks import c04
from harness.checks import c0414_lib as L
from harness.core import Cut, F

PROPS_MODULES = ["Pdq.Props.C14"]
LEVEL = "proof"
TOL = 1e-9
AMP_MAX = 1e7


# ------------------------------------------------------------------------------------------------
# helpers


phi_q = L.phi_q


def mvn(sol):
    m, C = sol.u.to_multivariate_normal()
    return np.asarray(m, dtype=np.float64), np.asarray(C, dtype=np.float64)


def filtering_mvn(cfg, sol):
    fil = sol.solution_full if cfg.strategy == "filter" else sol.solution_full.filtering
    m, C = fil.to_multivariate_normal()
    return np.asarray(m, dtype=np.float64), np.asarray(C, dtype=np.float64)


def scale_per_time(cfg, sol, T):
    return L.scale_per_time(sol, T)


def predicted_vars(cfg, d, sol_dense, lam2=None):
    """(T, N) predicted variances of the dense run (float), the scale for all comparisons at the same time index"""
    ts = np.asarray(sol_dense.t, dtype=np.float64)
    _, Cf = filtering_mvn(cfg, sol_dense)
    osc = scale_per_time(cfg, sol_dense, len(ts))[:, 0]
    lam2 = np.ones(d) if lam2 is None else lam2
    N = Cf.shape[1]
    pv = np.zeros((len(ts), N))
    pv[0] = np.diag(Cf[0])
    for i in range(1, len(ts)):
        Phi, Q = phi_q(cfg.q, ts[i] - ts[i - 1])
        A = np.kron(Phi, np.eye(d))
        s2 = osc[i] ** 2 if not cfg.solver == "solver" else 1.0
        pv[i] = np.diag(A @ Cf[i - 1] @ A.T) + s2 * np.kron(np.diag(Q), lam2)
    # floor: relative to the largest variance at the same time (initial exact state: all zero)
    return pv


def devs(ma, Ca, mb, Cb, pv, extra=None):
    """max mean / covariance deviation of two stacked (mean, cov) in the predicted-variance metric; `extra`: noise
    scale of the means (`mean_noise`)"""
    sd = np.sqrt(np.maximum(pv, 0.0))
    ex = 0.0 if extra is None else extra[None, :]
    dm = float(np.max(np.abs(ma - mb) / (np.abs(ma) + sd + ex + 1e-300)))
    sc = sd[:, :, None] * sd[:, None, :]
    with np.errstate(divide="ignore", invalid="ignore"):
        r = np.abs(Ca - Cb) / sc
    r = np.where(sc > 0, r, np.where(np.abs(Ca - Cb) > 0, np.inf, 0.0))
    return dm, float(np.max(r))


def views(cfg, sol):
    """the distributions that are compared: filtering moments (strictly) and, for smoothers of order q <= 5, the
    smoothed moments (divided by the conditioning of the backward pass): list of (tag, (mean, cov), kappa)"""
    if cfg.strategy == "filter":
        return [("u", mvn(sol), 1.0)]
    out = [("filtering", filtering_mvn(cfg, sol), 1.0)]
    kap = L.kappa_q(cfg.q)
    if kap < 1e7:
        out.append(("u", mvn(sol), kap))
    return out


def amp_of(cfg, field, d, sol_dense):
    return c04.amp_of_run(dataclasses.replace(cfg, fact="dense"), field, d, sol_dense, None)


def amp_per_dim(cfg, field, d, sol_dense):
    """cancellation factor of every dimension's own residual along the dense run (block-diagonal scales)"""
    cfgd = dataclasses.replace(cfg, fact="dense")
    fil = L.filtering_of(cfgd, sol_dense)
    ts = np.asarray(sol_dense.t, dtype=np.float64)
    amp = np.ones(d)
    for i in range(len(ts) - 1):
        rn, r = c04.amp_dims(cfgd, field, d, c04.means_nd(cfgd, L.unstack(fil, i), d), float(ts[i]), float(ts[i + 1]) - float(ts[i]))
        with np.errstate(divide="ignore", invalid="ignore"):
            amp = np.maximum(amp, np.where(r > 0, rn / r, np.inf))
    return amp


def solve_grid(cfg, field, u0s, t0, hs):
    """real `solve_fixed_grid`, jitted once per (configuration, field): other initial values / grids reuse it"""
    grid = np.concatenate([[t0], t0 + np.cumsum(hs)])
    return L.runner(cfg, field).solve_grid(u0s, t0, grid, cfg.base_scale), None


def kfactors(cfg, amp):
    """(k_mean, k_cov): cancellation factor by which deviations of means / of scale-dependent quantities are divided.
    Means do not depend on an estimated scale in the uncalibrated and MLE modes, nor in the dynamic mode when
    damp = 0 and the initial state is exact; covariances and scales do in every calibrated mode."""
    mean_free = cfg.solver in ("solver", "mle", "mle_nocorr") or (cfg.damp == 0 and cfg.init == "exact")
    return (1.0 if mean_free else amp), (1.0 if cfg.solver == "solver" else amp)


_SCALARS = {}


def scalar_component(field, a):
    """the a-th component of a decoupled field as a one-dimensional field (memoised: keeps the compiled solvers)"""
    if (id(field), a) not in _SCALARS:
        _SCALARS[(id(field), a)] = (_scalar_component(field, a), field)
    return _SCALARS[(id(field), a)][0]


def _scalar_component(field, a):
    d, K = field.d, field.order
    comp = []
    for coef, exps in field.comps[a]:
        for v, e in enumerate(exps[:-1]):
            if e and v % d != a:
                raise ValueError("field is not decoupled")
        comp.append((coef, tuple(exps[k * d + a] for k in range(K)) + (exps[-1],)))
    return problems.PolyField(1, K, [comp])


def bd_blocks(m, C, n, d):
    """coefficient-major dense (mean, cov) -> per-dimension blocks (T, n), (T, n, n)"""
    idx = [np.arange(n) * d + a for a in range(d)]
    return [(m[:, ix], C[:, ix][:, :, ix]) for ix in idx]


def count_cfg(ctx, cfg, mode, d):
    for k in ("solver", "strategy", "lin", "init"):
        ctx.count(f"{mode}: {k}={getattr(cfg, k)}")
    ctx.count(f"{mode}: q={cfg.q}")
    ctx.count(f"{mode}: d={d}")
    ctx.count(f"{mode}: damp={'0' if cfg.damp == 0 else '>0'}")


# ------------------------------------------------------------------------------------------------
# (a) TS0 on fixed grids


def compare_views(ctx, name, cfgA, solA, cfgB, solB, pv, extra, km, kc, case, sigp, pick=None, means_only=False):
    """compare two solutions view by view (filtering strictly, smoothed / conditioning). `pick`: optional function
    (mean, cov) -> (mean, cov) applied to solution B and A (e.g. a per-dimension block)."""
    for (tag, (ma, Ca), kap), (_t, (mb, Cb), _k) in zip(views(cfgA, solA), views(cfgB, solB)):
        if pick is not None:
            (ma, Ca), (mb, Cb) = pick[0](ma, Ca), pick[1](mb, Cb)
        dm, dc = devs(ma, Ca, mb, Cb, pv, extra)
        if km < AMP_MAX:
            ctx.dev(f"{name}.{tag}.mean", dm / (km * kap), TOL, case=case, sig=f"{sigp}:{tag}:mean", what=f"{name}: {tag} means differ by {dm:.2e} (predicted-variance metric)")
        if kc < AMP_MAX and not means_only:
            ctx.dev(f"{name}.{tag}.cov", dc / (kc * kap), TOL, case=case, sig=f"{sigp}:{tag}:cov", what=f"{name}: {tag} covariances differ by {dc:.2e} (predicted-variance metric)")


def ts0_fixed_grid(ctx, cfg0, d, field, u0s, t0, hs):
    sols, cfgs = {}, {}
    for fact in ("dense", "iso", "bd"):
        cfgs[fact] = dataclasses.replace(cfg0, fact=fact)
        sols[fact], _ = solve_grid(cfgs[fact], field, u0s, t0, hs)
    case = L.case_of(cfg0, field, u0s, t0, {"steps": [float(h) for h in hs]})
    sigp = f"ts0:{cfg0.solver}:{cfg0.strategy}"
    fin = {k: L.finite(v) for k, v in sols.items()}
    if cfg0.solver.startswith("dynamic") and fin["dense"] and fin["iso"] and not fin["bd"]:
        # the block-diagonal dynamic scale is estimated per dimension: a single dimension whose residual vanishes
        # identically gives 0/0 there (DESIGN D8), while dense / isotropic pool all dimensions. Block-diagonal is not
        # related to the others in dynamic mode by the property: nothing to compare.
        ctx.skip("dynamic mode: block-diagonal solution non-finite (one dimension with identically vanishing residual, D8); dense/iso compared")
        sols["bd"] = None
    elif not all(fin.values()):
        if not any(fin.values()) or (cfg0.solver.startswith("dynamic") and not fin["dense"] and not fin["iso"]):
            ctx.skip("non-finite solution in all related factorisations (e.g. dynamic calibration with vanishing residual)")
        else:
            ctx.violation(f"{sigp}:finite-in-some-factorisations-only", "solution is finite in some factorisations and non-finite in others: " + str(fin), case)
        return
    cfgd = cfgs["dense"]
    amp = amp_of(cfgd, field, d, sols["dense"])
    if not amp < c04.DEGENERATE and cfg0.solver != "solver":
        ctx.skip("the ODE residual vanishes identically (solution polynomial of degree <= q): calibrated quantities are 0/0")
        return
    km, kc = kfactors(cfg0, amp)
    if not (km < AMP_MAX and kc < AMP_MAX):
        ctx.skip("scale-dependent comparisons skipped: whitened residual cancels below 1e-7 of its summands")
    pv = predicted_vars(cfgd, d, sols["dense"])
    extra = L.mean_noise(cfgd, field, d, sols["dense"])
    calibrated = cfg0.solver != "solver"
    # dense = isotropic: everything, in every mode
    compare_views(ctx, "ts0.dense-iso", cfgd, sols["dense"], cfgs["iso"], sols["iso"], pv, extra, km, kc, case, f"{sigp}:dense-iso")
    od = np.asarray(sols["dense"].output_scale, dtype=np.float64)
    oi = np.asarray(sols["iso"].output_scale, dtype=np.float64)
    ob = np.asarray(sols["bd"].output_scale, dtype=np.float64) if sols["bd"] is not None else None
    if kc < AMP_MAX:
        ds = L.rel(oi, od) / kc if calibrated else (0.0 if np.array_equal(oi, od) else float("inf"))
        ctx.dev("ts0.dense-iso.scale", ds, TOL, case=case, sig=f"{sigp}:dense-iso:output_scale", what=f"dense output scale {od.reshape(-1)[-3:]} vs isotropic {oi.reshape(-1)[-3:]}")
    for key in ("dense", "iso", "bd"):
        if sols[key] is not None and not np.array_equal(np.asarray(sols[key].num_steps), np.asarray(sols["dense"].num_steps)):
            ctx.violation(f"{sigp}:num_steps", "num_steps differ between factorisations on a fixed grid", case)
    # block-diagonal
    if cfg0.solver == "solver":
        compare_views(ctx, "ts0.dense-bd", cfgd, sols["dense"], cfgs["bd"], sols["bd"], pv, extra, 1.0, 1.0, case, f"{sigp}:dense-bd")
        if not np.all(ob == 1.0):
            ctx.violation(f"{sigp}:bd:scale-not-one", "uncalibrated block-diagonal scale is not one", case)
    elif cfg0.solver.startswith("mle"):
        # means agree (the state part of the MLE run is the uncalibrated run); metric: the unit-scale predicted
        # variances = the calibrated ones divided by the dense scale^2
        s2 = float(od.reshape(od.shape[0], -1)[-1, 0] ** 2)
        pv_unit = pv / s2 if s2 > 0 else pv
        compare_views(ctx, "ts0.dense-bd(mle)", cfgd, sols["dense"], cfgs["bd"], sols["bd"], pv_unit, extra, 1.0, 1.0, case, f"{sigp}:dense-bd", means_only=True)
        if kc < AMP_MAX:
            # per-dimension split of the same residual energy
            split = float(np.mean(ob[-1].reshape(-1) ** 2))
            dsp = abs(split - s2) / max(s2, 1e-300) / amp
            ctx.dev("ts0.bd-mle-split", dsp, TOL, case=case, sig=f"{sigp}:bd-mle-split", what=f"mean of the block-diagonal scales^2 {split:.16e} vs dense scale^2 {s2:.16e}")
            # block-diagonal covariances: per dimension, the dense block rescaled by the ratio of the scales^2
            n = cfg0.q + 1
            ampd = amp_per_dim(cfg0, field, d, sols["dense"])
            for a in range(d):
                sa2 = float(ob[-1].reshape(-1)[a] ** 2)
                if sa2 == 0.0 or not ampd[a] < AMP_MAX:
                    ctx.skip("block-diagonal MLE scale of one dimension not determined (its residual cancels below 1e-7 of its summands or vanishes): covariance ratio not compared")
                    continue
                ix = np.arange(n) * d + a
                blockd = lambda m, C, ix=ix: (m[:, ix], C[:, ix][:, :, ix])  # noqa: E731
                blockb = lambda m, C, ix=ix, f=s2 / sa2: (m[:, ix], C[:, ix][:, :, ix] * f)  # noqa: E731
                compare_views(ctx, "ts0.bd-per-dimension(mle)", cfgd, sols["dense"], cfgs["bd"], sols["bd"], pv[:, ix], extra[ix], 1.0, max(amp, ampd[a]), dict(case, dimension=a), f"{sigp}:bd:per-dimension", pick=(blockd, blockb))
    ctx.case(dict(cfg0.key(), d=d, mode="ts0 fixed grid", n=len(hs), order=field.order, u0=str([np.asarray(u).tolist() for u in u0s]), steps=str(hs), field=str(field.describe()["components"])[:100]))
    return sols


# ------------------------------------------------------------------------------------------------
# (b) adaptive dense / isotropic


def ts0_adaptive_pair(ctx, cfg0, d, field, u0s, t0, save_at, tol, clip):
    import jax.numpy as jnp

    res = {}
    for fact in ("dense", "iso"):
        cfg = dataclasses.replace(cfg0, fact=fact)
        run_ = L.runner(cfg, field)
        args = run_.args(u0s, t0, cfg.base_scale)
        r, acc, margin = run_.replica(clip).run(*args, save_at, tol, tol, 0.1)
        sol = None
        if r is not None and not ctx.quick:
            sol = run_.save_at(clip)(*args, jnp.asarray(save_at), tol, tol, 0.1)
        res[fact] = (r, acc, margin, sol)
    case = L.case_of(cfg0, field, u0s, t0, {"save_at": [float(x) for x in save_at], "tol": tol, "clip_dt": clip})
    sigp = f"ts0-adaptive:{cfg0.solver}:{cfg0.strategy}"
    (ra, acc_a, mg_a, sa), (rb, acc_b, mg_b, sb) = res["dense"], res["iso"]
    if ra is None or rb is None or not L.finite(ra) or not L.finite(rb) or len(acc_a) > 500:
        ctx.skip("adaptive pair: non-finite or too long run")
        return
    cfgd = dataclasses.replace(cfg0, fact="dense")
    amp = 1.0
    for prev, dt, _new in acc_a:
        amp = max(amp, c04.amp_estimate(cfgd, field, d, c04.means_nd(cfgd, c04.filter_rv(cfgd, prev), d), float(prev.t), dt))
    if not amp < AMP_MAX:
        ctx.skip("whitened residual cancels below 1e-7 of its summands (adaptive pair)")
        return
    if min(mg_a, mg_b) < 1e-9 * amp:
        ctx.skip("adaptive pair: an acceptance decision too close to the threshold")
        return
    if len(acc_a) != len(acc_b):
        ctx.violation(f"{sigp}:number-of-steps", f"dense takes {len(acc_a)} steps, isotropic {len(acc_b)}", case)
        return
    ta = np.array([float(x[2].t) for x in acc_a])
    tb = np.array([float(x[2].t) for x in acc_b])
    dt_dev = float(np.max(np.abs(ta - tb)) / (float(save_at[-1]) - float(save_at[0]))) / amp
    ctx.dev("adaptive.dense-iso.accepted_times", dt_dev, TOL, case=case, sig=f"{sigp}:step-sequence", what=f"accepted times of dense and isotropic runs differ by {dt_dev:.2e}")
    A, B = (ra, rb) if sa is None else (sa, sb)
    if not (np.array_equal(np.asarray(A.num_steps), np.asarray(B.num_steps)) and np.array_equal(np.asarray(A.t), np.asarray(B.t))):
        ctx.violation(f"{sigp}:num_steps-or-t", f"solution.num_steps / solution.t differ: {np.asarray(A.num_steps)} vs {np.asarray(B.num_steps)}", case)
        return
    ma, Ca = mvn(A)
    mb, Cb = mvn(B)
    # metric: returned variances of the dense run + floor (checkpoint values are interpolated: no predicted variance at hand)
    var = np.einsum("tii->ti", Ca)
    pv = var + 1e-8 * np.max(var, axis=1, keepdims=True)
    pv[0] = np.maximum(pv[0], 0.0)
    dm, dc = devs(ma, Ca, mb, Cb, pv)
    ctx.dev("adaptive.dense-iso.mean", dm / amp, 1e-8, case=case, sig=f"{sigp}:mean", what=f"adaptive dense and isotropic means differ by {dm:.2e}")
    ctx.dev("adaptive.dense-iso.cov", dc / amp, 1e-8, case=case, sig=f"{sigp}:cov", what=f"adaptive dense and isotropic covariances differ by {dc:.2e}")
    oa, ob = np.asarray(A.output_scale, dtype=np.float64), np.asarray(B.output_scale, dtype=np.float64)
    ctx.dev("adaptive.dense-iso.scale", L.rel(ob, oa) / amp, TOL, case=case, sig=f"{sigp}:output_scale", what="adaptive dense and isotropic output scales differ")
    ctx.case(dict(cfg0.key(), d=d, mode="adaptive dense-iso", steps=len(acc_a), clip=clip, tol=tol))


# ------------------------------------------------------------------------------------------------
# (c) decoupled: bd TS1 vs scalar dense solves; (d) scalar Jacobian: iso TS1 vs dense TS1


def bd_ts1_decoupled(ctx, cfg0, d, field, u0s, t0, hs):
    cfgb = dataclasses.replace(cfg0, fact="bd", lin="ts1")
    solb, _ = solve_grid(cfgb, field, u0s, t0, hs)
    case = L.case_of(cfgb, field, u0s, t0, {"steps": [float(h) for h in hs]})
    sigp = f"bd-ts1:{cfg0.solver}:{cfg0.strategy}"
    if not L.finite(solb):
        ctx.skip("non-finite block-diagonal solution (decoupled)")
        return
    n = cfg0.q + 1
    ob = scale_per_time(cfgb, solb, len(hs) + 1)
    for a in range(d):
        fa = scalar_component(field, a)
        base = None if cfg0.base_scale is None else [cfg0.base_scale[a]]
        cfgs = dataclasses.replace(cfg0, fact="dense", lin="ts1", base_scale=base)
        sola, _ = solve_grid(cfgs, fa, [np.asarray(u)[a : a + 1] for u in u0s], t0, hs)
        if not L.finite(sola):
            ctx.skip("non-finite scalar dense solution (decoupled)")
            continue
        amp = c04.amp_of_run(cfgs, fa, 1, sola, None)
        if not amp < c04.DEGENERATE and cfg0.solver != "solver":
            ctx.skip("the ODE residual of one dimension vanishes identically: its calibrated quantities are 0/0 (decoupled)")
            continue
        km, kc = kfactors(cfg0, amp)
        if not (km < AMP_MAX and kc < AMP_MAX):
            ctx.skip("scale-dependent comparisons skipped: whitened residual cancels below 1e-7 of its summands (decoupled)")
        lam2 = None if base is None else np.array([base[0] ** 2])
        pv = predicted_vars(cfgs, 1, sola, lam2)
        extra = L.mean_noise(cfgs, fa, 1, sola, lam2)
        c = dict(case, dimension=a)
        ix = np.arange(n) * d + a
        ident = lambda m, C: (m, C)  # noqa: E731
        block = lambda m, C, ix=ix: (m[:, ix], C[:, ix][:, :, ix])  # noqa: E731
        compare_views(ctx, "bd-ts1", cfgs, sola, cfgb, solb, pv, extra, km, kc, c, sigp, pick=(ident, block))
        if kc < AMP_MAX:
            osd = scale_per_time(cfgs, sola, len(hs) + 1)[:, 0]
            obs = ob[:, a] if ob.shape[1] == d else ob[:, 0]
            ctx.dev("bd-ts1.scale", L.rel(obs, osd) / kc, TOL, case=c, sig=f"{sigp}:output_scale", what=f"block-diagonal scale of dimension {a} {obs[-2:]} vs scalar dense {osd[-2:]}")
    ctx.case(dict(cfgb.key(), d=d, mode="bd ts1 decoupled", n=len(hs), u0=str([np.asarray(u).tolist() for u in u0s]), steps=str(hs), field=str(field.describe()["components"])[:100]))


def iso_ts1_scalar_jac(ctx, cfg0, d, field, u0s, t0, hs):
    cfgi = dataclasses.replace(cfg0, fact="iso", lin="ts1")
    cfgd = dataclasses.replace(cfg0, fact="dense", lin="ts1")
    soli, _ = solve_grid(cfgi, field, u0s, t0, hs)
    sold, _ = solve_grid(cfgd, field, u0s, t0, hs)
    case = L.case_of(cfgi, field, u0s, t0, {"steps": [float(h) for h in hs]})
    sigp = f"iso-ts1:{cfg0.solver}:{cfg0.strategy}"
    if not (L.finite(soli) and L.finite(sold)):
        ctx.skip("non-finite solution (scalar Jacobian)")
        return
    amp = c04.amp_of_run(cfgd, field, d, sold, None)
    if not amp < c04.DEGENERATE and cfg0.solver != "solver":
        ctx.skip("the ODE residual vanishes identically: calibrated quantities are 0/0 (scalar Jacobian)")
        return
    km, kc = kfactors(cfg0, amp)
    if not (km < AMP_MAX and kc < AMP_MAX):
        ctx.skip("scale-dependent comparisons skipped: whitened residual cancels below 1e-7 of its summands (scalar Jacobian)")
    pv = predicted_vars(cfgd, d, sold)
    extra = L.mean_noise(cfgd, field, d, sold)
    compare_views(ctx, "iso-ts1", cfgd, sold, cfgi, soli, pv, extra, km, kc, case, sigp)
    if kc < AMP_MAX:
        od, oi = np.asarray(sold.output_scale, dtype=np.float64), np.asarray(soli.output_scale, dtype=np.float64)
        ctx.dev("iso-ts1.scale", L.rel(oi, od) / kc, TOL, case=case, sig=f"{sigp}:output_scale", what=f"isotropic TS1 output scale {oi.reshape(-1)[-2:]} vs dense {od.reshape(-1)[-2:]}")
    ctx.case(dict(cfgi.key(), d=d, mode="iso ts1 scalar jacobian", n=len(hs), u0=str([np.asarray(u).tolist() for u in u0s]), steps=str(hs), field=str(field.describe()["components"])[:100]))


# ------------------------------------------------------------------------------------------------
# (e) against the model


def model_linearisations(ctx, cfg0, d, field, u0s, t0):
    """the model's Factor.linDense / linSlice (driver) equal the linearisation the C02 correspondence feeds to the model"""
    rng = ctx.rng
    n = cfg0.q + 1
    K = field.order
    m = [[Fraction(int(rng.integers(-16, 17)), 8) for _ in range(d)] for _ in range(n)]
    t = Fraction(int(rng.integers(-8, 9)), 8)
    damp2 = F(cfg0.damp) ** 2
    fx = field.eval_exact(m, t)
    J = field.jac_exact(m, t)
    Jfull = [[[J[a][i][b] if i < K else Fraction(0) for b in range(d)] for i in range(n)] for a in range(d)]
    flat = lambda x: [z for y in x for z in (flat(y) if isinstance(y, list) else [y])]  # noqa: E731
    for lin in ("ts0", "ts1"):
        Juse = Jfull if lin == "ts1" else [[[Fraction(0)] * d for _ in range(n)] for _ in range(d)]
        # dense
        cfgd = dataclasses.replace(cfg0, fact="dense", lin=lin)
        st = L.Stepper(ctx, cfgd, field, d, [Fraction(1)] * d)
        dense_mean = np.array([m[i][a] for i in range(n) for a in range(d)], dtype=object)
        H, b, R = st.linearise([dense_mean], t)[0]
        ans = Cut(ctx.drv.call("fac_lin_dense", n, d, K, damp2, fx, flat(Juse), flat(m)))
        Hm, bm, Rm = ans.take(d, n * d), ans.take(d), ans.take(d, d)
        ok = np.array_equal(H, Hm) and np.array_equal(b, bm) and np.array_equal(R, Rm)
        if not ok:
            raise core.HarnessError(f"model Factor.linDense differs from the harness linearisation ({lin})")
        for fact, code in (("iso", 1), ("bd", 2)):
            cfgs = dataclasses.replace(cfg0, fact=fact, lin=lin)
            st = L.Stepper(ctx, cfgs, field, d, [Fraction(1)] * d)
            means = [np.array([m[i][a] for i in range(n)], dtype=object) for a in range(d)]
            lins = st.linearise(means, t)
            ans = Cut(ctx.drv.call("fac_lin_slices", code, n, d, K, damp2, fx, flat(Juse), flat(m)))
            for a in range(d):
                Hm, bm, Rm = ans.take(1, n), ans.take(1), ans.take(1, 1)
                if not (np.array_equal(lins[a][0], Hm) and np.array_equal(lins[a][1], bm) and np.array_equal(lins[a][2], Rm)):
                    raise core.HarnessError(f"model Factor.linSlice ({fact}, {lin}) differs from the harness linearisation")
    ctx.count("model linearisations compared (dense / iso / bd, ts0 / ts1)")


def model_embedded_step(ctx, cfg0, d, field, u0s, t0, hs):
    """dense implementation step vs the model's dense step on the embedding of the isotropic implementation state"""
    import jax.numpy as jnp

    cfgi = dataclasses.replace(cfg0, fact="iso", lin="ts0", solver="solver")
    cfgd = dataclasses.replace(cfg0, fact="dense", lin="ts0", solver="solver")
    grid = jnp.asarray(np.concatenate([[t0], t0 + np.cumsum(hs)]))
    raws = {}
    for cfg in (cfgi, cfgd):
        s0, states, _ = L.runner(cfg, field).raw_grid(u0s, t0, np.asarray(grid), cfg.base_scale)
        raws[cfg.fact] = [s0] + [L.unstack(states, i) for i in range(len(hs))]
    st = L.Stepper(ctx, cfgi, field, d, [Fraction(1)] * d)
    n = cfgi.q + 1
    strat = sm.STRATS[cfgi.strategy]
    case = L.case_of(cfg0, field, u0s, t0, {"steps": [float(h) for h in hs]})
    dh = np.diff(np.asarray(grid))
    for i in range(len(hs)):
        prev = raws["iso"][i]
        sl = sm.state_slices(cfgi, prev)
        h = F(float(dh[i]))
        t = F(float(prev.t))
        try:
            trs = st.transitions(h, Fraction(1))
            preds = [Cut(ctx.drv.call("sv_predict", strat, n, 0, *sm.pc_args(tr), *sm.st_args(s))).take(n) for tr, s in zip(trs, sl)]
            lins = st.linearise(preds, t + h)
            args = []
            for tr in trs:
                args += sm.pc_args(tr)
            for H, b, R in lins:
                args += [H, b, R]
            for s in sl:
                args += sm.st_args(s)
            ans = Cut(ctx.drv.call("fac_step_dense_embedded", strat, n, 1, d, *args))
        except core.ModelError as e:
            if "contradicts" in e.ans:
                raise core.HarnessError("model: " + e.ans)
            ctx.skip("model refused embedded step: " + e.ans[:60])
            return
        N = n * d
        mm, mC = ans.take(N), ans.take(N, N)
        new_d = raws["dense"][i + 1]
        (gm, gC), = sm.normal_slices("dense", c04.filter_rv(cfgd, new_d))
        # predicted variances: dense filter covariance at i pushed through the transition (float)
        (_pm, pC), = sm.normal_slices("dense", c04.filter_rv(cfgd, raws["dense"][i]))
        Phi, Q = phi_q(cfgd.q, float(dh[i]))
        A = np.kron(Phi, np.eye(d))
        pv = np.diag(A @ sm.tofloat(pC) @ A.T) + np.kron(np.diag(Q), np.ones(d))
        dm = sm._dev_vec(gm, mm, np.abs(sm.tofloat(mm)) + np.sqrt(pv))
        dc = sm._dev_cov(gC, mC, np.array([Fraction(float(x)) for x in pv], dtype=object))
        c = dict(case, step=i)
        ctx.dev("model.embedded-step.mean", dm, 1e-8, case=c, sig=f"model-embedded:{cfg0.strategy}:mean", what=f"dense implementation mean after step {i} deviates {dm:.2e} from the model's dense step on the embedded isotropic state")
        ctx.dev("model.embedded-step.cov", dc, 1e-8, case=c, sig=f"model-embedded:{cfg0.strategy}:cov", what=f"dense implementation covariance after step {i} deviates {dc:.2e} from the model's dense step on the embedded isotropic state")
    ctx.case(dict(cfg0.key(), d=d, mode="model embedded step", n=len(hs)))


# ------------------------------------------------------------------------------------------------


def random_cfg(ctx, it, strategies, qmax=6, order=None):
    rng = ctx.rng
    solver = ["solver", "mle", "dynamic", "mle_nocorr", "dynamic_relin"][it % 5] if rng.random() < 0.7 else gen.pick(rng, ["solver", "mle", "mle_nocorr", "dynamic", "dynamic_relin"])
    order = int(gen.pick(rng, [1, 2], [3, 1])) if order is None else order
    q = int(rng.integers(max(1, order), qmax + 1))
    d = int(gen.pick(rng, [1, 2, 3], [1, 3, 3]))
    damp = float(gen.pick(rng, [0.0, 2.0**-8, 0.125], [3, 1, 1]))
    init = gen.pick(rng, ["exact", "inexact"], [2, 1])
    cfg = sm.Config(fact="dense", solver=solver, strategy=gen.pick(rng, strategies), lin="ts0", q=q, damp=damp, init=init, base_scale=None)
    return cfg, d, order


def grid_steps(rng, q, nmin=2, nmax=8):
    lo = -4 if q <= 4 else -3
    return [float(2.0 ** rng.integers(lo, 0)) * float(gen.pick(rng, [1.0, 0.75, 1.5])) for _ in range(int(rng.integers(nmin, nmax + 1)))]


def corpus(ctx):
    """fixed regression cases (no known failure of C14 on the current tree): Lotka-Volterra-like quadratic field,
    q = 3, MLE with correction, three factorisations; harmonic oscillator as a second-order problem."""
    lv = problems.PolyField(2, 1, [[(Fraction(1, 2), (1, 0, 0)), (Fraction(-1, 2), (1, 1, 0))], [(Fraction(-1, 2), (0, 1, 0)), (Fraction(1, 4), (1, 1, 0))]])
    cfg = sm.Config(fact="dense", solver="mle", strategy="filter", lin="ts0", q=3)
    ts0_fixed_grid(ctx, cfg, 2, lv, [np.array([1.0, 0.5])], 0.0, [0.25, 0.125, 0.25, 0.5])
    if not ctx.quick:
        osc = problems.PolyField(2, 2, [[(Fraction(-1), (1, 0, 0, 0, 0))], [(Fraction(-1, 4), (0, 1, 0, 0, 0))]])
        cfg = sm.Config(fact="dense", solver="dynamic", strategy="fixedinterval", lin="ts0", q=4)
        ts0_fixed_grid(ctx, cfg, 2, osc, [np.array([1.0, 0.0]), np.array([0.0, 0.5])], 0.0, [0.25, 0.25, 0.125])


def run(ctx):
    import time
    import warnings

    import jax

    jax.config.update("jax_enable_x64", True)
    warnings.filterwarnings("ignore")
    ctx.rule = (
        "random polynomial fields (degree <= 2, d <= 3, first and second order, (non-)autonomous): arbitrary nonlinear for TS0, componentwise "
        "decoupled for block-diagonal TS1, a*u + g(t) with a common `a` for isotropic TS1; orders q = 1..6; fixed grids of 2-8 steps; "
        "{filter, fixed-interval} (fixed grids) / {filter, fixed-point} (adaptive); {uncalibrated, MLE +/- correction, dynamic +/- relinearise}; "
        "damp in {0, >0}; exact / inexact initial state; adaptive tolerances 1e-2..1e-6; distinct = different (config, field, grid)"
    )
    ctx.assumptions += [
        "default base scales for the three-way TS0 comparison (the theorem `ts0_kron_invariant` also covers per-dimension base scales for dense vs block-diagonal); per-dimension base scales are used in the decoupled TS1 comparison",
        "two float runs of different factorisations agree up to rounding x (cancellation factor of the ODE residual) wherever an estimated scale enters; cases with a factor above 1e7 are skipped and counted",
        "adaptive pairs: runs with an acceptance decision closer than 1e-9 x cancellation factor to the threshold are skipped and counted",
    ]
    tm = ctx.extra.setdefault("wall_by_part", {})
    t_ = time.time()

    def lap(name):
        nonlocal t_
        tm[name] = round(tm.get(name, 0.0) + time.time() - t_, 1)
        t_ = time.time()

    rng = ctx.rng
    corpus(ctx)
    lap("corpus")
    nvar = ctx.n(2, 3)

    def variations(cfg, d, order, kind, nmin, nmax):
        """one field, `nvar` different initial values / grids of the same length (they share the compiled solvers)"""
        field, u0s, t0 = c04.make_problem(ctx, d, order, kind=kind)
        nst = int(rng.integers(nmin, nmax + 1))
        out = []
        for _ in range(nvar):
            out.append((field, u0s, t0, grid_steps(rng, cfg.q, nst, nst)))
            u0s = [gen.dyadic(rng, (d,), bits=3, scale=1.0) for _ in range(order)]
            t0 = float(gen.pick(rng, [0.0, 0.5, -1.0]))
        return out

    for it in range(ctx.n(6, 40)):
        L.release()
        cfg, d, order = random_cfg(ctx, it, ["filter", "fixedinterval"])
        count_cfg(ctx, cfg, "ts0", d)
        for field, u0s, t0, hs in variations(cfg, d, order, "general", 2, 8):
            ts0_fixed_grid(ctx, cfg, d, field, u0s, t0, hs)
    lap("ts0 fixed grid")
    for it in range(ctx.n(2, 12)):
        L.release()
        cfg, d, order = random_cfg(ctx, it, ["filter", "fixedpoint"], qmax=4)
        cfg = dataclasses.replace(cfg, damp=0.0, init="exact")
        field, u0s, t0 = c04.make_problem(ctx, d, order, kind=gen.pick(rng, ["linear", "general"]))
        tol = float(10.0 ** rng.uniform(-6, -2))
        T = float(gen.pick(rng, [0.5, 1.0]))
        save_at = np.array([t0, t0 + 0.3 * T, t0 + T])
        count_cfg(ctx, cfg, "adaptive", d)
        ts0_adaptive_pair(ctx, cfg, d, field, u0s, t0, save_at, tol, bool(rng.random() < 0.5))
    lap("adaptive dense-iso")
    for it in range(ctx.n(3, 16)):
        L.release()
        cfg, d, order = random_cfg(ctx, it + 1, ["filter", "fixedinterval"], qmax=5)
        d = max(d, 2)
        if rng.random() < 0.5:
            cfg = dataclasses.replace(cfg, base_scale=[float(2.0 ** rng.integers(-2, 3)) for _ in range(d)])
        count_cfg(ctx, cfg, "bd-ts1", d)
        for field, u0s, t0, hs in variations(cfg, d, order, "decoupled", 2, 6):
            bd_ts1_decoupled(ctx, cfg, d, field, u0s, t0, hs)
    lap("bd ts1 decoupled")
    for it in range(ctx.n(3, 16)):
        L.release()
        cfg, d, order = random_cfg(ctx, it + 2, ["filter", "fixedinterval"], qmax=5)
        d = max(d, 2)
        count_cfg(ctx, cfg, "iso-ts1", d)
        for field, u0s, t0, hs in variations(cfg, d, order, "scalarjac", 2, 6):
            iso_ts1_scalar_jac(ctx, cfg, d, field, u0s, t0, hs)
    lap("iso ts1 scalar jacobian")
    for it in range(ctx.n(2, 12)):
        L.release()
        cfg, d, order = random_cfg(ctx, it, ["filter", "fixedinterval"], qmax=3)
        d = max(d, 2)
        field, u0s, t0 = c04.make_problem(ctx, d, order)
        model_linearisations(ctx, cfg, d, field, u0s, t0)
        model_embedded_step(ctx, cfg, d, field, u0s, t0, grid_steps(rng, cfg.q, 2, 3))
    lap("model")
