"""C09 — Prior transitions are the exact discretisation of their SDE and compose.

Correspondence between the real code and the Lean model (`Pdq.Model.Iwp`, `Pdq.Model.ExpGram`, executed by
`pdqdrv`), whose outputs are the closed forms / the polynomials of the tables by the theorems of
`Pdq/Props/C09.lean` and `Pdq/Props/ExpC09.lean`:

(i)   integrated Wiener priors of the three factorisations, built through the public API:
      raw `transition(dt=h, output_scale=s)` (A, noise Gram, to_latent, to_observed) and
      `.preconditioner_apply()` vs `iwp_transition1` / `iwp_transition_dense` (+ `pc_den`), on the same exact
      dyadic inputs; `t2.merge(t1)` vs `transition(h1+h2)` (implementation vs itself and vs the model);
      scale linearity; `cholesky_hilbert(n)` vs the model of Kahan's recurrence.
(ii)  every `pade_and_legendre_q().init(A, B)` on 1x1 inputs at >= 2q+2 rational points and on random small
      matrices vs the driver's exact rational evaluation (the tables and the k-loop facts the driver uses are
      re-extracted from the source on every run); doubling count `s` compared exactly; one doubling step.
(iii) full `exp_gram_cholesky`, and `DenseExponential.transition` of OU / Matern / general exponential priors,
      vs a high-precision (1100-bit fixed point) Van Loan reference — a *weaker oracle* than the exact model
      (labelled as such in the evidence) — plus scalar closed forms and, for small doubling counts, the exact
      rational model of the whole pipeline.

Abstraction function: Cholesky factors -> Gram matrices, `output_scale` -> its square; square roots never
reach the model.  Gram matrices are compared in the metric |dC_ij| / sqrt(C_ii C_jj), which is invariant under
the (h-dependent, badly scaled) diagonal preconditioner and in which QR-based square-root arithmetic is
backward stable irrespective of the conditioning of the Hilbert matrix.
"""

from __future__ import annotations

import math
import sys
from fractions import Fraction

import numpy as np

from harness import core, gen
from harness.checks import c09_ref
from harness.core import Cut, F

sys.set_int_max_str_digits(0)  # exact rationals of the doubling pipeline have > 4300 digits

PROPS_MODULES = ["Pdq.Props.C09", "Pdq.Props.ExpC09"]
LEVEL = "proof"
EXPLANATION = (
    "IWP part: full (closed forms, semigroup, moment ODEs for all q, d, h != 0; Hilbert factor table n <= 11, general n "
    "only for the entries, not for L L^T = H). Exponential part: PARTIAL — the tables, the polynomials actually assembled "
    "by each init, the doubling algebra, the doubling count and the OU/Matern drifts are theorems; that the Pade/Legendre "
    "approximants are accurate to working precision for ||A|| <= eta is approximation theory and is only *explored* "
    "against a high-precision reference (weaker oracle) in part (iii)."
)

# ---- tolerances (committed constants; observed maxima on the clean tree, quick seeds 0..3 + thorough seeds 0,1, in brackets)
TOL_EXACT = 0.0  # offsets are exact zeros; A does not depend on the scales                 [0]
TOL_SCAL = 2e-12  # to_latent / to_observed, relative per entry                           [5.0e-15]
TOL_A = 2e-12  # entries of A (raw: Pascal via gamma function; after preconditioner_apply), relative [7.6e-15]
TOL_Q = 5e-12  # noise Gram matrices, metric |dC_ij|/sqrt(C_ii C_jj)                      [9.9e-15]
TOL_MERGE = 1e-11  # merged transition vs transition(h1+h2), same metrics                 [1.4e-14]
TOL_HILB = 1e-12  # squared entries of cholesky_hilbert, relative; Gram vs Hilbert        [5.2e-16]
TOL_INIT64 = 2e-12  # init(A,B) vs exact rational model, normwise relative, float64       [1.3e-15]
TOL_INIT32 = 2e-4  # ... float32 (x64 disabled)                                          [6.5e-7]
TOL_DOUBLE = 1e-12  # one doubling step, Gram metric                                      [7.1e-16]
TOL_DRIFT = 1e-12  # drift / dispersion entries of exponential priors, relative           [3.0e-15]
TOL_PIPE = 2e-12  # exact rational model of the whole exp_gram pipeline (s <= 3), normwise / kappa [1.5e-15]
TOL_SCALAR = 1e-12  # scalar closed forms e^a, b^2 (e^{2a}-1)/(2a), relative / max(1,|a|)  [5.2e-15]
# (iii): tol = REF_C * eps * max(kappa_hat, 1) * 4 (2^s + 1); measured error/(eps*kappa) <= 0.6 * 2^s + 4 over 800 samples,
# s = 0..17; largest observed use of this tolerance on the clean tree: 5.6e-3 (i.e. a margin of ~180)
REF_C = 100.0


def _np(x):
    return np.asarray(x, dtype=np.float64)


def fl(a):
    a = np.asarray(a, dtype=object)
    return np.array([float(x) for x in a.reshape(-1)], dtype=np.float64).reshape(a.shape)


def gram(L):
    L = _np(L)
    return L @ L.T


def gram_dev(C_impl, C_model):
    """max |dC_ij| / sqrt(C_ii C_jj) with the model's diagonal as scale."""
    Cm = _np(C_model)
    Ci = _np(C_impl)
    if not np.all(np.isfinite(Ci)):
        return float("inf")
    d = np.sqrt(np.maximum(np.diag(Cm), 0.0))
    sc = np.outer(d, d)
    sc = np.where(sc > 0, sc, np.finfo(float).tiny)
    return float(np.max(np.abs(Ci - Cm) / sc)) if Ci.size else 0.0


def rel_dev(x_impl, x_model, floor=0.0):
    """max |dx| / max(|x_model|, floor) entrywise; exact zeros of the model must be exact zeros."""
    xi, xm = _np(x_impl).reshape(-1), _np(x_model).reshape(-1)
    if not np.all(np.isfinite(xi)):
        return float("inf")
    sc = np.maximum(np.abs(xm), floor)
    bad = (sc == 0) & (xi != 0)
    if bad.any():
        return float("inf")
    sc = np.where(sc > 0, sc, 1.0)
    return float(np.max(np.abs(xi - xm) / sc)) if xi.size else 0.0


def norm_dev(x_impl, x_model):
    """normwise: max |dx| / max |x_model|"""
    xi, xm = _np(x_impl), _np(x_model)
    if not np.all(np.isfinite(xi)):
        return float("inf")
    s = float(np.max(np.abs(xm))) if xm.size else 0.0
    return float(np.max(np.abs(xi - xm))) / (s if s > 0 else 1.0) if xi.size else 0.0


def dump(*arrs):
    return [np.asarray(a, dtype=np.float64).tolist() for a in arrs]


# ------------------------------------------------------------------------------------------------------------------
# (i) integrated Wiener process


def cond_slices(kind, c):
    """per-dimension dense views (A, b, L, to_latent, to_observed) of a LatentCond"""
    A, b, L = _np(c.A), _np(c.noise.mean_flat), _np(c.noise.cholesky_flat)
    tl, to = _np(c.to_latent), _np(c.to_observed)
    if kind == "dense":
        return [(A, b, L, tl, to)]
    if kind == "isotropic":
        return [(A, b[:, j], L, tl, to) for j in range(b.shape[1])]
    return [(A[i], b[i], L[i], tl[i], to[i]) for i in range(A.shape[0])]


def iwp_prior(kind, q, d, base):
    import jax.numpy as jnp
    from probdiffeq import probdiffeq as pdq

    ssm = getattr(pdq, "state_space_model_" + kind)()
    tcoeffs = [jnp.zeros((d,)) for _ in range(q + 1)]
    if kind == "isotropic":
        return ssm.prior_wiener_integrated(tcoeffs, output_scale=jnp.asarray(float(base[0])))
    return ssm.prior_wiener_integrated(tcoeffs, output_scale=jnp.asarray(base))


def iwp_transition(kind, prior, h, s):
    import jax.numpy as jnp

    if kind == "blockdiag":
        return prior.transition(dt=h, output_scale=jnp.asarray(s))
    return prior.transition(dt=h, output_scale=jnp.asarray(float(s[0])))


def model_transitions(ctx, kind, q, d, h, s, base):
    """list of per-slice model answers (A, b, Q, tl, tob) as float arrays + the exact squared scales used"""
    hq = F(h)
    out = []
    if kind == "dense":
        s2 = F(float(s[0])) ** 2
        lam2 = [F(float(x)) ** 2 for x in base]
        N = (q + 1) * d
        ans = Cut(ctx.drv.call("iwp_transition_dense", q, d, hq, s2, lam2))
        out.append(tuple(fl(ans.take(*sh)) for sh in [(N, N), (N,), (N, N), (N,), (N,)]))
        ans.done()
        return out
    n = q + 1
    for a in range(d):
        if kind == "isotropic":
            s2 = (F(float(s[0])) * F(float(base[0]))) ** 2
        else:
            s2 = (F(float(s[a])) * F(float(base[a]))) ** 2
        ans = Cut(ctx.drv.call("iwp_transition1", q, hq, s2))
        out.append(tuple(fl(ans.take(*sh)) for sh in [(n, n), (n,), (n, n), (n,), (n,)]))
        ans.done()
    return out


def model_den(mt):
    """de-preconditioned model transition (float evaluation of exact model entries; products of three floats)"""
    A, b, Qm, tl, to = mt
    return to[:, None] * A * tl[None, :], to * b, to[:, None] * Qm * to[None, :]


def model_den_exact(ctx, kind, q, d, h, s, base):
    """Phi(h), s2 Q(h) from the driver's own `den` (exact rationals -> floats), per slice"""
    hq = F(h)
    out = []
    if kind == "dense":
        s2 = F(float(s[0])) ** 2
        lam2 = [F(float(x)) ** 2 for x in base]
        N = (q + 1) * d
        t = ctx.drv.call("iwp_transition_dense", q, d, hq, s2, lam2)
        ans = Cut(ctx.drv.call("pc_den", N, N, t))
        out.append((fl(ans.take(N, N)), fl(ans.take(N)), fl(ans.take(N, N))))
        return out
    n = q + 1
    for a in range(d):
        if kind == "isotropic":
            s2 = (F(float(s[0])) * F(float(base[0]))) ** 2
        else:
            s2 = (F(float(s[a])) * F(float(base[a]))) ** 2
        t = ctx.drv.call("iwp_transition1", q, hq, s2)
        ans = Cut(ctx.drv.call("pc_den", n, n, t))
        out.append((fl(ans.take(n, n)), fl(ans.take(n)), fl(ans.take(n, n))))
    return out


def check_iwp_case(ctx, kind, q, d, h, s, base, tag):
    case = {"part": "iwp", "factorisation": kind, "q": q, "d": d, "h": h, "output_scale": list(map(float, s)),
            "base_scale": list(map(float, base)), **tag}
    prior = iwp_prior(kind, q, d, base)
    t = iwp_transition(kind, prior, h, s)
    mts = model_transitions(ctx, kind, q, d, h, s, base)
    sl = cond_slices(kind, t)
    if len(sl) != len(mts):
        ctx.violation(f"{kind}:transition:shape", "number of dimension slices differs", case)
        return None
    for (A, b, L, tl, to), (mA, mb, mQ, mtl, mto) in zip(sl, mts):
        # (the code evaluates binomials through the gamma function: entries are integers only up to rounding)
        ctx.dev("iwp.raw.A", rel_dev(A, mA) if A.shape == mA.shape else float("inf"), TOL_A, case=case,
                sig=f"{kind}:transition:A", what="raw transition matrix differs from the flipped Pascal matrix C(q-i, j-i)")
        ctx.dev("iwp.raw.b", float(np.max(np.abs(b))) if b.size else 0.0, TOL_EXACT, case=case, sig=f"{kind}:transition:offset")
        ctx.dev("iwp.raw.Q", gram_dev(gram(L), mQ), TOL_Q, case=case, sig=f"{kind}:transition:noise",
                what="raw process-noise Gram differs from |dt| * scale^2 * flip(Hilbert)")
        ctx.dev("iwp.raw.to_latent", rel_dev(tl, mtl), TOL_SCAL, case=case, sig=f"{kind}:transition:to_latent")
        ctx.dev("iwp.raw.to_observed", rel_dev(to, mto), TOL_SCAL, case=case, sig=f"{kind}:transition:to_observed")
    # after removal of the preconditioner: the closed forms Phi(h), s2 Q(h)
    den = t.preconditioner_apply()
    mds = model_den_exact(ctx, kind, q, d, h, s, base)
    for (A, b, L, tl, to), (mA, mb, mQ) in zip(cond_slices(kind, den), mds):
        ctx.dev("iwp.den.A", rel_dev(A, mA), TOL_A, case=case, sig=f"{kind}:preconditioner_apply:A",
                what="transition matrix after preconditioner_apply differs from Phi_ij = h^(j-i)/(j-i)!")
        ctx.dev("iwp.den.Q", gram_dev(gram(L), mQ), TOL_Q, case=case, sig=f"{kind}:preconditioner_apply:noise",
                what="process noise after preconditioner_apply differs from s^2 h^(2q+1-i-j)/((2q+1-i-j)(q-i)!(q-j)!)")
        ctx.dev("iwp.den.b", float(np.max(np.abs(b))) if b.size else 0.0, TOL_EXACT, case=case, sig=f"{kind}:preconditioner_apply:offset")
        if not (np.all(tl == 1.0) and np.all(to == 1.0)):
            ctx.violation(f"{kind}:preconditioner_apply:scalings", "scalings not removed", case)
    return prior


def check_iwp_merge(ctx, kind, q, d, h1, h2, s, base, tag):
    """t2.merge(t1) (first h1, then h2) vs transition(h1 + h2): implementation vs itself and vs the model."""
    case = {"part": "iwp-merge", "factorisation": kind, "q": q, "d": d, "h1": h1, "h2": h2,
            "output_scale": list(map(float, s)), "base_scale": list(map(float, base)), **tag}
    prior = iwp_prior(kind, q, d, base)
    t1 = iwp_transition(kind, prior, h1, s)
    t2 = iwp_transition(kind, prior, h2, s)
    merged = t2.merge(t1).preconditioner_apply()
    hsum = float(F(h1) + F(h2))  # rounded once; the model uses the same float
    direct = iwp_transition(kind, prior, hsum, s).preconditioner_apply()
    mds = model_den_exact(ctx, kind, q, d, hsum, s, base)
    for (A, b, L, _, _), (A2, b2, L2, _, _), (mA, mb, mQ) in zip(cond_slices(kind, merged), cond_slices(kind, direct), mds):
        ctx.dev("iwp.merge.A(model)", rel_dev(A, mA), TOL_MERGE, case=case, sig=f"{kind}:merge:A",
                what="t2.merge(t1) does not have the transition matrix Phi(h1+h2)")
        ctx.dev("iwp.merge.Q(model)", gram_dev(gram(L), mQ), TOL_MERGE, case=case, sig=f"{kind}:merge:noise",
                what="t2.merge(t1) does not have the process noise Q(h1+h2)")
        ctx.dev("iwp.merge.A(impl)", rel_dev(A, A2, floor=float(np.max(np.abs(A2))) * 1e-300), TOL_MERGE, case=case, sig=f"{kind}:merge-vs-direct:A")
        ctx.dev("iwp.merge.Q(impl)", gram_dev(gram(L), gram(L2)), TOL_MERGE, case=case, sig=f"{kind}:merge-vs-direct:noise")
        ctx.dev("iwp.merge.b", float(np.max(np.abs(b))) if b.size else 0.0, TOL_EXACT, case=case, sig=f"{kind}:merge:offset")


def check_iwp_linearity(ctx, kind, q, d, h, s, base, c, tag):
    """noise(c * s) = c^2 noise(s); noise(c * base) = c^2 noise(base); A unchanged (implementation vs itself)."""
    case = {"part": "iwp-linearity", "factorisation": kind, "q": q, "d": d, "h": h, "c": c,
            "output_scale": list(map(float, s)), "base_scale": list(map(float, base)), **tag}
    p0 = iwp_prior(kind, q, d, base)
    t0 = iwp_transition(kind, p0, h, s).preconditioner_apply()
    t1 = iwp_transition(kind, p0, h, np.asarray(s) * c).preconditioner_apply()
    p2 = iwp_prior(kind, q, d, np.asarray(base) * c)
    t2 = iwp_transition(kind, p2, h, s).preconditioner_apply()
    for (A0, _, L0, _, _), (A1, _, L1, _, _), (A2, _, L2, _, _) in zip(cond_slices(kind, t0), cond_slices(kind, t1), cond_slices(kind, t2)):
        G0 = gram(L0) * (c * c)
        ctx.dev("iwp.linear.output_scale", gram_dev(gram(L1), G0), TOL_Q, case=case, sig=f"{kind}:linearity:output_scale")
        ctx.dev("iwp.linear.base_scale", gram_dev(gram(L2), G0), TOL_Q, case=case, sig=f"{kind}:linearity:base_scale")
        ctx.dev("iwp.linear.A", max(float(np.max(np.abs(A1 - A0))), float(np.max(np.abs(A2 - A0)))), TOL_EXACT, case=case,
                sig=f"{kind}:linearity:A")


def check_hilbert(ctx, n):
    from probdiffeq.util import cholesky_util

    L = _np(cholesky_util.cholesky_hilbert(n))
    ans = Cut(ctx.drv.call("hilbert_chol", n))
    sq, G = fl(ans.take(n, n)), fl(ans.take(n, n))
    case = {"part": "cholesky_hilbert", "n": n}
    ctx.case(case)
    ctx.dev("hilbert.entries^2", rel_dev(L * L, sq), TOL_HILB, case=case, sig="cholesky_hilbert:entries",
            what="squared entries of cholesky_hilbert differ from (2j+1)(i!)^4/((i-j)!(i+j+1)!)^2")
    H = np.array([[1.0 / (i + j + 1) for j in range(n)] for i in range(n)])
    ctx.dev("hilbert.gram", gram_dev(gram(L), H), TOL_HILB, case=case, sig="cholesky_hilbert:gram")
    ctx.dev("hilbert.model-gram", gram_dev(G, H), 1e-15, case=case, sig="cholesky_hilbert:model-gram")
    if np.any(np.triu(L, 1) != 0):
        ctx.violation("cholesky_hilbert:triangular", "factor is not lower triangular", case)


def loguniform(rng, lo, hi):
    return float(10.0 ** rng.uniform(math.log10(lo), math.log10(hi)))


def run_iwp(ctx):
    rng = ctx.rng
    kinds = ["dense", "isotropic", "blockdiag"]
    for n in range(1, 12):
        check_hilbert(ctx, n)
    ncases = ctx.n(14, 420)
    rot = int(rng.integers(0, 3))
    for it in range(ncases):
        # cover every order 0..10 in every tier (factorisation rotating with the seed), dimensions 1..5
        kind = kinds[(it + rot) % 3]
        q = it if it < 11 else int(rng.integers(0, 11))
        d = int(rng.integers(1, 6))
        h = [1e-6, 1e2, 1.0][it] if it < 3 else loguniform(rng, 1e-6, 1e2)
        nb = 1 if kind == "isotropic" else d
        base = np.array([loguniform(rng, 1e-3, 1e3) for _ in range(nb)])
        ns = d if kind == "blockdiag" else 1
        s = np.array([loguniform(rng, 1e-4, 1e4) for _ in range(ns)])
        tag = {"it": it}
        ctx.count(f"iwp.factorisation={kind}")
        ctx.count(f"iwp.q={q}")
        ctx.count(f"iwp.d={d}")
        ctx.count("iwp.h<1e-3" if h < 1e-3 else ("iwp.h<1" if h < 1 else "iwp.h>=1"))
        check_iwp_case(ctx, kind, q, d, h, s, base, tag)
        ctx.case({"part": "iwp", "kind": kind, "q": q, "d": d, "h": h, "s": s.tolist(), "base": base.tolist()}, nontrivial=(q >= 1))
        if it % 2 == 0:
            h1, h2 = loguniform(rng, 1e-6, 1e2), loguniform(rng, 1e-6, 1e2)
            if it % 4 == 0:  # comparable steps (the solver's situation) vs wildly different ones
                h2 = h1 * float(rng.uniform(0.2, 5.0))
            check_iwp_merge(ctx, kind, q, d, h1, h2, s, base, tag)
            ctx.count("iwp.merge")
            ctx.case({"part": "iwp-merge", "kind": kind, "q": q, "d": d, "h1": h1, "h2": h2}, nontrivial=(q >= 1))
        if it % 6 == 1:
            c = float(rng.choice([0.5, 3.0, 10.0, 0.125]))
            check_iwp_linearity(ctx, kind, q, d, h, s, base, c, tag)
            ctx.count("iwp.linearity")


# ------------------------------------------------------------------------------------------------------------------
# (ii) Pade / Legendre initialisers against the exact rational model

ORDERS = (3, 5, 7, 9, 13)


def pade_legendre(q):
    from probdiffeq.util import gram_util

    return getattr(gram_util, f"pade_and_legendre_{q}")()


class X64:
    """run the implementation in real float32 (x64 disabled) or float64"""

    def __init__(self, on):
        self.on = on

    def __enter__(self):
        import jax

        self.cm = jax.enable_x64(self.on)
        self.cm.__enter__()

    def __exit__(self, *a):
        return self.cm.__exit__(*a)


def call_init(q, A, B, dtype):
    import jax.numpy as jnp
    from probdiffeq.backend import linalg

    pl = pade_legendre(q)
    with X64(dtype == np.float64):
        eA, U = pl.init(jnp.asarray(A.astype(dtype)), jnp.asarray(B.astype(dtype)), solve=linalg.solve_lu)
        if eA.dtype != dtype:
            raise core.HarnessError(f"init returned dtype {eA.dtype} for {dtype}")
        return _np(eA), _np(U)


def check_init(ctx, q, A, B, dtype, tag):
    """init(A, B) vs the exact D(A)^-1 N(A) and the Gram of the assembled Legendre right-hand sides."""
    n, m = B.shape
    A = A.astype(dtype).astype(np.float64)
    B = B.astype(dtype).astype(np.float64)
    case = {"part": "init", "order": q, "dtype": np.dtype(dtype).name, "A": A.tolist(), "B": B.tolist(), **tag}
    try:
        ans = Cut(ctx.drv.call("pl_init", q, n, m, A, B))
    except core.ModelError as e:
        ctx.skip("init: exact Pade denominator singular (" + e.ans[:40] + ")")
        return
    mE, mG = fl(ans.take(n, n)), fl(ans.take(n, n))
    ans.done()
    ans = Cut(ctx.drv.call("pl_init_table", q, n, m, A, B))
    tE, tG = fl(ans.take(n, n)), fl(ans.take(n, n))
    ans.done()
    eA, U = call_init(q, A, B, dtype)
    tol = TOL_INIT64 if dtype == np.float64 else TOL_INIT32
    name = "64" if dtype == np.float64 else "32"
    ctx.dev(f"init{name}.eA", norm_dev(eA, mE), tol, case=case, sig=f"pade_and_legendre_{q}:init:eA",
            what=f"order {q}: init's matrix exponential differs from D(A)^-1 N(A) (exact rational evaluation)")
    ctx.dev(f"init{name}.gram", norm_dev(gram(U), mG), tol, case=case, sig=f"pade_and_legendre_{q}:init:gram",
            what=f"order {q}: Gram of init's factor differs from sum_i (2i+1)^-1 X_i X_i^T, X_i = D(A)^-1 (sum_k C[i,k] A^k) B")
    # the same against the parts evaluated straight from the tables (equal to the above by `initParts_eq_table`
    # as long as the code assembles the table polynomials; differs, with this concrete input, when it does not)
    ctx.dev(f"init{name}.eA(table)", norm_dev(eA, tE), tol, case=case, sig=f"pade_and_legendre_{q}:init-vs-table:eA",
            what=f"order {q}: init's matrix exponential differs from D_q(A)^-1 N_q(A) with D_q, N_q read from pade_coeffs")
    ctx.dev(f"init{name}.gram(table)", norm_dev(gram(U), tG), tol, case=case, sig=f"pade_and_legendre_{q}:init-vs-table:gram",
            what=f"order {q}: Gram of init's factor differs from sum_i (2i+1)^-1 X_i X_i^T with X_i = D_q(A)^-1 (sum_k legendre_coeffs[i][k] A^k) B "
                 "- the k-loop of init does not assemble the table polynomials")
    if np.any(np.triu(U, 1) != 0):
        ctx.violation(f"pade_and_legendre_{q}:init:triangular", "returned factor is not lower triangular", case)


def check_num(ctx, q, A, B, dtype, tag):
    """number of doublings, compared exactly away from the (float-rounded) decision boundaries"""
    import jax.numpy as jnp
    from probdiffeq.backend import linalg
    from probdiffeq.util import gram_util

    n = A.shape[0]
    A = A.astype(dtype).astype(np.float64)
    B = B.astype(dtype).astype(np.float64)
    pl = pade_legendre(q)
    s_model, normA = ctx.drv.call("pl_num", q, 64 if dtype == np.float64 else 32, n, A)
    s_model = int(s_model)
    eta = float(pl.eta_fp64 if dtype == np.float64 else pl.eta_fp32)
    x = float(normA) / eta
    margin = 1e-9 if dtype == np.float64 else 1e-4
    if x > 0:
        lg = math.log2(x)
        if abs(lg - round(lg)) < margin and round(lg) >= 0:
            ctx.skip("num: ||A||_1/eta within rounding of a power of two")
            return None
    with X64(dtype == np.float64):
        r = gram_util._exp_gram_cholesky_init(jnp.asarray(A.astype(dtype)), jnp.asarray(B.astype(dtype)), pade_legendre=pl, solve=linalg.solve_lu)
        s_impl = float(r[2])
    case = {"part": "num", "order": q, "dtype": np.dtype(dtype).name, "A": A.tolist(), "n": n, **tag}
    if s_impl != float(s_model):
        ctx.violation(f"exp_gram:num_doublings:{np.dtype(dtype).name}",
                      f"order {q}: {s_impl} doublings, exact rule max(0, ceil(max(log2(|A|_1/eta), log2((n-1)/q)))) gives {s_model} (|A|_1/eta = {x!r})", case)
    ctx.count(f"num.s={min(s_model, 12)}{'+' if s_model >= 12 else ''}")
    return s_model


def check_double(ctx, n, tag):
    import jax.numpy as jnp
    from probdiffeq.util import gram_util

    rng = ctx.rng
    E = gen.dyadic(rng, (n, n), bits=5, scale=2.0)
    U = np.tril(gen.dyadic(rng, (n, n), bits=5, scale=2.0))
    if rng.random() < 0.3:
        U[:, int(rng.integers(n))] = 0.0  # rank-deficient factor
    _, (E2, U2) = gram_util._exp_gram_cholesky_double((0, (jnp.asarray(E), jnp.asarray(U))))
    ans = Cut(ctx.drv.call("pl_double", n, E, core.FM.gram(U)))
    mE, mG = fl(ans.take(n, n)), fl(ans.take(n, n))
    case = {"part": "double", "E": E.tolist(), "U": U.tolist(), **tag}
    ctx.dev("double.eA", norm_dev(E2, mE), 1e-15, case=case, sig="exp_gram:double:eA", what="doubling: eA @ eA expected")
    ctx.dev("double.gram", gram_dev(gram(U2), mG), TOL_DOUBLE, case=case, sig="exp_gram:double:gram",
            what="doubling: Gram of new factor is not G + E G E^T")


def rand_matrix(rng, n, kind):
    if kind == "dyadic":
        return gen.dyadic(rng, (n, n), bits=6, scale=1.0)
    A = rng.normal(size=(n, n))
    if kind == "stable":
        A = A - np.eye(n) * np.abs(A).sum() * 0.75
    elif kind == "sym":
        A = -(A @ A.T)
    elif kind == "companion":
        A = np.diag(np.ones(n - 1), 1)
        A[-1, :] = -np.abs(rng.normal(size=n)) - 0.1
    return A


def scale_to_norm1(A, nrm):
    s = np.abs(A).sum(0).max()
    return A * (nrm / s) if s > 0 else A


def run_init(ctx):
    rng = ctx.rng
    for q in ORDERS:
        pl = pade_legendre(q)
        if int(pl.q) != q:
            ctx.violation(f"pade_and_legendre_{q}:q", f"reports order {pl.q}", {"order": q})
        # 1x1 inputs at >= 2q+2 distinct rational points: determines the scalar rational functions N/D and every Legendre row
        pts = sorted({Fraction(int(k), 64) for k in rng.integers(-96, 97, size=4 * q + 8)} - {Fraction(0)})[: 2 * q + 4]
        pts = pts + [Fraction(0)]
        for a in pts:
            A = np.array([[float(a)]])
            b = float(rng.choice([1.0, 0.5, -2.0, 3.0]))
            check_init(ctx, q, A, np.array([[b]]), np.float64, {"kind": "1x1"})
            ctx.case({"part": "init-1x1", "order": q, "a": str(a), "b": b})
        ctx.count(f"init.1x1.points.order{q}", len(pts))
        for dtype in (np.float64, np.float32):
            for it in range(ctx.n(1, 24)):
                # quick tier: few distinct shapes (every new shape costs ~1 s of XLA compilation in eager mode)
                n = int(rng.choice([2, 4])) if ctx.quick else int(rng.integers(2, 6))
                m = int(rng.choice([1, n])) if ctx.quick else int(rng.integers(1, n + 1))
                kind = gen.pick(rng, ["dyadic", "gen", "stable", "companion"])
                eta = float(pl.eta_fp64 if dtype == np.float64 else pl.eta_fp32)
                nrm = min(eta * float(rng.choice([0.1, 1.0, 4.0])), 3.0)
                A = scale_to_norm1(rand_matrix(rng, n, kind), nrm)
                B = gen.dyadic(rng, (n, m), bits=5, scale=2.0)
                if kind == "companion":
                    B = np.zeros((n, m))
                    B[-1, 0] = 1.0 + float(rng.integers(0, 4))
                check_init(ctx, q, A, B, dtype, {"kind": kind, "it": it})
                ctx.count(f"init.matrix.{np.dtype(dtype).name}")
                ctx.case({"part": "init-matrix", "order": q, "dtype": np.dtype(dtype).name, "n": n, "m": m, "kind": kind, "norm": nrm})
            for it in range(ctx.n(6, 60)):
                n = int(rng.choice([1, 2, 4, 7])) if ctx.quick else int(rng.integers(1, 11))
                A = scale_to_norm1(rand_matrix(rng, n, gen.pick(rng, ["gen", "stable", "dyadic"])), loguniform(rng, 1e-4, 50.0))
                if rng.random() < 0.1:
                    A = np.zeros((n, n))
                B = np.ones((n, 1))
                s = check_num(ctx, q, A, B, dtype, {"it": it})
                ctx.case({"part": "num", "order": q, "dtype": np.dtype(dtype).name, "n": n, "s": s})
    for it in range(ctx.n(6, 60)):
        check_double(ctx, int(rng.integers(1, 6)), {"it": it})
        ctx.case({"part": "double", "it": it})


# ------------------------------------------------------------------------------------------------------------------
# (iii) full exp_gram_cholesky and exponential priors against the high-precision reference (weaker oracle)


def kappa_hat(rng, A, B, E, G):
    """finite-difference estimate of the sensitivity of (e^A, Gramian) to entrywise relative perturbations of (A, B)"""
    dlt = 2.0 ** -30
    P = A * (1 + dlt * rng.choice([-1.0, 1.0], size=A.shape))
    Pb = B * (1 + dlt * rng.choice([-1.0, 1.0], size=B.shape))
    E2, G2 = c09_ref.expm_gram(P, Pb)
    kE = norm_dev(E2, E) / dlt
    kG = norm_dev(G2, G) / dlt
    return kE, kG


def ref_tol(dtype, kappa, s):
    eps = float(np.finfo(dtype).eps)
    return REF_C * eps * max(kappa, 1.0) * 4.0 * (2.0 ** s + 1.0)


def check_expgram(ctx, q, A, B, dtype, tag):
    import jax.numpy as jnp
    from probdiffeq.backend import linalg
    from probdiffeq.util import gram_util

    A = A.astype(dtype).astype(np.float64)
    B = B.astype(dtype).astype(np.float64)
    n, m = B.shape
    pl = pade_legendre(q)
    f = gram_util.exp_gram_cholesky(pade_legendre=pl, solve=linalg.solve_lu)
    with X64(dtype == np.float64):
        eA, U = f(jnp.asarray(A.astype(dtype)), jnp.asarray(B.astype(dtype)))
        if eA.dtype != dtype:
            raise core.HarnessError(f"exp_gram returned dtype {eA.dtype} for {dtype}")
        eA, U = _np(eA), _np(U)
    s, _ = ctx.drv.call("pl_num", q, 64 if dtype == np.float64 else 32, n, A)
    s = int(s)
    E, G = c09_ref.expm_gram(A, B)
    kE, kG = kappa_hat(ctx.rng, A, B, E, G)
    case = {"part": "exp_gram", "order": q, "dtype": np.dtype(dtype).name, "A": A.tolist(), "B": B.tolist(), "s": s,
            "kappa_hat": [kE, kG], **tag}
    name = "64" if dtype == np.float64 else "32"
    dE, dG = norm_dev(eA, E), norm_dev(gram(U), G)
    # recorded in units of the tolerance (so that one number per dtype summarises all condition numbers / s)
    ctx.dev(f"expgram{name}.eA/tol", dE / ref_tol(dtype, kE, s), 1.0, case=case, sig=f"exp_gram_cholesky:{q}:{np.dtype(dtype).name}:eA",
            what=f"order {q}: e^A deviates from the high-precision reference by {dE:.2e} (tolerance {ref_tol(dtype, kE, s):.1e}, s={s}, kappa~{kE:.1e})")
    ctx.dev(f"expgram{name}.gram/tol", dG / ref_tol(dtype, kG, s), 1.0, case=case, sig=f"exp_gram_cholesky:{q}:{np.dtype(dtype).name}:gram",
            what=f"order {q}: Gramian deviates from the high-precision reference by {dG:.2e} (tolerance {ref_tol(dtype, kG, s):.1e}, s={s}, kappa~{kG:.1e})")
    ctx.devs[f"expgram{name}.eA.abs"] = max(ctx.devs.get(f"expgram{name}.eA.abs", 0.0), dE)
    ctx.devs[f"expgram{name}.gram.abs"] = max(ctx.devs.get(f"expgram{name}.gram.abs", 0.0), dG)
    if np.any(np.triu(U, 1) != 0) or np.any(np.diag(U) < 0):
        ctx.violation("exp_gram_cholesky:factor-shape", "factor not lower triangular with non-negative diagonal", case)
    if n == 1:
        # scalar closed forms: validates the reference oracle itself, and the implementation against it
        a = float(A[0, 0])
        bb = float(np.sum(B * B))
        e_cf = math.exp(a)
        g_cf = bb * (math.expm1(2 * a) / (2 * a)) if a != 0 else bb
        ctx.dev("ref.selfcheck", max(abs(E[0, 0] - e_cf) / e_cf, abs(G[0, 0] - g_cf) / g_cf), 1e-14 * max(1.0, abs(a)), case=case,
                sig="harness:reference-vs-closed-form", what="the high-precision reference disagrees with the scalar closed form (harness problem)")
        if dtype == np.float64:
            sc = max(1.0, abs(a)) * 4.0 * (2.0 ** s + 1.0)
            ctx.dev("expgram64.scalar", max(abs(eA[0, 0] - e_cf) / e_cf, abs(U[0, 0] ** 2 - g_cf) / g_cf) / sc, REF_C * float(np.finfo(np.float64).eps), case=case,
                    sig=f"exp_gram_cholesky:{q}:scalar", what=f"order {q}: scalar e^a / b^2 (e^(2a)-1)/(2a) not reproduced")
            ctx.count("expgram.scalar-closed-form")
    # exact rational model of the whole pipeline where it is affordable
    if s <= 3 and n <= 3 and dtype == np.float64:
        try:
            ans = Cut(ctx.drv.call("pl_expgram", q, 64, n, m, A, B))
        except core.ModelError as e:
            ctx.skip("pipeline: " + e.ans[:40])
            return
        ms = int(ans.take())
        mE, mG = fl(ans.take(n, n)), fl(ans.take(n, n))
        ctx.dev("pipeline.eA", norm_dev(eA, mE) / max(kE, 1.0), TOL_PIPE, case=case, sig=f"exp_gram_cholesky:{q}:pipeline:eA",
                what="whole pipeline (scale, init, s doublings) differs from its exact rational evaluation")
        ctx.dev("pipeline.gram", norm_dev(gram(U), mG) / max(kG, 1.0), TOL_PIPE, case=case, sig=f"exp_gram_cholesky:{q}:pipeline:gram")
        ctx.count("pipeline.exact")
        if ms != s:
            raise core.HarnessError("driver inconsistent: pl_expgram vs pl_num")


def exp_prior(kind_prior, q, d, base, param, variant="plain", diffuse=0):
    """dense exponential priors through the public API.  `variant`: "plain" (is_exact=True) or "diffuse" (the `*_diffuse`
    constructor with explicit standard deviations); `diffuse` trailing coefficients are appended by the constructor
    (`diffuse_derivatives`), so that the prior always has q + 1 coefficients; kind "general": `prior_exponential` with a
    user-supplied linear autonomous ODE of order q + 1 (`param` = its d x (q+1)d Jacobian)."""
    import jax.numpy as jnp
    from probdiffeq import probdiffeq as pdq

    ssm = pdq.state_space_model_dense()
    tcoeffs = [jnp.zeros((d,)) for _ in range(q + 1 - diffuse)]
    kw = {"output_scale": jnp.asarray(base), "diffuse_derivatives": diffuse}
    stds = [jnp.zeros((d,)) for _ in tcoeffs]
    if kind_prior == "ou":
        Lm = jnp.asarray(param)
        if variant == "diffuse":
            return ssm.prior_ornstein_uhlenbeck_integrated_diffuse(lambda x: Lm @ x, tcoeffs, stds, **kw)
        return ssm.prior_ornstein_uhlenbeck_integrated(lambda x: Lm @ x, tcoeffs, **kw)
    if kind_prior == "matern":
        if variant == "diffuse":
            return ssm.prior_matern_diffuse(float(param), tcoeffs, stds, **kw)
        return ssm.prior_matern(float(param), tcoeffs, **kw)
    if kind_prior == "general":
        M = jnp.asarray(param)  # d x (q+1) d

        def f(*us):
            return sum(M[:, i * d : (i + 1) * d] @ u for i, u in enumerate(us))

        if q == 0:
            ode = pdq.ode_autonomous(lambda u, /: f(u))
        elif q == 1:
            ode = pdq.ode_autonomous_order_two(lambda u, du, /: f(u, du))
        else:
            ode = pdq.ode_autonomous_order_arbitrary(f, num_tcoeffs_in_args=q + 1)
        if variant == "diffuse":
            return ssm.prior_exponential_diffuse(ode, tcoeffs, stds, **kw)
        return ssm.prior_exponential(ode, tcoeffs, **kw)
    raise ValueError(kind_prior)


def check_exp_prior(ctx, kind_prior, q, d, h, s, tag, variant=None, diffuse=None):
    import jax.numpy as jnp

    rng = ctx.rng
    base = np.array([float(2.0 ** rng.integers(-2, 3)) * float(rng.choice([1.0, 1.5])) for _ in range(d)])
    N = (q + 1) * d
    variant = gen.pick(rng, ["plain", "diffuse"], [2, 1]) if variant is None else variant
    diffuse = (int(rng.integers(1, q + 1)) if q >= 1 and rng.random() < 0.5 else 0) if diffuse is None else diffuse
    tag = dict(tag, constructor=variant, diffuse_derivatives=diffuse)
    ctx.count(f"exp.constructor={variant}")
    ctx.count(f"exp.diffuse_derivatives={'0' if diffuse == 0 else '>0'}")
    if kind_prior == "ou":
        Lm = scale_to_norm1(rand_matrix(rng, d, gen.pick(rng, ["gen", "stable", "sym"])), loguniform(rng, 0.05, 20.0)) if d > 1 else np.array([[-loguniform(rng, 0.05, 20.0) * float(rng.choice([1.0, -0.2]))]])
        prior = exp_prior("ou", q, d, base, Lm, variant, diffuse)
        drift_model = fl(Cut(ctx.drv.call("exp_drift_ou", q, d, Lm)).take(N, N))
        param = Lm.tolist()
    elif kind_prior == "general":
        # linear autonomous ODE u^(q+1) = sum_i M_i u^(i) with dyadic coefficients, handed in through the ODE constructors
        M = gen.dyadic(rng, (d, N), bits=3) * loguniform(rng, 0.05, 4.0)
        prior = exp_prior("general", q, d, base, M, variant, diffuse)
        drift_model = fl(Cut(ctx.drv.call("exp_drift_general", q, d, M)).take(N, N))
        param = M.tolist()
    else:
        ell = loguniform(rng, 0.05, 20.0)
        prior = exp_prior("matern", q, d, base, ell, variant, diffuse)
        D = q + 1
        z = float(jnp.sqrt(2 * (D - 0.5)) / ell)  # the square root stays outside the model
        drift_model = fl(Cut(ctx.drv.call("exp_drift_matern", q, d, F(z))).take(N, N))
        param = ell
    case = {"part": "exp-prior", "prior": kind_prior, "q": q, "d": d, "h": h, "output_scale": s, "base_scale": base.tolist(),
            "param": param, **tag}
    A, B = _np(prior.A), _np(prior.B)
    ctx.dev("exp.drift", rel_dev(A, drift_model), TOL_DRIFT, case=case, sig=f"prior_{kind_prior}:drift",
            what="drift matrix differs from the companion form of the stated SDE")
    disp_model = fl(Cut(ctx.drv.call("exp_dispersion", q, d, base)).take(N, d))
    ctx.dev("exp.dispersion", rel_dev(B, disp_model), TOL_DRIFT, case=case, sig=f"prior_{kind_prior}:dispersion")
    # transition over h vs reference (e^{Ah}, s^2 int_0^h e^{At} B B^T e^{A^T t} dt)
    t = prior.transition(dt=h, output_scale=jnp.asarray(s))
    den = t.preconditioner_apply()
    Ah, Bh = A * h, B * math.sqrt(h)
    E, G = c09_ref.expm_gram(Ah, Bh)
    kE, kG = kappa_hat(rng, Ah, Bh, E, G)
    # the code runs exp_gram on the preconditioned pair (A_p, B_p); its doubling count is determined there
    p = _np(t.to_observed)
    pinv = _np(t.to_latent)
    A_p = h * pinv[:, None] * A * p[None, :]
    sdbl, _ = ctx.drv.call("pl_num", 9, 64, N, A_p)
    sdbl = int(sdbl)
    tol = ref_tol(np.float64, 1.0, sdbl)
    # the preconditioned problem is the well-scaled one: compare in preconditioned coordinates (Gram metric is invariant)
    dA = rel_dev(pinv[:, None] * _np(den.A) * p[None, :], pinv[:, None] * E * p[None, :], floor=float(np.max(np.abs(pinv[:, None] * E * p[None, :]))))
    Gs = (s * s) * G
    dQ = gram_dev(gram(_np(den.noise.cholesky_flat)), Gs)
    case["s_doublings"] = sdbl
    case["kappa_hat"] = [kE, kG]
    ctx.dev("exp.transition.A/tol", dA / (tol * max(kE, 1.0)), 1.0, case=case, sig=f"prior_{kind_prior}:transition:A",
            what=f"{kind_prior} transition matrix deviates from e^(A h) by {dA:.2e} (preconditioned coordinates; tolerance {tol * max(kE, 1.0):.1e})")
    ctx.dev("exp.transition.Q/tol", dQ / (tol * max(kG, 1.0) * N), 1.0, case=case, sig=f"prior_{kind_prior}:transition:noise",
            what=f"{kind_prior} process noise deviates from s^2 int_0^h e^(At) B B^T e^(A^T t) dt by {dQ:.2e} (Gram metric; tolerance {tol * max(kG, 1.0) * N:.1e})")
    ctx.devs["exp.transition.A.abs"] = max(ctx.devs.get("exp.transition.A.abs", 0.0), dA)
    ctx.devs["exp.transition.Q.abs"] = max(ctx.devs.get("exp.transition.Q.abs", 0.0), dQ)
    # exact model of DenseExponential.transition where affordable
    if sdbl <= 2 and N <= 4:
        try:
            ans = Cut(ctx.drv.call("exp_transition", q, d, 9, 64, F(h), F(s) ** 2, A, B))
            ans.take()
            mA, mb, mQ, mtl, mto = fl(ans.take(N, N)), fl(ans.take(N)), fl(ans.take(N, N)), fl(ans.take(N)), fl(ans.take(N))
            ctx.dev("exp.model.A", norm_dev(_np(t.A), mA) / max(kE, 1.0), TOL_PIPE, case=case, sig=f"prior_{kind_prior}:transition-model:A")
            ctx.dev("exp.model.Q", gram_dev(gram(_np(t.noise.cholesky_flat)), mQ) / max(kG, 1.0), TOL_PIPE * N, case=case, sig=f"prior_{kind_prior}:transition-model:noise")
            ctx.dev("exp.model.to_latent", rel_dev(pinv, mtl), TOL_SCAL, case=case, sig=f"prior_{kind_prior}:transition-model:to_latent")
            ctx.dev("exp.model.to_observed", rel_dev(p, mto), TOL_SCAL, case=case, sig=f"prior_{kind_prior}:transition-model:to_observed")
            ctx.count("exp.transition.exact-model")
        except core.ModelError as e:
            ctx.skip("exp_transition model: " + e.ans[:40])
    # scalar closed form
    if q == 0 and d == 1:
        a = float(A[0, 0])
        sig2 = (s * float(B[0, 0])) ** 2
        eA_cf = math.exp(a * h)
        Q_cf = sig2 * (math.expm1(2 * a * h) / (2 * a)) if a != 0 else sig2 * h
        ctx.dev("exp.scalar.A", abs(float(_np(den.A)[0, 0]) - eA_cf) / eA_cf / max(1.0, abs(a * h)), TOL_SCALAR, case=case, sig=f"prior_{kind_prior}:scalar:A")
        ctx.dev("exp.scalar.Q", abs(float(_np(den.noise.cholesky_flat)[0, 0]) ** 2 - Q_cf) / Q_cf / max(1.0, abs(a * h)), TOL_SCALAR, case=case,
                sig=f"prior_{kind_prior}:scalar:noise", what="scalar OU/Matern noise differs from s^2 b^2 (e^{2ah}-1)/(2a)")
        ctx.count("exp.scalar-closed-form")


def run_reference(ctx):
    rng = ctx.rng
    for q in ORDERS:
        for dtype in (np.float64, np.float32):
            for it in range(ctx.n(2, 40)):
                n = 1 if it == 1 else int(rng.integers(1, 6))
                m = int(rng.integers(1, n + 1))
                kind = ["gen", "stable", "sym", "companion", "gen"][it % 5]
                nrm = [50.0, 0.5][it] if it < 2 else loguniform(rng, 1e-3, 50.0)
                A = scale_to_norm1(rand_matrix(rng, n, kind), nrm)
                B = rng.normal(size=(n, m))
                check_expgram(ctx, q, A, B, dtype, {"kind": kind, "it": it})
                ctx.count(f"expgram.{np.dtype(dtype).name}.order{q}")
                ctx.count("expgram.norm<1" if nrm < 1 else ("expgram.norm<10" if nrm < 10 else "expgram.norm>=10"))
                ctx.case({"part": "exp_gram", "order": q, "dtype": np.dtype(dtype).name, "n": n, "m": m, "kind": kind, "norm": nrm})
    # every constructor x diffuse_derivatives in {0, 1} once per run (the wrappers differ only in what they forward)
    for kind_prior in ("ou", "matern", "general"):
        for variant in ("plain", "diffuse"):
            for diffuse in (0, 1):
                check_exp_prior(ctx, kind_prior, 2, 2 if kind_prior != "matern" else 1, 0.375, 1.5, {"it": "grid"}, variant=variant, diffuse=diffuse)
                ctx.case({"part": "exp-prior", "prior": kind_prior, "q": 2, "constructor": variant, "diffuse": diffuse})
    for it in range(ctx.n(9, 120)):
        kind_prior = ["ou", "matern", "general"][it % 3]
        if it < 3:
            q, d = 0, 1
        else:
            q = int(rng.integers(0, 4))
            d = int(rng.integers(1, 4))
            if (q + 1) * d > 8:
                d = 1
        h = loguniform(rng, 1e-3, 5.0)
        s = loguniform(rng, 1e-2, 1e2)
        check_exp_prior(ctx, kind_prior, q, d, h, s, {"it": it})
        ctx.count(f"exp.prior={kind_prior}")
        ctx.case({"part": "exp-prior", "prior": kind_prior, "q": q, "d": d, "h": h, "s": s})


# ------------------------------------------------------------------------------------------------------------------


def corpus(ctx):
    """Minimised past failure D3 (repaired upstream by d46cfd3): order-5 initialiser at a point where the z^4 terms matter."""
    check_init(ctx, 5, np.array([[0.75]]), np.array([[1.0]]), np.float64, {"corpus": "D3"})
    check_init(ctx, 5, np.array([[0.0, 1.0], [-0.5, -0.25]]), np.array([[0.0], [1.0]]), np.float64, {"corpus": "D3-2x2"})
    ctx.case({"corpus": "D3 pade_and_legendre_5.init"})
    # singular Gramian with the noise-free state listed FIRST (forced Ornstein-Uhlenbeck process: x0' = -a x0 noise-free,
    # x1' = c x0 - b x1 + sigma dW): the factor has a zero pivot on top of a non-zero column; the final sign normalisation
    # must leave that column alone (seeded change C09-s7); all orders, both precisions, with and without doublings
    for q in ORDERS:
        for dtype in (np.float64, np.float32):
            for scale in (0.25, 3.0):
                A = scale * np.array([[-0.5, 0.0], [0.75, -0.25]])
                B = math.sqrt(scale) * np.array([[0.0], [1.5]])
                check_expgram(ctx, q, A, B, dtype, {"corpus": "forced-OU, noise-free state first", "scale": scale})
    ctx.case({"corpus": "forced-OU singular Gramian"})


def run(ctx):
    import jax

    jax.config.update("jax_enable_x64", True)
    ctx.rule = (
        "(i) IWP priors via the public API for every order q=0..10, d=1..5, the three factorisations, h log-uniform in [1e-6,1e2] "
        "(end points included), output scales 1e-4..1e4, diagonal base scales 1e-3..1e3: raw transition, preconditioner_apply, "
        "t2.merge(t1) vs transition(h1+h2), scale linearity; cholesky_hilbert(n), n=1..11. (ii) init of all five Pade/Legendre orders "
        "on 1x1 inputs at 2q+5 rational points and on random 2..5-dimensional matrices (float64 and real float32), doubling "
        "counts for ||A||_1 in [1e-4,50], single doubling steps. (iii) exp_gram_cholesky for ||A||_1 up to 50, all orders, both dtypes, and "
        "OU/Matern transitions vs a 1100-bit fixed-point Van Loan reference. A case is distinct/non-trivial when its drawn numbers differ "
        "and the state has >= 2 coefficients (IWP) / is not the zero matrix."
    )
    ctx.assumptions += [
        "h > 0 (the property's quantifier; the code's |dt| and signed preconditioner only matter for negative dt)",
        "Gram matrices compared in the metric |dC_ij|/sqrt(C_ii C_jj) (IWP) resp. normwise (exp_gram on unpreconditioned inputs)",
        "(iii) uses a high-precision numerical reference, not the exact model: tolerance 100 * eps * max(kappa_hat,1) * 4 (2^s+1) with a "
        "finite-difference condition estimate kappa_hat and the doubling count s (observed error growth ~0.6 * 2^s * eps)",
        "doubling counts are compared only when ||A||_1/eta is not within rounding (1e-9 / 1e-4 relative) of a power of two",
        "float32 runs are made with jax_enable_x64 switched off (with x64 on, exp_gram silently promotes float32 inputs to float64 "
        "through the float64 scalar log2((n-1)/q); observed, not counted against the property)",
    ]
    ctx.extra["oracles"] = {
        "(i),(ii)": "exact rational model executed by pdqdrv (theorems of Pdq/Props/C09.lean, ExpC09.lean)",
        "(iii)": "WEAKER ORACLE: 1100-bit fixed-point scaling-and-squaring Taylor evaluation of Van Loan's block exponential (harness/checks/c09_ref.py)",
    }
    import time

    walls = {}
    for name, part in (("corpus", corpus), ("iwp", run_iwp), ("init", run_init), ("reference", run_reference)):
        t0 = time.time()
        part(ctx)
        walls[name] = round(time.time() - t0, 1)
    ctx.extra["wall_by_part_s"] = walls
