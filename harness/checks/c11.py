"""C11 — Jet-lifting and constraint constructors differentiate constraints exactly.

Correspondence: polynomial right-hand sides / residuals are generated as `Expr` trees (`harness/exprs.py`),
compiled to JAX functions for the real constructors (`probdiffeq.ode*`, `residual_*`, `jet_lift`,
`jet_lift_max`, `residual_from_ode`, `residual_from_stack`, `ssm.constraint_ode_ts0/ts1/residual` for the three
factorisations, Jacobian handler `jacobian_materialize`) and serialised to the Lean driver
(`Pdq/Model/Linearize.lean`).  Compared:

* `ode.jet_lift(m).vector_field`, `residual.jet_lift(m).residual_function` on arbitrary coefficients, flat and
  nested pytrees, admissible and inadmissible `lift_by` (ValueError <-> model `none`), output-index bookkeeping;
* `residual_from_ode`, `residual_from_stack` values;
* `constraint.linearize(rv, state, damp, t)`: linear operator (full / per-dimension / trace-averaged Jacobian),
  offset `b = r(xi) - H xi`, observation noise `damp^2 I`, at the linearisation point `rv.mean`.
"""

from __future__ import annotations

import time
from fractions import Fraction

import numpy as np

from harness import core, exprs, gen
from harness.checks import c10 as jetcheck
from harness.core import F, Cut
from harness.exprs import C, T, V, add, mul, neg

PROPS_MODULES = ["Pdq.Props.C11", "Pdq.Props.C10"]
LEVEL = "proof"

TOL = 1e-11  # relative to the majorant scale; clean tree <= ~1e-14

EXPLANATION = (
    "lift_spec / lift_range / ode_lift_indices / residual_from_ode_spec / stack_spec / linearize_*_{jac,value} / "
    "ts1_eq_residual are theorems about the definitions the driver executes; pd_is_partial_derivative and "
    "D_is_time_derivative give the model's derivatives their meaning; the real code is compared with the exact "
    "rationals of the model on every generated case."
)


def fl(a):
    a = np.asarray(a, dtype=object)
    return np.array([float(x) for x in a.reshape(-1)], dtype=np.float64).reshape(a.shape)


def spec_res(K, m, es):
    return f"res {K} {m} {len(es)} {exprs.tokens_list(es)}"


def spec_ode(K, m, es):
    return f"ode {K} {m} {exprs.tokens_list(es)}"


def spec_stack(specs):
    return f"stack {len(specs)} " + " ".join(specs)


def maj(es):
    return [exprs.majorant(e) for e in es]


def maj_ode(es):
    """for `ode` specs (u^(idx) - f): replacing f by -|f| gives u + |f|, a majorant with positive terms only
    (D and pd are linear, so the sign passes through every derivative)"""
    return [neg(exprs.majorant(e)) for e in es]


def cmp(ctx, quantity, sig, impl, exact, scale, case, tol=TOL):
    impl = np.asarray(impl, dtype=np.float64)
    exact_f = fl(exact)
    if impl.shape != exact_f.shape:
        ctx.violation(sig + ":shape", f"{quantity}: implementation shape {impl.shape}, model shape {exact_f.shape}", case)
        return False
    if not np.all(np.isfinite(impl)):
        ctx.violation(sig, f"{quantity}: implementation returned non-finite values", case)
        return False
    scale = np.maximum(np.asarray(scale, dtype=np.float64), np.finfo(float).tiny)
    dev = float(np.max(np.abs(impl - exact_f) / scale)) if impl.size else 0.0
    return ctx.dev(
        quantity,
        dev,
        tol,
        case=case,
        sig=sig,
        what=f"{quantity}: deviation {dev:.3e} relative to the majorant scale > {tol:.0e}; implementation "
        f"{impl.tolist()}, exact model {exact_f.tolist()}",
    )


def call_impl(ctx, sig, case, fn):
    """Run a piece of the real code on an input that the property says is valid; an exception is a violation."""
    import warnings

    try:
        with warnings.catch_warnings():
            warnings.simplefilter("ignore")
            return True, fn()
    except Exception as e:  # noqa: BLE001
        ctx.violation(sig + ":raised", f"valid input rejected / crashed: {type(e).__name__}: {str(e)[:300]}", case)
        return False, None


# ------------------------------------------------------------------------------------------------
# constructors of the real objects


def jm():
    from probdiffeq import probdiffeq

    return probdiffeq.jacobian_materialize()


def make_residual(es, K, d, kind="flat"):
    """residual_position / velocity / acceleration with outputs `es` (any number of outputs)"""
    import jax.numpy as jnp
    from jax.flatten_util import ravel_pytree
    from probdiffeq import probdiffeq

    fns = [exprs.compile_expr(e) for e in es]

    def flat(us, t):
        return jnp.stack([jnp.asarray(fn(us, t), dtype=jnp.float64) for fn in fns])

    def wrap(*us, t):
        if kind == "flat":
            return flat(list(us), t)
        return flat([ravel_pytree(u)[0] for u in us], t)

    if K == 1:
        return probdiffeq.residual_position(lambda u, /, *, t: wrap(u, t=t), jacobian=jm())
    if K == 2:
        return probdiffeq.residual_velocity(lambda u, du, /, *, t: wrap(u, du, t=t), jacobian=jm())
    return probdiffeq.residual_acceleration(lambda u, du, ddu, /, *, t: wrap(u, du, ddu, t=t), jacobian=jm())


def make_ode(es, K, d, kind="flat"):
    import jax.numpy as jnp
    from jax.flatten_util import ravel_pytree
    from probdiffeq import probdiffeq

    fns = [exprs.compile_expr(e) for e in es]

    def flat(us, t):
        return jnp.stack([jnp.asarray(fn(us, t), dtype=jnp.float64) for fn in fns])

    if kind == "flat":

        def wrap(*us, t):
            return flat(list(us), t)
    else:
        _, unravel = ravel_pytree(jetcheck.to_tree(kind, np.zeros(d)))

        def wrap(*us, t):
            return unravel(flat([ravel_pytree(u)[0] for u in us], t))

    if K == 1:
        return probdiffeq.ode(lambda u, /, *, t: wrap(u, t=t), jacobian=jm())
    if K == 2:
        return probdiffeq.ode_order_two(lambda u, du, /, *, t: wrap(u, du, t=t), jacobian=jm())
    return probdiffeq.ode_order_arbitrary(lambda *us, t: wrap(*us, t=t), num_tcoeffs_in_args=K, jacobian=jm())


def flat_outputs(out):
    from jax.flatten_util import ravel_pytree

    return np.concatenate([np.asarray(ravel_pytree(x)[0], dtype=np.float64).reshape(-1) for x in out]) if len(out) else np.zeros(0)


# ------------------------------------------------------------------------------------------------
# lifting


def check_lift(ctx, what, K, d, es, coords, t, lift_by, kind):
    """what in {'ode', 'residual'}: jet_lift(lift_by) then call on `coords` (L x d)."""
    import jax.numpy as jnp

    L = coords.shape[0]
    case = {
        "check": f"{what}.jet_lift",
        "K": K,
        "d": d,
        "lift_by": lift_by,
        "t": t,
        "coords": coords.tolist(),
        "exprs": [exprs.tokens(e) for e in es],
        "pytree": kind,
    }
    ctx.case(case)
    ctx.count(f"lift:{what}")
    ctx.count(f"lift:K={K}")
    ans = ctx.drv.call_raw("lin_lift", K, d, str(int(lift_by)), L, F(t), exprs.frac_list(coords), len(es), exprs.tokens_list(es))
    admissible = ans[0] == "some"
    ctx.count("lift:admissible" if admissible else "lift:inadmissible")
    if admissible != (0 <= lift_by <= L - K):
        raise core.HarnessError("model lift range disagrees with C11.lift_range")
    jc = [jetcheck.to_tree(kind, jnp.asarray(coords[k])) for k in range(L)]
    if what == "ode":
        obj = make_ode(es, K, d, kind)
        lifted = obj.jet_lift(lift_by=lift_by)
        fun = lifted.vector_field
        # bookkeeping: output indices and number of inputs
        if lift_by >= 0:
            idx_model = [int(x) for x in ctx.drv.call_raw("lin_lift_indices", K, lift_by)]
            if list(lifted.tcoeff_indices_output) != idx_model:
                ctx.violation(
                    "ode.jet_lift:indices",
                    f"tcoeff_indices_output = {list(lifted.tcoeff_indices_output)}, model {idx_model}",
                    case,
                    theorem="Pdq.C11.ode_lift_indices",
                )
            if lifted.num_tcoeffs_in_args != K + lift_by:
                ctx.violation("ode.jet_lift:num_args", f"num_tcoeffs_in_args = {lifted.num_tcoeffs_in_args}, expected {K + lift_by}", case)
    else:
        obj = make_residual(es, K, d, kind)
        lifted = obj.jet_lift(lift_by=lift_by)
        fun = lifted.residual_function
        if lift_by >= 0 and lifted.num_tcoeffs_in_args != K + lift_by:
            ctx.violation("residual.jet_lift:num_args", f"num_tcoeffs_in_args = {lifted.num_tcoeffs_in_args}, expected {K + lift_by}", case)
    try:
        out = fun(jet_coords=jc, t=t)
        raised = None
    except ValueError as e:
        raised = e
    if admissible and raised is not None:
        ctx.violation(f"{what}.jet_lift:range", f"admissible lift_by={lift_by} (len={L}, K={K}) rejected: {raised}", case, theorem="Pdq.C11.lift_range")
        return
    if not admissible:
        if raised is None:
            ctx.violation(f"{what}.jet_lift:range", f"inadmissible lift_by={lift_by} (len={L}, K={K}) accepted", case, theorem="Pdq.C11.lift_range")
        return
    exact = np.array([Fraction(x) for x in ans[1:]], dtype=object)
    if len(out) != lift_by + 1:
        ctx.violation(f"{what}.jet_lift:len", f"{len(out)} outputs for lift_by={lift_by}", case)
        return
    impl = flat_outputs(out)
    # majorant: the same lift of the |program| on |coords|
    mans = ctx.drv.call_raw("lin_lift", K, d, str(int(lift_by)), L, F(abs(t)), exprs.frac_list(np.abs(coords)), len(es), exprs.tokens_list(maj(es)))
    scale = fl([Fraction(x) for x in mans[1:]])
    cmp(ctx, f"{what}.jet_lift.values", f"{what}.jet_lift:values", impl, exact, scale, case)
    # the symbolic form [g, Dg, ...] agrees with the transcription (C11.lift_spec) — model-internal
    sym = ctx.drv.call("lin_lift_exprs", K, d, lift_by, L, F(t), exprs.frac_list(coords), len(es), exprs.tokens_list(es))
    if [Fraction(x) for x in sym] != list(exact):
        raise core.HarnessError(f"driver: lift != liftExprs on {case}")


def check_lift_max(ctx, K, d, es, n):
    """jet_lift_max(num_tcoeffs=n): lift_by = n - idx - 1 (ODE), n - K (residual)."""
    ode = make_ode(es, K, d)
    res = make_residual(es, K, d)
    a, b = (int(x) for x in ctx.drv.call_raw("lin_lift_max", n, K, K))
    case = {"check": "jet_lift_max", "K": K, "num_tcoeffs": n}
    ctx.case(case)
    ctx.count("lift_max")
    lo = ode.jet_lift_max(num_tcoeffs=n)
    lr = res.jet_lift_max(num_tcoeffs=n)
    if lo.num_tcoeffs_in_args != K + a or list(lo.tcoeff_indices_output) != [K + j for j in range(a + 1)]:
        ctx.violation("ode.jet_lift_max", f"K={K}, num_tcoeffs={n}: got num_args {lo.num_tcoeffs_in_args}, outputs {lo.tcoeff_indices_output}; model lift_by={a}", case)
    if lr.num_tcoeffs_in_args != K + b:
        ctx.violation("residual.jet_lift_max", f"K={K}, num_tcoeffs={n}: got num_args {lr.num_tcoeffs_in_args}; model lift_by={b}", case)


def check_lift_max_inadmissible(ctx, K, d, es, n):
    """jet_lift_max with too few coefficients for the ODE (num_tcoeffs <= order: lift_by would be negative): rejected with a
    ValueError, at construction or at the first evaluation - never a silently usable constraint (seeded change C11-s11)"""
    import jax.numpy as jnp

    ode = make_ode(es, K, d)
    case = {"check": "jet_lift_max:inadmissible", "K": K, "num_tcoeffs": n}
    ctx.case(case)
    ctx.count("lift_max:inadmissible")
    try:
        lo = ode.jet_lift_max(num_tcoeffs=n)
        lo.vector_field(jet_coords=[jnp.full((d,), 0.25 * (i + 1)) for i in range(n)], t=0.5)
    except ValueError:
        return
    except Exception as e:  # noqa: BLE001
        ctx.violation("ode.jet_lift_max:inadmissible", f"K={K}, num_tcoeffs={n}: raised {type(e).__name__} instead of ValueError", case)
        return
    ctx.violation("ode.jet_lift_max:inadmissible", f"K={K}, num_tcoeffs={n} (fewer coefficients than the ODE needs) was accepted and evaluated", case, theorem="Pdq.C11.lift_range")


# ------------------------------------------------------------------------------------------------
# constraint constructors: values


def check_constructor_values(ctx, d):
    """residual_from_ode (plain and lifted) and residual_from_stack of (lifted) parts, evaluated."""
    import jax.numpy as jnp
    from probdiffeq import probdiffeq

    rng = ctx.rng
    K1, K2 = int(rng.choice([1, 2])), int(rng.choice([1, 2, 3]))
    m1, m2 = int(rng.choice([0, 1, 2])), int(rng.choice([0, 1]))
    td = bool(rng.random() < 0.7)
    f = exprs.gen_field(rng, K1, d, time_dep=td, max_deg=2)
    g = [exprs.gen_poly(rng, K2, d, time_dep=td, max_deg=2) for _ in range(int(rng.choice([1, 2, 3])))]
    n = max(K1 + m1 + 1, K2 + m2) + int(rng.choice([0, 1]))
    xi = exprs.small_rationals(rng, (n, d))
    t = float(exprs.small_rationals(rng, (), scale=1))
    ode = make_ode(f, K1, d)
    if m1 > 0:
        ode = ode.jet_lift(lift_by=m1)
    ok, r1 = call_impl(ctx, "residual_from_ode", {"K": K1, "lift_by": m1}, lambda: probdiffeq.residual_from_ode(ode))
    if not ok:
        return
    r2 = make_residual(g, K2, d)
    if m2 > 0:
        r2 = r2.jet_lift(lift_by=m2)
    stack = probdiffeq.residual_from_stack(r1, r2)
    jc = [jnp.asarray(xi[k]) for k in range(n)]
    for name, obj, spec in [
        ("residual_from_ode", r1, spec_ode(K1, m1, f)),
        ("residual_from_stack", stack, spec_stack([spec_ode(K1, m1, f), spec_res(K2, m2, g)])),
    ]:
        case = {"check": name, "d": d, "K_ode": K1, "lift_ode": m1, "K_res": K2, "lift_res": m2, "t": t, "coords": xi.tolist(), "spec": spec}
        ctx.case(case)
        ctx.count(name)
        ans = ctx.drv.call("lin_eval", n, d, F(t), exprs.frac_list(xi), spec)
        order, exact = int(ans[0]), np.array(ans[1:], dtype=object)
        if obj.num_tcoeffs_in_args != order:
            ctx.violation(f"{name}:num_args", f"num_tcoeffs_in_args = {obj.num_tcoeffs_in_args}, model {order}", case)
            continue
        ok, out = call_impl(ctx, name, case, lambda: obj.residual_function(jet_coords=jc[:order], t=t))
        if not ok:
            continue
        impl = flat_outputs(_flatten_nested(out))
        mspec = spec_ode(K1, m1, maj_ode(f)) if name == "residual_from_ode" else spec_stack([spec_ode(K1, m1, maj_ode(f)), spec_res(K2, m2, maj(g))])
        mans = ctx.drv.call("lin_eval", n, d, F(abs(t)), exprs.frac_list(np.abs(xi)), mspec)
        scale = fl(np.array(mans[1:], dtype=object))
        cmp(ctx, f"{name}.values", f"{name}:values", impl, exact, scale, case)


def _flatten_nested(out):
    """residual functions return lists (of lists) of arrays"""
    res = []
    for x in out:
        if isinstance(x, (list, tuple)):
            res.extend(_flatten_nested(x))
        else:
            res.append(x)
    return res


# ------------------------------------------------------------------------------------------------
# linearisation


def make_ssm(kind):
    from probdiffeq import probdiffeq

    return {
        "dense": probdiffeq.state_space_model_dense,
        "iso": probdiffeq.state_space_model_isotropic,
        "bd": probdiffeq.state_space_model_blockdiag,
    }[kind]()


def make_rv(ctx, kind, n, d, xi):
    """Normal with mean xi (n x d, coefficient-major) and a random Cholesky factor (irrelevant for C11)."""
    import jax.numpy as jnp
    from harness.checks import c08

    tf = c08.tree_flatten_for(kind, n, d)
    _, Normal = c08.make_impl(kind)
    rng = ctx.rng
    if kind == "dense":
        return Normal(jnp.asarray(xi.reshape(-1)), jnp.asarray(gen.chol_factor(rng, n * d, "well")), tf)
    if kind == "iso":
        return Normal(jnp.asarray(xi), jnp.asarray(gen.chol_factor(rng, n, "well")), tf)
    return Normal(jnp.asarray(xi.T), jnp.asarray(np.stack([gen.chol_factor(rng, n, "well") for _ in range(d)])), tf)


def check_noise(ctx, kind, cond, damp, case, sigbase):
    """observation noise = damp^2 * I, scalings = 1 (exact comparison)"""
    L = np.asarray(cond.noise.cholesky_flat, dtype=np.float64)
    blocks = [L] if L.ndim == 2 else list(L)
    d2 = F(damp) * F(damp)
    for Lb in blocks:
        G = core.FM.gram(Lb)
        m = len(G)
        ok = all(G[i][j] == (d2 if i == j else 0) for i in range(m) for j in range(m))
        if not ok:
            ctx.violation(f"{sigbase}:noise", f"observation noise covariance is not damp^2 I (damp={damp}): {np.asarray(Lb).tolist()}", case)
            return
    if not (np.all(np.asarray(cond.to_latent) == 1.0) and np.all(np.asarray(cond.to_observed) == 1.0)):
        ctx.violation(f"{sigbase}:scalings", "to_latent / to_observed of a linearisation are not 1", case)


def compare_linearisation(ctx, kind, cond, n, d, t, xi, spec, mspec, case, sigbase):
    """cond.A / cond.noise.mean_flat vs lin_dense / lin_iso / lin_bd of the program spec."""
    A = np.asarray(cond.A, dtype=np.float64)
    b = np.asarray(cond.noise.mean_flat, dtype=np.float64)
    args = (n, d, F(t), exprs.frac_list(xi), spec)
    margs = (n, d, F(abs(t)), exprs.frac_list(np.abs(xi)), mspec)
    xabs = np.abs(xi)
    if kind == "dense":
        M = A.shape[0]
        ans, mans = Cut(ctx.drv.call("lin_dense", *args)), Cut(ctx.drv.call("lin_dense", *margs))
        if len(ans.xs) != M * n * d + M:
            ctx.violation(f"{sigbase}:shape", f"A has shape {A.shape}, model has {len(ans.xs)} entries for n*d={n*d}", case)
            return
        J, bb = ans.take(M, n * d), ans.take(M)
        Jm = fl(mans.take(M, n * d))
        rm = _values_majorant(ctx, margs, M)
        cmp(ctx, f"linearize.{kind}.A", f"{sigbase}:A", A, J, np.maximum(Jm, 0.0), case)
        cmp(ctx, f"linearize.{kind}.b", f"{sigbase}:b", b, bb, rm + Jm @ xabs.reshape(-1), case)
    elif kind == "iso":
        m = A.shape[0]
        ans, mans = Cut(ctx.drv.call("lin_iso", *args)), Cut(ctx.drv.call("lin_iso", *margs))
        if len(ans.xs) != m * n + m * d:
            ctx.violation(f"{sigbase}:shape", f"A has shape {A.shape}, model has {len(ans.xs)} entries", case)
            return
        H, B = ans.take(m, n), ans.take(m, d)
        Hm = fl(mans.take(m, n))
        rm = _values_majorant(ctx, margs, m * d).reshape(m, d)
        cmp(ctx, f"linearize.{kind}.A", f"{sigbase}:A", A, H, Hm, case)
        cmp(ctx, f"linearize.{kind}.b", f"{sigbase}:b", b, B, rm + Hm @ xabs, case)
    else:
        dd, m, _ = A.shape
        ans, mans = Cut(ctx.drv.call("lin_bd", *args)), Cut(ctx.drv.call("lin_bd", *margs))
        if dd != d or len(ans.xs) != d * (m * n + m):
            ctx.violation(f"{sigbase}:shape", f"A has shape {A.shape}, model has {len(ans.xs)} entries", case)
            return
        rm = _values_majorant(ctx, margs, m * d).reshape(m, d)
        Js, bs, Jms = [], [], []
        for j in range(d):
            Js.append(ans.take(m, n))
            bs.append(ans.take(m))
            Jms.append(fl(mans.take(m, n)))
            mans.take(m)
        Jm = np.stack(Jms)
        cmp(ctx, f"linearize.{kind}.A", f"{sigbase}:A", A, np.stack(Js), Jm, case)
        bscale = np.stack([rm[:, j] + Jm[j] @ xabs[:, j] for j in range(d)])
        cmp(ctx, f"linearize.{kind}.b", f"{sigbase}:b", b, np.stack(bs), bscale, case)


def _values_majorant(ctx, margs, M):
    ans = ctx.drv.call("lin_eval", *margs)
    n, d, _, xabs, _ = margs
    return fl(np.array(ans[1:], dtype=object))


def check_linearize(ctx, kind, ctype):
    """ctype in {'ts0', 'ts1', 'residual', 'stack'}."""
    rng = ctx.rng
    ssm = make_ssm(kind)
    d = int(rng.choice([1, 2, 3]))
    K = int(rng.choice([1, 2])) if ctype in ("ts0", "ts1") else int(rng.choice([1, 2, 3]))
    m = int(rng.choice([0, 0, 1, 2]))
    td = bool(rng.random() < 0.7)
    t = float(exprs.small_rationals(rng, (), scale=1))
    damp = float(rng.choice([0.0, 0.0, 0.25, 1e-3, 3.0]))
    if ctype in ("ts0", "ts1"):
        es = exprs.gen_field(rng, K, d, time_dep=td, max_deg=3)
        need = K + m + 1
    elif ctype == "residual":
        nout = d if kind != "dense" else int(rng.choice([1, 2, 3]))
        es = [exprs.gen_poly(rng, K, d, time_dep=td, max_deg=3) for _ in range(nout)]
        need = K + m
    else:
        es = exprs.gen_field(rng, K, d, time_dep=td, max_deg=2)
        K2 = int(rng.choice([1, 2]))
        nout2 = d if kind != "dense" else int(rng.choice([1, 2]))
        gs = [exprs.gen_poly(rng, K2, d, time_dep=td, max_deg=2) for _ in range(nout2)]
        m2 = int(rng.choice([0, 1]))
        need = max(K + m + 1, K2 + m2)
    n = need + int(rng.choice([0, 0, 1, 2]))
    xi = exprs.small_rationals(rng, (n, d))
    rv = make_rv(ctx, kind, n, d, xi)
    case = {
        "check": f"linearize:{ctype}",
        "factorisation": kind,
        "n": n,
        "d": d,
        "K": K,
        "lift_by": m,
        "t": t,
        "damp": damp,
        "mean": xi.tolist(),
        "exprs": [exprs.tokens(e) for e in es],
    }
    sigbase = f"{kind}:{ctype}"
    ctx.count(f"linearize:{kind}:{ctype}")
    ctx.count(f"linearize:lift={m}")
    ctx.count(f"linearize:damp={'0' if damp == 0 else '>0'}")
    if ctype == "ts0":
        ode = make_ode(es, K, d)
        if m > 0:
            ode = ode.jet_lift(lift_by=m)
        c = ssm.constraint_ode_ts0(ode)
        ctx.case(case)
        ok, res = call_impl(ctx, sigbase, case, lambda: c.linearize(rv, c.init_linearization(), damp=damp, t=t))
        if not ok:
            return
        cond, _ = res
        idxs = [K + j for j in range(m + 1)]
        fv = ctx.drv.call("lin_lift_exprs", K, d, m, n, F(t), exprs.frac_list(xi), len(es), exprs.tokens_list(es))
        fvm = ctx.drv.call("lin_lift_exprs", K, d, m, n, F(abs(t)), exprs.frac_list(np.abs(xi)), len(es), exprs.tokens_list(maj(es)))
        p = m + 1
        ans = Cut(ctx.drv.call("lin_ts0", n, d, p, *idxs, fv))
        Hd, bd_, Hi, Bi = ans.take(p * d, n * d), ans.take(p * d), ans.take(p, n), ans.take(p, d)
        A = np.asarray(cond.A, dtype=np.float64)
        b = np.asarray(cond.noise.mean_flat, dtype=np.float64)
        sc = fl(np.array(fvm, dtype=object))
        if kind == "dense":
            ok = A.shape == (p * d, n * d) and np.array_equal(A, fl(Hd))
            bexact, bscale = bd_, sc
        elif kind == "iso":
            ok = A.shape == (p, n) and np.array_equal(A, fl(Hi))
            bexact, bscale = Bi, sc.reshape(p, d)
        else:
            ok = A.shape == (d, p, n) and all(np.array_equal(A[j], fl(Hi)) for j in range(d))
            bexact, bscale = np.asarray(Bi, dtype=object).T, sc.reshape(p, d).T
        if not ok:
            ctx.violation(f"{sigbase}:A", f"TS0 linear operator is not the selector of the outputs {idxs}: {A.tolist()}", case, theorem="Pdq.C11.ts0_value")
        cmp(ctx, f"linearize.{kind}.ts0.b", f"{sigbase}:b", b, bexact, bscale, case)
        check_noise(ctx, kind, cond, damp, case, sigbase)
        return
    if ctype == "ts1":
        ode = make_ode(es, K, d)
        if m > 0:
            ode = ode.jet_lift(lift_by=m)
        c = ssm.constraint_ode_ts1(ode)
        spec, mspec = spec_ode(K, m, es), spec_ode(K, m, maj_ode(es))
    elif ctype == "residual":
        r = make_residual(es, K, d)
        if m > 0:
            r = r.jet_lift(lift_by=m)
        c = ssm.constraint_residual(r)
        spec, mspec = spec_res(K, m, es), spec_res(K, m, maj(es))
    else:
        from probdiffeq import probdiffeq

        ode = make_ode(es, K, d)
        if m > 0:
            ode = ode.jet_lift(lift_by=m)
        r1 = probdiffeq.residual_from_ode(ode)
        r2 = make_residual(gs, K2, d)
        if m2 > 0:
            r2 = r2.jet_lift(lift_by=m2)
        c = ssm.constraint_residual(probdiffeq.residual_from_stack(r1, r2))
        spec = spec_stack([spec_ode(K, m, es), spec_res(K2, m2, gs)])
        mspec = spec_stack([spec_ode(K, m, maj_ode(es)), spec_res(K2, m2, maj(gs))])
        case["exprs2"] = [exprs.tokens(e) for e in gs]
        case["K2"], case["lift2"] = K2, m2
    case["spec"] = spec
    ctx.case(case)
    ok, res = call_impl(ctx, sigbase, case, lambda: c.linearize(rv, c.init_linearization(), damp=damp, t=t))
    if not ok:
        return
    cond, _ = res
    compare_linearisation(ctx, kind, cond, n, d, t, xi, spec, mspec, case, sigbase)
    check_noise(ctx, kind, cond, damp, case, sigbase)


def check_linearize_inadmissible(ctx, kind):
    """a residual lifted further than the state supports must raise ValueError at linearisation time"""
    rng = ctx.rng
    ssm = make_ssm(kind)
    d, K = int(rng.choice([1, 2])), int(rng.choice([1, 2]))
    es = [exprs.gen_poly(rng, K, d, time_dep=True, max_deg=2) for _ in range(d)]
    n = K + int(rng.choice([0, 1, 2]))
    m = n - K + 1 + int(rng.choice([0, 1]))
    xi = exprs.small_rationals(rng, (n, d))
    rv = make_rv(ctx, kind, n, d, xi)
    case = {"check": "linearize:inadmissible", "factorisation": kind, "n": n, "K": K, "lift_by": m, "d": d}
    ctx.case(case)
    ctx.count("linearize:inadmissible")
    c = ssm.constraint_residual(make_residual(es, K, d).jet_lift(lift_by=m))
    try:
        c.linearize(rv, c.init_linearization(), damp=0.0, t=0.5)
    except ValueError:
        return
    except Exception as e:  # noqa: BLE001
        ctx.violation(f"{kind}:linearize:inadmissible", f"lift_by={m} with n={n}, K={K}: raised {type(e).__name__} instead of ValueError", case)
        return
    ctx.violation(f"{kind}:linearize:inadmissible", f"lift_by={m} with n={n}, K={K} was accepted", case, theorem="Pdq.C11.lift_range")


# ------------------------------------------------------------------------------------------------


def check_ts1_taylor_point(ctx):
    """`constraint_ode_ts1(ode, taylor_point=tp)` must be identical to `constraint_residual(residual_from_ode(ode), taylor_point=tp)`
    (C11: "the first-order-linearised ODE constraint is identical to the residual constraint"), also for a non-default
    linearisation point (dense model; maximum-a-posteriori Taylor point; nonlinear field; mean that violates the ODE)."""
    import jax.numpy as jnp
    from probdiffeq import probdiffeq as pdq
    from probdiffeq._probdiffeq import problems

    rng = ctx.rng
    d = int(rng.choice([1, 2]))
    a, b_ = float(rng.choice([0.5, 1.0, -0.75])), float(rng.choice([0.25, 1.0]))
    vf = pdq.ode(lambda u, /, *, t: a * u * u + b_ * t + 0.125 * jnp.flip(u), jacobian=pdq.jacobian_materialize())
    ssm = pdq.state_space_model_dense()
    tp = pdq.taylor_point_maximum_a_posteriori()
    c1 = ssm.constraint_ode_ts1(vf, taylor_point=tp)
    c2 = ssm.constraint_residual(problems.residual_from_ode(vf), taylor_point=tp)
    c0 = ssm.constraint_ode_ts1(vf)
    n = 3
    mean = [jnp.asarray(exprs.small_rationals(rng, (d,)), dtype=float) for _ in range(n)]
    std = [jnp.asarray(np.abs(exprs.small_rationals(rng, (d,))) + 0.25, dtype=float) for _ in range(n)]
    from probdiffeq._probdiffeq import ssm_impl_dense as D

    rv = D.DenseNormal.from_mean_and_std(mean, std)
    t = jnp.asarray(float(exprs.small_rationals(rng, (), scale=1)))
    case = {"check": "ts1-with-taylor-point", "d": d, "a": a, "b": b_, "mean": [np.asarray(m).tolist() for m in mean], "std": [np.asarray(x).tolist() for x in std], "t": float(t)}
    out = []
    for c in (c1, c2, c0):
        cond, _ = c.linearize(rv, c.init_linearization(), damp=0.0, t=t)
        out.append((np.asarray(cond.A), np.asarray(cond.noise.mean_flat)))
    dA = float(np.max(np.abs(out[0][0] - out[1][0])))
    db = float(np.max(np.abs(out[0][1] - out[1][1])))
    ctx.dev("ts1(taylor_point) vs residual(taylor_point)", max(dA, db), 1e-11, case=case, sig="dense:ts1:taylor_point-ignored",
            what=f"constraint_ode_ts1(ode, taylor_point=MAP) differs from constraint_residual(residual_from_ode(ode), taylor_point=MAP): dA={dA:.2e}, db={db:.2e}")
    nontrivial = float(np.max(np.abs(out[0][0] - out[2][0]))) > 1e-6
    ctx.count(f"ts1-taylor-point nontrivial={nontrivial}")
    ctx.case(case, nontrivial=nontrivial)


def corpus(ctx):
    """fixed cases: the worked example of Props/C11.lean (values asserted there by `decide +kernel`)"""
    es = [add(mul(V(0, 0), V(1, 1)), T), add(mul(V(0, 1), V(0, 1)), neg(mul(V(1, 0), T)))]
    coords = np.array([[1.0, 2.0], [3.0, 4.0], [5.0, 6.0], [7.0, 8.0]])
    for lb in (-1, 0, 1, 2, 3):
        check_lift(ctx, "residual", 2, 2, es, coords, 0.5, lb, "flat")
        check_lift(ctx, "ode", 2, 2, es, coords, 0.5, lb, "dict")
    # first-order, time-dependent, scalar: lift of f = t*u + t^2 (the D4 witness) is right in problems.py
    check_lift(ctx, "ode", 1, 1, [jetcheck.WITNESS], np.array([[1.0], [0.75], [2.375], [4.6875]]), 0.5, 3, "flat")


def run(ctx):
    import jax

    jax.config.update("jax_enable_x64", True)
    ctx.rule = (
        "jet_lift / jet_lift_max / residual_from_ode / residual_from_stack / linearize (TS0, TS1, residual, stacked; "
        "dense, isotropic, block-diagonal) on generated polynomial programs vs the exact rationals of the Lean model"
    )
    ctx.assumptions = [
        "right-hand sides / residuals are polynomial programs (Expr); jax.experimental.jet and jax.jacfwd are exact up to rounding",
        "Jacobian handler jacobian_materialize (the stochastic handlers are property C17)",
        "linearisation point = rv.mean (taylor_point_prior); the Cholesky factor of rv is irrelevant and random",
        "tolerance 1e-11 relative to the majorant scale",
    ]
    corpus(ctx)
    rng = ctx.rng
    t_start = time.time()
    budget = 60 if ctx.quick else 600

    # lifting
    for i in range(ctx.n(45, 1200)):
        if time.time() - t_start > budget * 0.4:
            ctx.notes.append(f"lift loop stopped after {i} cases (time budget)")
            break
        what = "ode" if rng.random() < 0.5 else "residual"
        K = int(rng.choice([1, 2] if what == "ode" else [1, 2, 3]))
        d = int(rng.choice([1, 2, 3]))
        td = bool(rng.random() < 0.75)
        nout = d if what == "ode" else int(rng.choice([1, 2, 3]))
        es = [exprs.gen_poly(rng, K, d, time_dep=td, max_deg=3) for _ in range(nout)]
        L = K + int(rng.choice([0, 1, 2, 3, 4, 5]))
        r = rng.random()
        if r < 0.70:
            lift_by = int(rng.integers(0, L - K + 1))
        elif r < 0.85:
            lift_by = L - K + int(rng.choice([1, 1, 2]))  # just above the admissible range
        elif r < 0.95:
            lift_by = -int(rng.choice([1, 1, 2]))
        else:
            lift_by = L - K  # the largest admissible lift
        coords = exprs.small_rationals(rng, (L, d))
        t = float(exprs.small_rationals(rng, (), scale=1))
        kinds = jetcheck.tree_kinds(d)
        kind = kinds[int(rng.integers(len(kinds)))]
        check_lift(ctx, what, K, d, es, coords, t, lift_by, kind)
    for i in range(ctx.n(3, 20)):
        K = int(rng.choice([1, 2]))
        check_lift_max(ctx, K, 2, exprs.gen_field(rng, K, 2, time_dep=True, max_deg=2), K + 1 + int(rng.integers(0, 4)))
        check_lift_max_inadmissible(ctx, K, 2, exprs.gen_field(rng, K, 2, time_dep=True, max_deg=2), int(rng.integers(1, K + 1)))

    for i in range(ctx.n(3, 30)):
        check_ts1_taylor_point(ctx)

    # constructors
    for i in range(ctx.n(10, 200)):
        check_constructor_values(ctx, int(rng.choice([1, 2, 3])))

    # linearisation
    combos = [(k, c) for k in ("dense", "iso", "bd") for c in ("ts0", "ts1", "residual", "stack")]
    reps = ctx.n(5, 110)
    for rep in range(reps):
        for kind, ctype in combos:
            if time.time() - t_start > budget:
                ctx.notes.append("linearisation loop stopped (time budget)")
                break
            if ctype == "stack" and kind != "dense":
                # the (n, d) / (d, n) layouts flatten a nested list of outputs per *part*; stacked residuals are a
                # dense-only feature of the code (tests/test_constraints use them with the dense model only)
                ctx.skip("stacked residuals with isotropic / block-diagonal models (nested output lists unsupported)")
                continue
            check_linearize(ctx, kind, ctype)
    for kind in ("dense", "iso", "bd"):
        for _ in range(ctx.n(1, 4)):
            check_linearize_inadmissible(ctx, kind)
