"""Polynomial jet programs (`Pdq.Model.Expr`) on the Python side — shared by the checks C10 and C11.

One tree, two back ends:

* `tokens(e)`  — the compact prefix syntax of the driver's line protocol
  (`c <rat>` | `v <k> <i>` | `t` | `+ e e` | `* e e` | `~ e`),
* `compile_expr(e)` — a Python/JAX function `(us, t) -> scalar`, `us[k][i]` the flat jet coordinates.

Coefficients are stored as *floats* (the implementation's own constants); the model receives their exact
dyadic value, so the model answer is the exact real-arithmetic answer for the implementation's program.
"""

from __future__ import annotations

from fractions import Fraction

import numpy as np

from harness.core import F, fs

# expression constructors -----------------------------------------------------------------------


def C(x):
    return ("c", float(x))


def V(k, i):
    return ("v", int(k), int(i))


T = ("t",)


def add(a, b):
    return ("+", a, b)


def mul(a, b):
    return ("*", a, b)


def neg(a):
    return ("~", a)


def sub(a, b):
    return add(a, neg(b))


def sum_of(terms):
    if not terms:
        return C(0.0)
    e = terms[0]
    for x in terms[1:]:
        e = add(e, x)
    return e


def prod_of(factors):
    e = factors[0]
    for x in factors[1:]:
        e = mul(e, x)
    return e


# back ends -------------------------------------------------------------------------------------


def tokens(e) -> str:
    out = []

    def go(e):
        tag = e[0]
        if tag == "c":
            out.append("c")
            out.append(fs(F(e[1])))
        elif tag == "v":
            out.extend(["v", str(e[1]), str(e[2])])
        elif tag == "t":
            out.append("t")
        elif tag in "+*":
            out.append(tag)
            go(e[1])
            go(e[2])
        elif tag == "~":
            out.append("~")
            go(e[1])
        else:
            raise ValueError(tag)

    go(e)
    return " ".join(out)


def tokens_list(es) -> str:
    return " ".join(tokens(e) for e in es)


def compile_expr(e):
    """The same tree as a Python function of (us, t); works on floats, numpy and traced JAX values."""
    tag = e[0]
    if tag == "c":
        c = e[1]
        return lambda us, t: c
    if tag == "v":
        k, i = e[1], e[2]
        return lambda us, t: us[k][i]
    if tag == "t":
        return lambda us, t: t
    if tag == "+":
        a, b = compile_expr(e[1]), compile_expr(e[2])
        return lambda us, t: a(us, t) + b(us, t)
    if tag == "*":
        a, b = compile_expr(e[1]), compile_expr(e[2])
        return lambda us, t: a(us, t) * b(us, t)
    if tag == "~":
        a = compile_expr(e[1])
        return lambda us, t: -a(us, t)
    raise ValueError(tag)


def eval_exact(e, us, t):
    """Exact evaluation with Fractions (us[k][i], t Fractions) — used for majorants / sanity only."""
    tag = e[0]
    if tag == "c":
        return F(e[1])
    if tag == "v":
        return us[e[1]][e[2]]
    if tag == "t":
        return t
    if tag == "+":
        return eval_exact(e[1], us, t) + eval_exact(e[2], us, t)
    if tag == "*":
        return eval_exact(e[1], us, t) * eval_exact(e[2], us, t)
    return -eval_exact(e[1], us, t)


def majorant(e):
    """|coefficients|, negations dropped: evaluated at |inputs| this bounds the sum of the absolute values
    of all terms of `e` (and of all its formal derivatives, since D and pd only use + and *)."""
    tag = e[0]
    if tag == "c":
        return C(abs(e[1]))
    if tag in ("v", "t"):
        return e
    if tag in "+*":
        return (tag, majorant(e[1]), majorant(e[2]))
    return majorant(e[1])


def order(e) -> int:
    tag = e[0]
    if tag == "v":
        return e[1] + 1
    if tag in "+*":
        return max(order(e[1]), order(e[2]))
    if tag == "~":
        return order(e[1])
    return 0


def mentions_time(e) -> bool:
    tag = e[0]
    if tag == "t":
        return True
    if tag in "+*":
        return mentions_time(e[1]) or mentions_time(e[2])
    if tag == "~":
        return mentions_time(e[1])
    return False


# generators ------------------------------------------------------------------------------------

COEFFS = [0.25, 0.5, 0.75, 1.0, 1.25, 1.5, 2.0, 1.0 / 3.0, 2.0 / 3.0, 0.2, 0.1, 3.0]


def gen_poly(rng, K, d, *, time_dep, max_deg=3, nterms=None, must_use=None):
    """A random polynomial in u^(k)_i (k<K, i<d) and (if time_dep) t: sum of `nterms` monomials of total
    degree <= max_deg with small rational coefficients (as floats)."""
    variables = [V(k, i) for k in range(K) for i in range(d)]
    if time_dep:
        variables = variables + [T, T]  # t twice: more weight on explicit time dependence
    if nterms is None:
        nterms = int(rng.integers(1, 5))
    terms = []
    for j in range(nterms):
        deg = int(rng.integers(0, max_deg + 1))
        coeff = COEFFS[int(rng.integers(len(COEFFS)))] * (1 if rng.random() < 0.5 else -1)
        factors = [C(coeff)] + [variables[int(rng.integers(len(variables)))] for _ in range(deg)]
        if must_use is not None and j == 0:
            factors.append(must_use)
            if len(factors) > max_deg + 1:
                factors = factors[:1] + factors[-max_deg:]
        term = prod_of(factors)
        if rng.random() < 0.15:
            term = neg(term)
        terms.append(term)
    return sum_of(terms)


def gen_field(rng, K, d, *, time_dep, max_deg=3):
    """d polynomials; if time_dep at least one of them really mentions t."""
    es = [gen_poly(rng, K, d, time_dep=time_dep, max_deg=max_deg) for _ in range(d)]
    if time_dep and not any(mentions_time(e) for e in es):
        a = int(rng.integers(d))
        es[a] = add(es[a], mul(C(0.5), mul(T, V(int(rng.integers(K)), int(rng.integers(d))))))
    return es


def small_rationals(rng, shape, den=(1, 2, 4, 8, 3, 5), scale=2):
    """floats p/q with small q and |p/q| <= scale (q = 3, 5 give non-dyadic values)"""
    q = rng.choice(np.asarray(den), size=shape)
    p = np.rint(rng.uniform(-scale, scale, size=shape) * q)
    return np.asarray(p / q, dtype=np.float64)


def frac_list(a):
    return [Fraction(float(x)) for x in np.asarray(a, dtype=np.float64).reshape(-1)]
