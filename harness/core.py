"""Core of the correspondence harness (DESIGN §2.3/2.4).

* exact float <-> rational conversion (every float64 is a dyadic rational),
* the line-protocol client for the compiled Lean model driver ``pdqdrv``,
* Lean build / audit (theorem inventory, ``#print axioms``, forbidden-token grep),
* bookkeeping: cases, deviations, violations, known findings, evidence files.

Exit codes of a check: 0 held / only known findings, 1 violation, 2 harness error.
"""

from __future__ import annotations

import fcntl
import hashlib
import json
import math
import os
import re
import subprocess
import sys
import time
import traceback
from fractions import Fraction
from pathlib import Path

sys.set_int_max_str_digits(0)
VERIF = Path(__file__).resolve().parent.parent
LEAN = VERIF / "lean"
REPO = Path(os.environ.get("PDQ_REPO", "/repo"))
DRV = LEAN / ".lake" / "build" / "bin" / "pdqdrv"
ALLOWED_AXIOMS = {"propext", "Classical.choice", "Quot.sound"}
FORBIDDEN = re.compile(
    r"\bsorry\b|\badmit\b|^axiom\s|native_decide|bv_decide|implemented_by|\bunsafe\s|maxHeartbeats\s+0",
    re.M,
)

TRUSTED_BASE = [
    "Lean 4.33 kernel; Mathlib v4.33 definitions (Matrix, Finset.sum, PowerSeries, ...)",
    "axioms allowed in property theorems: propext, Classical.choice, Quot.sound (audited by #print axioms on every run)",
    "Lean compiler/runtime + GMP for the driver pdqdrv (evaluates the model definitions at Rat)",
    "correspondence harness (Python): generators, abstraction functions (Gram L L^T, squaring), tolerance constants",
    "modelled, not verified: IEEE-754 rounding (tolerances), LAPACK QR/SVD/LU (contract TriSpec / exact certificates), JAX tracing/jit/vmap/autodiff",
]


_RELEASES = [0]


def release_jax(every: int = 8):
    """Forget compiled executables now and then: every jitted function keeps memory mappings, and a thorough run that
    compiles thousands of configurations exhausts vm.max_map_count (LLVM: 'Unable to allocate section memory')."""
    _RELEASES[0] += 1
    if _RELEASES[0] % every == 0:
        import gc

        import jax

        jax.clear_caches()
        gc.collect()


class HarnessError(Exception):
    """Problem of the machinery (never a violation). Exit code 2."""


# ----------------------------------------------------------------------------------------------
# exact numbers


def F(x) -> Fraction:
    """Exact rational value of a Python/numpy scalar."""
    if isinstance(x, Fraction):
        return x
    if isinstance(x, int):
        return Fraction(x)
    xf = float(x)
    if not math.isfinite(xf):
        raise ValueError(f"non-finite number {xf}")
    return Fraction(xf)


def fs(q: Fraction) -> str:
    return str(q.numerator) if q.denominator == 1 else f"{q.numerator}/{q.denominator}"


def flat(a):
    """Row-major list of exact Fractions from a (nested) array-like."""
    import numpy as np

    if isinstance(a, Fraction) or isinstance(a, (int, float)):
        return [F(a)]
    if isinstance(a, (list, tuple)):
        out = []
        for x in a:
            out.extend(flat(x))
        return out
    arr = np.asarray(a)
    if arr.dtype == object:
        return [F(x) for x in arr.reshape(-1)]
    return [Fraction(float(x)) for x in arr.astype(np.float64).reshape(-1)]


def to_float_array(fr, shape):
    import numpy as np

    return np.array([float(x) for x in fr], dtype=np.float64).reshape(shape)


class FM:
    """Tiny exact matrix helper (lists of Fractions) for abstraction functions on the Python side."""

    @staticmethod
    def gram(L):
        """L (n x k, floats or Fractions) -> exact L L^T as list of lists of Fraction."""
        import numpy as np

        L = np.asarray(L)
        n, k = L.shape
        Lf = [[F(L[i, j]) for j in range(k)] for i in range(n)]
        return [[sum(Lf[i][l] * Lf[j][l] for l in range(k)) for j in range(n)] for i in range(n)]


# ----------------------------------------------------------------------------------------------
# Lean side


def _lake_lock():
    LEAN.mkdir(exist_ok=True)
    f = open(LEAN / ".lake.lock.verif", "w")
    fcntl.flock(f, fcntl.LOCK_EX)
    return f


def lean_build(targets=("Pdq", "pdqdrv")) -> tuple[bool, str]:
    """(Re)generate constants from /repo and build the Lean library and the driver."""
    from harness import gen_lean_roots, translate_consts

    lock = _lake_lock()
    try:
        translate_consts.regenerate(REPO, LEAN / "Pdq" / "Generated" / "Consts.lean")
        gen_lean_roots.main()
        p = subprocess.run(
            ["lake", "build", *targets], cwd=LEAN, capture_output=True, text=True, timeout=3000
        )
        return p.returncode == 0, (p.stdout + p.stderr)
    finally:
        lock.close()


def failed_modules(build_log: str) -> list[str]:
    mods = re.findall(r"^✖ \[\d+/\d+\] (?:Building|Built|Running) (\S+)", build_log, re.M)
    mods += re.findall(r"error: (Pdq/\S+\.lean)", build_log)
    return sorted(set(mods))


_THM = re.compile(r"^\s*(?:@\[[^\]]*\]\s*)?(?:private\s+|protected\s+)?theorem\s+([^\s:({\[]+)", re.M)
_NS = re.compile(r"^\s*(namespace|end)\s+(\S+)", re.M)


def theorem_names(lean_file: Path) -> list[str]:
    """Fully qualified theorem names declared in a Lean file (tracks `namespace`/`end`)."""
    names, stack = [], []
    text = strip_comments(lean_file.read_text())
    for line in text.splitlines():
        m = re.match(r"^\s*namespace\s+(\S+)", line)
        if m:
            stack.append(m.group(1))
            continue
        m = re.match(r"^\s*end\s+(\S+)\s*$", line)
        if m and stack and stack[-1].split(".")[-1] == m.group(1).split(".")[-1]:
            stack.pop()
            continue
        m = _THM.match(line)
        if m:
            names.append(".".join(stack + [m.group(1)]))
    return names


def strip_comments(text: str) -> str:
    # remove block comments (nested not handled beyond one level, fine for our files) and line comments
    out, i, depth = [], 0, 0
    while i < len(text):
        if text.startswith("/-", i):
            depth += 1
            i += 2
        elif text.startswith("-/", i) and depth:
            depth -= 1
            i += 2
        elif depth:
            if text[i] == "\n":
                out.append("\n")
            i += 1
        elif text.startswith("--", i):
            while i < len(text) and text[i] != "\n":
                i += 1
        else:
            out.append(text[i])
            i += 1
    return "".join(out)


def lean_audit(modules: list[str]) -> dict:
    """For the given Props modules: theorem inventory, axioms used, forbidden tokens.

    Returns dict(obligations, discharged, theorems={name: axioms}, problems=[...]).
    """
    problems, theorems = [], {}
    files = []
    for mod in modules:
        f = LEAN / (mod.replace(".", "/") + ".lean")
        if not f.exists():
            problems.append(f"missing module {mod}")
            continue
        files.append((mod, f))
    # forbidden tokens anywhere in the library (outside comments)
    for f in sorted((LEAN / "Pdq").rglob("*.lean")) + [LEAN / "Main.lean"]:
        txt = strip_comments(f.read_text())
        for m in FORBIDDEN.finditer(txt):
            problems.append(f"forbidden token {m.group(0)!r} in {f.relative_to(LEAN)}")
    names = []
    for mod, f in files:
        names += [(mod, n) for n in theorem_names(f)]
    if names:
        src = "".join(f"import {mod}\n" for mod, _ in files)
        src += "".join(f"#print axioms {n}\n" for _, n in names)
        tmp = LEAN / ".lake" / f"audit_{os.getpid()}.lean"
        tmp.parent.mkdir(exist_ok=True)
        tmp.write_text(src)
        try:
            p = subprocess.run(
                ["lake", "env", "lean", str(tmp)], cwd=LEAN, capture_output=True, text=True, timeout=1800
            )
        finally:
            tmp.unlink(missing_ok=True)
        out = p.stdout + p.stderr
        # parse: "'name' depends on axioms: [a, b]" or "'name' does not depend on any axioms"
        for m in re.finditer(r"'(\S+)' depends on axioms: \[([^\]]*)\]", out, re.S):
            theorems[m.group(1)] = [a.strip() for a in m.group(2).replace("\n", " ").split(",") if a.strip()]
        for m in re.finditer(r"'(\S+)' does not depend on any axioms", out):
            theorems[m.group(1)] = []
        for _, n in names:
            if n not in theorems:
                problems.append(f"theorem {n} not checked: {out[-400:] if p.returncode else 'no axioms line'}")
    discharged = 0
    for n, ax in theorems.items():
        bad = [a for a in ax if a not in ALLOWED_AXIOMS]
        if bad:
            problems.append(f"theorem {n} uses non-standard axioms {bad}")
        else:
            discharged += 1
    return {
        "obligations": len(names),
        "discharged": discharged,
        "theorems": theorems,
        "problems": problems,
    }


class Driver:
    """Client of the compiled Lean model driver (one request per line)."""

    def __init__(self):
        if not DRV.exists():
            raise HarnessError(f"driver {DRV} not built")
        self.p = subprocess.Popen(
            [str(DRV)], stdin=subprocess.PIPE, stdout=subprocess.PIPE, text=True, bufsize=1 << 20
        )
        self.calls = 0

    def call(self, op: str, *args) -> list[Fraction]:
        toks = [op]
        for a in args:
            if isinstance(a, str):
                toks.append(a)
            elif isinstance(a, bool):
                toks.append("1" if a else "0")
            elif isinstance(a, int):
                toks.append(str(a))
            elif isinstance(a, Fraction):
                toks.append(fs(a))
            else:
                toks.extend(fs(x) for x in flat(a))
        line = " ".join(toks)
        self.p.stdin.write(line + "\n")
        self.p.stdin.flush()
        ans = self.p.stdout.readline()
        self.calls += 1
        if not ans:
            raise HarnessError(f"driver died on: {line[:300]}")
        ans = ans.strip()
        if ans.startswith("ok"):
            return [Fraction(t) for t in ans.split()[1:]]
        raise ModelError(ans, line)

    def call_raw(self, op: str, *args) -> list[str]:
        """Like call, but returns raw tokens (for ops that answer with words)."""
        toks = [op]
        for a in args:
            if isinstance(a, str):
                toks.append(a)
            elif isinstance(a, bool):
                toks.append("1" if a else "0")
            elif isinstance(a, int):
                toks.append(str(a))
            elif isinstance(a, Fraction):
                toks.append(fs(a))
            else:
                toks.extend(fs(x) for x in flat(a))
        line = " ".join(toks)
        self.p.stdin.write(line + "\n")
        self.p.stdin.flush()
        ans = self.p.stdout.readline().strip()
        self.calls += 1
        if ans.startswith("ok"):
            return ans.split()[1:]
        raise ModelError(ans, line)

    def close(self):
        try:
            self.p.stdin.close()
            self.p.wait(timeout=5)
        except Exception:
            self.p.kill()


class ModelError(Exception):
    """The model refused the request (failed certificate, malformed line)."""

    def __init__(self, ans, line):
        super().__init__(ans)
        self.ans, self.line = ans, line


class Cut:
    """Sequential reader of a flat list of Fractions returned by the driver."""

    def __init__(self, xs):
        self.xs, self.i = xs, 0

    def take(self, *shape):
        import numpy as np

        n = int(np.prod(shape)) if shape else 1
        out = self.xs[self.i : self.i + n]
        if len(out) != n:
            raise HarnessError("driver answer too short")
        self.i += n
        if not shape:
            return out[0]
        return np.array(out, dtype=object).reshape(shape)

    def done(self):
        if self.i != len(self.xs):
            raise HarnessError(f"driver answer has {len(self.xs) - self.i} unread entries")


# ----------------------------------------------------------------------------------------------
# comparison


def rel_dev_matrix(C_impl, C_model):
    """max_ij |dC_ij| / sqrt(C_ii C_jj) (model diagonal as scale; falls back to abs)."""
    import numpy as np

    Ci = np.asarray(C_impl, dtype=np.float64)
    Cm = np.array([[float(x) for x in row] for row in np.asarray(C_model, dtype=object)], dtype=np.float64)
    d = np.sqrt(np.abs(np.diag(Cm)))
    scale = np.outer(d, d)
    tiny = np.finfo(np.float64).tiny
    scale = np.where(scale > 0, scale, np.maximum(np.abs(Cm), tiny))
    return float(np.max(np.abs(Ci - Cm) / scale)) if Ci.size else 0.0


def rel_dev_vector(v_impl, v_model, scale=None):
    import numpy as np

    vi = np.asarray(v_impl, dtype=np.float64).reshape(-1)
    vm = np.array([float(x) for x in np.asarray(v_model, dtype=object).reshape(-1)], dtype=np.float64)
    if scale is None:
        scale = np.abs(vm)
    scale = np.asarray(scale, dtype=np.float64).reshape(-1)
    s = np.maximum(scale, np.max(np.abs(vm), initial=0.0) * 1e-3)
    s = np.where(s > 0, s, 1.0)
    return float(np.max(np.abs(vi - vm) / s)) if vi.size else 0.0


# ----------------------------------------------------------------------------------------------
# per-run context


class Ctx:
    def __init__(self, pid: str, tier: str, seed: int):
        import numpy as np

        self.pid, self.tier, self.seed = pid, tier, seed
        self.rng = np.random.Generator(np.random.PCG64(seed))
        self.t0 = time.time()
        self.evaluations = 0
        self.distinct = set()
        self.samples = []
        self.dist = {}  # input distribution counters
        self.devs = {}  # quantity -> max deviation seen
        self.violations = []  # dict(sig, msg, replay)
        self.notes = []
        self.skipped = {}
        self.assumptions = []
        self.rule = ""
        self.extra = {}
        self._drv = None

    @property
    def quick(self):
        return self.tier == "quick"

    def n(self, quick: int, thorough: int) -> int:
        return quick if self.quick else thorough

    @property
    def drv(self) -> Driver:
        if self._drv is None:
            self._drv = Driver()
        return self._drv

    def count(self, key, k=1):
        self.dist[key] = self.dist.get(key, 0) + k

    def skip(self, why):
        self.skipped[why] = self.skipped.get(why, 0) + 1

    def case(self, desc, nontrivial=True, sample=None):
        """Register one explored case. `desc` is a hashable/JSON-able description."""
        self.evaluations += 1
        if nontrivial:
            h = hashlib.sha1(json.dumps(desc, sort_keys=True, default=str).encode()).hexdigest()
            self.distinct.add(h)
        if sample is not None and len(self.samples) < 6:
            self.samples.append(sample)
        elif sample is None and len(self.samples) < 3:
            self.samples.append(desc)

    def dev(self, quantity: str, value: float, tol: float, case=None, sig=None, what=None) -> bool:
        """Record a deviation; returns True when within tolerance; otherwise files a violation."""
        if not (value == value):  # NaN
            value = float("inf")
        self.devs[quantity] = max(self.devs.get(quantity, 0.0), value)
        if value <= tol:
            return True
        self.violation(
            sig or quantity,
            what or f"{quantity}: deviation {value:.3e} exceeds tolerance {tol:.1e}",
            case,
        )
        return False

    def violation(self, sig: str, msg: str, case=None, theorem=None, snippet=None):
        """File a property violation with a replay file (dedup by signature; keep smallest)."""
        for v in self.violations:
            if v["sig"] == sig:
                v["count"] += 1
                return
        REPL = VERIF / "replays"
        REPL.mkdir(exist_ok=True)
        h = hashlib.sha1((sig + json.dumps(case, sort_keys=True, default=str)).encode()).hexdigest()[:10]
        path = REPL / f"{self.pid}-{h}.json"
        body = {
            "property": self.pid,
            "signature": sig,
            "what": msg,
            "seed": self.seed,
            "tier": self.tier,
            "case": case,
            "theorem": theorem,
            "replay_snippet": snippet,
        }
        path.write_text(json.dumps(body, indent=1, default=str))
        self.violations.append({"sig": sig, "msg": msg, "replay": str(path.relative_to(VERIF)), "count": 1})

    def close(self):
        if self._drv is not None:
            self._drv.close()


def load_known_findings():
    p = VERIF / "known_findings.json"
    if not p.exists():
        return {"known": [], "fixed": []}
    return json.loads(p.read_text())


def write_evidence(ctx: Ctx, level: str, audit: dict | None, explanation: str = "", extra=None):
    cov = {
        "evaluations": ctx.evaluations,
        "distinct_nontrivial": len(ctx.distinct),
        "rule": ctx.rule,
        "samples": ctx.samples[:6] or ["(no case generated)"],
        "input_distribution": ctx.dist,
        "max_deviation_by_quantity": ctx.devs,
        "skipped": ctx.skipped,
        "notes": ctx.notes,
    }
    if audit is not None:
        cov.update(
            {
                "obligations": max(audit["obligations"], 0),
                "discharged": audit["discharged"],
                "checker_cmd": "cd lean && lake build Pdq pdqdrv && lake env lean <generated #print axioms file> (run by run_check.py on every invocation)",
                "trusted_base": TRUSTED_BASE,
                "theorems": audit["theorems"],
                "audit_problems": audit["problems"],
            }
        )
    if explanation:
        cov["explanation"] = explanation
    if extra:
        cov.update(extra)
    cov.update(ctx.extra)
    ev = {
        "property_id": ctx.pid,
        "tier": ctx.tier,
        "seed": ctx.seed,
        "level": level,
        "coverage": cov,
        "assumptions": ctx.assumptions,
        "wall_s": round(time.time() - ctx.t0, 2),
        "violations": len(ctx.violations),
    }
    # seed evaluations (tools/seed_eval.py) run the checks against a patched scratch copy of the package: their
    # evidence must not overwrite the evidence of runs against /repo
    d = Path(os.environ.get("PDQ_EVIDENCE_DIR", str(VERIF / "evidence")))
    d.mkdir(parents=True, exist_ok=True)
    (d / f"{ctx.pid}.json").write_text(json.dumps(ev, indent=1, default=str))
    return ev
