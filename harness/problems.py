"""Polynomial initial value problems: one description, two semantics.

A `PolyField` is a vector field  u^(K) = f(u, u', …, u^(K-1), t)  whose components are polynomials with
dyadic-rational coefficients.  `as_jax()` gives the function handed to probdiffeq, `eval_exact` /
`jac_exact` evaluate value and Jacobian in exact rational arithmetic (the harness side of the
linearisation used by the solver-level correspondence; the Lean model of `linearize` itself is C11).
"""

from __future__ import annotations

from fractions import Fraction

import numpy as np


class PolyField:
    def __init__(self, d, order, comps):
        """comps[a] = list of (coef: Fraction, exps: tuple of length order*d + 1) ; last exponent is time."""
        self.d, self.order, self.comps = d, order, comps
        self.nvars = order * d + 1

    # -- exact semantics ------------------------------------------------------------------------
    def eval_exact(self, coeffs, t):
        """coeffs: list of `order` lists of d Fractions; t: Fraction -> list of d Fractions."""
        x = [c for blk in coeffs[: self.order] for c in blk] + [t]
        out = []
        for comp in self.comps:
            s = Fraction(0)
            for coef, exps in comp:
                term = coef
                for v, e in zip(x, exps):
                    if e:
                        term *= v**e
                s += term
            out.append(s)
        return out

    def jac_exact(self, coeffs, t):
        """J[a][k][b] = d f_a / d u^(k)_b (exact)."""
        x = [c for blk in coeffs[: self.order] for c in blk] + [t]
        J = [[[Fraction(0)] * self.d for _ in range(self.order)] for _ in range(self.d)]
        for a, comp in enumerate(self.comps):
            for coef, exps in comp:
                for k in range(self.order):
                    for b in range(self.d):
                        vi = k * self.d + b
                        e = exps[vi]
                        if e == 0:
                            continue
                        term = coef * e
                        for j, (v, ej) in enumerate(zip(x, exps)):
                            ej2 = ej - 1 if j == vi else ej
                            if ej2:
                                term *= v**ej2
                        J[a][k][b] += term
        return J

    # -- float / JAX semantics ---------------------------------------------------------------
    def as_jax(self):
        import jax.numpy as jnp

        comps = [[(float(c), e) for c, e in comp] for comp in self.comps]
        d, order = self.d, self.order

        def f(*us, t):
            x = [us[k][b] for k in range(order) for b in range(d)] + [t]
            out = []
            for comp in comps:
                s = 0.0
                for coef, exps in comp:
                    term = coef
                    for v, e in zip(x, exps):
                        if e:
                            term = term * v**e
                    s = s + term
                out.append(s + 0.0 * x[0])
            return jnp.stack([jnp.asarray(o) for o in out])

        return f

    def describe(self):
        return {
            "d": self.d,
            "order": self.order,
            "components": [[(str(c), list(e)) for c, e in comp] for comp in self.comps],
        }

    @property
    def autonomous(self):
        return all(e[-1] == 0 for comp in self.comps for _, e in comp)


def random_field(rng, d, order, max_degree=2, autonomous=None, nterms=(1, 3), linear=False, decoupled=False):
    """Random polynomial field with dyadic coefficients k/8, |k| <= 8."""
    nv = order * d + 1
    if autonomous is None:
        autonomous = bool(rng.random() < 0.4)
    comps = []
    for a in range(d):
        comp = []
        for _ in range(int(rng.integers(nterms[0], nterms[1] + 1))):
            deg = 1 if linear else int(rng.integers(0, max_degree + 1))
            exps = [0] * nv
            for _ in range(deg):
                if decoupled:
                    k = int(rng.integers(0, order))
                    v = k * d + a
                else:
                    v = int(rng.integers(0, nv - 1))
                exps[v] += 1
            if not autonomous and rng.random() < 0.5:
                exps[-1] = int(rng.integers(1, 3))
            k = int(rng.integers(-8, 9))
            if k == 0:
                k = 3
            comp.append((Fraction(k, 8), tuple(exps)))
        comps.append(comp)
    return PolyField(d, order, comps)


def quadrature_field(d, coeffs_per_dim):
    """u' = g(t) with polynomial g (solution is a polynomial): coeffs_per_dim[a] = [c0, c1, …] for g_a(t) = Σ c_j t^j."""
    comps = []
    for a in range(d):
        comp = []
        for j, c in enumerate(coeffs_per_dim[a]):
            if c != 0:
                exps = [0] * (d + 1)
                exps[-1] = j
                comp.append((Fraction(c), tuple(exps)))
        if not comp:
            comp = [(Fraction(0), tuple([0] * (d + 1)))]
        comps.append(comp)
    return PolyField(d, 1, comps)


def taylor_coeffs_exact(field: PolyField, inits, t0, num):
    """Exact Taylor coefficients u, u', …, u^(num) (unnormalised derivatives) by repeated formal
    differentiation along the flow, in exact arithmetic.  inits: list of `order` lists of d Fractions."""
    # polynomial arithmetic on dict{exps: coef}; variables: order*d state vars + time
    d, K = field.d, field.order
    nv = K * d + 1

    def padd(p, q):
        r = dict(p)
        for e, c in q.items():
            r[e] = r.get(e, 0) + c
            if r[e] == 0:
                del r[e]
        return r

    def pmul(p, q):
        r = {}
        for e1, c1 in p.items():
            for e2, c2 in q.items():
                e = tuple(a + b for a, b in zip(e1, e2))
                r[e] = r.get(e, 0) + c1 * c2
        return {e: c for e, c in r.items() if c != 0}

    def pdiff(p, v):
        r = {}
        for e, c in p.items():
            if e[v]:
                e2 = list(e)
                e2[v] -= 1
                r[tuple(e2)] = r.get(tuple(e2), 0) + c * e[v]
        return r

    def var(v):
        e = [0] * nv
        e[v] = 1
        return {tuple(e): Fraction(1)}

    fpoly = []
    for comp in field.comps:
        p = {}
        for c, e in comp:
            p = padd(p, {tuple(e): c})
        fpoly.append(p)
    # time derivative of state var (k, b): if k < K-1: var (k+1, b) else f_b ; of time: 1
    dvar = []
    for k in range(K):
        for b in range(d):
            dvar.append(var((k + 1) * d + b) if k < K - 1 else fpoly[b])
    dvar.append({tuple([0] * nv): Fraction(1)})

    def total(p):
        r = {}
        for v in range(nv):
            dp = pdiff(p, v)
            if dp:
                r = padd(r, pmul(dp, dvar[v]))
        return r

    def pev(p, x):
        s = Fraction(0)
        for e, c in p.items():
            term = c
            for v, ee in zip(x, e):
                if ee:
                    term *= v**ee
            s += term
        return s

    x0 = [c for blk in inits for c in blk] + [Fraction(t0)]
    out = [list(blk) for blk in inits]
    cur = list(fpoly)
    while len(out) < num + 1:
        out.append([pev(p, x0) for p in cur])
        cur = [total(p) for p in cur]
    return out[: num + 1]
