"""Structured random generators shared by the checks. Every choice comes from ctx.rng."""

from __future__ import annotations

import numpy as np


def dyadic(rng, shape, bits=6, scale=1.0):
    """Random numbers k/2^bits in roughly [-scale, scale] (exact in float64, short rationals)."""
    k = rng.integers(-(2**bits), 2**bits + 1, size=shape)
    return (k / 2.0**bits) * scale


def chol_factor(rng, n, kind):
    """A left square-root factor L (n x n) of the requested kind.

    kinds: 'well' (lower triangular, diag in [0.5,2]), 'ill' (singular values over ~8 decades),
    'rankdef' (exactly singular: some zero columns/rows with dyadic entries), 'zero',
    'general' (dense non-triangular square root, well conditioned).
    """
    if kind == "zero":
        return np.zeros((n, n))
    if kind == "well":
        L = np.tril(dyadic(rng, (n, n), bits=5))
        L[np.diag_indices(n)] = rng.uniform(0.5, 2.0, size=n)
        return L
    if kind == "general":
        L = dyadic(rng, (n, n), bits=5) + np.diag(rng.uniform(1.0, 2.0, size=n))
        return L
    if kind == "ill":
        L = np.tril(dyadic(rng, (n, n), bits=5))
        L[np.diag_indices(n)] = 10.0 ** rng.uniform(-8, 0, size=n)
        return L
    if kind == "rankdef":
        L = np.tril(dyadic(rng, (n, n), bits=4))
        L[np.diag_indices(n)] = rng.integers(1, 4, size=n).astype(float)
        # kill a random subset of coordinates completely (rows and columns) -> exact zeros survive QR
        dead = rng.random(n) < 0.4
        if not dead.any():
            dead[rng.integers(n)] = True
        if dead.all() and n > 1:
            dead[rng.integers(n)] = False
        L[dead, :] = 0.0
        L[:, dead] = 0.0
        return L
    raise ValueError(kind)


def scalings(rng, n, kind):
    if kind == "unit":
        return np.ones(n)
    if kind == "mild":
        return 2.0 ** rng.integers(-3, 4, size=n).astype(float)
    if kind == "wide":
        return 10.0 ** rng.uniform(-12, 12, size=n)
    raise ValueError(kind)


def pick(rng, options, weights=None):
    i = rng.choice(len(options), p=None if weights is None else np.asarray(weights) / np.sum(weights))
    return options[int(i)]
