"""Translator: literal tables and default parameters of /repo -> lean/Pdq/Generated/Consts.lean.

Run on every check (DESIGN §0): the theorems about constants (`Pdq/Props/*`, e.g. the Padé/Legendre
table identities, `defaults_admissible`) are then re-checked against what the source says *now*.
Only Python's `ast` is used; nothing of /repo is imported or executed here.

A constant that can no longer be located is omitted (and listed in a comment); a theorem that needs
it then fails to build, which the check reports as a broken proof obligation.
"""

from __future__ import annotations

import ast
from fractions import Fraction
from pathlib import Path


def _lit(node):
    """Evaluate a literal expression (numbers, tuples, lists, unary minus)."""
    return ast.literal_eval(node)


def _rat(x) -> str:
    if isinstance(x, bool):
        raise TypeError
    if isinstance(x, int):
        return f"({x} : Rat)"
    fr = Fraction(float(x))
    return f"(mkRat ({fr.numerator}) {fr.denominator})"


def _int_or_rat_is_int(x):
    return isinstance(x, int) or (isinstance(x, float) and float(x).is_integer())


def _find_func(tree, name):
    for node in ast.walk(tree):
        if isinstance(node, (ast.FunctionDef,)) and node.name == name:
            return node
    return None


def _find_class(tree, name):
    for node in ast.walk(tree):
        if isinstance(node, ast.ClassDef) and node.name == name:
            return node
    return None


def _defaults(fn: ast.FunctionDef) -> dict:
    out = {}
    args = fn.args
    pos = args.posonlyargs + args.args
    for a, d in zip(pos[len(pos) - len(args.defaults) :], args.defaults):
        out[a.arg] = d
    for a, d in zip(args.kwonlyargs, args.kw_defaults):
        if d is not None:
            out[a.arg] = d
    return out


def _assignments(fn, name):
    for node in ast.walk(fn):
        if isinstance(node, ast.Assign) and len(node.targets) == 1:
            t = node.targets[0]
            if isinstance(t, ast.Name) and t.id == name:
                yield node.value


def extract(repo: Path) -> tuple[list[str], list[str]]:
    """Returns (lean definitions, notes)."""
    defs, notes = [], []
    pkg = repo / "probdiffeq"

    def parse(rel):
        try:
            return ast.parse((pkg / rel).read_text())
        except Exception as e:  # noqa: BLE001
            notes.append(f"cannot parse {rel}: {e}")
            return None

    # ---- Pade / Legendre tables -------------------------------------------------------------
    t = parse("util/gram_util.py")
    orders = []
    if t is not None:
        for q in (3, 5, 7, 9, 13):
            fn = _find_func(t, f"pade_and_legendre_{q}")
            if fn is None:
                notes.append(f"pade_and_legendre_{q} not found")
                continue
            try:
                pade = [_lit(v) for v in _assignments(fn, "pade_coeffs")][0]
                leg = [_lit(v) for v in _assignments(fn, "legendre_coeffs")][0]
                norms = [_lit(v) for v in _assignments(fn, "legendre_norms")][0]
                if not all(_int_or_rat_is_int(x) for x in pade):
                    raise ValueError("non-integer Pade coefficient")
                pade = [int(x) for x in pade]
                leg = [[int(x) for x in row] for row in leg]
                norms = [int(x) for x in norms]
                # return PadeLegendre(init=..., q=..., eta_fp64=..., eta_fp32=...)
                kw = {}
                for node in ast.walk(fn):
                    if isinstance(node, ast.Return) and isinstance(node.value, ast.Call):
                        for k in node.value.keywords:
                            if k.arg in ("q", "eta_fp64", "eta_fp32"):
                                kw[k.arg] = _lit(k.value)
                # the k-loop of init: which k, and does the body advance P?
                init = _find_func(fn, "init")
                ks, advances = [], False
                for node in ast.walk(init):
                    if isinstance(node, ast.For) and isinstance(node.target, ast.Name) and node.target.id == "k":
                        ks = [int(x) for x in _lit(node.iter)]
                        for b in ast.walk(node):
                            if (
                                isinstance(b, ast.Assign)
                                and isinstance(b.targets[0], ast.Name)
                                and b.targets[0].id == "P"
                            ):
                                advances = True
                defs.append(f"def pade{q} : List Int := {pade}")
                defs.append(f"def leg{q} : List (List Int) := {leg}")
                defs.append(f"def legNorms{q} : List Int := {norms}")
                defs.append(f"def plQ{q} : Nat := {int(kw.get('q', -1))}")
                defs.append(f"def plLoopKs{q} : List Nat := {ks}")
                defs.append(f"def plLoopAdvancesP{q} : Bool := {'true' if advances else 'false'}")
                if "eta_fp64" in kw:
                    defs.append(f"def plEta64_{q} : Rat := {_rat(kw['eta_fp64'])}")
                if "eta_fp32" in kw:
                    defs.append(f"def plEta32_{q} : Rat := {_rat(kw['eta_fp32'])}")
                orders.append(q)
            except Exception as e:  # noqa: BLE001
                notes.append(f"pade_and_legendre_{q}: {e}")
    defs.append(f"def plOrders : List Nat := {orders}")

    # ---- controllers ----------------------------------------------------------------------------
    t = parse("_ivpsolve/controllers.py")
    if t is not None:
        for cls, pre in (("control_integral", "ctlI"), ("control_proportional_integral", "ctlPI")):
            c = _find_class(t, cls)
            init = _find_func(c, "__init__") if c else None
            if init is None:
                notes.append(f"{cls}.__init__ not found")
                continue
            for k, v in _defaults(init).items():
                try:
                    defs.append(f"def {pre}_{k} : Rat := {_rat(_lit(v))}")
                except Exception as e:  # noqa: BLE001
                    notes.append(f"{cls}.{k}: {e}")

    # ---- rejection loop -----------------------------------------------------------------------
    t = parse("_ivpsolve/solvers_via_adaptive_steps.py")
    if t is not None:
        fn = _find_func(t, "step_init_loopstate")
        try:
            v = [_lit(x) for x in _assignments(fn, "acceptance_factor_init")][0]
            defs.append(f"def acceptanceFactorInit : Rat := {_rat(v)}")
        except Exception as e:  # noqa: BLE001
            notes.append(f"acceptance_factor_init: {e}")
        for outer in ("solve_adaptive_save_at", "solve_adaptive_terminal_values"):
            fn = _find_func(t, outer)
            solve = _find_func(fn, "solve") if fn else None
            if solve is None:
                notes.append(f"{outer}.solve not found")
                continue
            for k, v in _defaults(solve).items():
                try:
                    defs.append(f"def {outer}_{k} : Rat := {_rat(_lit(v))}")
                except Exception as e:  # noqa: BLE001
                    notes.append(f"{outer}.{k}: {e}")

    # ---- initial step sizes ---------------------------------------------------------------------
    t = parse("_ivpsolve/stepsize_initialisers.py")
    if t is not None:
        fn = _find_func(t, "dt0")
        if fn is not None:
            for k, v in _defaults(fn).items():
                try:
                    defs.append(f"def dt0_{k} : Rat := {_rat(_lit(v))}")
                except Exception as e:  # noqa: BLE001
                    notes.append(f"dt0.{k}: {e}")
        fn = _find_func(t, "dt0_adaptive")
        if fn is not None:
            consts = []
            for node in ast.walk(fn):
                if isinstance(node, ast.Constant) and isinstance(node.value, (int, float)) and not isinstance(
                    node.value, bool
                ):
                    consts.append((node.lineno, node.col_offset, node.value))
            consts.sort()
            vals = [c[2] for c in consts]
            defs.append("def dt0AdaptiveLiterals : List Rat := [" + ", ".join(_rat(float(v)) for v in vals) + "]")

    # ---- Gauss-Newton defaults ----------------------------------------------------------------
    t = parse("_probdiffeq/taylor_points.py")
    if t is not None:
        c = _find_class(t, "lstsq_constrained_gauss_newton")
        init = _find_func(c, "__init__") if c else _find_func(t, "lstsq_constrained_gauss_newton")
        if init is not None:
            for k, v in _defaults(init).items():
                try:
                    val = _lit(v)
                    if isinstance(val, (int, float)) and not isinstance(val, bool):
                        defs.append(f"def gn_{k} : Rat := {_rat(val)}")
                except Exception:  # noqa: BLE001
                    pass
    return defs, notes


def render(repo: Path) -> str:
    defs, notes = extract(repo)
    out = [
        "/-! GENERATED by harness/translate_consts.py from the current /repo source on every run.",
        "    Do not edit. Literal tables and default parameters; floats are their exact dyadic values. -/",
        "namespace Pdq.Consts",
        *defs,
        "end Pdq.Consts",
    ]
    if notes:
        out.insert(2, "/- translator notes:\n" + "\n".join(notes) + "\n-/")
    return "\n".join(out) + "\n"


def regenerate(repo: Path, target: Path) -> bool:
    """Write only when the content changes (keeps lake's no-op build at 0.2 s). Returns changed?"""
    text = render(repo)
    target.parent.mkdir(parents=True, exist_ok=True)
    if target.exists() and target.read_text() == text:
        return False
    target.write_text(text)
    return True


if __name__ == "__main__":
    import sys

    print(render(Path(sys.argv[1] if len(sys.argv) > 1 else "/repo")))
