"""MANIFEST.setup_cmd: regenerate constants + Lean roots from the files on disk and build everything."""
import sys
from pathlib import Path

sys.path.insert(0, str(Path(__file__).resolve().parent.parent))
from harness import core  # noqa: E402

ok, log = core.lean_build()
print(log[-4000:])
# a Props file that no longer builds is reported by the checks themselves; setup only needs the driver
sys.exit(0 if core.DRV.exists() else 1)
