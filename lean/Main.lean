import Pdq.Drv.Core
import Pdq.Drv.Gauss
/-! `pdqdrv`: one request per line on stdin, one answer per line on stdout. -/
open Pdq.Drv

def allOps : List (String × Handler) := opsGauss

def answer (line : String) : String :=
  match (line.splitOn " ").filter (· ≠ "") with
  | [] => "err empty"
  | op :: rest =>
    match allOps.lookup op with
    | some h => runHandler h rest
    | none => "err unknown-op " ++ op

partial def loop (hin : IO.FS.Stream) (hout : IO.FS.Stream) : IO Unit := do
  let line ← hin.getLine
  if line.isEmpty then return ()
  let l := line.trimAscii.toString
  hout.putStrLn (answer l)
  hout.flush
  loop hin hout

def main : IO Unit := do
  loop (← IO.getStdin) (← IO.getStdout)
