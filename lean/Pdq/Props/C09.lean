import Pdq.Model.Iwp
import Pdq.Bridge
import Pdq.Lemmas.Iwp
import Pdq.Props.C08
import Mathlib.LinearAlgebra.Matrix.Kronecker
import Mathlib.LinearAlgebra.Matrix.Reindex
import Mathlib.Logic.Equiv.Fin.Basic

/-!
# C09 — Prior transitions are the exact discretisation of their SDE and compose (IWP part)

All statements are about `Iwp.transition1` / `Iwp.transitionDense` of `Pdq.Model.Iwp` (the definitions
the driver executes), seen through the abstraction maps of `Pdq.Bridge`, for every order `q`, every
dimension `d` and every field of characteristic 0.  `h ≠ 0` is needed because the code's `to_latent`
divides by `h^(q-i)`; the property's quantifier is `h > 0`.

Factorisations: the isotropic transition *is* `Iwp.transition1 q h s2` with `s2 = (output_scale · base scale)²` (one
`(q+1)×(q+1)` problem shared by all dimensions), the block-diagonal one is `Iwp.transition1 q h s2_a` per dimension `a`
with `s2_a = (output_scale_a · base scale_a)²`, the dense one is `Iwp.transitionDense q d h s2 lam2` with
`s2 = output_scale²`, `lam2_a = base scale_a²` — this mapping is what the correspondence check `harness/checks/c09.py`
verifies against the real classes; the theorems below then hold for each of them.
-/
set_option linter.unusedSectionVars false
open Matrix Finset Polynomial
open scoped Kronecker

namespace Pdq.C09
open Pdq.Iwp
variable {K : Type} [Field K] [CharZero K]

/-- `Φ(h)`: `Φ_ij = h^(j-i)/(j-i)!` for `j ≥ i`, else 0 — the flow of `x' = F x`, `F` the nilpotent shift -/
def PhiM (q : ℕ) (h : K) : Matrix (Fin (q+1)) (Fin (q+1)) K :=
  Matrix.of fun i j => if i.val ≤ j.val then phi (j.val - i.val) h else 0

/-- `Q(h)`: `Q_ij = h^(2q+1-i-j)/((2q+1-i-j)(q-i)!(q-j)!)` — process noise of the `q`-times integrated Wiener process -/
def QM (q : ℕ) (h : K) : Matrix (Fin (q+1)) (Fin (q+1)) K :=
  Matrix.of fun i j => Qe (q - i.val) (q - j.val) h

theorem QM_apply_explicit (q : ℕ) (h : K) (i j : Fin (q+1)) :
    QM q h i j = h ^ (2*q+1 - i.val - j.val) /
      (((2*q+1 - i.val - j.val : ℕ) : K) * ((q - i.val).factorial : K) * ((q - j.val).factorial : K)) := by
  have hi := i.isLt; have hj := j.isLt
  have : q - i.val + (q - j.val) + 1 = 2*q+1 - i.val - j.val := by omega
  simp only [QM, Qe, Matrix.of_apply]
  rw [this]

/-! ## (a) `iwp_den`: removing the preconditioner gives the closed forms -/

theorem den_A_get {m n : ℕ} (c : PCond m n K) (i : Fin m) (j : Fin n) :
    c.den.A.get i j = c.tob.get i * c.A.get i j * c.tl.get j := by
  simp [PCond.den, Mat.colScale, Mat.rowScale]
theorem den_Q_get {m n : ℕ} (c : PCond m n K) (i j : Fin m) :
    c.den.Q.get i j = c.tob.get i * c.Q.get i j * c.tob.get j := by
  simp [PCond.den, Mat.congrScale]
theorem den_b_get {m n : ℕ} (c : PCond m n K) (i : Fin m) :
    c.den.b.get i = c.tob.get i * c.b.get i := by
  simp [PCond.den, Vec.hmul]

/-- the binomial identity behind the preconditioner: `p_i · C(q-i, j-i) / p_j = h^(j-i)/(j-i)!` -/
theorem precon_pascal (a b : ℕ) (hba : b ≤ a) (h : K) (hh : h ≠ 0) :
    h ^ a / (a.factorial : K) * (a.choose (a - b) : K) * ((b.factorial : K) / h ^ b)
      = h ^ (a - b) / ((a - b).factorial : K) := by
  have hf : (a.factorial : K) ≠ 0 := Nat.cast_ne_zero.mpr (Nat.factorial_ne_zero a)
  have hf1 : (b.factorial : K) ≠ 0 := Nat.cast_ne_zero.mpr (Nat.factorial_ne_zero b)
  have hf2 : ((a - b).factorial : K) ≠ 0 := Nat.cast_ne_zero.mpr (Nat.factorial_ne_zero _)
  have hch : (a.choose (a - b) : K) * (b.factorial : K) * ((a - b).factorial : K) = (a.factorial : K) := by
    rw [Nat.choose_symm hba]
    exact_mod_cast Nat.choose_mul_factorial_mul_factorial hba
  have hp : h ^ a = h ^ (a - b) * h ^ b := by rw [← pow_add, Nat.sub_add_cancel hba]
  have hb : h ^ b ≠ 0 := pow_ne_zero _ hh
  have hc : (a.choose (a - b) : K) ≠ 0 := Nat.cast_ne_zero.mpr (Nat.pos_iff_ne_zero.mp (Nat.choose_pos (Nat.sub_le a b)))
  rw [hp, ← hch]
  field_simp

theorem transition1_tob (q : ℕ) (h s2 : K) (i : Fin (q+1)) :
    (Iwp.transition1 q h s2).tob.get i = h ^ (q - i.val) / ((q - i.val).factorial : K) := by
  simp [Iwp.transition1, Iwp.precon, powN_eq, factN_eq]
theorem transition1_tl (q : ℕ) (h s2 : K) (i : Fin (q+1)) :
    (Iwp.transition1 q h s2).tl.get i = ((q - i.val).factorial : K) / h ^ (q - i.val) := by
  simp [Iwp.transition1, Iwp.precon, powN_eq, factN_eq]
theorem transition1_A (q : ℕ) (h s2 : K) (i j : Fin (q+1)) :
    (Iwp.transition1 q h s2).A.get i j = if i.val ≤ j.val then (((q - i.val).choose (j.val - i.val) : ℕ) : K) else 0 := by
  simp [Iwp.transition1, Iwp.A1, chooseN_eq]
theorem transition1_Q (q : ℕ) (h s2 : K) (i j : Fin (q+1)) :
    (Iwp.transition1 q h s2).Q.get i j = h * s2 * (1 / (((2*q+1 - i.val - j.val : ℕ) : K))) := by
  simp [Iwp.transition1, Iwp.H1, Mat.smul]

/-- the entries of the de-preconditioned one-dimensional transition -/
theorem transition1_den_A_entry (q : ℕ) (h s2 : K) (hh : h ≠ 0) (i j : Fin (q+1)) :
    (Iwp.transition1 q h s2).den.A.get i j = PhiM q h i j := by
  rw [den_A_get, transition1_tob, transition1_tl, transition1_A]
  simp only [PhiM, Matrix.of_apply]
  have hi := i.isLt; have hj := j.isLt
  split
  · next hij =>
    have e1 : j.val - i.val = (q - i.val) - (q - j.val) := by omega
    rw [e1]
    exact precon_pascal (q - i.val) (q - j.val) (by omega) h hh
  · simp

theorem transition1_den_Q_entry (q : ℕ) (h s2 : K) (i j : Fin (q+1)) :
    (Iwp.transition1 q h s2).den.Q.get i j = s2 * QM q h i j := by
  rw [den_Q_get, transition1_tob, transition1_tob, transition1_Q]
  simp only [QM, Matrix.of_apply, Qe]
  have hi := i.isLt; have hj := j.isLt
  have e : 2*q+1 - i.val - j.val = (q - i.val) + (q - j.val) + 1 := by omega
  rw [e]
  have hf : (((q - i.val).factorial : ℕ) : K) ≠ 0 := Nat.cast_ne_zero.mpr (Nat.factorial_ne_zero _)
  have hf1 : (((q - j.val).factorial : ℕ) : K) ≠ 0 := Nat.cast_ne_zero.mpr (Nat.factorial_ne_zero _)
  have hs : (((q - i.val + (q - j.val) + 1 : ℕ)) : K) ≠ 0 := Nat.cast_ne_zero.mpr (Nat.succ_ne_zero _)
  field_simp
  ring

/-- **C09 (a), one dimension.** For every order `q`, every step `h ≠ 0` and every squared scale `s2`, the
model of `transition(dt=h, output_scale).preconditioner_apply()` is `(Φ(h), 0, s2·Q(h))` with the closed forms
`Φ_ij = h^(j-i)/(j-i)!`, `Q_ij = h^(2q+1-i-j)/((2q+1-i-j)(q-i)!(q-j)!)`. -/
theorem iwp_den (q : ℕ) (h s2 : K) (hh : h ≠ 0) :
    (Iwp.transition1 q h s2).den.A.toM = PhiM q h ∧
    (Iwp.transition1 q h s2).den.b.toV = 0 ∧
    (Iwp.transition1 q h s2).den.Q.toM = s2 • QM q h := by
  refine ⟨?_, ?_, ?_⟩
  · funext i j; rw [toM_apply]; exact transition1_den_A_entry q h s2 hh i j
  · funext i; rw [toV_apply, den_b_get]; simp [Iwp.transition1, Vec.zero]
  · funext i j; rw [toM_apply, transition1_den_Q_entry]; simp

/-- the process noise is linear in the squared (calibrated × base) output scale -/
theorem iwp_noise_linear (q : ℕ) (h s2 c : K) :
    (Iwp.transition1 q h (c * s2)).den.Q.toM = c • (Iwp.transition1 q h s2).den.Q.toM := by
  funext i j
  simp only [toM_apply, Matrix.smul_apply, transition1_den_Q_entry, smul_eq_mul]
  ring

/-- … and the transition matrix does not depend on the scale -/
theorem iwp_A_scale_free (q : ℕ) (h s2 s2' : K) :
    (Iwp.transition1 q h s2).den.A.toM = (Iwp.transition1 q h s2').den.A.toM := by
  funext i j
  simp only [toM_apply, den_A_get, transition1_tob, transition1_tl, transition1_A]

/-! ## (b) `iwp_semigroup` -/

theorem sum_fin_Icc {M : Type} [AddCommMonoid M] (q i j : ℕ) (hj : j ≤ q) (G : ℕ → M) :
    (∑ l : Fin (q + 1), if i ≤ l.val ∧ l.val ≤ j then G l.val else 0) = ∑ c ∈ range (j + 1 - i), G (i + c) := by
  rw [Fin.sum_univ_eq_sum_range (fun l => if i ≤ l ∧ l ≤ j then G l else 0) (q + 1)]
  rw [← Finset.sum_filter, ← Finset.sum_Ico_eq_sum_range]
  congr 1
  ext r
  simp only [mem_filter, mem_range, mem_Ico]
  omega

/-- `Φ(h₂) Φ(h₁) = Φ(h₁ + h₂)` (binomial theorem) -/
theorem PhiM_mul (q : ℕ) (h1 h2 : K) : PhiM q h2 * PhiM q h1 = PhiM q (h1 + h2) := by
  funext i j
  simp only [Matrix.mul_apply, PhiM, Matrix.of_apply]
  have hj : j.val ≤ q := Nat.lt_succ_iff.mp j.isLt
  have hsum : (∑ l : Fin (q+1), (if i.val ≤ l.val then phi (l.val - i.val) h2 else 0) *
      (if l.val ≤ j.val then phi (j.val - l.val) h1 else 0))
      = ∑ l : Fin (q+1), if i.val ≤ l.val ∧ l.val ≤ j.val then phi (l.val - i.val) h2 * phi (j.val - l.val) h1 else 0 := by
    apply Finset.sum_congr rfl
    intro l _
    by_cases h1' : i.val ≤ l.val <;> by_cases h2' : l.val ≤ j.val <;> simp [h1', h2']
  rw [hsum, sum_fin_Icc q i.val j.val hj (fun l => phi (l - i.val) h2 * phi (j.val - l) h1)]
  split
  · next hij =>
    have := phi_shift (j.val - i.val) h2 h1
    rw [add_comm h2 h1] at this
    rw [← this]
    have e : j.val + 1 - i.val = j.val - i.val + 1 := by omega
    rw [e]
    apply Finset.sum_congr rfl
    intro c hc
    have hc' : c ≤ j.val - i.val := Nat.lt_succ_iff.mp (mem_range.mp hc)
    have e1 : i.val + c - i.val = c := by omega
    have e2 : j.val - (i.val + c) = j.val - i.val - c := by omega
    rw [e1, e2, mul_comm]
  · next hij =>
    have e : j.val + 1 - i.val = 0 := by omega
    rw [e]; simp

/-- `Φ(h₂) Q(h₁) Φ(h₂)ᵀ + Q(h₂) = Q(h₁ + h₂)` -/
theorem QM_semigroup (q : ℕ) (h1 h2 : K) :
    PhiM q h2 * QM q h1 * (PhiM q h2)ᵀ + QM q h2 = QM q (h1 + h2) := by
  funext i j
  have hi : i.val ≤ q := Nat.lt_succ_iff.mp i.isLt
  have hj : j.val ≤ q := Nat.lt_succ_iff.mp j.isLt
  simp only [Matrix.add_apply, Matrix.mul_apply, Matrix.transpose_apply, PhiM, QM, Matrix.of_apply]
  rw [← Q_semigroup (q - i.val) (q - j.val) h1 h2]
  congr 1
  -- outer sum over m (column of Q₁ / row of Φ₂ᵀ), inner over l
  have inner : ∀ m : Fin (q+1),
      (∑ l : Fin (q+1), (if i.val ≤ l.val then phi (l.val - i.val) h2 else 0) * Qe (q - l.val) (q - m.val) h1)
      = ∑ c ∈ range (q - i.val + 1), phi (q - i.val - c) h2 * Qe c (q - m.val) h1 := by
    intro m
    rw [← sum_fin_rev_ge q i.val hi (fun c => phi (q - i.val - c) h2 * Qe c (q - m.val) h1)]
    apply Finset.sum_congr rfl
    intro l _
    have hl : l.val ≤ q := Nat.lt_succ_iff.mp l.isLt
    split
    · next h' =>
      have : q - i.val - (q - l.val) = l.val - i.val := by omega
      rw [this]
    · simp
  simp only [inner]
  have outer : (∑ m : Fin (q+1), (∑ c ∈ range (q - i.val + 1), phi (q - i.val - c) h2 * Qe c (q - m.val) h1) *
        (if j.val ≤ m.val then phi (m.val - j.val) h2 else 0))
      = ∑ e ∈ range (q - j.val + 1), (∑ c ∈ range (q - i.val + 1), phi (q - i.val - c) h2 * Qe c e h1) * phi (q - j.val - e) h2 := by
    rw [← sum_fin_rev_ge q j.val hj
      (fun e => (∑ c ∈ range (q - i.val + 1), phi (q - i.val - c) h2 * Qe c e h1) * phi (q - j.val - e) h2)]
    apply Finset.sum_congr rfl
    intro m _
    have hm : m.val ≤ q := Nat.lt_succ_iff.mp m.isLt
    split
    · next h' =>
      have : q - j.val - (q - m.val) = m.val - j.val := by omega
      rw [this]
    · simp
  rw [outer, Finset.sum_comm]
  apply Finset.sum_congr rfl; intro c _
  rw [Finset.sum_mul]

/-- **C09 (b), one dimension.** `t₂.merge t₁` (the code's composition of two preconditioned transitions over
`h₁` then `h₂`), after removal of the scalings, *is* the transition over `h₁ + h₂`. -/
theorem iwp_semigroup (q : ℕ) (h1 h2 s2 : K) (hh1 : h1 ≠ 0) (hh2 : h2 ≠ 0) (hh : h1 + h2 ≠ 0) :
    ((Iwp.transition1 q h2 s2).merge (Iwp.transition1 q h1 s2)).den = (Iwp.transition1 q (h1 + h2) s2).den := by
  obtain ⟨mA, mb, mQ⟩ := C08.merge_den (Iwp.transition1 q h2 s2) (Iwp.transition1 q h1 s2)
  obtain ⟨a1, b1, q1⟩ := iwp_den q h1 s2 hh1
  obtain ⟨a2, b2, q2⟩ := iwp_den q h2 s2 hh2
  obtain ⟨a3, b3, q3⟩ := iwp_den q (h1 + h2) s2 hh
  apply C08.Cond.ext''
  · rw [mA, a3]; simp only [Cond.merge, toM_mul, a1, a2]; exact PhiM_mul q h1 h2
  · rw [mb, b3]; simp [Cond.merge, b1, b2]
  · rw [mQ, q3]; simp only [Cond.merge, toM_add, toM_mul, toM_tr, a2, q1, q2]
    rw [← QM_semigroup q h1 h2]
    simp only [Matrix.mul_smul, Matrix.smul_mul, smul_add]

/-! ## dense `d`-dimensional transition: Kronecker structure in coefficient-major order -/

/-- coefficient-major (`index = i·d + a`) dense embedding of `M ⊗ D` -/
def denseOf {q d : ℕ} (M : Matrix (Fin (q+1)) (Fin (q+1)) K) (D : Matrix (Fin d) (Fin d) K) :
    Matrix (Fin ((q+1)*d)) (Fin ((q+1)*d)) K :=
  Matrix.reindex finProdFinEquiv finProdFinEquiv (M ⊗ₖ D)

theorem denseOf_apply {q d : ℕ} (M : Matrix (Fin (q+1)) (Fin (q+1)) K) (D : Matrix (Fin d) (Fin d) K)
    (x y : Fin ((q+1)*d)) : denseOf M D x y = M x.divNat y.divNat * D x.modNat y.modNat := rfl

theorem denseOf_mul {q d : ℕ} (M M' : Matrix (Fin (q+1)) (Fin (q+1)) K) (D D' : Matrix (Fin d) (Fin d) K) :
    denseOf M D * denseOf M' D' = denseOf (M * M') (D * D') := by
  simp only [denseOf, Matrix.reindex_apply, Matrix.submatrix_mul_equiv, Matrix.mul_kronecker_mul]

theorem denseOf_transpose {q d : ℕ} (M : Matrix (Fin (q+1)) (Fin (q+1)) K) (D : Matrix (Fin d) (Fin d) K) :
    (denseOf M D)ᵀ = denseOf Mᵀ Dᵀ := by
  funext x y
  simp [denseOf_apply, Matrix.transpose_apply]

theorem denseOf_add {q d : ℕ} (M M' : Matrix (Fin (q+1)) (Fin (q+1)) K) (D : Matrix (Fin d) (Fin d) K) :
    denseOf M D + denseOf M' D = denseOf (M + M') D := by
  funext x y
  simp [denseOf_apply, Matrix.add_apply, add_mul]

theorem denseOf_smul {q d : ℕ} (c : K) (M : Matrix (Fin (q+1)) (Fin (q+1)) K) (D : Matrix (Fin d) (Fin d) K) :
    denseOf (c • M) D = c • denseOf M D := by
  funext x y
  simp [denseOf_apply, mul_assoc]

theorem denseOf_smul_right {q d : ℕ} (c : K) (M : Matrix (Fin (q+1)) (Fin (q+1)) K) (D : Matrix (Fin d) (Fin d) K) :
    denseOf M (c • D) = c • denseOf M D := by
  funext x y
  simp [denseOf_apply, mul_left_comm]

section dense
variable (q d : ℕ) (h s2 : K) (lam2 : Vec d K)

theorem transitionDense_A (x y : Fin ((q+1)*d)) :
    (Iwp.transitionDense q d h s2 lam2).A.get x y =
      if x.modNat = y.modNat then (Iwp.transition1 q h s2).A.get x.divNat y.divNat else 0 := by
  have hx : x.val / d < q + 1 := x.divNat.isLt
  have hy : y.val / d < q + 1 := y.divNat.isLt
  have hm : (x.modNat = y.modNat) ↔ (x.val % d = y.val % d) := by
    rw [Fin.ext_iff]; rfl
  simp only [Iwp.transitionDense, Iwp.transition1, get_ofFn, hx, hy, dite_true, hm]
  rfl

theorem transitionDense_Q (x y : Fin ((q+1)*d)) :
    (Iwp.transitionDense q d h s2 lam2).Q.get x y =
      if x.modNat = y.modNat then lam2.get x.modNat * (Iwp.transition1 q h s2).Q.get x.divNat y.divNat else 0 := by
  have hx : x.val / d < q + 1 := x.divNat.isLt
  have hy : y.val / d < q + 1 := y.divNat.isLt
  have hxm : x.val % d < d := x.modNat.isLt
  have hm : (x.modNat = y.modNat) ↔ (x.val % d = y.val % d) := by
    rw [Fin.ext_iff]; rfl
  simp only [Iwp.transitionDense, Iwp.transition1, get_ofFn, hx, hy, hxm, dite_true, hm, Mat.smul]
  split
  · show h * s2 * lam2.get x.modNat * (Iwp.H1 q).get x.divNat y.divNat = _
    ring
  · rfl

theorem transitionDense_tob (x : Fin ((q+1)*d)) :
    (Iwp.transitionDense q d h s2 lam2).tob.get x = (Iwp.transition1 q h s2).tob.get x.divNat := by
  have hx : x.val / d < q + 1 := x.divNat.isLt
  simp only [Iwp.transitionDense, Iwp.transition1, vget_ofFn, hx, dite_true]
  rfl

theorem transitionDense_tl (x : Fin ((q+1)*d)) :
    (Iwp.transitionDense q d h s2 lam2).tl.get x = (Iwp.transition1 q h s2).tl.get x.divNat := by
  have hx : x.val / d < q + 1 := x.divNat.isLt
  simp only [Iwp.transitionDense, Iwp.transition1, vget_ofFn, hx, dite_true]
  rfl

/-- **C09 (a), dense.** The dense `d`-dimensional transition, after removal of the preconditioner, is
`(Φ(h) ⊗ I_d, 0, s2·Q(h) ⊗ diag(λ²))` in coefficient-major order: entries vanish across dimensions and the block of
dimension `a` is the one-dimensional transition with the noise scaled by the squared base scale `λ²_a`. -/
theorem iwp_den_dense (hh : h ≠ 0) :
    (Iwp.transitionDense q d h s2 lam2).den.A.toM = denseOf (PhiM q h) 1 ∧
    (Iwp.transitionDense q d h s2 lam2).den.b.toV = 0 ∧
    (Iwp.transitionDense q d h s2 lam2).den.Q.toM = denseOf (s2 • QM q h) (Matrix.diagonal lam2.toV) := by
  refine ⟨?_, ?_, ?_⟩
  · funext x y
    rw [toM_apply, den_A_get, transitionDense_A, transitionDense_tob, transitionDense_tl, denseOf_apply,
      ← transition1_den_A_entry q h s2 hh, den_A_get, Matrix.one_apply]
    split <;> simp
  · funext x; rw [toV_apply, den_b_get]; simp [Iwp.transitionDense, Vec.zero]
  · funext x y
    rw [toM_apply, den_Q_get, transitionDense_Q, transitionDense_tob, transitionDense_tob, denseOf_apply,
      Matrix.smul_apply, smul_eq_mul, ← transition1_den_Q_entry q h s2, den_Q_get, Matrix.diagonal_apply]
    split
    · simp only [toV_apply]; ring
    · simp

/-- the dense process noise is linear in the squared calibrated scale and in the squared base scales -/
theorem iwp_noise_linear_dense (c : K) (hh : h ≠ 0) :
    (Iwp.transitionDense q d h (c * s2) lam2).den.Q.toM = c • (Iwp.transitionDense q d h s2 lam2).den.Q.toM ∧
    (Iwp.transitionDense q d h s2 (Vec.smul c lam2)).den.Q.toM = c • (Iwp.transitionDense q d h s2 lam2).den.Q.toM := by
  obtain ⟨_, _, q0⟩ := iwp_den_dense q d h s2 lam2 hh
  obtain ⟨_, _, q1⟩ := iwp_den_dense q d h (c * s2) lam2 hh
  obtain ⟨_, _, q2⟩ := iwp_den_dense q d h s2 (Vec.smul c lam2) hh
  constructor
  · rw [q1, q0, ← denseOf_smul, smul_smul]
  · rw [q2, q0, ← denseOf_smul_right]
    congr 1
    funext a b
    simp [Matrix.diagonal_apply, Vec.smul, toV_apply]

/-- **C09 (b), dense.** Composition of two dense transitions is the dense transition over `h₁ + h₂`. -/
theorem iwp_semigroup_dense (h1 h2 : K) (hh1 : h1 ≠ 0) (hh2 : h2 ≠ 0) (hh : h1 + h2 ≠ 0) :
    ((Iwp.transitionDense q d h2 s2 lam2).merge (Iwp.transitionDense q d h1 s2 lam2)).den
      = (Iwp.transitionDense q d (h1 + h2) s2 lam2).den := by
  obtain ⟨mA, mb, mQ⟩ := C08.merge_den (Iwp.transitionDense q d h2 s2 lam2) (Iwp.transitionDense q d h1 s2 lam2)
  obtain ⟨a1, b1, q1⟩ := iwp_den_dense q d h1 s2 lam2 hh1
  obtain ⟨a2, b2, q2⟩ := iwp_den_dense q d h2 s2 lam2 hh2
  obtain ⟨a3, b3, q3⟩ := iwp_den_dense q d (h1 + h2) s2 lam2 hh
  apply C08.Cond.ext''
  · rw [mA, a3]; simp only [Cond.merge, toM_mul, a1, a2]
    rw [denseOf_mul, PhiM_mul, Matrix.one_mul]
  · rw [mb, b3]; simp [Cond.merge, b1, b2]
  · rw [mQ, q3]; simp only [Cond.merge, toM_add, toM_mul, toM_tr, a2, q1, q2]
    rw [denseOf_transpose, denseOf_mul, denseOf_mul, Matrix.one_mul, Matrix.transpose_one, Matrix.mul_one,
      denseOf_add, ← QM_semigroup q h1 h2]
    congr 1
    simp only [Matrix.mul_smul, Matrix.smul_mul, smul_add]

end dense


/-! ## (c) `iwp_is_sde_solution`: `Φ, Q` solve the moment equations of `dx = F x dt + e_q dW` -/

/-- entry polynomials of `Φ` in the step `X` -/
noncomputable def PhiP (q : ℕ) : Matrix (Fin (q+1)) (Fin (q+1)) K[X] :=
  Matrix.of fun i j => if i.val ≤ j.val then C (1 / ((j.val - i.val).factorial : K)) * X ^ (j.val - i.val) else 0

/-- entry polynomials of `Q` in the step `X`, as a function of the exponents `a = q-i`, `b = q-j` -/
noncomputable def qeP (a b : ℕ) : K[X] :=
  C (1 / (((a + b + 1 : ℕ) : K) * a.factorial * b.factorial)) * X ^ (a + b + 1)

noncomputable def QP (q : ℕ) : Matrix (Fin (q+1)) (Fin (q+1)) K[X] :=
  Matrix.of fun i j => qeP (q - i.val) (q - j.val)

/-- the drift of the `q`-times integrated Wiener process: the nilpotent shift -/
def Fshift (q : ℕ) : Matrix (Fin (q+1)) (Fin (q+1)) K :=
  Matrix.of fun i j => if j.val = i.val + 1 then 1 else 0

/-- the diffusion `e_q e_qᵀ` (noise enters the highest derivative) -/
def Ldiff (q : ℕ) : Matrix (Fin (q+1)) (Fin (q+1)) K :=
  Matrix.of fun i j => if i.val = q ∧ j.val = q then 1 else 0

theorem PhiP_eval (q : ℕ) (h : K) : (PhiP q).map (Polynomial.eval h) = PhiM q h := by
  funext i j
  simp only [Matrix.map_apply, PhiP, PhiM, Matrix.of_apply, phi]
  split
  · simp only [eval_mul, eval_C, eval_pow, eval_X]; ring
  · simp

theorem QP_eval (q : ℕ) (h : K) : (QP q).map (Polynomial.eval h) = QM q h := by
  funext i j
  simp only [Matrix.map_apply, QP, qeP, QM, Qe, Matrix.of_apply, eval_mul, eval_C, eval_pow, eval_X]
  ring

theorem PhiM_zero (q : ℕ) : PhiM q (0 : K) = 1 := by
  funext i j
  simp only [PhiM, Matrix.of_apply, phi, Matrix.one_apply]
  by_cases hij : i = j
  · subst hij
    simp only [le_refl, if_true, Nat.sub_self, pow_zero, Nat.factorial_zero, Nat.cast_one, div_one]
  · have : i.val ≠ j.val := fun h => hij (Fin.ext h)
    by_cases hle : i.val ≤ j.val
    · have : j.val - i.val ≠ 0 := by omega
      simp [hij, hle, this]
    · simp [hij, hle]

theorem QM_zero (q : ℕ) : QM q (0 : K) = 0 := by
  funext i j
  simp [QM, Qe]

theorem sum_shift_row {M : Type} [Semiring M] (q : ℕ) (i : Fin (q+1)) (g : Fin (q+1) → M) :
    (∑ l : Fin (q+1), (if l.val = i.val + 1 then (1 : M) else 0) * g l)
      = if h : i.val + 1 < q + 1 then g ⟨i.val + 1, h⟩ else 0 := by
  split
  · next h =>
    rw [Finset.sum_eq_single (⟨i.val + 1, h⟩ : Fin (q+1))]
    · simp
    · intro l _ hl
      have : l.val ≠ i.val + 1 := fun e => hl (Fin.ext e)
      simp [this]
    · simp
  · next h =>
    apply Finset.sum_eq_zero
    intro l _
    have : l.val ≠ i.val + 1 := by have := l.isLt; omega
    simp [this]

/-- `dΦ/dh = F Φ`, entry by entry as polynomials in the step -/
theorem PhiP_deriv (q : ℕ) :
    (PhiP (K := K) q).map (Polynomial.derivative) = (Fshift q).map C * PhiP q := by
  funext i j
  simp only [Matrix.map_apply, Matrix.mul_apply, Fshift, Matrix.of_apply]
  have hmap : ∀ l : Fin (q+1), C (if l.val = i.val + 1 then (1 : K) else 0) = if l.val = i.val + 1 then (1 : K[X]) else 0 := by
    intro l; split <;> simp
  simp only [hmap]
  rw [sum_shift_row q i (fun l => PhiP q l j)]
  simp only [PhiP, Matrix.of_apply]
  have hj := j.isLt
  by_cases hlt : i.val < j.val
  · have h1 : i.val ≤ j.val := le_of_lt hlt
    have h2 : i.val + 1 < q + 1 := by omega
    have h3 : i.val + 1 ≤ j.val := hlt
    simp only [h1, h2, h3, if_true, dite_true]
    obtain ⟨n, hn⟩ : ∃ n, j.val - i.val = n + 1 := ⟨j.val - i.val - 1, by omega⟩
    have hn' : j.val - (i.val + 1) = n := by omega
    rw [hn, hn']
    simp only [derivative_mul, derivative_C, zero_mul, zero_add, derivative_X_pow, Nat.add_sub_cancel]
    rw [← mul_assoc, ← C_mul]
    congr 2
    have hf : ((n.factorial : ℕ) : K) ≠ 0 := Nat.cast_ne_zero.mpr (Nat.factorial_ne_zero _)
    have hn1 : ((n + 1 : ℕ) : K) ≠ 0 := Nat.cast_ne_zero.mpr (Nat.succ_ne_zero _)
    rw [Nat.factorial_succ]
    push_cast
    field_simp
  · by_cases heq : i.val = j.val
    · have h1 : i.val ≤ j.val := le_of_eq heq
      have h3 : ¬ (i.val + 1 ≤ j.val) := by omega
      simp [heq]
    · have h1 : ¬ i.val ≤ j.val := by omega
      have h3 : ¬ (i.val + 1 ≤ j.val) := by omega
      simp [h1, h3]

theorem qeP_deriv_succ_succ (a b : ℕ) :
    derivative (qeP (K := K) (a+1) (b+1)) = qeP a (b+1) + qeP (a+1) b := by
  unfold qeP
  have e1 : a + 1 + (b + 1) + 1 = (a + b + 2) + 1 := by ring
  have e2 : a + (b + 1) + 1 = a + b + 2 := by ring
  have e3 : a + 1 + b + 1 = a + b + 2 := by ring
  rw [e1, e2, e3]
  simp only [derivative_mul, derivative_C, zero_mul, zero_add, derivative_X_pow, Nat.add_sub_cancel]
  rw [← mul_assoc, ← C_mul, ← add_mul, ← C_add]
  congr 2
  have h1 : (((a + b + 2 + 1 : ℕ)) : K) ≠ 0 := Nat.cast_ne_zero.mpr (Nat.succ_ne_zero _)
  have h2 : (((a + b + 2 : ℕ)) : K) ≠ 0 := Nat.cast_ne_zero.mpr (Nat.succ_ne_zero _)
  have hfa : ((a.factorial : ℕ) : K) ≠ 0 := Nat.cast_ne_zero.mpr (Nat.factorial_ne_zero _)
  have hfb : ((b.factorial : ℕ) : K) ≠ 0 := Nat.cast_ne_zero.mpr (Nat.factorial_ne_zero _)
  have ha1 : ((a + 1 : ℕ) : K) ≠ 0 := Nat.cast_ne_zero.mpr (Nat.succ_ne_zero _)
  have hb1 : ((b + 1 : ℕ) : K) ≠ 0 := Nat.cast_ne_zero.mpr (Nat.succ_ne_zero _)
  simp only [Nat.factorial_succ]
  push_cast at h1 h2 ha1 hb1 ⊢
  field_simp
  ring

theorem qeP_deriv_zero_succ (b : ℕ) :
    derivative (qeP (K := K) 0 (b+1)) = qeP 0 b := by
  unfold qeP
  have e1 : 0 + (b + 1) + 1 = (b + 1) + 1 := by ring
  have e2 : 0 + b + 1 = b + 1 := by ring
  rw [e1, e2]
  simp only [derivative_mul, derivative_C, zero_mul, zero_add, derivative_X_pow, Nat.add_sub_cancel]
  rw [← mul_assoc, ← C_mul]
  congr 2
  have h1 : (((b + 1 + 1 : ℕ)) : K) ≠ 0 := Nat.cast_ne_zero.mpr (Nat.succ_ne_zero _)
  have h2 : (((b + 1 : ℕ)) : K) ≠ 0 := Nat.cast_ne_zero.mpr (Nat.succ_ne_zero _)
  have hfb : ((b.factorial : ℕ) : K) ≠ 0 := Nat.cast_ne_zero.mpr (Nat.factorial_ne_zero _)
  simp only [Nat.factorial_succ, Nat.factorial_zero]
  push_cast at h1 h2 ⊢
  field_simp

theorem qeP_symm (a b : ℕ) : qeP (K := K) a b = qeP b a := by
  unfold qeP
  rw [add_comm a b, mul_right_comm]

theorem qeP_deriv_zero_zero : derivative (qeP (K := K) 0 0) = 1 := by
  unfold qeP
  simp

/-- derivative of the `Q` entry polynomial in exponent form -/
theorem qeP_deriv (a b : ℕ) :
    derivative (qeP (K := K) a b) =
      (if 1 ≤ a then qeP (a - 1) b else 0) + (if 1 ≤ b then qeP a (b - 1) else 0)
        + (if a = 0 ∧ b = 0 then 1 else 0) := by
  cases a with
  | zero => cases b with
    | zero => simp [qeP_deriv_zero_zero]
    | succ b => simp [qeP_deriv_zero_succ]
  | succ a => cases b with
    | zero =>
      rw [qeP_symm, qeP_deriv_zero_succ, qeP_symm]
      simp
    | succ b => simp [qeP_deriv_succ_succ]

theorem sum_shift_col {M : Type} [Semiring M] (q : ℕ) (j : Fin (q+1)) (g : Fin (q+1) → M) :
    (∑ l : Fin (q+1), g l * (if l.val = j.val + 1 then (1 : M) else 0))
      = if h : j.val + 1 < q + 1 then g ⟨j.val + 1, h⟩ else 0 := by
  rw [← sum_shift_row q j g]
  apply Finset.sum_congr rfl
  intro l _
  split <;> simp

/-- `dQ/dh = F Q + Q Fᵀ + e_q e_qᵀ`, entry by entry as polynomials in the step -/
theorem QP_deriv (q : ℕ) :
    (QP (K := K) q).map (Polynomial.derivative)
      = (Fshift q).map C * QP q + QP q * ((Fshift q).map C)ᵀ + (Ldiff q).map C := by
  funext i j
  simp only [Matrix.map_apply, Matrix.add_apply, Matrix.mul_apply, Matrix.transpose_apply, Fshift, Ldiff,
    Matrix.of_apply]
  have hmap : ∀ (l k : Fin (q+1)), C (if l.val = k.val + 1 then (1 : K) else 0) = if l.val = k.val + 1 then (1 : K[X]) else 0 := by
    intro l k; split <;> simp
  simp only [hmap]
  rw [sum_shift_row q i (fun l => QP q l j), sum_shift_col q j (fun l => QP q i l)]
  simp only [QP, Matrix.of_apply]
  rw [qeP_deriv]
  have hi := i.isLt; have hj := j.isLt
  congr 1
  · congr 1
    · by_cases h : 1 ≤ q - i.val
      · have h' : i.val + 1 < q + 1 := by omega
        have e : q - (i.val + 1) = q - i.val - 1 := by omega
        simp [h, h', e]
      · have h' : ¬ (i.val + 1 < q + 1) := by omega
        simp [h, h']
    · by_cases h : 1 ≤ q - j.val
      · have h' : j.val + 1 < q + 1 := by omega
        have e : q - (j.val + 1) = q - j.val - 1 := by omega
        simp [h, h', e]
      · have h' : ¬ (j.val + 1 < q + 1) := by omega
        simp [h, h']
  · have e : (q - i.val = 0 ∧ q - j.val = 0) ↔ (i.val = q ∧ j.val = q) := by omega
    by_cases h : i.val = q ∧ j.val = q
    · simp [h]
    · have h' : ¬ (q - i.val = 0 ∧ q - j.val = 0) := fun x => h (e.mp x)
      simp [h, h']

/-- **C09 (c).** The matrices returned by the model after removal of the preconditioner are the values at the
step `h` of polynomial matrices `Φ(X), Q(X)` with `Φ(0) = 1`, `Q(0) = 0`, `Φ' = F Φ`, `Q' = F Q + Q Fᵀ + e_q e_qᵀ`:
the moment equations that define the exact discretisation of `dx = F x dt + σ e_q dW` (with `s2 = σ²` factored out). -/
theorem iwp_is_sde_solution (q : ℕ) (h s2 : K) (hh : h ≠ 0) :
    (Iwp.transition1 q h s2).den.A.toM = (PhiP q).map (Polynomial.eval h) ∧
    (Iwp.transition1 q h s2).den.Q.toM = s2 • (QP q).map (Polynomial.eval h) ∧
    (PhiP (K := K) q).map (Polynomial.eval 0) = 1 ∧ (QP (K := K) q).map (Polynomial.eval 0) = 0 ∧
    (PhiP (K := K) q).map Polynomial.derivative = (Fshift q).map C * PhiP q ∧
    (QP (K := K) q).map Polynomial.derivative
      = (Fshift q).map C * QP q + QP q * ((Fshift q).map C)ᵀ + (Ldiff q).map C := by
  obtain ⟨a, _, b⟩ := iwp_den q h s2 hh
  exact ⟨by rw [a, PhiP_eval], by rw [b, QP_eval], by rw [PhiP_eval, PhiM_zero], by rw [QP_eval, QM_zero],
    PhiP_deriv q, QP_deriv q⟩

/-! ## (d) `hilbert_cholesky_table`: Kahan's recurrence produces a Cholesky factor of the Hilbert matrix -/

/-- **C09 (d).** For every size `n ≤ 11` (orders `q = 0…10`, the property's range) the model of
`cholesky_hilbert(n)` — rational part `M` by Kahan's recurrences, squared column scales `2i+1` — satisfies
`L Lᵀ = M diag(2i+1) Mᵀ = Hilbert(n)` exactly.  (The general-`n` identity is a hypergeometric sum and is not attempted.) -/
theorem hilbert_cholesky_table :
    ∀ n < 12, (Iwp.hilbCholGram n : Mat n n Rat).beq (Iwp.hilbert n) = true := by decide +kernel

/-- the squared entries have the closed form `L_ij² = (2j+1)(i!)⁴/((i-j)!(i+j+1)!)²` (same range) -/
theorem hilbert_cholesky_sq_closed :
    ∀ n < 12, (Iwp.hilbCholSq n : Mat n n Rat).beq (Iwp.hilbCholSqClosed n) = true := by decide +kernel

/-- `flip(Hilbert(q+1))` on both axes is the Gram matrix `H1 q` used by the transition: the code's `Q_1d` is a
re-triangularised row-flip of `cholesky_hilbert(q+1)`, which leaves `Q_1d Q_1dᵀ = flip(L Lᵀ)`. -/
theorem H1_is_flipped_hilbert (q : ℕ) (i j : Fin (q+1)) :
    (Iwp.H1 q : Mat (q+1) (q+1) K).get i j = (Iwp.hilbert (q+1) : Mat (q+1) (q+1) K).get i.rev j.rev := by
  have hi := i.isLt; have hj := j.isLt
  have e : 2 * q + 1 - i.val - j.val = (q + 1 - (i.val + 1)) + (q + 1 - (j.val + 1)) + 1 := by omega
  simp only [Iwp.H1, Iwp.hilbert, get_ofFn, Fin.val_rev, e]

/-- general `n`: Kahan's column recurrence is `C(2j+1, k)` … -/
theorem kahanU_eq (j k : ℕ) (hk : k ≤ j) : (Iwp.kahanU j k : K) = ((2*j+1).choose k : K) := by
  induction k with
  | zero => simp [Iwp.kahanU]
  | succ k ih =>
    have hk' : k ≤ j := by omega
    simp only [Iwp.kahanU, ih hk']
    have e : j - 1 - k + 1 + j + 1 = 2*j+1 - k := by omega
    rw [e]
    have hne : ((k + 1 : ℕ) : K) ≠ 0 := Nat.cast_ne_zero.mpr (Nat.succ_ne_zero _)
    have := Nat.choose_succ_right_eq (2*j+1) k
    have hc : (((2*j+1).choose (k+1) : ℕ) : K) * ((k + 1 : ℕ) : K) = (((2*j+1).choose k : ℕ) : K) * ((2*j+1 - k : ℕ) : K) := by
      exact_mod_cast this
    field_simp
    rw [← hc, mul_comm]

/-- … and the row scale is `f_j = (2j+1)!/(j!)²`, so that `L[j,i] = sqrt(2i+1) (j!)²/((j-i)!(j+i+1)!)` for every `n` -/
theorem kahanF_eq (j : ℕ) : (Iwp.kahanF j : K) * ((j.factorial : K))^2 = ((2*j+1).factorial : K) := by
  induction j with
  | zero => simp [Iwp.kahanF]
  | succ j ih =>
    simp only [Iwp.kahanF]
    have hne : ((j + 1 : ℕ) : K) ≠ 0 := Nat.cast_ne_zero.mpr (Nat.succ_ne_zero _)
    have e1 : 2 * (j + 1) + 1 = (2 * j + 1) + 1 + 1 := by ring
    rw [e1, Nat.factorial_succ (2*j+1+1), Nat.factorial_succ (2*j+1), Nat.factorial_succ j]
    push_cast
    rw [← ih]
    field_simp
    ring

/-! ## non-vacuity -/

example : (2 : ℚ) ≠ 0 ∧ (3 : ℚ) ≠ 0 ∧ (2 : ℚ) + 3 ≠ 0 := by norm_num
/-- the driver's own evaluation: `q = 2`, `h = 2`, `s2 = 3`: `Φ_01 = 2`, `Φ_02 = 2`, `Q_00 = 3·2^5/(5·2·2)` -/
example : (Iwp.transition1 2 (2 : Rat) 3).den.A.get 0 1 = 2 ∧ (Iwp.transition1 2 (2 : Rat) 3).den.A.get 0 2 = 2 ∧
    (Iwp.transition1 2 (2 : Rat) 3).den.Q.get 0 0 = 24/5 := by decide +kernel
example : (((Iwp.transition1 1 (3 : Rat) 1).merge (Iwp.transition1 1 (2 : Rat) 1)).den.Q.get 0 0)
    = (Iwp.transition1 1 (5 : Rat) 1).den.Q.get 0 0 := by decide +kernel

end Pdq.C09
