import Pdq.Model.Gauss
import Pdq.Bridge
import Mathlib.LinearAlgebra.Matrix.NonsingularInverse
import Mathlib.LinearAlgebra.Matrix.Block
import Mathlib.Tactic.NoncommRing
import Mathlib.Tactic.FieldSimp

/-!
# C08 — Gaussian conditional algebra is exact in every factorisation (dense / Layer 0 part)

All statements are about the executable definitions of `Pdq.Model.Gauss`, seen through the
abstraction maps of `Pdq.Bridge`, for every size and every field.
-/
set_option linter.unusedSectionVars false
open Matrix

namespace Pdq.C08
variable {K : Type} [Field K] {k m n : Nat}

/-! ## the model's plain conditional *is* the dense textbook formula -/

theorem marg_mean (c : Cond m n K) (g : Gauss n K) :
    (c.marg g).mean.toV = c.A.toM *ᵥ g.mean.toV + c.b.toV := by simp [Cond.marg]

theorem marg_cov (c : Cond m n K) (g : Gauss n K) :
    (c.marg g).cov.toM = c.A.toM * g.cov.toM * c.A.toMᵀ + c.Q.toM := by simp [Cond.marg]

theorem applyPt_spec (c : Cond m n K) (x : Vec n K) :
    (c.applyPt x).mean.toV = c.A.toM *ᵥ x.toV + c.b.toV ∧ (c.applyPt x).cov.toM = c.Q.toM := by
  simp [Cond.applyPt]

/-- composing two kernels then marginalising = marginalising twice -/
theorem marg_merge (c2 : Cond k m K) (c1 : Cond m n K) (g : Gauss n K) :
    ((c2.merge c1).marg g).mean.toV = (c2.marg (c1.marg g)).mean.toV ∧
    ((c2.merge c1).marg g).cov.toM = (c2.marg (c1.marg g)).cov.toM := by
  constructor
  · simp [Cond.marg, Cond.merge, Matrix.mulVec_add, Matrix.mulVec_mulVec, add_assoc]
  · simp only [Cond.marg, Cond.merge, toM_add, toM_mul, toM_tr, Matrix.transpose_mul]
    simp only [Matrix.mul_add, Matrix.add_mul, Matrix.mul_assoc, add_assoc]

/-- applying the merged kernel to a point = marginalising the outer kernel over the inner one at the point -/
theorem applyPt_merge (c2 : Cond k m K) (c1 : Cond m n K) (x : Vec n K) :
    ((c2.merge c1).applyPt x).mean.toV = (c2.marg (c1.applyPt x)).mean.toV ∧
    ((c2.merge c1).applyPt x).cov.toM = (c2.marg (c1.applyPt x)).cov.toM := by
  constructor
  · simp [Cond.marg, Cond.merge, Cond.applyPt, Matrix.mulVec_add, Matrix.mulVec_mulVec, add_assoc]
  · simp [Cond.marg, Cond.merge, Cond.applyPt]

/-! ## removal of the scalings (`preconditioner_apply`) commutes with every operation -/

theorem marg_den (c : PCond m n K) (g : Gauss n K) :
    (c.marg g).mean.toV = (c.den.marg g).mean.toV ∧ (c.marg g).cov.toM = (c.den.marg g).cov.toM := by
  constructor
  · simp [PCond.marg, PCond.den, Cond.marg, Matrix.mulVec_add, Matrix.mulVec_mulVec, Matrix.mul_assoc]
  · simp only [PCond.marg, PCond.den, Cond.marg, toM_congrScale, toM_add, toM_mul, toM_tr, toM_rowScale,
      toM_colScale, Matrix.transpose_mul, Matrix.diagonal_transpose]
    simp only [Matrix.mul_add, Matrix.add_mul, Matrix.mul_assoc]

theorem applyPt_den (c : PCond m n K) (x : Vec n K) :
    (c.applyPt x).mean.toV = (c.den.applyPt x).mean.toV ∧ (c.applyPt x).cov.toM = (c.den.applyPt x).cov.toM := by
  constructor
  · simp [PCond.applyPt, PCond.den, Cond.applyPt, Matrix.mulVec_add, Matrix.mulVec_mulVec, Matrix.mul_assoc]
  · simp [PCond.applyPt, PCond.den, Cond.applyPt]

theorem merge_den (c2 : PCond k m K) (c1 : PCond m n K) :
    (c2.merge c1).den.A.toM = (c2.den.merge c1.den).A.toM ∧
    (c2.merge c1).den.b.toV = (c2.den.merge c1.den).b.toV ∧
    (c2.merge c1).den.Q.toM = (c2.den.merge c1.den).Q.toM := by
  refine ⟨?_, ?_, ?_⟩
  · simp [PCond.merge, PCond.den, Cond.merge, Matrix.mul_assoc]
  · simp [PCond.merge, PCond.den, Cond.merge, Matrix.mulVec_add, Matrix.mulVec_mulVec, Matrix.mul_assoc]
  · simp [PCond.merge, PCond.den, Cond.merge, Matrix.mul_add, Matrix.add_mul, Matrix.mul_assoc, mul_comm]

/-- marginalising through the merged preconditioned kernel = marginalising twice -/
theorem pmarg_pmerge (c2 : PCond k m K) (c1 : PCond m n K) (g : Gauss n K) :
    ((c2.merge c1).marg g).mean.toV = (c2.marg (c1.marg g)).mean.toV ∧
    ((c2.merge c1).marg g).cov.toM = (c2.marg (c1.marg g)).cov.toM := by
  constructor
  · simp [PCond.merge, PCond.marg, Matrix.mulVec_add, Matrix.mulVec_mulVec, Matrix.mul_assoc, add_assoc]
  · simp [PCond.merge, PCond.marg, Matrix.mul_add, Matrix.add_mul, Matrix.mul_assoc, add_assoc, mul_comm]

/-! ## reversal reproduces the joint law — for every certified gain, hence also for singular covariances -/

theorem gainOk_iff [DecidableEq K] (c : Cond m n K) (g : Gauss n K) (G : Mat n m K) :
    c.gainOk g G = true ↔ G.toM * (c.marg g).cov.toM = (c.cross g).toM := by
  unfold Cond.gainOk; rw [beq_iff_toM]; simp

/-- `p(x) p(y|x) = p(y) p(x|y)`: the backward parametrisation produced by `revertWith` has the same
joint mean and joint covariance, for **every** `G` with `G S = P Aᵀ`; no invertibility is used. -/
theorem revert_joint (c : Cond m n K) (g : Gauss n K) (G : Mat n m K)
    (hP : g.cov.toMᵀ = g.cov.toM) (hQ : c.Q.toMᵀ = c.Q.toM)
    (hG : G.toM * (c.marg g).cov.toM = (c.cross g).toM) :
    let r := c.revertWith g G
    let j := Cond.jointRev r.2 r.1
    let j0 := c.joint g
    j.mx.toV = j0.mx.toV ∧ j.my.toV = j0.my.toV ∧ j.cxx.toM = j0.cxx.toM ∧
      j.cxy.toM = j0.cxy.toM ∧ j.cyy.toM = j0.cyy.toM := by
  intro r j j0
  have hS : (c.marg g).cov.toMᵀ = (c.marg g).cov.toM := by
    simp [Cond.marg, Matrix.transpose_mul, hP, hQ, Matrix.mul_assoc]
  refine ⟨?_, rfl, ?_, ?_, rfl⟩
  · simp [j, j0, r, Cond.jointRev, Cond.joint, Cond.revertWith, Cond.marg]
  · simp [j, j0, r, Cond.jointRev, Cond.joint, Cond.revertWith, Cond.marg]
  · have : j.cxy.toM = (G.toM * (c.marg g).cov.toMᵀ) := by
      simp [j, r, Cond.jointRev, Cond.revertWith, Cond.cross, Matrix.transpose_mul]
    rw [this, hS, hG]; rfl

/-- the observed marginal returned by `revert` is the marginal -/
theorem revert_obs (c : PCond m n K) (g : Gauss n K) (G : Mat n m K) :
    (c.revertWith g G).1.mean.toV = (c.marg g).mean.toV ∧ (c.revertWith g G).1.cov.toM = (c.marg g).cov.toM := by
  constructor <;> simp [PCond.revertWith, PCond.marg, PCond.inner, PCond.core, Cond.revertWith, Cond.marg]

/-- the gain for the problem without scalings that corresponds to an inner gain `G` -/
def denGain (c : PCond m n K) (G : Mat n m K) : Mat n m K := (Mat.rowScale c.tl.inv G).colScale c.tob.inv

/-- cancellation of reciprocal diagonal scalings, in right-nested form (for `simp`) -/
theorem dinv_cancel {p q : Nat} (u : Fin p → K) (hu : ∀ i, u i ≠ 0) (X : Matrix (Fin p) (Fin q) K) :
    Matrix.diagonal (fun i => (u i)⁻¹) * (Matrix.diagonal u * X) = X := by
  rw [← Matrix.mul_assoc, Matrix.diagonal_mul_diagonal]; simp [hu]
theorem dinv_cancel' {p q : Nat} (u : Fin p → K) (hu : ∀ i, u i ≠ 0) (X : Matrix (Fin p) (Fin q) K) :
    Matrix.diagonal u * (Matrix.diagonal (fun i => (u i)⁻¹) * X) = X := by
  rw [← Matrix.mul_assoc, Matrix.diagonal_mul_diagonal]; simp [hu]
theorem dinv_cancel_end {p : Nat} (u : Fin p → K) (hu : ∀ i, u i ≠ 0) :
    Matrix.diagonal u * Matrix.diagonal (fun i => (u i)⁻¹) = 1 := by
  rw [Matrix.diagonal_mul_diagonal]; simp [hu]
theorem dinv_cancel_end' {p : Nat} (u : Fin p → K) (hu : ∀ i, u i ≠ 0) :
    Matrix.diagonal (fun i => (u i)⁻¹) * Matrix.diagonal u = 1 := by
  rw [Matrix.diagonal_mul_diagonal]; simp [hu]
theorem dinv_cancel_vec {p : Nat} (u : Fin p → K) (hu : ∀ i, u i ≠ 0) (x : Fin p → K) :
    Matrix.diagonal (fun i => (u i)⁻¹) *ᵥ (Matrix.diagonal u *ᵥ x) = x := by
  rw [Matrix.mulVec_mulVec, Matrix.diagonal_mul_diagonal]; simp [hu]

/-- a certified gain of the inner (preconditioned) problem yields a certified gain of the
problem with the scalings removed, provided the scalings are units -/
theorem gain_den (c : PCond m n K) (g : Gauss n K) (G : Mat n m K)
    (hl : ∀ i, c.tl.toV i ≠ 0) (ho : ∀ i, c.tob.toV i ≠ 0)
    (hG : G.toM * (c.core.marg (c.inner g)).cov.toM = (c.core.cross (c.inner g)).toM) :
    (denGain c G).toM * (c.den.marg g).cov.toM = (c.den.cross g).toM := by
  simp only [PCond.core, PCond.inner, Cond.marg, Cond.cross, toM_add, toM_mul, toM_tr, toM_congrScale] at hG
  simp only [denGain, PCond.den, Cond.marg, Cond.cross, toM_add, toM_mul, toM_tr, toM_congrScale, toM_rowScale,
    toM_colScale, toV_inv, Matrix.transpose_mul, Matrix.diagonal_transpose]
  have key : G.toM * (c.A.toM * (Matrix.diagonal c.tl.toV * (g.cov.toM * (Matrix.diagonal c.tl.toV * (c.A.toMᵀ * Matrix.diagonal c.tob.toV)))))
      + G.toM * (c.Q.toM * Matrix.diagonal c.tob.toV)
      = Matrix.diagonal c.tl.toV * (g.cov.toM * (Matrix.diagonal c.tl.toV * (c.A.toMᵀ * Matrix.diagonal c.tob.toV))) := by
    have := congrArg (· * Matrix.diagonal c.tob.toV) hG
    simpa only [Matrix.mul_add, Matrix.add_mul, Matrix.mul_assoc] using this
  simp only [Matrix.mul_add, Matrix.mul_assoc, dinv_cancel _ ho]
  rw [← Matrix.mul_add, key, dinv_cancel _ hl]

/-- removal of the scalings commutes with reversal: the backward conditional returned by the
preconditioned `revert` (reciprocal scalings, as in the code), with scalings removed, is the backward
conditional of the de-preconditioned problem for the corresponding gain. -/
theorem revert_den (c : PCond m n K) (g : Gauss n K) (G : Mat n m K)
    (hl : ∀ i, c.tl.toV i ≠ 0) (ho : ∀ i, c.tob.toV i ≠ 0) :
    let bw := (c.revertWith g G).2.den
    let bw0 := (c.den.revertWith g (denGain c G)).2
    bw.A.toM = bw0.A.toM ∧ bw.b.toV = bw0.b.toV ∧ bw.Q.toM = bw0.Q.toM := by
  intro bw bw0
  refine ⟨?_, ?_, ?_⟩
  · simp [bw, bw0, denGain, PCond.revertWith, PCond.den, Cond.revertWith]
  · simp only [bw, bw0, denGain, PCond.revertWith, PCond.den, PCond.inner, PCond.core, Cond.revertWith, Cond.marg,
      toV_hmul, toV_sub, toV_add, toV_mulVec, toV_inv, toM_rowScale, toM_colScale]
    simp only [Matrix.mulVec_sub, Matrix.mulVec_add, Matrix.mulVec_mulVec, Matrix.mul_assoc,
      dinv_cancel _ ho, dinv_cancel_end' _ ho, dinv_cancel_end' _ hl, Matrix.mul_one, Matrix.one_mulVec]
  · simp only [bw, bw0, denGain, PCond.revertWith, PCond.den, PCond.inner, PCond.core, Cond.revertWith, Cond.marg,
      toM_congrScale, toM_sub, toM_add, toM_mul, toM_tr, toV_inv, toM_rowScale, toM_colScale, Matrix.transpose_mul,
      Matrix.diagonal_transpose]
    simp only [Matrix.mul_add, Matrix.add_mul, Matrix.mul_sub, Matrix.sub_mul, Matrix.mul_assoc,
      dinv_cancel _ ho, dinv_cancel' _ ho, dinv_cancel _ hl, dinv_cancel_end _ hl, Matrix.mul_one]

theorem Cond.ext'' {c d : Cond m n K} (hA : c.A.toM = d.A.toM) (hb : c.b.toV = d.b.toV) (hQ : c.Q.toM = d.Q.toM) :
    c = d := by
  cases c; cases d; simp only at hA hb hQ; rw [Mat.ext' hA, Vec.ext' hb, Mat.ext' hQ]
theorem Gauss.ext'' {g h : Gauss n K} (hm : g.mean.toV = h.mean.toV) (hc : g.cov.toM = h.cov.toM) : g = h := by
  cases g; cases h; simp only at hm hc; rw [Vec.ext' hm, Mat.ext' hc]

/-- **C08, reversal with scalings.** For every conditional with unit (non-zero) diagonal scalings, every
Gaussian with symmetric covariance and every certified inner gain, the pair returned by the model of
`revert` — read after removing the scalings — has exactly the joint law of `(x, y)` given by the dense
formulas.  No covariance is assumed invertible. -/
theorem revert_joint_precond (c : PCond m n K) (g : Gauss n K) (G : Mat n m K)
    (hl : ∀ i, c.tl.toV i ≠ 0) (ho : ∀ i, c.tob.toV i ≠ 0)
    (hP : g.cov.toMᵀ = g.cov.toM) (hQ : c.Q.toMᵀ = c.Q.toM)
    (hG : G.toM * (c.core.marg (c.inner g)).cov.toM = (c.core.cross (c.inner g)).toM) :
    let r := c.revertWith g G
    let j := Cond.jointRev r.2.den r.1
    let j0 := c.den.joint g
    j.mx.toV = j0.mx.toV ∧ j.my.toV = j0.my.toV ∧ j.cxx.toM = j0.cxx.toM ∧
      j.cxy.toM = j0.cxy.toM ∧ j.cyy.toM = j0.cyy.toM := by
  intro r j j0
  have hbw : r.2.den = (c.den.revertWith g (denGain c G)).2 := by
    obtain ⟨h1, h2, h3⟩ := revert_den c g G hl ho
    exact Cond.ext'' h1 h2 h3
  have hobs : r.1 = (c.den.revertWith g (denGain c G)).1 := by
    obtain ⟨h1, h2⟩ := revert_obs c g G
    obtain ⟨h3, h4⟩ := marg_den c g
    exact Gauss.ext'' (h1.trans h3) (h2.trans h4)
  have hQ' : c.den.Q.toMᵀ = c.den.Q.toM := by
    simp [PCond.den, Matrix.transpose_mul, hQ, Matrix.mul_assoc]
  have := revert_joint c.den g (denGain c G) hP hQ' (gain_den c g G hl ho hG)
  simp only [j, j0, hbw, hobs]
  exact this

/-! ## Gaussian functionals agree with the multivariate-normal definitions -/

/-- with a certified inverse `S W = 1`, the model's Mahalanobis form is `(u-m)ᵀ S⁻¹ (u-m)` -/
theorem maha_spec (g : Gauss n K) (W : Mat n n K) (u : Vec n K) (hW : g.cov.toM * W.toM = 1) :
    g.maha W u = (u.toV - g.mean.toV) ⬝ᵥ (g.cov.toM⁻¹ *ᵥ (u.toV - g.mean.toV)) := by
  have : g.cov.toM⁻¹ = W.toM := Matrix.inv_eq_right_inv hW
  simp [Gauss.maha, Mat.bilin, dot_eq, this]

theorem invOk_iff [DecidableEq K] (S W : Mat n n K) : S.invOk W = true ↔ S.toM * W.toM = 1 := by
  unfold Mat.invOk; rw [beq_iff_toM]; simp

theorem diagProd_eq (U : Mat n n K) : U.diagProd = ∏ i, U.toM i i := by
  unfold Mat.diagProd
  rw [Fin.prod_univ_def, List.prod_eq_foldl]
  rfl

theorem isUpper_iff [DecidableEq K] (U : Mat n n K) : U.isUpper = true ↔ U.toM.BlockTriangular id := by
  simp only [Mat.isUpper, List.all_eq_true, List.mem_finRange, forall_const, Matrix.BlockTriangular, id]
  constructor
  · intro h i j hij
    have := h i j
    simp only [Fin.lt_def] at hij
    simpa [hij, toM_apply] using this
  · intro h i j
    split
    · next hij => simpa [toM_apply] using h (Fin.lt_def.mpr hij)
    · rfl

theorem isLowerUnit_iff [DecidableEq K] (L : Mat n n K) :
    L.isLowerUnit = true ↔ (L.toM.BlockTriangular OrderDual.toDual ∧ ∀ i, L.toM i i = 1) := by
  simp only [Mat.isLowerUnit, List.all_eq_true, List.mem_finRange, forall_const, Matrix.BlockTriangular]
  constructor
  · intro h
    constructor
    · intro i j hij
      have hij' : i.val < j.val := by simpa using hij
      have := h i j
      simpa [hij', toM_apply] using this
    · intro i
      have := h i i
      simpa [toM_apply] using this
  · intro ⟨h1, h2⟩ i j
    split
    · next hij =>
      have : L.toM i j = 0 := h1 (by simpa using hij)
      simpa [toM_apply] using this
    · split
      · next _ hij => subst hij; simpa [toM_apply] using h2 i
      · rfl

/-- determinant certificate: if `luOk S L U` then `det S = Π U_ii` -/
theorem det_of_luOk [DecidableEq K] (S L U : Mat n n K) (h : S.luOk L U = true) :
    S.toM.det = U.diagProd := by
  simp only [Mat.luOk, Bool.and_eq_true] at h
  obtain ⟨⟨hL, hU⟩, hS⟩ := h
  rw [beq_iff_toM] at hS
  rw [isUpper_iff] at hU
  rw [isLowerUnit_iff] at hL
  rw [← hS, toM_mul, Matrix.det_mul, Matrix.det_of_isUpperTriangular hU, Matrix.det_of_isLowerTriangular _ hL.1]
  simp [hL.2, diagProd_eq]

/-- squared standard deviations are the diagonal of the covariance; rescaling by `c` multiplies the covariance by `c²` -/
theorem var_spec (g : Gauss n K) : g.var.toV = Matrix.diag g.cov.toM := by simp [Gauss.var]
theorem rescale_spec (g : Gauss n K) (c : K) :
    (g.rescale c).mean.toV = g.mean.toV ∧ (g.rescale c).cov.toM = (c ^ 2) • g.cov.toM := by
  simp [Gauss.rescale, pow_two]

/-! ## non-vacuity: concrete rational instances, including a singular (rank-deficient) one -/

section examples
open Pdq

/-- a 1×2 conditional with non-unit scalings, observed from a *singular* prior covariance `[[1,1],[1,1]]`
and zero noise: the innovation covariance is regular here, the posterior covariance is singular. -/
def exC : PCond 1 2 Rat := { A := ⟨fun _ j => if j.val = 0 then 1 else 2⟩, b := ⟨fun _ => 1/2⟩, Q := ⟨fun _ _ => 0⟩,
                             tl := ⟨fun j => if j.val = 0 then 2 else 1/3⟩, tob := ⟨fun _ => 5⟩ }
def exG : Gauss 2 Rat := { mean := ⟨fun j => if j.val = 0 then 1 else -1⟩, cov := ⟨fun _ _ => 1⟩ }
/-- inner innovation `S = (2 + 2/3)² = 64/9`, `P'Aᵀ = (2·8/3, (1/3)·8/3)`, gain `= (3/4, 1/8)` -/
def exGain : Mat 2 1 Rat := ⟨fun i _ => if i.val = 0 then 3/4 else 1/8⟩

example : exC.core.gainOk (exC.inner exG) exGain = true := by decide +kernel

/-- a fully singular case: zero prior covariance and zero noise, `S = 0`; *every* `G` is a certified gain -/
def exG0 : Gauss 2 Rat := { mean := ⟨fun _ => 1⟩, cov := ⟨fun _ _ => 0⟩ }
example : exC.core.gainOk (exC.inner exG0) exGain = true := by decide +kernel
example : exC.core.gainOk (exC.inner exG0) Mat.zero = true := by decide +kernel

end examples

end Pdq.C08
