import Pdq.Props.C08
import Mathlib.LinearAlgebra.Matrix.Kronecker
import Mathlib.Data.Matrix.Block
/-!
# C08 — the isotropic and block-diagonal models agree with their dense embeddings

An isotropic Gaussian `(M : n×d, C : n×n)` denotes `N(vec M, C ⊗ I_d)`; a block-diagonal one
`(m_a, C_a)_{a<d}` denotes `N((m_a)_a, blockdiag_a C_a)` — both on the index set `coefficient × dimension`,
which is the coefficient-major order of `to_multivariate_normal`.  The correspondence harness reads such
objects as `d` *dense slices* (one per dimension, sharing `C` resp. with own `C_a`) and runs the dense model of
`Pdq.Model.Gauss` on every slice.  The theorems below justify that reading: the dense formulas applied to the
embedded objects are the embeddings of the slice-wise results — for marginalisation, composition and the
reversal certificate.
-/
set_option linter.unusedSectionVars false
open Matrix Kronecker

namespace Pdq.C08Embed
variable {K : Type} [Field K] {k m n d : Nat}

/-- embedding of `d` slice means into the product index `coefficient × dimension` -/
def vecOf {n d : Nat} (M : Fin d → Fin n → K) : Fin n × Fin d → K := fun p => M p.2 p.1

/-! ## block-diagonal model -/

/-- marginalisation: the dense formula on the block-diagonal embedding is the embedding of the slice results -/
theorem bd_marg_embed (c : Fin d → Cond m n K) (g : Fin d → Gauss n K) :
    blockDiagonal (fun a => ((c a).marg (g a)).cov.toM)
      = blockDiagonal (fun a => (c a).A.toM) * blockDiagonal (fun a => (g a).cov.toM)
          * (blockDiagonal (fun a => (c a).A.toM))ᵀ + blockDiagonal (fun a => (c a).Q.toM) ∧
    vecOf (fun a => ((c a).marg (g a)).mean.toV)
      = blockDiagonal (fun a => (c a).A.toM) *ᵥ vecOf (fun a => (g a).mean.toV) + vecOf (fun a => (c a).b.toV) := by
  constructor
  · rw [blockDiagonal_transpose, ← blockDiagonal_mul, ← blockDiagonal_mul, ← blockDiagonal_add]
    congr 1; funext a; exact C08.marg_cov (c a) (g a)
  · funext p
    obtain ⟨i, a⟩ := p
    have h := congrFun (C08.marg_mean (c a) (g a)) i
    simp only [vecOf, Pi.add_apply, mulVec, dotProduct, blockDiagonal_apply, Fintype.sum_prod_type] at h ⊢
    rw [h]
    congr 1
    apply Finset.sum_congr rfl; intro j _
    simp [Finset.sum_ite_eq]

/-- composition of conditionals, block-diagonally -/
theorem bd_merge_embed (c2 : Fin d → Cond k m K) (c1 : Fin d → Cond m n K) :
    blockDiagonal (fun a => ((c2 a).merge (c1 a)).A.toM)
      = blockDiagonal (fun a => (c2 a).A.toM) * blockDiagonal (fun a => (c1 a).A.toM) ∧
    blockDiagonal (fun a => ((c2 a).merge (c1 a)).Q.toM)
      = blockDiagonal (fun a => (c2 a).A.toM) * blockDiagonal (fun a => (c1 a).Q.toM)
          * (blockDiagonal (fun a => (c2 a).A.toM))ᵀ + blockDiagonal (fun a => (c2 a).Q.toM) := by
  constructor
  · rw [← blockDiagonal_mul]; congr 1; funext a; simp [Cond.merge]
  · rw [blockDiagonal_transpose, ← blockDiagonal_mul, ← blockDiagonal_mul, ← blockDiagonal_add]
    congr 1; funext a; simp [Cond.merge]

/-- reversal: slice-wise certified gains assemble to a certified gain of the embedded dense problem, and the
corrected covariance of the dense problem is the embedding of the slice-wise corrected covariances -/
theorem bd_revert_embed (c : Fin d → Cond m n K) (g : Fin d → Gauss n K) (G : Fin d → Mat n m K)
    (hG : ∀ a, (G a).toM * ((c a).marg (g a)).cov.toM = ((c a).cross (g a)).toM) :
    blockDiagonal (fun a => (G a).toM) * blockDiagonal (fun a => ((c a).marg (g a)).cov.toM)
      = blockDiagonal (fun a => (g a).cov.toM) * (blockDiagonal (fun a => (c a).A.toM))ᵀ ∧
    blockDiagonal (fun a => ((c a).revertWith (g a) (G a)).2.Q.toM)
      = blockDiagonal (fun a => (g a).cov.toM)
        - blockDiagonal (fun a => (G a).toM) * blockDiagonal (fun a => ((c a).marg (g a)).cov.toM)
            * (blockDiagonal (fun a => (G a).toM))ᵀ := by
  constructor
  · rw [blockDiagonal_transpose, ← blockDiagonal_mul, ← blockDiagonal_mul]
    congr 1; funext a
    have := hG a
    simpa [Cond.cross] using this
  · rw [blockDiagonal_transpose, ← blockDiagonal_mul, ← blockDiagonal_mul, ← blockDiagonal_sub]
    congr 1; funext a; simp [Cond.revertWith]

/-! ## isotropic model: a shared covariance is the special case `C_a = C`, i.e. `C ⊗ I_d` -/

theorem blockDiagonal_const (C : Matrix (Fin n) (Fin m) K) :
    blockDiagonal (fun _ : Fin d => C) = C ⊗ₖ (1 : Matrix (Fin d) (Fin d) K) := by
  ext ⟨i, a⟩ ⟨j, b⟩
  simp [blockDiagonal_apply, kroneckerMap_apply, one_apply]

/-- the isotropic model: all slices share `A, Q, C`; the dense embedding is Kronecker with the identity and the
dense marginal covariance is `(A C Aᵀ + Q) ⊗ I_d`, i.e. the embedding of the (shared) slice result
`C08.marg_cov`. -/
theorem iso_marg_embed (A : Matrix (Fin m) (Fin n) K) (C : Matrix (Fin n) (Fin n) K) (Q : Matrix (Fin m) (Fin m) K) :
    (A ⊗ₖ (1 : Matrix (Fin d) (Fin d) K)) * (C ⊗ₖ (1 : Matrix (Fin d) (Fin d) K))
        * (A ⊗ₖ (1 : Matrix (Fin d) (Fin d) K))ᵀ + Q ⊗ₖ (1 : Matrix (Fin d) (Fin d) K)
      = (A * C * Aᵀ + Q) ⊗ₖ (1 : Matrix (Fin d) (Fin d) K) := by
  have hT : (A ⊗ₖ (1 : Matrix (Fin d) (Fin d) K))ᵀ = Aᵀ ⊗ₖ (1 : Matrix (Fin d) (Fin d) K) := by
    rw [← kroneckerMap_transpose]; simp
  rw [hT, ← mul_kronecker_mul, ← mul_kronecker_mul, add_kronecker]; simp

theorem iso_marg_embed_model (c : Cond m n K) (g : Gauss n K) :
    (c.A.toM ⊗ₖ (1 : Matrix (Fin d) (Fin d) K)) * (g.cov.toM ⊗ₖ (1 : Matrix (Fin d) (Fin d) K))
        * (c.A.toM ⊗ₖ (1 : Matrix (Fin d) (Fin d) K))ᵀ + c.Q.toM ⊗ₖ (1 : Matrix (Fin d) (Fin d) K)
      = (c.marg g).cov.toM ⊗ₖ (1 : Matrix (Fin d) (Fin d) K) := by
  rw [C08.marg_cov, iso_marg_embed]

/-- isotropic reversal: the slice gain (shared by all dimensions) lifted with `⊗ I_d` is a certified gain of
the dense problem -/
theorem iso_revert_embed (A : Matrix (Fin m) (Fin n) K) (Q : Matrix (Fin m) (Fin m) K) (C : Matrix (Fin n) (Fin n) K)
    (G : Matrix (Fin n) (Fin m) K) (hG : G * (A * C * Aᵀ + Q) = C * Aᵀ) :
    (G ⊗ₖ (1 : Matrix (Fin d) (Fin d) K)) * ((A ⊗ₖ (1 : Matrix (Fin d) (Fin d) K)) * (C ⊗ₖ (1 : Matrix (Fin d) (Fin d) K))
        * (A ⊗ₖ (1 : Matrix (Fin d) (Fin d) K))ᵀ + Q ⊗ₖ (1 : Matrix (Fin d) (Fin d) K))
      = (C ⊗ₖ (1 : Matrix (Fin d) (Fin d) K)) * (A ⊗ₖ (1 : Matrix (Fin d) (Fin d) K))ᵀ := by
  have hT : (A ⊗ₖ (1 : Matrix (Fin d) (Fin d) K))ᵀ = Aᵀ ⊗ₖ (1 : Matrix (Fin d) (Fin d) K) := by
    rw [← kroneckerMap_transpose]; simp
  rw [iso_marg_embed, hT, ← mul_kronecker_mul, ← mul_kronecker_mul, hG]

/-- the two embeddings coincide for a shared covariance -/
theorem iso_is_bd_const (C : Matrix (Fin n) (Fin m) K) :
    blockDiagonal (fun _ : Fin d => C) = C ⊗ₖ (1 : Matrix (Fin d) (Fin d) K) := blockDiagonal_const C

end Pdq.C08Embed
